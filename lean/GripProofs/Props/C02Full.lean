/-
  Property C02, full-strength theorems (session 4).  Property theorems only; lemmas are in
  GripProofs/Lemmas/C02Full.lean (and C02Null.lean for part 3).

  1. `planning_preserves_full` / `planning_same_rows`: "planning never changes answers" WITHOUT the
     hypothesis on plans (`hdoc` of `planning_preserves`): that hypothesis is derived
     (`plan_statements`, `plan_documented`), and so are the existence of a plan
     (`optimizer_total`), the typing of the plan (`plan_types_as_traversal`) and the absence of
     `distinct()` with its default key (so the string fact `GidFacts` is not needed either).
  2. Truncations behind the rewritten prefix: `planning_reorders_prefix` (for ANY tail the planned
     execution is the tail run on a reordering of the rows of the order-free prefix),
     `planning_preserves_count` (same NUMBER of rows behind at most one `distinct` and
     length-determined statements), `planning_preserves_cuts` (behind limit/skip/range/distinct:
     a sub-multiset of the rows of the prefix, as C01 states for those steps) and
     `planning_truncations` (behind limit/skip/range: `TruncOk`-style size = C01's count arithmetic).
     `count_not_preserved_behind_a_cut`: the restriction on the tail is necessary.
  3. The `*Null` moves: `elision_sound_null` — load elision IS sound for programs containing
     `outNull/inNull/outENull/inENull` once these are given the meaning the Go processors give
     them (Grip.Model.C02Null: adjacency lookups with `emitNull`, built with the load flag of the
     step they start).  The observation "`V().outNull().has(x)` would read step 1's data through
     step 2's flag" is true only of the PLACEHOLDER meaning (identity) `Grip.evalStepT` gives these
     moves (`placeholder_null_not_sound`, an evaluated instance); it does not correspond to a
     behaviour of the Go code.
-/
import Grip.Model.Eval
import Grip.Model.C02
import Grip.Spec.C02
import Grip.Spec.C02Full
import GripProofs.Lemmas.C02Fold
import GripProofs.Lemmas.C02Sim
import GripProofs.Lemmas.C02Full
import GripProofs.Lemmas.C02Null
import Grip.Model.C02Null
import GripProofs.Props.C01
import GripProofs.Props.C02Main

namespace Grip.Props.C02
open Grip Grip.C02 Grip.C08 Grip.Spec.C02 Grip.Spec.C01 Grip.Props.C02.Lemmas

variable (numOf : String → Option Int) (g : AGraph)

/-! ## 1. the hypothesis on plans, derived -/

/-- **The optimizer never fails**: `IndexStartOptimize` returns a plan for every pipeline. -/
theorem optimizer_total (stmts : List Stmt) : ∃ plan, indexStartOptimize stmts = some plan :=
  opt_total stmts

/-- **Plans only add `V(ids)`, `lookupVertsIndex` and `has` statements**: every statement of
    every plan — through any number of and-flattening recursions — is a statement of the
    traversal or one of these three. -/
theorem plan_statements (stmts plan : List Stmt) (hopt : indexStartOptimize stmts = some plan) :
    ∀ s ∈ plan, s ∈ stmts ∨ (∃ ids, s = .V ids) ∨ (∃ ls, s = .lookupVertsIndex ls)
      ∨ (∃ e, s = .has e) :=
  plan_adds_only stmts plan hopt

/-- The hypothesis `hdoc` of `elision_sound`/`planning_preserves`, derived: the plan of a
    traversal made of documented statements (C01's program space) consists of documented
    statements and the index lookup. -/
theorem plan_documented (stmts plan : List Stmt) (hopt : indexStartOptimize stmts = some plan)
    (hdoc : ∀ s ∈ stmts, s.kind.documented = true ∨ s.kind = .lookupVertsIndex) :
    ∀ s ∈ plan, s.kind.documented = true ∨ s.kind = .lookupVertsIndex := by
  intro s hs
  rcases plan_adds_only stmts plan hopt s hs with h | h
  · exact hdoc s h
  · exact added_doc s h

/-- The plan types exactly as the traversal does: the same final state or the same error, for
    EVERY statement list (so the production compiler rejects exactly what the literal one rejects,
    with the same error). -/
theorem plan_types_as_traversal (stmts plan : List Stmt)
    (hopt : indexStartOptimize stmts = some plan) : typeFold {} plan = typeFold {} stmts :=
  opt_typeFold stmts plan hopt

/-- **Planning never changes answers, full statement.**  For every graph with unique ids, every
    backend `hon`, and every traversal made of documented, order-free statements: the production
    execution (`Validate`, `IndexStartOptimize`, typing of the plan, elided lookups, reload at
    output) returns a result, and it is the literal execution's — the same error, or the same
    multiset of rows.  No hypothesis on the plan, on the optimizer's success, or on `"_gid"`. -/
theorem planning_same_rows (hg : g.WellFormed) (hon : Nat → Bool) (stmts : List Stmt)
    (hall : stmts.all orderFree = true) (hdoc : ∀ s ∈ stmts, s.kind.documented = true) :
    ∃ r, runProd numOf hon g stmts = some r ∧ SameRows r (run numOf g stmts) := by
  obtain ⟨plan, hopt⟩ := opt_total stmts
  have hty := opt_typeFold stmts plan hopt
  cases hv : validate stmts with
  | error e =>
    refine ⟨.error e, by simp [runProd, hv], ?_⟩
    simp [run, typeCheck, hv, SameRows]
  | ok u =>
    cases hf : typeFold {} stmts with
    | error e =>
      refine ⟨.error e, by simp [runProd, hv, hopt, hty, hf], ?_⟩
      simp [run, typeCheck, hv, hf, SameRows]
    | ok st =>
      have htc : typeCheck stmts = .ok st := by simp [typeCheck, hv, hf]
      obtain ⟨h1, h2⟩ := indexStart_preserves numOf g hg stmts plan st hall hopt htc
      have hdocP := plan_documented stmts plan hopt (fun s hs => Or.inl (hdoc s hs))
      have hnd : ∀ s ∈ plan, s ≠ .distinct [] := by
        intro s hs heq
        subst heq
        rcases plan_adds_only stmts plan hopt _ hs with h | h
        · have := List.all_eq_true.1 hall _ h
          simp [orderFree] at this
        · rcases h with ⟨_, h⟩ | ⟨_, h⟩ | ⟨_, h⟩ <;> cases h
      have hel := elision_sound_no_default_distinct numOf g hg hon plan st h1 hdocP hnd
      by_cases hemp : stmts.isEmpty = true
      · have : stmts = [] := by simpa using hemp
        subst this
        have hp : plan = [] := by
          rw [opt_other [] (by simp)] at hopt
          simpa using hopt.symm
        subst hp
        refine ⟨.ok [], by simp [runProd, hv, hopt, h1], ?_⟩
        simp [run, htc, SameRows]
      · have hpne : plan ≠ [] :=
          opt_ne_nil (pipeW stmts) stmts plan (Nat.le_refl _) (by intro h; simp [h] at hemp) hopt
        have hpe : plan.isEmpty = false := by cases plan <;> simp_all
        refine ⟨.ok ((evalElided numOf g hon plan).map (convertE g st)),
          by simp [runProd, hv, hopt, h1, hpe], ?_⟩
        simp only [run, htc, hemp, SameRows]
        rw [hel]
        exact h2

/-- `planning_preserves` without `hdoc`, without the plan and without `GidFacts`: whenever the
    literal execution returns `rows`, the production execution returns a permutation of them. -/
theorem planning_preserves_full (hg : g.WellFormed) (hon : Nat → Bool) (stmts : List Stmt)
    (rows : List Row) (hall : stmts.all orderFree = true)
    (hdoc : ∀ s ∈ stmts, s.kind.documented = true) (hr : run numOf g stmts = .ok rows) :
    ∃ rows', runProd numOf hon g stmts = some (.ok rows') ∧ rows'.Perm rows := by
  obtain ⟨r, h1, h2⟩ := planning_same_rows numOf g hg hon stmts hall hdoc
  rw [hr] at h2
  cases r with
  | error e => simp [SameRows] at h2
  | ok rows' => exact ⟨rows', h1, h2⟩

/-- … and conversely a traversal the literal execution rejects is rejected by the production
    execution (with an error, not a panic and not rows). -/
theorem planning_rejects_same (hg : g.WellFormed) (hon : Nat → Bool) (stmts : List Stmt)
    (e : TypeErr) (hall : stmts.all orderFree = true)
    (hdoc : ∀ s ∈ stmts, s.kind.documented = true) (hr : run numOf g stmts = .error e) :
    ∃ e', runProd numOf hon g stmts = some (.error e') := by
  obtain ⟨r, h1, h2⟩ := planning_same_rows numOf g hg hon stmts hall hdoc
  rw [hr] at h2
  cases r with
  | error e' => exact ⟨e', h1⟩
  | ok rows' => simp [SameRows] at h2

/-- `count_under_planning` without the hypotheses on the plan. -/
theorem count_under_planning_full (hg : g.WellFormed) (hon : Nat → Bool) (stmts : List Stmt)
    (rows : List Row) (hne : stmts ≠ []) (hall : stmts.all orderFree = true)
    (hdoc : ∀ s ∈ stmts, s.kind.documented = true) (hr : run numOf g stmts = .ok rows) :
    runProd numOf hon g (stmts ++ [Stmt.count]) = some (.ok [Row.count rows.length]) := by
  have hc := run_count numOf g stmts rows hne hr
  have hall' : (stmts ++ [Stmt.count]).all orderFree = true := by
    simp only [List.all_append, hall, Bool.true_and]; rfl
  have hdoc' : ∀ s ∈ stmts ++ [Stmt.count], s.kind.documented = true := by
    intro s hs
    rcases List.mem_append.1 hs with h | h
    · exact hdoc s h
    · simp only [List.mem_singleton] at h; subst h; rfl
  obtain ⟨rows', h1, h2⟩ := planning_preserves_full numOf g hg hon _ _ hall' hdoc' hc
  rw [h1, List.perm_singleton.1 h2]

/-! ### tests (hypotheses satisfiable on non-trivial instances) -/

/-- test: a traversal with a nested `and`, an id filter and a label filter satisfies the
    hypotheses of `planning_same_rows`. -/
example :
    let stmts : List Stmt := [.V [], .has (.and [.cond "_label" .eq (.str "P"), .none]), .hasId ["a", "b", "a"],
      .out ["k"], .as_ "x", .count]
    stmts.all orderFree = true ∧ ∀ s ∈ stmts, s.kind.documented = true := by
  refine ⟨by decide, ?_⟩
  intro s hs
  simp only [List.mem_cons, List.not_mem_nil, or_false] at hs
  rcases hs with rfl | rfl | rfl | rfl | rfl | rfl <;> rfl

/-- test: `optimizer_total`/`plan_statements` on a traversal the optimizer rewrites (the plan is
    computed by the equations, not assumed). -/
example : indexStartOptimize [.V [], .has (.and [.none]), .hasId ["a", "b", "a"], .out ["k"]]
    = some [.V ["a", "b"], .has .none, .out ["k"]] := by
  rw [opt_and _ [] [.none] [.hasId ["a", "b", "a"], .out ["k"]] (by simp [splitAtAnd, classify])]
  simp only [List.nil_append, List.map_cons, List.map_nil, List.cons_append]
  rw [opt_noAnd _ (by simp [splitAtAnd, classify])]
  simp [rewriteTail, firstIdx, classify, Lead.isId, idVals, dedup]

/-! ## 2. order-sensitive statements behind the rewritten prefix -/

/-- **What planning does in front of ANY tail.**  Split a traversal as `pre ++ tail` with `pre`
    order-free and `tail` beginning at a statement at which the optimizer's scan stops (every
    statement that is not order-free is one, `stop_of_not_orderFree`).  Then the production
    execution returns exactly what the literal semantics of `tail` returns on some REORDERING `B`
    of the rows `A` the prefix returns — the rewrite changes the order in which the start of the
    traversal enumerates vertices and nothing else; `tail` is executed statement by statement,
    in order, on all of `B`.  (`hgid`: the string fact about `"_gid"` is needed only when
    `distinct()` with its default key occurs.) -/
theorem planning_reorders_prefix (hg : g.WellFormed) (hon : Nat → Bool) (pre tail : List Stmt)
    (rows : List Row) (hpre : pre.all orderFree = true)
    (hhead : ∀ s ∈ tail.head?, classify s = .stop)
    (hdoc : ∀ s ∈ pre ++ tail, s.kind.documented = true)
    (hgid : Stmt.distinct [] ∈ tail → GidFacts)
    (hne : pre ≠ [])
    (hr : run numOf g (pre ++ tail) = .ok rows) :
    ∃ (stm st : TState) (A B : List Traveler),
      typeFold {} pre = .ok stm ∧ typeFold stm tail = .ok st ∧
      A = evalFrom numOf g {} [Traveler.seed] pre ∧ B.Perm A ∧
      rows = (evalFrom numOf g stm A tail).map (convert st) ∧
      runProd numOf hon g (pre ++ tail) = some (.ok ((evalFrom numOf g stm B tail).map (convert st))) := by
  unfold run at hr
  cases htc : typeCheck (pre ++ tail) with
  | error e => simp [htc] at hr
  | ok st =>
    simp only [htc] at hr
    have hv : validate (pre ++ tail) = .ok () := by
      unfold typeCheck at htc
      cases hv : validate (pre ++ tail) with
      | error e => simp [hv] at htc
      | ok u => rfl
    have ht : typeFold {} (pre ++ tail) = .ok st := by
      simpa [typeCheck, hv] using htc
    have hnoidx : ∀ s ∈ tail, s.kind ≠ .lookupVertsIndex := by
      intro s hs h
      have := hdoc s (List.mem_append_right _ hs)
      rw [h] at this
      cases this
    obtain ⟨planPre, stm, B, hopt, hoptPre, hta, htb, htp, hperm, hplan, hlit⟩ :=
      planned_tail numOf g hg pre tail st hne hpre hhead hnoidx ht
    have hemp : (pre ++ tail).isEmpty = false := by cases pre <;> simp_all
    simp only [hemp, Bool.false_eq_true, if_false, Except.ok.injEq] at hr
    have hpne : planPre ++ tail ≠ [] :=
      opt_ne_nil (pipeW (pre ++ tail)) _ _ (Nat.le_refl _) (by simp [hne]) hopt
    have hpe : (planPre ++ tail).isEmpty = false := by
      cases h : planPre ++ tail with
      | nil => exact absurd h hpne
      | cons _ _ => rfl
    have hdocP := plan_documented (pre ++ tail) _ hopt (fun s hs => Or.inl (hdoc s hs))
    have hgidP : ∀ s ∈ planPre ++ tail, s = .distinct [] → GidFacts := by
      intro s hs heq
      subst heq
      rcases List.mem_append.1 hs with h | h
      · exfalso
        rcases plan_adds_only pre planPre hoptPre _ h with h' | h'
        · have := List.all_eq_true.1 hpre _ h'
          simp [orderFree] at this
        · rcases h' with ⟨_, h'⟩ | ⟨_, h'⟩ | ⟨_, h'⟩ <;> cases h'
      · exact hgid h
    have hel := elided_eq_literal_gen numOf g hg hon (planPre ++ tail) st htp hdocP hgidP
    refine ⟨stm, st, _, B, hta, htb, rfl, hperm, ?_, ?_⟩
    · rw [← hr, hlit]
    · simp only [runProd, hv, hopt, htp, hpe, Bool.false_eq_true, if_false]
      rw [hel, hplan]

/-- **Same number of rows behind the rewritten prefix.**  When the tail is at most one `distinct`
    followed by statements whose output size is determined by their input size (limit, skip,
    range, count, as, select, fields, render, path), the production execution returns as many
    rows as the literal one.  This extends `planning_preserves` from order-free traversals to an
    order-free prefix followed by order-sensitive statements, compared by count. -/
theorem planning_preserves_count (hg : g.WellFormed) (hon : Nat → Bool) (pre tail : List Stmt)
    (rows : List Row) (hpre : pre.all orderFree = true) (htail : countTail tail = true)
    (hdoc : ∀ s ∈ pre ++ tail, s.kind.documented = true)
    (hgid : Stmt.distinct [] ∈ tail → GidFacts)
    (hr : run numOf g (pre ++ tail) = .ok rows) :
    ∃ rows', runProd numOf hon g (pre ++ tail) = some (.ok rows') ∧ rows'.length = rows.length := by
  have hhead : ∀ s ∈ tail.head?, classify s = .stop := by
    intro s hs
    cases tail with
    | nil => simp at hs
    | cons x r =>
      simp only [List.head?_cons, Option.mem_def, Option.some.injEq] at hs
      subst hs
      by_cases hd : ∃ fs, x = .distinct fs
      · obtain ⟨fs, rfl⟩ := hd; rfl
      · have : (x :: r).all lenDet = true := by
          cases x <;> first | exact htail | exact absurd ⟨_, rfl⟩ hd
        simp only [List.all_cons, Bool.and_eq_true] at this
        exact stop_of_lenDet x this.1
  by_cases hne : pre = []
  · -- the traversal is `tail`: it is empty or `Validate` rejects it
    subst hne
    cases tail with
    | nil =>
      simp only [List.append_nil, run, typeCheck, validate, typeFold, List.isEmpty_nil, if_true,
        Except.ok.injEq] at hr
      subst hr
      refine ⟨[], ?_, rfl⟩
      simp only [List.append_nil, runProd, validate]
      rw [opt_other [] (by simp)]
      simp [typeFold]
    | cons x r =>
      exfalso
      cases x <;> simp [countTail, lenDet] at htail <;> simp [run, typeCheck, validate] at hr
  · obtain ⟨stm, st, A, B, _, _, _, hperm, hrows, hprod⟩ :=
      planning_reorders_prefix numOf g hg hon pre tail rows hpre hhead hdoc hgid hne hr
    refine ⟨_, hprod, ?_⟩
    rw [hrows, List.length_map, List.length_map]
    exact evalFrom_countTail numOf g tail stm B A htail hperm

/-- **Cuts behind the rewritten prefix return a sub-multiset of the prefix's rows** (what C01
    states for `limit/skip/range`, `TruncOk.sub`, and for `distinct`, `distinct_sub`): when the
    tail consists of limit/skip/range/distinct, the rows of the production execution and the rows
    of the literal execution are both sub-multisets of the rows `pre` returns. -/
theorem planning_preserves_cuts (hg : g.WellFormed) (hon : Nat → Bool) (pre tail : List Stmt)
    (rows : List Row) (hpre : pre.all orderFree = true) (htail : tail.all isCut = true)
    (hdoc : ∀ s ∈ pre ++ tail, s.kind.documented = true)
    (hgid : Stmt.distinct [] ∈ tail → GidFacts) (hne : pre ≠ [])
    (hr : run numOf g (pre ++ tail) = .ok rows) :
    ∃ rowsPre rows', run numOf g pre = .ok rowsPre ∧
      runProd numOf hon g (pre ++ tail) = some (.ok rows') ∧
      SubMultiset rows' rowsPre ∧ rows.Sublist rowsPre := by
  have hhead : ∀ s ∈ tail.head?, classify s = .stop := by
    intro s hs
    cases tail with
    | nil => simp at hs
    | cons x r =>
      simp only [List.head?_cons, Option.mem_def, Option.some.injEq] at hs
      subst hs
      simp only [List.all_cons, Bool.and_eq_true] at htail
      exact stop_of_cut x htail.1
  obtain ⟨stm, st, A, B, hta, htb, hA, hperm, hrows, hprod⟩ :=
    planning_reorders_prefix numOf g hg hon pre tail rows hpre hhead hdoc hgid hne hr
  have hst : st = stm := typeFold_cut tail stm st htail htb
  subst hst
  have hvpre : validate pre = .ok () := by
    have hv : validate (pre ++ tail) = .ok () := by
      unfold run typeCheck at hr
      cases hv : validate (pre ++ tail) with
      | error e => simp [hv] at hr
      | ok u => rfl
    rwa [validate_append pre tail hne] at hv
  have hemp : pre.isEmpty = false := by cases pre <;> simp_all
  refine ⟨A.map (convert st), _, ?_, hprod, ?_, ?_⟩
  · simp [run, typeCheck, hvpre, hta, hemp, hA]
  · exact ⟨B.map (convert st), hperm.map _, (evalFrom_cut_sublist numOf g tail st B htail).map _⟩
  · rw [hrows]
    exact (evalFrom_cut_sublist numOf g tail st A htail).map _

/-- **Truncations behind the rewritten prefix, in C01's terms** (`limit_ok`, `skip_ok`,
    `range_ok`: a sub-multiset of the given size).  When the tail consists of limit/skip/range,
    the production execution returns a sub-multiset of the rows of the prefix whose size is C01's
    count arithmetic (`limitCount`, `skipCount`, `rangeCount`, folded over the tail) applied to
    the number of rows of the prefix — and so does the literal execution: the same NUMBER of rows,
    whichever rows the store's enumeration order selects. -/
theorem planning_truncations (hg : g.WellFormed) (hon : Nat → Bool) (pre tail : List Stmt)
    (rows : List Row) (hpre : pre.all orderFree = true) (htail : tail.all isTruncStmt = true)
    (hdoc : ∀ s ∈ pre ++ tail, s.kind.documented = true) (hne : pre ≠ [])
    (hr : run numOf g (pre ++ tail) = .ok rows) :
    ∃ rowsPre rows', run numOf g pre = .ok rowsPre ∧
      runProd numOf hon g (pre ++ tail) = some (.ok rows') ∧
      SubMultiset rows' rowsPre ∧ rows.Sublist rowsPre ∧
      rows'.length = truncSize tail rowsPre.length ∧ rows.length = truncSize tail rowsPre.length := by
  have hcut : tail.all isCut = true := by
    rw [List.all_eq_true] at htail ⊢
    intro s hs
    have := htail s hs
    cases s <;> simp [isTruncStmt] at this <;> rfl
  have hnd : Stmt.distinct [] ∈ tail → GidFacts := by
    intro h
    have := List.all_eq_true.1 htail _ h
    simp [isTruncStmt] at this
  have hhead : ∀ s ∈ tail.head?, classify s = .stop := by
    intro s hs
    cases tail with
    | nil => simp at hs
    | cons x r =>
      simp only [List.head?_cons, Option.mem_def, Option.some.injEq] at hs
      subst hs
      simp only [List.all_cons, Bool.and_eq_true] at hcut
      exact stop_of_cut x hcut.1
  obtain ⟨stm, st, A, B, hta, htb, hA, hperm, hrows, hprod⟩ :=
    planning_reorders_prefix numOf g hg hon pre tail rows hpre hhead hdoc hnd hne hr
  obtain ⟨rowsPre, rows', h1, h2, h3, h4⟩ :=
    planning_preserves_cuts numOf g hg hon pre tail rows hpre hcut hdoc hnd hne hr
  have hrows' : rows' = (evalFrom numOf g stm B tail).map (convert st) := by
    rw [h2] at hprod
    simpa using hprod
  have hpreRows : rowsPre = A.map (convert stm) := by
    have hvpre : validate pre = .ok () := by
      have hv : validate (pre ++ tail) = .ok () := by
        unfold run typeCheck at hr
        cases hv : validate (pre ++ tail) with
        | error e => simp [hv] at hr
        | ok u => rfl
      rwa [validate_append pre tail hne] at hv
    have hemp : pre.isEmpty = false := by cases pre <;> simp_all
    simp only [run, typeCheck, hvpre, hta, hemp, Bool.false_eq_true, if_false, Except.ok.injEq,
      ← hA] at h1
    exact h1.symm
  refine ⟨rowsPre, rows', h1, h2, h3, h4, ?_, ?_⟩
  · rw [hrows', hpreRows, List.length_map, List.length_map,
      evalFrom_truncSize numOf g tail stm B htail, hperm.length_eq]
  · rw [hrows, hpreRows, List.length_map, List.length_map,
      evalFrom_truncSize numOf g tail stm A htail]

/-! ### the restriction on the tail is necessary; tests -/

/-- A graph on which the label index enumerates in another order than the scan. -/
def gCut : AGraph :=
  { verts := [{ gid := "a", label := "P" }, { gid := "b", label := "Q" }],
    edges := [{ gid := "e1", label := "k", frm := "a", to := "b" }] }

theorem gCut_wf : gCut.WellFormed := by simp [AGraph.WellFormed, gCut]

/-- `V().hasLabel("Q","P").limit(1).out().count()`. -/
def cutProg : List Stmt := [.V [], .hasLabel ["Q", "P"], .limit 1, .out [], .count]

def countsOf : Except TypeErr (List Row) → Option (List Nat)
  | .ok rows => some (rows.filterMap fun r => match r with | .count n => some n | _ => none)
  | .error _ => none

theorem cutProg_plan :
    indexStartOptimize cutProg = some [.lookupVertsIndex ["Q", "P"], .limit 1, .out [], .count] := by
  rw [cutProg, opt_noAnd _ (by simp [splitAtAnd, classify])]
  simp [rewriteTail, rewriteLabel, firstIdx, classify, Lead.isId, Lead.isLabel, labelVals, dedup]

/-- **"Any tail, compared by count" is false** — and has to be: behind a cut the count may depend
    on WHICH rows the cut kept.  On `gCut` the literal execution of
    `V().hasLabel("Q","P").limit(1).out().count()` keeps vertex `a` (scan order) and counts its one
    neighbour; the plan `lookupVertsIndex(["Q","P"]).limit(1).out().count()` keeps vertex `b`
    (label-index order: all of `Q`, then all of `P`) and counts none.  Both are correct answers
    under the documented meaning of `limit` ("the first n" of an order the documentation does not
    fix — C01 states "a sub-multiset of the given size"), so this is NOT a defect; it is the reason
    `planning_preserves_count` restricts the tail (`countTail`: the move `out` is not
    length-determined) and `planning_reorders_prefix` is the statement for arbitrary tails. -/
theorem count_not_preserved_behind_a_cut :
    countsOf (run (fun _ => none) gCut cutProg) = some [1] ∧
    (runProd (fun _ => none) (fun _ => true) gCut cutProg).map countsOf = some (some [0]) := by
  refine ⟨by decide, ?_⟩
  unfold runProd
  rw [cutProg_plan]
  decide

/-- test (`planning_reorders_prefix`, `planning_preserves_count`, `planning_truncations` are not
    vacuous): their hypotheses hold for `V().hasLabel("Q","P")` followed by `limit(1)` on `gCut`,
    a traversal whose plan differs from it and keeps another row; the theorem yields one row. -/
example : ∃ rows', runProd (fun _ => none) (fun _ => true) gCut
      ([.V [], .hasLabel ["Q", "P"]] ++ [.limit 1]) = some (.ok rows') ∧ rows'.length = 1 := by
  have hr : run (fun _ => none) gCut ([.V [], .hasLabel ["Q", "P"]] ++ [.limit 1]) = .ok _ := rfl
  have hdoc : ∀ s ∈ ([.V [], .hasLabel ["Q", "P"]] ++ [.limit 1] : List Stmt), s.kind.documented = true := by
    intro s hs
    simp only [List.cons_append, List.nil_append, List.mem_cons, List.not_mem_nil, or_false] at hs
    rcases hs with rfl | rfl | rfl <;> rfl
  obtain ⟨rowsPre, rows', h1, h2, _, _, h5, _⟩ :=
    planning_truncations (fun _ => none) gCut gCut_wf (fun _ => true) _ _ _ (by decide) (by decide)
      hdoc (by simp) hr
  refine ⟨rows', h2, ?_⟩
  have hp : run (fun _ => none) gCut [.V [], .hasLabel ["Q", "P"]] = .ok _ := rfl
  rw [hp] at h1
  simp only [Except.ok.injEq] at h1
  rw [h5, ← h1]
  decide

/-- test (`planning_same_rows` applied): a rewritten traversal on `gCut`. -/
example : ∃ r, runProd (fun _ => none) (fun _ => true) gCut [.V [], .hasLabel ["Q", "P"], .out []] = some r
    ∧ SameRows r (run (fun _ => none) gCut [.V [], .hasLabel ["Q", "P"], .out []]) := by
  refine planning_same_rows (fun _ => none) gCut gCut_wf (fun _ => true) _ (by decide) ?_
  intro s hs
  simp only [List.mem_cons, List.not_mem_nil, or_false] at hs
  rcases hs with rfl | rfl | rfl <;> rfl

/-- test (`planning_preserves_count` applied, with `distinct` and length-determined statements
    behind it; `planning_reorders_prefix` is applied inside). -/
example : ∃ rows rows', run (fun _ => none) gCut
      ([.V [], .hasLabel ["Q", "P"]] ++ [.distinct ["_label"], .skip 1, .count]) = .ok rows ∧
    runProd (fun _ => none) (fun _ => true) gCut
      ([.V [], .hasLabel ["Q", "P"]] ++ [.distinct ["_label"], .skip 1, .count]) = some (.ok rows') ∧
    rows'.length = rows.length := by
  have hr : run (fun _ => none) gCut
      ([.V [], .hasLabel ["Q", "P"]] ++ [.distinct ["_label"], .skip 1, .count]) = .ok _ := rfl
  have hdoc : ∀ s ∈ ([.V [], .hasLabel ["Q", "P"]] ++ [.distinct ["_label"], .skip 1, .count] : List Stmt),
      s.kind.documented = true := by
    intro s hs
    simp only [List.cons_append, List.nil_append, List.mem_cons, List.not_mem_nil, or_false] at hs
    rcases hs with rfl | rfl | rfl | rfl | rfl <;> rfl
  obtain ⟨rows', h1, h2⟩ := planning_preserves_count (fun _ => none) gCut gCut_wf (fun _ => true)
    _ _ _ (by decide) (by decide) hdoc (by simp) hr
  exact ⟨_, rows', hr, h1, h2⟩

/-- test (`planning_preserves_cuts` applied): `distinct` among the truncations. -/
example : ∃ rowsPre rows', run (fun _ => none) gCut [.V [], .hasLabel ["Q", "P"]] = .ok rowsPre ∧
    runProd (fun _ => none) (fun _ => true) gCut
      ([.V [], .hasLabel ["Q", "P"]] ++ [.limit 3, .distinct ["_label"], .range 0 (-1), .skip 1]) = some (.ok rows') ∧
    SubMultiset rows' rowsPre := by
  have hr : run (fun _ => none) gCut
      ([.V [], .hasLabel ["Q", "P"]] ++ [.limit 3, .distinct ["_label"], .range 0 (-1), .skip 1]) = .ok _ := rfl
  have hdoc : ∀ s ∈ ([.V [], .hasLabel ["Q", "P"]] ++ [.limit 3, .distinct ["_label"], .range 0 (-1), .skip 1] : List Stmt),
      s.kind.documented = true := by
    intro s hs
    simp only [List.cons_append, List.nil_append, List.mem_cons, List.not_mem_nil, or_false] at hs
    rcases hs with rfl | rfl | rfl | rfl | rfl | rfl <;> rfl
  obtain ⟨rowsPre, rows', h1, h2, h3, _⟩ := planning_preserves_cuts (fun _ => none) gCut gCut_wf
    (fun _ => true) _ _ _ (by decide) (by decide) hdoc (by simp) (by simp) hr
  exact ⟨rowsPre, rows', h1, h2, h3⟩

/-- The two readings of "sub-multiset" agree: a subsequence of a reordering of `b` is a reordering
    of a subsequence of `b` (so `SubMultiset` is the notion C01's `TruncOk.sub` gives up to order). -/
theorem subMultiset_iff {α : Type} (a b : List α) :
    SubMultiset a b ↔ ∃ l : List α, l.Perm a ∧ l.Sublist b := by
  constructor
  · rintro ⟨l, hp, hs⟩
    exact sublist_perm_swap hp hs
  · rintro ⟨l, hp, hs⟩
    exact sub_of_perm_sublist hp hs

/-! ## 3. load elision and the `*Null` moves -/

/-- **Load elision is sound for programs with `*Null` moves.**  With the four `*Null` moves
    given the meaning the Go processors give them (`Grip.C02.evalStepN`: from a vertex, the
    adjacency lookup of `out/in/outE/inE` plus a nil-element row for every request the backend
    found nothing for — for ANY such backend behaviour `m`; from an edge, `out/in`), every plan made
    of documented statements, the index lookup and `*Null` moves, executed with the load flags
    `PipelineStepOutputs`/`StepLoadData` compute on any backend `hon` and reloaded at output as
    `Convert` does, returns exactly the rows of the fully loaded execution (same order, same
    multiplicity).
    Why the analysis is right although its `switch` has no arm for these moves: `PipelineSteps`
    counts them as step starters, so the elements a `*Null` move produces carry the flag of the
    step the move ITSELF starts, and every later reader of that step (`has`, `fields`, `unwind`,
    field references, `select`) marks that step; a `*Null` move that ends the traversal is built
    with "do not load" (no arm ⇒ no entry for its step) and `Convert` reloads its elements; the
    missing `onLast = false` only makes an EARLIER lookup load more than it needs. -/
theorem elision_sound_null (m : NullMiss) (hg : g.WellFormed) (hon : Nat → Bool) (plan : List Stmt)
    (st : TState) (ht : typeFold {} plan = .ok st)
    (hdoc : ∀ s ∈ plan, s.kind.documented = true ∨ s.kind = .lookupVertsIndex ∨ isNullMove s = true)
    (hgid : Stmt.distinct [] ∈ plan → GidFacts) :
    (evalElidedN m numOf g hon plan).map (convertE g st)
      = (evalPlanN m numOf g plan).map (convert st) :=
  elided_eq_literal_null m numOf g hg hon plan st ht hdoc (fun _ hs h => hgid (h ▸ hs))

/-- The refinement is conservative: on plans without `*Null` moves it IS the model of
    Grip.Model.C02 (so `elision_sound_null` contains `elision_sound`). -/
theorem null_refinement_conservative (m : NullMiss) (hon : Nat → Bool) (plan : List Stmt)
    (h : ∀ s ∈ plan, isNullMove s = false) :
    evalPlanN m numOf g plan = evalPlan numOf g plan ∧
    evalElidedN m numOf g hon plan = evalElided numOf g hon plan := by
  constructor
  · exact evalFromX_congr _ _ plan _ _ _ (fun s hs _ ty xs => evalStepN_other m numOf g ty s (h s hs) xs)
  · refine evalFromX_congr _ _ plan _ _ _ (fun s hs j ty xs => ?_)
    simp [stepEN, h s hs]

/-- A graph with data, and `V().outNull().has(name = "y").count()`. -/
def gNull : AGraph :=
  { verts := [{ gid := "a", label := "P", data := .obj [("name", .str "x")] },
              { gid := "b", label := "Q", data := .obj [("name", .str "y")] }],
    edges := [{ gid := "e1", label := "k", frm := "a", to := "b" }] }

theorem gNull_wf : gNull.WellFormed := by simp [AGraph.WellFormed, gNull]

def nullProg : List Stmt := [.V [], .outNull [], .has (.cond "name" .eq (.str "y")), .count]

/-! `placeholder_null_not_sound` (an EVALUATED instance — `#guard`, compiled evaluation; the kernel
    cannot reduce the field-path parser `String.splitOn`, so this is not a `decide` theorem):
    with the placeholder meaning of `Grip.evalStepT` (a `*Null` move is the identity and is not a
    lookup), `elision_sound` is FALSE for `nullProg` on `gNull` with a backend that honours the
    hint: the analysis gives `V()` (step 1) "do not load" — correctly, nothing reads step 1 — and
    the identity `outNull` hands step 1's emptied elements to `has`, which belongs to step 2: the
    literal count is 1, the elided count 0.  This is a property of the placeholder, NOT of Go:
    under the refined meaning both executions count 1 (second guard; `elision_sound_null`), and
    in the Go code `outNull` builds `LookupVertexAdjOut{loadData: StepLoadData(), emitNull: true}`
    for step 2, which is marked "load" by `has`.  Nothing to replay against the server. -/
#guard (evalPlan (fun _ => none) gNull nullProg).map (·.count) == [1]
#guard (evalElided (fun _ => none) gNull (fun _ => true) nullProg).map (·.count) == [0]
#guard loadFlags nullProg == [false, true, true, true]
#guard (evalPlanN kvMiss (fun _ => none) gNull nullProg).map (·.count) == [1]
#guard (evalElidedN kvMiss (fun _ => none) gNull (fun _ => true) nullProg).map (·.count) == [1]
#guard (evalElidedN kvMiss (fun _ => none) gNull (fun _ => false) nullProg).map (·.count) == [1]

/-- test: the hypotheses of `elision_sound_null` hold for `nullProg` on `gNull`, and the theorem
    gives the agreement the guards above observe (for every backend and `emitNull` behaviour). -/
example (m : NullMiss) (hon : Nat → Bool) :
    (evalElidedN m (fun _ => none) gNull hon nullProg).map (convertE gNull { last := .count })
      = (evalPlanN m (fun _ => none) gNull nullProg).map (convert { last := .count }) := by
  refine elision_sound_null (fun _ => none) gNull m gNull_wf hon nullProg _ rfl ?_ ?_
  · intro s hs
    simp only [nullProg, List.mem_cons, List.not_mem_nil, or_false] at hs
    rcases hs with rfl | rfl | rfl | rfl
    · exact Or.inl rfl
    · exact Or.inr (Or.inr rfl)
    · exact Or.inl rfl
    · exact Or.inl rfl
  · intro h
    simp [nullProg] at h

/-- test: a traversal ENDING in a `*Null` move types, and the analysis builds that move with "do
    not load" (its elements are reloaded by `Convert`) while `V()` is loaded although nothing
    reads it (the missing `onLast = false`): wasteful, not wrong. -/
example : typeFold {} [.V [], .outNull ["k"]] = .ok { last := .vertex }
    ∧ loadFlags [.V [], .outNull ["k"]] = [true, false] := by
  refine ⟨rfl, by decide⟩

end Grip.Props.C02
