/-
  Props.C13 (slot discipline) — the round-robin pair of jobstorage.MarshalStream /
  UnmarshalStream is order-preserving BECAUSE every worker is one-in-one-out.

  The pool is `Grip.C13.Slot.rrPipeline w f xs` (Grip/Model/C13Slot.lean): the distributor loop,
  `w` workers that each send `f t` for every `t` they receive, the merger loop.  The real workers
  are `f t = [enc t]` (`b, _ := json.Marshal(t); out <- b`: one record per traveler, possibly the
  blank one).

    (1) rr_one_in_one_out        every `f t` has exactly one item  ⇒  output = xs.flatMap f
                                 (all w ≥ 1, all lengths; a blank record keeps its slot)
    (2) rr_skip_breaks_order     one skipped record (f x = []) reorders the records BEHIND it:
          rr_skip_output           the exact output: of every full block of w records after the
                                   skipped one, the LAST comes out FIRST (`Spec.rotBlocks`)
          rr_skip_order_iff        output = xs.flatMap f  ⇔  every such full block is constant
          rr_skip_breaks_order_general   w ≥ 2, pairwise different records, ≥ w records behind ⇒ ≠
          rr_skip_first_damage     at the gap's position comes record w-1 behind it, not record 0
          rr_skip_harmless_short   fewer than w records behind ⇒ no damage
          rr_skip_not_always       (equal records hide it: "always differs" is FALSE)
    (3) rr_multiplicity_always   for ANY f the output is a permutation of xs.flatMap f
    (4) rr_close                 the merger stops by itself after exactly
                                 (longest worker stream) + 1 passes, all streams drained, not before
          rr_close_one_in_one_out  = ⌈len / w⌉ + 1 passes for the real workers

  `w = 0` is excluded everywhere: the Go distributor panics on `toWorkers[0]`; the model returns
  `[]` (`rr_zero_workers`).
-/
import Grip.Model.C13Slot
import Grip.Spec.C13Slot
import GripProofs.Lemmas.C13Slot
import GripProofs.Props.C13

namespace Grip.Props.C13
open Grip.C13 Grip.C13.Slot Grip.C13.Spec

/-! ## the model in closed form -/

/-- The distributor loop (`n++; if n >= nworkers { n = 0 }`) hands item `i` to worker `i mod w`:
    worker `j` receives the items at positions `j, j+w, j+2w, …` (`Spec.deal`). -/
theorem rr_distribute_closed_form {α : Type} (w : Nat) (hw : 1 ≤ w) (xs : List α) :
    distribute w xs = deal w xs :=
  Lemmas.distribute_eq_deal w hw xs

theorem rr_distribute_worker {α : Type} (w : Nat) (hw : 1 ≤ w) (xs : List α) (j : Nat) (hj : j < w) :
    (distribute w xs)[j]? = some (everyNth w (xs.drop j)) := by
  rw [rr_distribute_closed_form w hw]
  simp [deal, hj]

/-- test: the loop on a length that is not a multiple of `w` -/
example : distribute 3 [0, 1, 2, 3, 4, 5, 6, 7] = [[0, 3, 6], [1, 4, 7], [2, 5]] := by decide

theorem rrPipeline_eq {α β : Type} (w : Nat) (hw : 1 ≤ w) (f : α → List β) (xs : List α) :
    rrPipeline w f xs = Lemmas.mergeAll (work f (deal w xs)) := by
  simp only [rrPipeline, rrMerge, rrWorkers, Lemmas.mergeAll, rr_distribute_closed_form w hw]

/-- The merger loop is `Spec.collect` (take the head of every non-empty stream, in worker order,
    until a round finds nothing), for any sufficient number of rounds. -/
theorem rrPipeline_eq_collect {α β : Type} (w : Nat) (hw : 1 ≤ w) (f : α → List β) (xs : List α)
    (fuel : Nat) (hf : maxLen (work f (deal w xs)) < fuel) :
    rrPipeline w f xs = collect fuel ((deal w xs).map (fun l => l.flatMap f)) := by
  rw [rrPipeline_eq w hw, Lemmas.mergeAll_eq_collect fuel _ hf]; rfl

/-! ## (1) one-in-one-out workers: order and multiplicity preserved -/

/-- (1), in the form that only constrains the items actually in the input. -/
theorem rr_one_in_one_out_on {α β : Type} (w : Nat) (hw : 1 ≤ w) (f : α → List β) :
    ∀ (xs : List α), (∀ x ∈ xs, (f x).length = 1) → rrPipeline w f xs = xs.flatMap f := by
  obtain ⟨m, rfl⟩ : ∃ m, w = m + 1 := ⟨w - 1, by omega⟩
  intro xs
  rw [rrPipeline_eq (m + 1) hw]
  induction xs with
  | nil =>
    intro _
    rw [Lemmas.deal_nil, Lemmas.work_replicate_nil]
    exact Lemmas.mergeAll_drained _ (Lemmas.maxLen_replicate_nil _)
  | cons x xs ih =>
    intro h
    obtain ⟨z, hz⟩ := List.length_eq_one_iff.mp (h x (by simp))
    rw [Lemmas.mergeAll_work_cons_one m f x z hz, ih (fun y hy => h y (by simp [hy])),
      List.flatMap_cons, hz]
    rfl

/-- (1) ONE-IN-ONE-OUT.  If every worker sends exactly one item per item received, the pool
    outputs exactly the image of the input, in input order, once each — for every number of
    workers `w ≥ 1` and every input (any length, divisible by `w` or not, empty or not). -/
theorem rr_one_in_one_out {α β : Type} (w : Nat) (hw : 1 ≤ w) (f : α → List β)
    (h1 : ∀ x, (f x).length = 1) (xs : List α) : rrPipeline w f xs = xs.flatMap f :=
  rr_one_in_one_out_on w hw f xs (fun x _ => h1 x)

/-- (1) for the real workers `out <- enc t`: record `i` of the output is the record of traveler
    `i`; a traveler whose record is blank (marshal error dropped) has the blank record IN ITS PLACE. -/
theorem rr_blank_keeps_slot {α β : Type} (w : Nat) (hw : 1 ≤ w) (enc : α → β) (xs : List α) :
    rrPipeline w (fun t => [enc t]) xs = xs.map enc := by
  rw [rr_one_in_one_out w hw _ (fun _ => rfl)]
  exact Lemmas.flatMap_single _ enc (fun _ => rfl) xs

/-- test: the hypotheses of (1) on a concrete instance: 3 workers, 11 items (11 mod 3 ≠ 0), the
    traveler 4 encodes to the blank record 0 -/
example : rrPipeline 3 (fun t : Nat => [if t = 4 then 0 else t + 100]) (List.range 11) =
    [100, 101, 102, 103, 0, 105, 106, 107, 108, 109, 110] := by decide
example : ∀ t : Nat, ([if t = 4 then 0 else t + 100] : List Nat).length = 1 := fun _ => rfl

/-- The transition-system model of the same code (`Grip.C13.RR`, every interleaving) and the
    function agree: whenever a run of MarshalStream with `w` workers has closed its output, the
    output is `rrPipeline w (fun t => [enc t]) xs`. -/
theorem rr_model_agrees {α β : Type} (w : Nat) (hw : 1 ≤ w) (enc : α → β) (xs : List α) (s : RR α β)
    (h : Reach (rrAct (marshalCfg w) enc) (rrInit (marshalCfg w) xs) s) (hc : s.outClosed = true) :
    s.out = rrPipeline w (fun t => [enc t]) xs := by
  rw [rr_blank_keeps_slot w hw]
  exact (rr_final (marshalCfg w) hw generated_config_ok.1 generated_config_ok.2.2.1 enc xs s h hc).1

/-! ## (3) any workers: nothing lost, nothing invented by the distributor / merger -/

theorem flatten_work {α β : Type} (f : α → List β) (ws : List (List α)) :
    (work f ws).flatten = ws.flatten.flatMap f := by
  induction ws with
  | nil => rfl
  | cons l ws ih => simp [ih, List.flatMap_append]

/-- the distributor alone: every item goes to exactly one worker -/
theorem rr_distribute_perm {α : Type} (w : Nat) (hw : 1 ≤ w) (xs : List α) :
    (distribute w xs).flatten.Perm xs := by
  obtain ⟨m, rfl⟩ : ∃ m, w = m + 1 := ⟨w - 1, by omega⟩
  rw [rr_distribute_closed_form (m + 1) hw]
  have := Lemmas.mergeAll_perm _ (deal (m + 1) xs) (Nat.le_refl _)
  rw [Lemmas.mergeAll_deal] at this
  exact this.symm

/-- the merger alone: every item of every stream is emitted exactly once -/
theorem rr_merge_perm {β : Type} (ws : List (List β)) : (mergeRun ws).out.Perm ws.flatten :=
  Lemmas.mergeAll_perm _ ws (Nat.le_refl _)

/-- (3) MULTIPLICITY, ALWAYS.  Whatever the workers do (skip, duplicate, anything), the pool's
    output is a permutation of what the workers produced for the input items: the distributor
    and the merger never lose, duplicate or invent an item.  Only ORDER depends on the workers. -/
theorem rr_multiplicity_always {α β : Type} (w : Nat) (hw : 1 ≤ w) (f : α → List β) (xs : List α) :
    (rrPipeline w f xs).Perm (xs.flatMap f) := by
  have h1 : (rrPipeline w f xs).Perm (rrWorkers w f xs).flatten := rr_merge_perm _
  rw [rrWorkers, flatten_work] at h1
  exact h1.trans (List.Perm.flatMap_right f (rr_distribute_perm w hw xs))

/-- test: (3) on workers that skip one item and duplicate another -/
example :
    let f : Nat → List Nat := fun t => if t = 2 then [] else if t = 5 then [t, t] else [t]
    rrPipeline 3 f (List.range 9) = [0, 1, 5, 3, 4, 5, 6, 7, 8] ∧
    (List.range 9).flatMap f = [0, 1, 3, 4, 5, 5, 6, 7, 8] := by decide

/-- `w ≥ 1` is needed: with no workers the model drops everything (the Go code panics) -/
theorem rr_zero_workers {α β : Type} (f : α → List β) (xs : List α) : rrPipeline 0 f xs = [] := by
  have h : ∀ (xs : List α) (n : Nat), distLoop 0 n ([] : List (List α)) xs = [] := by
    intro xs
    induction xs with
    | nil => intro n; rfl
    | cons x xs ih => intro n; simp [distLoop, ih]
  simp only [rrPipeline, rrMerge, rrWorkers, distribute, List.replicate, h, work, List.map_nil]
  rfl

/-! ## (2) a worker that skips a record breaks the order of the others -/

/-- (2) WITNESS.  Two workers, five records, the second one skipped by its worker (what a
    "hardening" that drops travelers failing to marshal would do): the output is `[1, 4, 3, 5]` —
    not the surviving records in input order `[1, 3, 4, 5]`, not even a subsequence of the input. -/
theorem rr_skip_breaks_order :
    let f : Nat → List Nat := fun t => if t = 2 then [] else [t]
    rrPipeline 2 f [1, 2, 3, 4, 5] = [1, 4, 3, 5] ∧
    [1, 2, 3, 4, 5].flatMap f = [1, 3, 4, 5] ∧
    ¬ (rrPipeline 2 f [1, 2, 3, 4, 5]).Sublist [1, 2, 3, 4, 5] := by decide

/-- the same happens with a worker that sends TWO items for one input: one-in-one-out is needed
    in both directions -/
theorem rr_dup_breaks_order :
    let f : Nat → List Nat := fun t => if t = 2 then [2, 2] else [t]
    rrPipeline 2 f [1, 2, 3, 4, 5] = [1, 2, 3, 2, 5, 4] ∧
    [1, 2, 3, 4, 5].flatMap f = [1, 2, 2, 3, 4, 5] := by decide

/-- (2) THE EXACT OUTPUT after one skipped record.  `x` is skipped (`f x = []`), the items before
    it (`a`) and behind it (`b`) are one-in-one-out.  The records before the gap are untouched; of
    every full block of `w` records behind the gap the LAST one is emitted FIRST; a final block
    of fewer than `w` records is untouched. -/
theorem rr_skip_output {α β : Type} (w : Nat) (hw : 1 ≤ w) (f : α → List β) (a : List α) (x : α)
    (b : List α) (hx : f x = []) (ha : ∀ y ∈ a, (f y).length = 1) (hb : ∀ y ∈ b, (f y).length = 1) :
    rrPipeline w f (a ++ x :: b) = a.flatMap f ++ rotBlocks w (b.flatMap f) := by
  obtain ⟨m, rfl⟩ : ∃ m, w = m + 1 := ⟨w - 1, by omega⟩
  rw [rrPipeline_eq (m + 1) hw]
  induction a with
  | nil =>
    rw [List.nil_append, Lemmas.work_deal_cons_skip m f x hx, Lemmas.work_deal_one m f b hb,
      Lemmas.mergeAll_rotR_deal m _ _ (Nat.le_refl _)]
    rfl
  | cons y a ih =>
    obtain ⟨z, hz⟩ := List.length_eq_one_iff.mp (ha y (by simp))
    rw [List.cons_append, Lemmas.mergeAll_work_cons_one m f y z hz,
      ih (fun y' hy' => ha y' (by simp [hy'])), List.flatMap_cons, hz]
    rfl

/-- what order preservation would require -/
theorem flatMap_skip {α β : Type} (f : α → List β) (a : List α) (x : α) (b : List α) (hx : f x = []) :
    (a ++ x :: b).flatMap f = a.flatMap f ++ b.flatMap f := by
  simp [List.flatMap_append, List.flatMap_cons, hx]

/-- (2) THE EXACT CONDITION.  After one skipped record the output is still the image of the
    input in input order IF AND ONLY IF every full block of `w` records behind the gap consists
    of `w` EQUAL records. -/
theorem rr_skip_order_iff {α β : Type} (w : Nat) (hw : 1 ≤ w) (f : α → List β) (a : List α) (x : α)
    (b : List α) (hx : f x = []) (ha : ∀ y ∈ a, (f y).length = 1) (hb : ∀ y ∈ b, (f y).length = 1) :
    rrPipeline w f (a ++ x :: b) = (a ++ x :: b).flatMap f ↔ BlocksConst w (b.flatMap f) := by
  rw [rr_skip_output w hw f a x b hx ha hb, flatMap_skip f a x b hx, List.append_cancel_left_eq,
    Lemmas.rotBlocks_eq_self_iff w _ _ (Nat.le_refl _)]

theorem length_flatMap_one {α β : Type} (f : α → List β) : ∀ (b : List α), (∀ y ∈ b, (f y).length = 1) →
    (b.flatMap f).length = b.length
  | [], _ => rfl
  | y :: b, h => by
    rw [List.flatMap_cons, List.length_append, h y (by simp),
      length_flatMap_one f b (fun y' hy' => h y' (by simp [hy']))]
    simp; omega

/-- (2) GENERAL.  At least two workers, a record skipped at any position, at least `w` further
    records behind it, those records pairwise different: the output is NOT the image of the input
    in input order. -/
theorem rr_skip_breaks_order_general {α β : Type} (w : Nat) (hw : 2 ≤ w) (f : α → List β) (a : List α)
    (x : α) (b : List α) (hx : f x = []) (ha : ∀ y ∈ a, (f y).length = 1)
    (hb : ∀ y ∈ b, (f y).length = 1) (hlen : w ≤ b.length) (hdiff : (b.flatMap f).Nodup) :
    rrPipeline w f (a ++ x :: b) ≠ (a ++ x :: b).flatMap f := by
  intro e
  have := (rr_skip_order_iff w (by omega) f a x b hx ha hb).mp e
  exact Lemmas.not_blocksConst_of_nodup w hw _ hdiff (by rw [length_flatMap_one f b hb]; exact hlen) this

/-- test: the hypotheses of `rr_skip_breaks_order_general` on a concrete instance (3 workers, the
    item 4 of 0 … 11 skipped, 7 different records behind it) -/
example :
    let f : Nat → List Nat := fun t => if t = 4 then [] else [t + 100]
    f 4 = [] ∧ (∀ y ∈ List.range 4, (f y).length = 1) ∧ (∀ y ∈ [5, 6, 7, 8, 9, 10, 11], (f y).length = 1) ∧
    3 ≤ [5, 6, 7, 8, 9, 10, 11].length ∧ ([5, 6, 7, 8, 9, 10, 11].flatMap f).Nodup ∧
    rrPipeline 3 f (List.range 4 ++ 4 :: [5, 6, 7, 8, 9, 10, 11]) =
      [100, 101, 102, 103, 107, 105, 106, 110, 108, 109, 111] := by decide

/-- (2) WHERE the damage starts: with at least `w` records behind the gap, the record emitted at
    the position of the gap is record number `w - 1` behind it (the skipping worker's NEXT one),
    where order preservation requires record number `0` behind it. -/
theorem rr_skip_first_damage {α β : Type} (w : Nat) (hw : 1 ≤ w) (f : α → List β) (a : List α) (x : α)
    (b : List α) (hx : f x = []) (ha : ∀ y ∈ a, (f y).length = 1) (hb : ∀ y ∈ b, (f y).length = 1)
    (hlen : w ≤ b.length) :
    (rrPipeline w f (a ++ x :: b))[a.length]? = (b.flatMap f)[w - 1]? ∧
    ((a ++ x :: b).flatMap f)[a.length]? = (b.flatMap f)[0]? := by
  have hla : (a.flatMap f).length = a.length := length_flatMap_one f a ha
  have hlb : (b.flatMap f).length = b.length := length_flatMap_one f b hb
  rw [rr_skip_output w hw f a x b hx ha hb, flatMap_skip f a x b hx,
    List.getElem?_append_right (by omega), List.getElem?_append_right (by omega), hla, Nat.sub_self,
    ← List.head?_eq_getElem?, Lemmas.head?_rotBlocks w hw _ (by omega)]
  exact ⟨rfl, rfl⟩

/-- (2) the other side: with fewer than `w` records behind the gap nothing is reordered (the
    worker that skipped is never asked again before the streams end). -/
theorem rr_skip_harmless_short {α β : Type} (w : Nat) (hw : 1 ≤ w) (f : α → List β) (a : List α) (x : α)
    (b : List α) (hx : f x = []) (ha : ∀ y ∈ a, (f y).length = 1) (hb : ∀ y ∈ b, (f y).length = 1)
    (hlen : b.length < w) :
    rrPipeline w f (a ++ x :: b) = (a ++ x :: b).flatMap f :=
  (rr_skip_order_iff w hw f a x b hx ha hb).mpr
    (Lemmas.blocksConst_of_lt w _ (by rw [length_flatMap_one f b hb]; exact hlen))

/-- with one worker there is nothing to reorder -/
theorem rr_skip_harmless_one_worker {α β : Type} (f : α → List β) (xs : List α) :
    rrPipeline 1 f xs = xs.flatMap f := by
  rw [rrPipeline_eq 1 (Nat.le_refl 1)]
  have hd : deal 1 xs = [xs] := by
    have h := Lemmas.deal_snoc_form 0 xs
    have e : ∀ ys : List α, everyNth 1 ys = ys := by
      intro ys
      induction ys with
      | nil => exact Lemmas.everyNth_nil 1
      | cons y t ih => rw [Lemmas.everyNth_cons]; simp [ih]
    simpa [Lemmas.dInit, Lemmas.dLast, e] using h
  rw [hd]
  have hp := Lemmas.mergeAll_deal 0 (xs.flatMap f)
  have hd' : deal 1 (xs.flatMap f) = [xs.flatMap f] := by
    have h := Lemmas.deal_snoc_form 0 (xs.flatMap f)
    have e : ∀ ys : List β, everyNth 1 ys = ys := by
      intro ys
      induction ys with
      | nil => exact Lemmas.everyNth_nil 1
      | cons y t ih => rw [Lemmas.everyNth_cons]; simp [ih]
    simpa [Lemmas.dInit, Lemmas.dLast, e] using h
  rw [hd'] at hp
  simpa [work] using hp

/-- (2) "the output ALWAYS differs when `w` further records follow" is FALSE: equal records hide
    the reordering.  Two workers, the second record skipped, three equal records behind it. -/
theorem rr_skip_not_always :
    let f : Nat → List Nat := fun t => if t = 2 then [] else [7]
    2 ≤ [3, 4, 5].length ∧ rrPipeline 2 f [1, 2, 3, 4, 5] = [1, 2, 3, 4, 5].flatMap f := by decide

/-! ## (4) the merger terminates, and closes exactly when every worker is drained -/

/-- A pass of the merger finds nothing exactly when every worker's stream is drained — this is
    the loop's exit test. -/
theorem rr_pass_found_iff {β : Type} (ws : List (List β)) :
    (mergePass ws).2.2 = false ↔ ∀ l ∈ ws, l = [] := by
  rw [Lemmas.mergePass_eq, ← Lemmas.maxLen_eq_zero_iff, ← Lemmas.heads_isEmpty_iff]
  simp

/-- (4) for any streams: run without a bound (any fuel above the longest stream), the merger's
    outer loop ends by itself after exactly `maxLen ws + 1` passes, and then every stream is
    drained; after `k ≤ maxLen ws` passes it has not ended. -/
theorem rr_merge_close {β : Type} (ws : List (List β)) :
    (mergeRun ws).closed = true ∧ (mergeRun ws).passes = maxLen ws + 1 ∧
    (∀ l ∈ (mergeRun ws).left, l = []) ∧
    (∀ fuel, maxLen ws < fuel → mergerLoop fuel ws = mergeRun ws) ∧
    (∀ k, k ≤ maxLen ws → (mergerLoop k ws).closed = false ∧ (mergerLoop k ws).passes = k) := by
  have hfuel : maxLen ws < totalLen ws + 1 := by have := Lemmas.maxLen_le_totalLen ws; omega
  obtain ⟨a, b, c, _⟩ := Lemmas.mergerLoop_closed _ ws hfuel
  refine ⟨a, b, (Lemmas.maxLen_eq_zero_iff _).mp c, ?_, ?_⟩
  · intro fuel hf
    rw [Lemmas.mergeRun_eq, Lemmas.mergerLoop_canon fuel ws hf]
  · intro k hk
    obtain ⟨a', b', _⟩ := Lemmas.mergerLoop_open k ws hk
    exact ⟨a', b'⟩

/-- (4) CLOSE.  For any workers `f`, any `w`, any input: the merger's run ends (`closed`), after
    exactly (length of the longest worker stream) + 1 passes — in particular at most
    (number of output records) + 1 — with every worker stream drained; and it does not end
    earlier: after any `k ≤` (longest stream) passes the output is still open. -/
theorem rr_close {α β : Type} (w : Nat) (f : α → List β) (xs : List α) :
    (rrMerge w f xs).closed = true ∧
    (rrMerge w f xs).passes = maxLen (rrWorkers w f xs) + 1 ∧
    (rrMerge w f xs).passes ≤ (rrPipeline w f xs).length + 1 ∧
    (∀ l ∈ (rrMerge w f xs).left, l = []) ∧
    (∀ k, k ≤ maxLen (rrWorkers w f xs) → (mergerLoop k (rrWorkers w f xs)).closed = false) := by
  obtain ⟨a, b, c, _, e⟩ := rr_merge_close (rrWorkers w f xs)
  refine ⟨a, b, ?_, c, fun k hk => (e k hk).1⟩
  have hb : (rrMerge w f xs).passes = maxLen (rrWorkers w f xs) + 1 := b
  rw [hb]
  have hp : (rrPipeline w f xs).length = (rrWorkers w f xs).flatten.length :=
    (rr_merge_perm (rrWorkers w f xs)).length_eq
  have ht : (rrWorkers w f xs).flatten.length = totalLen (rrWorkers w f xs) := by
    simp [totalLen, List.length_flatten]
  have := Lemmas.maxLen_le_totalLen (rrWorkers w f xs)
  omega

/-- (4) for the real (one-in-one-out) workers: exactly ⌈len / w⌉ + 1 passes. -/
theorem rr_close_one_in_one_out {α β : Type} (w : Nat) (hw : 1 ≤ w) (f : α → List β) (xs : List α)
    (h1 : ∀ x ∈ xs, (f x).length = 1) :
    (rrMerge w f xs).closed = true ∧ (rrMerge w f xs).passes = (xs.length + w - 1) / w + 1 := by
  obtain ⟨a, b, _⟩ := rr_close w f xs
  refine ⟨a, ?_⟩
  rw [b, rrWorkers, rr_distribute_closed_form w hw]
  obtain ⟨m, rfl⟩ : ∃ m, w = m + 1 := ⟨w - 1, by omega⟩
  rw [Lemmas.work_deal_one m f xs h1, Lemmas.maxLen_deal (m + 1) hw, length_flatMap_one f xs h1]

/-- test: (4) on a concrete run — 3 workers, 8 items, one skipped, one doubled: streams of
    lengths 3, 3, 2, so 4 passes -/
example :
    let f : Nat → List Nat := fun t => if t = 2 then [] else if t = 4 then [t, t] else [t]
    rrWorkers 3 f (List.range 8) = [[0, 3, 6], [1, 4, 4, 7], [5]] ∧
    (rrMerge 3 f (List.range 8)).passes = 5 ∧ (rrMerge 3 f (List.range 8)).closed = true ∧
    (mergerLoop 4 (rrWorkers 3 f (List.range 8))).closed = false := by decide

end Grip.Props.C13
