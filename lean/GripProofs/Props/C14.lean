import Grip.Model.C14
namespace Grip.Props.C14
open Grip Grip.C08 Grip.C14

theorem double_neg_convert (e : HasE) (n : Bool) : convert (.not (.not e)) n = convert e n := by
  simp [convert]

end Grip.Props.C14
