/-
  Props.C14 — the MongoDB compiler preserves typing and filter meaning.

  Typing: `GripGen.MongoTyping` / `GripGen.CoreTypingC14` are regenerated from mongo/compile.go and
  engine/core/compile.go on every run; the theorems below are re-checked against them.
  Filter meaning: `convert` models mongo/has_evaluator.go (tied by a syntactic comparison of the
  emitted documents), `mEval` is MongoDB's documented meaning of the emitted fragment on scalar
  field values (trusted), `Grip.C08.eval` is the core engine's evaluation.
-/
import Grip.Model.C14
import Grip.Model.C14T
import GripGen.MongoTyping
import GripGen.CoreTypingC14
import GripProofs.Lemmas.C14
import GripProofs.Lemmas.C14T

namespace Grip.Props.C14
open Grip Grip.C08 Grip.C14 Grip.C14T

/-! ## Typing agreement -/

/-- Per statement: for every kind, every last type and every argument class inside the property's
    scope (a selected single mark has vertex/edge type — what "defined before use" gives, see
    `Lemmas.inv` — and aggregations carry a type) the two compilers decide alike: same
    acceptance, same resulting type, same stored mark type.  `decide` over the two generated
    tables. -/
theorem typing_step_agrees (k : Kind) (t : DT) (a : Arg) (h : Lemmas.okArg t a = true) :
    (GripGen.MongoTyping.table.tree k t).evalR a = (GripGen.CoreTypingC14.table.tree k t).evalR a :=
  Lemmas.step_agree k t a h

/-- Both compilers validate the first statement, with the same admissible kinds. -/
theorem typing_validate_agrees :
    GripGen.MongoTyping.table.validatesFirst = GripGen.CoreTypingC14.table.validatesFirst ∧
    GripGen.MongoTyping.table.firstKinds = GripGen.CoreTypingC14.table.firstKinds :=
  Lemmas.tables_validate_alike

/-- Statement sequences of any length over the supported steps, marks defined before use,
    aggregations typed: the Mongo compiler accepts exactly what the core compiler accepts and
    assigns the same result type and the same mark types.  (`nm`: the two string predicates both
    compilers call — gripql.ValidateFieldName and the reserved-name test — arbitrary.) -/
theorem typing_agrees (nm : Names) (ss : List TStmt)
    (hd : definedFrom [] ss = true) :
    typeOf GripGen.MongoTyping.table nm ss = typeOf GripGen.CoreTypingC14.table nm ss := by
  have hv := Lemmas.tables_validate_alike
  have hf : firstOk GripGen.MongoTyping.table ss = firstOk GripGen.CoreTypingC14.table ss := by
    cases ss with
    | nil => rfl
    | cons s ss => simp only [firstOk, hv.1, hv.2]
  unfold typeOf
  rw [hf]
  cases firstOk GripGen.CoreTypingC14.table ss with
  | false => rfl
  | true =>
    simp only [if_true]
    exact Lemmas.runT_agree nm ss ⟨.noData, []⟩ [] (by intro _ p hp; cases hp) (by intro n hn; cases hn) hd

/-- Outside the scope the compilers do differ (so the hypotheses are not decoration): selecting a
    mark that was never defined makes the core compiler continue at NoData, the Mongo compiler at
    the previous type. -/
theorem typing_differs_on_undefined_mark (nm : Names) :
    typeOf GripGen.MongoTyping.table nm [{ kind := .v }, { kind := .select, list := ["zz"] }]
      = some ⟨.vertex, []⟩ ∧
    typeOf GripGen.CoreTypingC14.table nm [{ kind := .v }, { kind := .select, list := ["zz"] }]
      = some ⟨.noData, []⟩ := by
  constructor <;> rfl

/-- …while an aggregation without a type, which only the Mongo compiler used to refuse, is now
    refused by both (`fix: the compiler rejects an aggregation without a type`), so `typing_agrees`
    no longer needs the hypothesis that every aggregation is typed. -/
theorem typing_agrees_on_untyped_aggregation (nm : Names) :
    typeOf GripGen.MongoTyping.table nm [{ kind := .v }, { kind := .aggregate, list := ["n"], unk := true }]
      = none ∧
    typeOf GripGen.CoreTypingC14.table nm [{ kind := .v }, { kind := .aggregate, list := ["n"], unk := true }]
      = none := by
  constructor <;> rfl

/-! ## Filter meaning -/

/-- Negation push-down: the document emitted with `not = true` selects exactly the complement of
    the one emitted with `not = false` (and is refused by the server exactly when that one is), for
    every expression whose oneofs are set and whose range operators carry a list — any depth. -/
theorem not_pushdown (d : Elem) (e : HasE) (h : translatable e = true) :
    mEval d (convert e true) = (mEval d (convert e false)).map (!·) := by
  simpa using Lemmas.pushdown d e false h

/-- Double negation is the identity on the emitted document (the repaired defect C14-not-not). -/
theorem double_neg_convert (e : HasE) (n : Bool) : convert (.not (.not e)) n = convert e n := by
  simp [convert]

/-- Filter equivalence.  PARTIAL: proved for every nesting depth under `agree`, i.e. scalar field
    values, ordering operators comparing a non-numeric-text value with a number, list operators
    carrying lists, range operators carrying two numbers, non-empty and/or, and `contains` not
    applied to a scalar equal to its argument.  What is missing are exactly the open findings
    C14-order-cast, C14-contains-scalar, C14-invalid-filter, C14-range-args, each refuted at full
    strength by a witness below. -/
theorem filter_equiv_partial (numOf : String → Option Int) (d : Elem) (e : HasE)
    (h : agree numOf d e = true) :
    mEval d (convert e false) = some (eval numOf d e) :=
  Lemmas.equiv numOf d e h

/-- The same for a `has` compiled in a negated context. -/
theorem filter_equiv_negated_partial (numOf : String → Option Int) (d : Elem) (e : HasE)
    (h : agree numOf d e = true) :
    mEval d (convert e true) = some (!(eval numOf d e)) := by
  rw [not_pushdown d e (Lemmas.agree_translatable numOf d e h), filter_equiv_partial numOf d e h]
  rfl

/-- In the agreeing region the emitted document is never refused and never the crash marker. -/
theorem filter_valid_partial (numOf : String → Option Int) (d : Elem) (e : HasE)
    (h : agree numOf d e = true) : (mEval d (convert e false)).isSome = true := by
  rw [filter_equiv_partial numOf d e h]; rfl

/-! ### Witnesses: the full-strength statement is false (open findings) -/

/-- C14-order-cast: `has(gt("x", 5))` on `x = "30"`: the core engine casts the text and keeps the
    document, `{data.x: {$gt: 5}}` does not select a string. -/
theorem filter_differs_numeric_text (numOf : String → Option Int) (d : Elem)
    (hx : lookup d "x" = .str "30") (hn : numOf "30" = some 30720) :
    mEval d (convert (.cond "x" .gt (.num 5120)) false) = some false ∧
    eval numOf d (.cond "x" .gt (.num 5120)) = true := by
  constructor
  · simp [convert, convCond, mEval, opOf, evalOp, isGt, ordLt, hx]
  · simp [eval, matchesCond, cmp2, toNum, hx, hn]

/-- C14-order-cast, the other direction: ordering against a boolean argument selects in MongoDB
    (same type class), never in the core engine. -/
theorem filter_differs_bool_order (numOf : String → Option Int) (d : Elem)
    (hx : lookup d "x" = .bool true) :
    mEval d (convert (.cond "x" .gt (.bool false)) false) = some true ∧
    eval numOf d (.cond "x" .gt (.bool false)) = false := by
  constructor
  · simp [convert, convCond, mEval, opOf, evalOp, isGt, ordLt, hx]
  · simp [eval, matchesCond, cmp2, toNum, hx]

/-- C14-contains-scalar. -/
theorem filter_differs_contains_scalar (numOf : String → Option Int) (d : Elem)
    (hx : lookup d "x" = .num 1024) :
    mEval d (convert (.cond "x" .contains (.num 1024)) false) = some true ∧
    eval numOf d (.cond "x" .contains (.num 1024)) = false := by
  constructor
  · simp [convert, convCond, mEval, opOf, evalOp, foundIn, hx]
  · simp [eval, matchesCond, hx]

/-- C14-invalid-filter: `has(and())` is `{$and: []}`, which MongoDB refuses; the core engine keeps
    every document. -/
theorem filter_refused_empty_and (numOf : String → Option Int) (d : Elem) :
    mEval d (convert (.and []) false) = none ∧ eval numOf d (.and []) = true := by
  constructor
  · simp [convert, junction, convertList, mEval]
  · simp [eval, evalList, allTrue]

/-- C14-range-args, REPAIRED (`fix: the mongo compiler treats a range condition whose value is not
    a list of two bounds as matching nothing`): before, fewer than two bounds made
    convertHasExpression index out of range (a crash), more than two were silently cut to two and a
    non-list gave the empty filter (selects everything).  Now, for every document, key, range
    operator, malformed argument and polarity, the emitted filter is accepted by MongoDB and answers
    what the core engine answers. -/
theorem range_args_malformed_agree (numOf : String → Option Int) (d : Elem) (k : String) (c : Cond)
    (a : JV) (n : Bool) (hc : c = .inside ∨ c = .outside ∨ c = .between)
    (ha : ∀ l u, a ≠ .arr [l, u]) :
    mEval d (convert (.cond k c a) n) = some (eval numOf d (.cond k c a) != n) := by
  have hcore : eval numOf d (.cond k c a) = false := by
    simp only [eval]
    rcases hc with rfl | rfl | rfl <;> simp only [matchesCond, range3] <;>
      (cases a with
       | arr xs =>
         simp only [toSlice]
         match xs, ha with
         | [], _ => rfl
         | [_], _ => rfl
         | [l, u], ha => exact absurd rfl (ha l u)
         | _ :: _ :: _ :: _, _ => rfl
       | _ => rfl)
  have hconv : ∀ c1 c2 isAnd, convRange k c1 c2 isAnd a n = if n then MDoc.all else MDoc.nothing := by
    intro c1 c2 isAnd
    cases a with
    | arr xs =>
      match xs, ha with
      | [], _ => rfl
      | [_], _ => rfl
      | [l, u], ha => exact absurd rfl (ha l u)
      | _ :: _ :: _ :: _, _ => rfl
    | _ => rfl
  rw [hcore]
  rcases hc with rfl | rfl | rfl <;> simp only [convert, hconv] <;> cases n <;> rfl

/-- …in particular the former crash witness and the former "selects everything" witness. -/
theorem filter_short_range_no_crash (numOf : String → Option Int) (d : Elem) (n : Bool) :
    hasCrash (convert (.cond "x" .inside (.arr [.num 1024])) n) = false ∧
    mEval d (convert (.cond "x" .inside (.num 1024)) false) = some false ∧
    eval numOf d (.cond "x" .inside (.num 1024)) = false := by
  refine ⟨by cases n <;> rfl, rfl, ?_⟩
  simp [eval, matchesCond, range3, toSlice]

/-! ### Non-vacuity -/
section examples
def dec : String → Option Int := fun s => if s = "30" then some 30720 else none
example : leafAgree dec (.num 2048) .gt (.num 1024) = true := by decide
example : leafAgree dec (.str "abc") .gt (.num 1024) = true := by decide
example : leafAgree dec (.str "30") .gt (.num 1024) = false := by decide
example : leafAgree dec .null .within (.arr [.null, .num 1024]) = true := by decide
example : leafAgree dec (.num 2048) .between (.arr [.num 1024, .num 3072]) = true := by decide
example : leafTranslatable .inside (.arr []) = true := by decide
example : Lemmas.okArg .vertex (.marks .one .edge) = true := by decide
example : aggsTyped [{ kind := .v }, { kind := .aggregate, list := ["n"] }] = true := by decide
example : definedFrom [] [{ kind := .v }, { kind := .as_, name := "a" }, { kind := .select, list := ["a"] }] = true := by
  simp [definedFrom]
end examples

end Grip.Props.C14
