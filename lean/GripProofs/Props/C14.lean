/-
  Props.C14 — the MongoDB compiler preserves typing and filter meaning.

  Typing: `GripGen.MongoTyping` / `GripGen.CoreTypingC14` are regenerated from mongo/compile.go and
  engine/core/compile.go on every run; the theorems below are re-checked against them.
  Filter meaning: `convert` models mongo/has_evaluator.go (tied by a syntactic comparison of the
  emitted documents), `mEval` is MongoDB's documented meaning of the emitted fragment on scalar
  field values (trusted), `Grip.C08.eval` is the core engine's evaluation.
-/
import Grip.Model.C14
import Grip.Model.C14T
import GripGen.MongoTyping
import GripGen.CoreTypingC14
import GripProofs.Lemmas.C14
import GripProofs.Lemmas.C14Old
import GripProofs.Lemmas.C14Mark
import GripProofs.Lemmas.C14T

namespace Grip.Props.C14
open Grip Grip.C08 Grip.C14 Grip.C14T
open Grip.Props.C14.Lemmas (wellFormed wellFormedList leafWellFormed agreeW agreeWList leafAgreeW twoBounds)
open Grip.Props.C14.Old (oldContains oldWithin oldWithout oldJunction)

/-! ## Typing agreement -/

/-- Per statement: for every kind, every last type and every argument class inside the property's
    scope (a selected single mark has vertex/edge type — what "defined before use" gives, see
    `Lemmas.inv` — and aggregations carry a type) the two compilers decide alike: same
    acceptance, same resulting type, same stored mark type.  `decide` over the two generated
    tables. -/
theorem typing_step_agrees (k : Kind) (t : DT) (a : Arg) (h : Lemmas.okArg t a = true) :
    (GripGen.MongoTyping.table.tree k t).evalR a = (GripGen.CoreTypingC14.table.tree k t).evalR a :=
  Lemmas.step_agree k t a h

/-- Both compilers validate the first statement, with the same admissible kinds. -/
theorem typing_validate_agrees :
    GripGen.MongoTyping.table.validatesFirst = GripGen.CoreTypingC14.table.validatesFirst ∧
    GripGen.MongoTyping.table.firstKinds = GripGen.CoreTypingC14.table.firstKinds :=
  Lemmas.tables_validate_alike

/-- Statement sequences of any length over the supported steps, marks defined before use,
    aggregations typed: the Mongo compiler accepts exactly what the core compiler accepts and
    assigns the same result type and the same mark types.  (`nm`: the two string predicates both
    compilers call — gripql.ValidateFieldName and the reserved-name test — arbitrary.) -/
theorem typing_agrees (nm : Names) (ss : List TStmt)
    (hd : definedFrom [] ss = true) :
    typeOf GripGen.MongoTyping.table nm ss = typeOf GripGen.CoreTypingC14.table nm ss := by
  have hv := Lemmas.tables_validate_alike
  have hf : firstOk GripGen.MongoTyping.table ss = firstOk GripGen.CoreTypingC14.table ss := by
    cases ss with
    | nil => rfl
    | cons s ss => simp only [firstOk, hv.1, hv.2]
  unfold typeOf
  rw [hf]
  cases firstOk GripGen.CoreTypingC14.table ss with
  | false => rfl
  | true =>
    simp only [if_true]
    exact Lemmas.runT_agree nm ss ⟨.noData, []⟩ [] (by intro _ p hp; cases hp) (by intro n hn; cases hn) hd

/-- Outside the scope the compilers do differ (so the hypotheses are not decoration): selecting a
    mark that was never defined makes the core compiler continue at NoData, the Mongo compiler at
    the previous type. -/
theorem typing_differs_on_undefined_mark (nm : Names) :
    typeOf GripGen.MongoTyping.table nm [{ kind := .v }, { kind := .select, list := ["zz"] }]
      = some ⟨.vertex, []⟩ ∧
    typeOf GripGen.CoreTypingC14.table nm [{ kind := .v }, { kind := .select, list := ["zz"] }]
      = some ⟨.noData, []⟩ := by
  constructor <;> rfl

/-- …while an aggregation without a type, which only the Mongo compiler used to refuse, is now
    refused by both (`fix: the compiler rejects an aggregation without a type`), so `typing_agrees`
    no longer needs the hypothesis that every aggregation is typed. -/
theorem typing_agrees_on_untyped_aggregation (nm : Names) :
    typeOf GripGen.MongoTyping.table nm [{ kind := .v }, { kind := .aggregate, list := ["n"], unk := true }]
      = none ∧
    typeOf GripGen.CoreTypingC14.table nm [{ kind := .v }, { kind := .aggregate, list := ["n"], unk := true }]
      = none := by
  constructor <;> rfl

/-! ## Filter meaning -/

/-! ### Negation push-down -/

/-- Negation push-down: the document emitted with `not = true` selects exactly the complement of
    the one emitted with `not = false`, for every expression whose oneofs are set and whose
    conditions are operators the `switch` lists (`wellFormed`) — any depth, ANY arguments, ANY
    member lists.

    Hypotheses DROPPED against the previous statement (which asked `translatable e`): range
    operators need not carry a list (a malformed range is `matchNone(not)` under either polarity),
    and nothing is asked of and()/or() member lists (the empty ones are `.all`/`.nothing`, which
    are total).  `translatable e → wellFormed e` is `Lemmas.translatable_wellFormed`; the old
    statement is `not_pushdown_translatable`.  The two remaining hypotheses are necessary:
    `pushdown_needs_oneof`, `pushdown_needs_known_condition`. -/
theorem not_pushdown (d : Res) (e : HasE) (h : wellFormed e = true) :
    mEval d (convert e true) = (mEval d (convert e false)).map (!·) := by
  simpa using Lemmas.pushdown d e false h

/-- The same from any polarity (so also from inside a negation, at any depth). -/
theorem not_pushdown_any (d : Res) (e : HasE) (n : Bool) (h : wellFormed e = true) :
    mEval d (convert e (!n)) = (mEval d (convert e n)).map (!·) :=
  Lemmas.pushdown d e n h

/-- The previous statement of `not_pushdown` (hypothesis `translatable`), a corollary. -/
theorem not_pushdown_translatable (d : Res) (e : HasE) (h : translatable e = true) :
    mEval d (convert e true) = (mEval d (convert e false)).map (!·) :=
  not_pushdown d e (Lemmas.translatable_wellFormed e h)

/-- `wellFormed` is strictly weaker than `translatable`. -/
theorem wellFormed_of_translatable (e : HasE) (h : translatable e = true) : wellFormed e = true :=
  Lemmas.translatable_wellFormed e h

/-- test: not translatable (range without a list, under an empty and), yet well-formed. -/
example : translatable (.and [.cond "x" .inside (.num 1024), .or []]) = false ∧
    wellFormed (.and [.cond "x" .inside (.num 1024), .or []]) = true := by decide

/-- test (non-vacuity of `not_pushdown`): empty and/or, malformed range, non-list within, nested
    negation — all inside the hypothesis. -/
example : wellFormed (.not (.or [.and [], .cond "x" .between (.arr [.num 1]),
    .cond "y" .within (.str "a"), .cond "tags" .contains (.num 1024)])) = true := by decide

/-- Push-down is FALSE for an expression whose oneof is not set: convertHasExpression's
    `default:` arm leaves `bson.M{}` under either polarity, which selects every document both
    times.  (Go: `convertHasExpression(&gripql.HasExpression{}, not)`; the core engine keeps nothing
    for it and everything for its negation — `leafWhy`/`whys` name it "malformed".) -/
theorem pushdown_needs_oneof (d : Res) :
    mEval d (convert .none true) = some true ∧ mEval d (convert .none false) = some true :=
  ⟨rfl, rfl⟩

/-- Push-down is FALSE for a condition number the `switch` does not list: `not = false` gives
    `{key: {}}` (selects nothing here), `not = true` gives `{key: {$not: {}}}`, which MongoDB
    refuses.  (Go: `convertCondition(&gripql.HasCondition{Key: k, Condition: 0}, true)`.) -/
theorem pushdown_needs_known_condition (d : Res) (k : String) (a : JV) :
    mEval d (convert (.cond k .unset a) true) = none ∧
    mEval d (convert (.cond k .unset a) false) = some false :=
  ⟨rfl, rfl⟩

/-- On a single condition the hypothesis is exact: push-down holds (for some, equivalently every,
    document, key and argument) iff the condition is one the `switch` lists. -/
theorem pushdown_leaf_iff (d : Res) (k : String) (c : Cond) (a : JV) :
    mEval d (convert (.cond k c a) true) = (mEval d (convert (.cond k c a) false)).map (!·) ↔
      leafWellFormed c = true := by
  constructor
  · intro h
    cases c <;> first | rfl | exact absurd h (by simp [convert, convCond, opOf, mEval, evalOp])
  · intro h; simpa using Lemmas.leaf_pushdown d k c a false h

/-- Double negation is the identity on the emitted document (the repaired defect C14-not-not). -/
theorem double_neg_convert (e : HasE) (n : Bool) : convert (.not (.not e)) n = convert e n := by
  simp [convert]

/-! ### Validity: MongoDB accepts what is emitted -/

/-- FULL (no agreement hypothesis): for every well-formed expression — any depth, any arguments,
    empty and()/or(), non-list within/without, malformed ranges — and either polarity, the emitted
    filter is one MongoDB accepts.  This is the content of `fix: the mongo compiler emits no filter
    MongoDB rejects`.  The only refused output left is `{key: {$not: {}}}` for a condition outside
    the enum under a negation (`pushdown_needs_known_condition`). -/
theorem filter_valid (d : Res) (e : HasE) (n : Bool) (h : wellFormed e = true) :
    (mEval d (convert e n)).isSome = true :=
  Lemmas.valid d e n h

/-- FULL: the crash marker is never emitted, for every expression whatsoever. -/
theorem filter_never_crashes (e : HasE) (n : Bool) : hasCrash (convert e n) = false :=
  Lemmas.noCrash e n

/-! ### Equivalence -/

/-- Filter equivalence.  PARTIAL: proved for every nesting depth under `agree`, i.e. scalar field
    values, ordering operators comparing a non-numeric-text value with a number, range operators
    carrying two numbers.  Since the repairs `agree` no longer excludes within/without with a
    non-list argument, `contains` on a scalar equal to its argument, nor and()/or() without
    members: the statement covers them.  What is still missing for the full statement (every
    expression, every document) is the open finding C14-order-cast, refuted at full strength by
    `filter_differs_numeric_text` / `filter_differs_bool_order`, and field values that are lists or
    objects under operators other than contains, which `mEval` does not claim to interpret.
    `filter_equiv_wide_partial` below covers strictly more. -/
theorem filter_equiv_partial (numOf : String → Option Int) (d : Res) (e : HasE)
    (h : agree numOf d e = true) :
    mEval d (convert e false) = some (evalBy numOf d e) := by
  simpa [Lemmas.pol] using Lemmas.equiv numOf d e false h

/-- The same for a `has` compiled in a negated context. -/
theorem filter_equiv_negated_partial (numOf : String → Option Int) (d : Res) (e : HasE)
    (h : agree numOf d e = true) :
    mEval d (convert e true) = some (!(evalBy numOf d e)) := by
  simpa [Lemmas.pol] using Lemmas.equiv numOf d e true h

/-- Both polarities in one statement, on the WIDER region `agreeW`: `leafAgree`, or one of the
    leaves that agree on every field value whatsoever — contains (any field value, any argument),
    within/without with a non-list argument, a range operator whose argument is not a list of two
    values.  Still partial for the reason given at `filter_equiv_partial`. -/
theorem filter_equiv_wide_partial (numOf : String → Option Int) (d : Res) (e : HasE) (n : Bool)
    (h : agreeW numOf d e = true) :
    mEval d (convert e n) = some (evalBy numOf d e != n) :=
  Lemmas.equivW numOf d e n h

/-- `agree` is inside `agreeW`. -/
theorem agree_wide (numOf : String → Option Int) (d : Res) (e : HasE)
    (h : agree numOf d e = true) : agreeW numOf d e = true :=
  Lemmas.agree_agreeW numOf d e h

/-- The driver's classification is sound: when `whys` names no reason for a divergence, there is
    none, under either polarity. -/
theorem filter_equiv_classified (numOf : String → Option Int) (d : Res) (e : HasE) (n : Bool)
    (h : whys numOf d e = []) :
    mEval d (convert e n) = some (evalBy numOf d e != n) :=
  Lemmas.equivW numOf d e n (Lemmas.whys_nil numOf d e h)

/-- In the agreeing region the emitted document is never refused and never the crash marker.
    (`filter_valid` / `filter_never_crashes` say so without the agreement hypothesis.) -/
theorem filter_valid_partial (numOf : String → Option Int) (d : Res) (e : HasE)
    (h : agree numOf d e = true) : (mEval d (convert e false)).isSome = true := by
  rw [filter_equiv_partial numOf d e h]; rfl

section tests
/-- test: a concrete element for the hypotheses `d … = …` used below (string splitting does
    not reduce in the kernel, so the element is checked by evaluation). -/
def d0 : Elem :=
  { gid := "v1", label := "L",
    data := .obj [("x", .num 2048), ("s", .str "30"), ("tags", .arr [.str "a", .num 1024])] }
#guard lookup d0 "x" == .num 2048
#guard lookup d0 "s" == .str "30"
#guard lookup d0 "tags" == .arr [.str "a", .num 1024]
#guard lookup d0 "missing" == .null

def dec : String → Option Int := fun s => if s = "30" then some 30720 else none

/-- test (non-vacuity of `filter_equiv_partial`): ordering, a non-list within under a negation, an
    empty or(), contains on a scalar equal to the argument — all inside `agree` now. -/
example (d : Res) (hx : d "x" = .num 2048) :
    agree dec d (.and [.cond "x" .gt (.num 1024), .not (.cond "x" .within (.num 2048)),
      .not (.or []), .not (.cond "x" .contains (.num 2048))]) = true := by
  simp [agree, agreeList, leafAgree, hx, isScalar, isNumJ, notNumText]

/-- test (non-vacuity of `filter_equiv_wide_partial` beyond `agree`): contains on a LIST field,
    whatever else the element holds. -/
example (d : Res) : agreeW dec d (.or [.cond "tags" .contains (.num 1024),
    .not (.cond "tags" .inside (.arr [.num 1])), .cond "tags" .without .null]) = true := by
  simp [agreeW, agreeWList, leafAgreeW, isArr, twoBounds]

/-- test (non-vacuity of `filter_equiv_classified`). -/
example (d : Res) (hx : d "x" = .num 2048) :
    whys dec d (.and [.cond "x" .lte (.num 4096), .not (.and [])]) = [] := by
  simp [whys, whysList, leafWhy, hx, isScalar, isNumJ, notNumText]
end tests

/-! ### Witnesses: the full-strength statement is false (open finding C14-order-cast) -/

/-- C14-order-cast: `has(gt("x", 5))` on `x = "30"`: the core engine casts the text and keeps the
    document, `{data.x: {$gt: 5}}` does not select a string. -/
theorem filter_differs_numeric_text (numOf : String → Option Int) (d : Res)
    (hx : d "x" = .str "30") (hn : numOf "30" = some 30720) :
    mEval d (convert (.cond "x" .gt (.num 5120)) false) = some false ∧
    evalBy numOf d (.cond "x" .gt (.num 5120)) = true := by
  constructor
  · simp [convert, convCond, mEval, opOf, evalOp, isGt, ordLt, hx]
  · simp [evalBy, matchesCond, cmp2, toNum, hx, hn]

/-- C14-order-cast, the other direction: ordering against a boolean argument selects in MongoDB
    (same type class), never in the core engine. -/
theorem filter_differs_bool_order (numOf : String → Option Int) (d : Res)
    (hx : d "x" = .bool true) :
    mEval d (convert (.cond "x" .gt (.bool false)) false) = some true ∧
    evalBy numOf d (.cond "x" .gt (.bool false)) = false := by
  constructor
  · simp [convert, convCond, mEval, opOf, evalOp, isGt, ordLt, hx]
  · simp [evalBy, matchesCond, cmp2, toNum, hx]

/-! ### C14-contains-scalar, REPAIRED (`contains` compiles to `$elemMatch`) -/

/-- FULL — for EVERY document, key, argument and polarity, hence for every field value whatsoever
    (scalar, list, object, missing): the filter emitted for contains(k, a) is accepted and selects
    exactly the documents the core engine keeps.  (Replaces `filter_differs_contains_scalar`, which
    is false of the repaired translation; the old fact is `old_contains_selected_scalar`.) -/
theorem contains_agrees (numOf : String → Option Int) (d : Res) (k : String) (a : JV) (n : Bool) :
    mEval d (convert (.cond k .contains a) n) = some (evalBy numOf d (.cond k .contains a) != n) := by
  simpa [evalBy, Lemmas.pol] using Lemmas.leaf_contains numOf d k a n

/-- …spelled out by field value: a list field is selected exactly when it has an element equal to
    the argument; any other field value never. -/
theorem contains_agrees_by_value (d : Res) (k : String) (a : JV) :
    (∀ xs, d k = .arr xs →
      mEval d (convert (.cond k .contains a) false) = some (foundIn a xs)) ∧
    ((∀ xs, d k ≠ .arr xs) →
      mEval d (convert (.cond k .contains a) false) = some false) := by
  constructor
  · intro xs hx; simp [convert, convCond, mEval, opOf, evalOp, hx]
  · intro hx
    simp only [convert, convCond, mEval, opOf, Bool.false_eq_true, if_false]
    cases hv : d k <;> simp [evalOp]
    exact absurd hv (hx _)

/-- test: the former witness (scalar field equal to the argument) and a list field. -/
example (numOf : String → Option Int) (d : Res) (hx : d "x" = .num 1024) :
    mEval d (convert (.cond "x" .contains (.num 1024)) false) = some false ∧
    evalBy numOf d (.cond "x" .contains (.num 1024)) = false := by
  constructor
  · simp [convert, convCond, mEval, opOf, evalOp, hx]
  · simp [evalBy, matchesCond, hx]
example (numOf : String → Option Int) (d : Res)
    (hx : d "tags" = .arr [.str "a", .num 1024]) :
    mEval d (convert (.cond "tags" .contains (.num 1024)) false) = some true ∧
    evalBy numOf d (.cond "tags" .contains (.num 1024)) = true := by
  constructor
  · simp [convert, convCond, mEval, opOf, evalOp, foundIn, hx]
  · simp [evalBy, matchesCond, foundIn, hx]

/-- FROZEN, about the OLD translation `{key: {$in: [a]}}`: whenever the field holds a value equal
    to the argument — scalar, object or list — the old filter selected the document and the core
    engine does not keep it (a value is not a list containing itself); dually under a negation.
    Stronger than the old `filter_differs_contains_scalar` (any key, any argument). -/
theorem old_contains_selected_scalar (numOf : String → Option Int) (d : Res) (k : String) (a : JV)
    (hx : d k = a) :
    mEval d (oldContains k a false) = some true ∧
    mEval d (oldContains k a true) = some false ∧
    evalBy numOf d (.cond k .contains a) = false := by
  refine ⟨?_, ?_, ?_⟩
  · simp [oldContains, mEval, evalOp, hx, Old.foundIn_head]
  · simp [oldContains, mEval, evalOp, hx, Old.foundIn_head]
  · simp only [evalBy, matchesCond, hx]
    cases a <;> simp [Old.foundIn_self]

/-- test: the literal former witness `filter_differs_contains_scalar`. -/
example (numOf : String → Option Int) (d : Res) (hx : d "x" = .num 1024) :
    mEval d (oldContains "x" (.num 1024) false) = some true ∧
    evalBy numOf d (.cond "x" .contains (.num 1024)) = false :=
  let h := old_contains_selected_scalar numOf d "x" (.num 1024) hx
  ⟨h.1, h.2.2⟩

/-! ### C14-invalid-filter, REPAIRED (`fix: the mongo compiler emits no filter MongoDB rejects`) -/

/-- FULL — every document, both polarities: and() compiles to a filter that holds for every
    document (none under a negation), or() to one that holds for none (every one under a
    negation), as the core engine answers.  (Replaces `filter_refused_empty_and`.) -/
theorem empty_and_or_agree (numOf : String → Option Int) (d : Res) (n : Bool) :
    mEval d (convert (.and []) n) = some (true != n) ∧ evalBy numOf d (.and []) = true ∧
    mEval d (convert (.or []) n) = some (false != n) ∧ evalBy numOf d (.or []) = false := by
  cases n <;> simp [convert, junction, convertList, mEval, evalBy, evalByList, allTrue, anyTrue]

/-- …in the form of the other agreement theorems. -/
theorem empty_and_or_agree_eval (numOf : String → Option Int) (d : Res) (n : Bool) :
    mEval d (convert (.and []) n) = some (evalBy numOf d (.and []) != n) ∧
    mEval d (convert (.or []) n) = some (evalBy numOf d (.or []) != n) := by
  obtain ⟨h1, h2, h3, h4⟩ := empty_and_or_agree numOf d n
  rw [h1, h2, h3, h4]; exact ⟨rfl, rfl⟩

/-- test: nested empties — `not(and(or(), not(and())))` keeps every document on both sides. -/
example (numOf : String → Option Int) (d : Res) :
    mEval d (convert (.not (.and [.or [], .not (.and [])])) false) = some true ∧
    evalBy numOf d (.not (.and [.or [], .not (.and [])])) = true := by
  constructor
  · simp [convert, convertList, junction, mEval, mEvalList, orOpt]
  · simp [evalBy, evalByList, allTrue, anyTrue]

/-- FROZEN, about the OLD translation `{$and: []}` / `{$or: []}`: MongoDB refuses it, for and() and
    or(), under either polarity, while the core engine answers. -/
theorem old_empty_and_refused (numOf : String → Option Int) (d : Res) (n : Bool) :
    mEval d (MDoc.and []) = none ∧ mEval d (MDoc.or []) = none ∧
    mEval d (oldJunction true n []) = none ∧ mEval d (oldJunction false n []) = none ∧
    evalBy numOf d (.and []) = true ∧ evalBy numOf d (.or []) = false := by
  cases n <;> simp [oldJunction, mEval, evalBy, evalByList, allTrue, anyTrue]

/-- FULL — every document, key, non-list argument, both polarities (so every field value):
    within answers "nothing", without "everything", like the core engine. -/
theorem within_without_nonlist_agree (numOf : String → Option Int) (d : Res) (k : String) (a : JV)
    (n : Bool) (ha : isArr a = false) :
    mEval d (convert (.cond k .within a) n) = some (evalBy numOf d (.cond k .within a) != n) ∧
    mEval d (convert (.cond k .without a) n) = some (evalBy numOf d (.cond k .without a) != n) ∧
    evalBy numOf d (.cond k .within a) = false ∧ evalBy numOf d (.cond k .without a) = true := by
  refine ⟨?_, ?_, ?_, ?_⟩
  · simpa [evalBy, Lemmas.pol] using Lemmas.leaf_within_nonlist numOf d k a n ha
  · simpa [evalBy, Lemmas.pol] using Lemmas.leaf_without_nonlist numOf d k a n ha
  · cases a <;> simp [isArr] at ha <;> simp [evalBy, matchesCond]
  · cases a <;> simp [isArr] at ha <;> simp [evalBy, matchesCond]

/-- test: the hypothesis is satisfiable, and the answer does not look at the field. -/
example : isArr (.num 1024) = false ∧ isArr (.str "a") = false ∧ isArr .null = false ∧
    isArr (.obj [("a", .arr [])]) = false := by decide
example (d : Res) : mEval d (convert (.cond "x" .without (.num 1024)) false) = some true ∧
    mEval d (convert (.not (.cond "x" .within (.str "a"))) false) = some true := by
  constructor <;> simp [convert, convCond, isArr, mEval]

/-- FROZEN, about the OLD translation `{key: {$in: <not a list>}}` (and its `$not`s): MongoDB
    refuses it — within and without, under either polarity, whatever the document. -/
theorem old_in_scalar_refused (d : Res) (k : String) (a : JV) (n : Bool) (ha : isArr a = false) :
    mEval d (oldWithin k a n) = none ∧ mEval d (oldWithout k a n) = none := by
  cases a <;> simp [isArr] at ha <;> cases n <;> simp [oldWithin, oldWithout, mEval, evalOp]

/-- C14-range-args, REPAIRED (`fix: the mongo compiler treats a range condition whose value is not
    a list of two bounds as matching nothing`): before, fewer than two bounds made
    convertHasExpression index out of range (a crash), more than two were silently cut to two and a
    non-list gave the empty filter (selects everything).  Now, for every document, key, range
    operator, malformed argument and polarity, the emitted filter is accepted by MongoDB and answers
    what the core engine answers. -/
theorem range_args_malformed_agree (numOf : String → Option Int) (d : Res) (k : String) (c : Cond)
    (a : JV) (n : Bool) (hc : c = .inside ∨ c = .outside ∨ c = .between)
    (ha : ∀ l u, a ≠ .arr [l, u]) :
    mEval d (convert (.cond k c a) n) = some (evalBy numOf d (.cond k c a) != n) := by
  simpa [evalBy, Lemmas.pol] using Lemmas.leaf_range_malformed numOf d k c a n hc ha

/-- test: arguments satisfying the hypothesis. -/
example : (∀ l u, JV.arr [JV.num 1] ≠ .arr [l, u]) ∧ (∀ l u, JV.num 1 ≠ .arr [l, u]) ∧
    (∀ l u, JV.arr [.num 1, .num 2, .num 3] ≠ .arr [l, u]) := by
  refine ⟨?_, ?_, ?_⟩ <;> intro l u h <;> simp at h

/-- …in particular the former crash witness and the former "selects everything" witness. -/
theorem filter_short_range_no_crash (numOf : String → Option Int) (d : Res) (n : Bool) :
    hasCrash (convert (.cond "x" .inside (.arr [.num 1024])) n) = false ∧
    mEval d (convert (.cond "x" .inside (.num 1024)) false) = some false ∧
    evalBy numOf d (.cond "x" .inside (.num 1024)) = false := by
  refine ⟨by cases n <;> rfl, rfl, ?_⟩
  simp [evalBy, matchesCond, range3, toSlice]

/-! ### Keys in the namespace of a mark (C14-mark-key, REPAIRED by d374bbd)

  All filter theorems above are stated over a resolver `d : Res` (what a key resolves to); for one
  element it is `lookup e` and `evalBy` is `Grip.C08.eval` (`core_is_C08`).  Here the two resolvers
  are spelled out for a traveler with marks: `coreRes t` is jsonpath.TravelerPathLookup (the key's
  namespace picks the current element or the mark), `mongoRes t` is MongoDB's dotted-path lookup of
  the field name convertPath emits (`mpathL`) on the pipeline document `pipeDoc t`
  (`{_id, label, data, from, to, marks: {a: {_id, …}}}`). -/

/-- `evalBy` over one element is the core model proved in C08. -/
theorem core_is_C08 (numOf : String → Option Int) (e : Elem) (x : HasE) :
    evalBy numOf (lookup e) x = Grip.C08.eval numOf e x :=
  Mark.evalBy_lookup numOf e x

/-- FULL, every traveler and every key (any namespace, any path, reserved fields, gid → _id also
    inside a mark): when the mark the key names is present ("marks defined before use") and the key
    addresses a field, the field name convertPath emits resolves, on the pipeline document, to
    exactly the value the core engine looks up. -/
theorem mark_key_addresses_mark (t : Trav) (k : String)
    (hd : keyDefined t k = true) (ha : keyAddressesField k = true) :
    mongoRes t k = coreRes t k :=
  Mark.mongoRes_eq_coreRes t k hd ha

/-- Filter equivalence on pipeline documents WITH marks, keys in any namespace, both polarities,
    any nesting depth.  Hypotheses: the marks named in the expression are present (the property's
    "marks defined before use"; an absent mark is outside: the core engine then reads the ToDict of
    a nil element, `""` for `$c._gid`, MongoDB a missing field), every key addresses a field (a key
    that is a bare namespace resolves to a whole document, not a scalar), and the region `agreeW`
    judged on the values the CORE engine looks up.  PARTIAL only for the reason of
    `filter_equiv_partial` (open finding C14-order-cast, non-scalar values). -/
theorem filter_equiv_marks_partial (numOf : String → Option Int) (t : Trav) (e : HasE) (n : Bool)
    (hd : marksDefined t e = true) (ha : keysAddressFields e = true)
    (h : agreeW numOf (coreRes t) e = true) :
    mEval (mongoRes t) (convert e n) = some (evalBy numOf (coreRes t) e != n) := by
  rw [Mark.convert_congr t e n hd ha]
  exact Lemmas.equivW numOf (coreRes t) e n h

/-- The same from the driver's classification (`whys` names no reason). -/
theorem filter_equiv_marks_classified (numOf : String → Option Int) (t : Trav) (e : HasE) (n : Bool)
    (hd : marksDefined t e = true) (ha : keysAddressFields e = true)
    (h : whys numOf (coreRes t) e = []) :
    mEval (mongoRes t) (convert e n) = some (evalBy numOf (coreRes t) e != n) :=
  filter_equiv_marks_partial numOf t e n hd ha (Lemmas.whys_nil numOf (coreRes t) e h)

/-- FULL for the operators that have no open finding (eq / neq here): whatever the traveler, for a
    present mark and a field key the emitted filter selects exactly what the core engine keeps —
    no agreement region, any field value (scalar or not). -/
theorem filter_equiv_marks_eq (numOf : String → Option Int) (t : Trav) (k : String) (a : JV) (n : Bool)
    (hd : keyDefined t k = true) (ha : keyAddressesField k = true) :
    mEval (mongoRes t) (convert (.cond k .eq a) n) = some (evalBy numOf (coreRes t) (.cond k .eq a) != n) ∧
    mEval (mongoRes t) (convert (.cond k .neq a) n) = some (evalBy numOf (coreRes t) (.cond k .neq a) != n) := by
  rw [mark_key_addresses_mark t k hd ha |> fun h => Mark.leaf_congr _ _ k .eq a n h,
      mark_key_addresses_mark t k hd ha |> fun h => Mark.leaf_congr _ _ k .neq a n h]
  cases n <;> simp [convert, convCond, opOf, mEval, evalOp, evalBy, matchesCond]

section markTests
/-- test: a traveler at v1 (x = 1) that marked v2 (x = 2) as `a`. -/
def t0 : Trav :=
  { cur := { gid := "v1", label := "L", data := .obj [("x", .num 1024)] },
    marks := [("a", { gid := "v2", label := "A", data := .obj [("x", .num 2048)] })] }
-- test (evaluation; string splitting does not reduce in the kernel): what the key forms resolve to
#guard nsOf "$a.x" == some "a" && nsOf "$.x" == none && nsOf "x" == none && nsOf "$__current__.x" == none
#guard Path.jsonPathOf "$a.x" == ["data", "x"]
#guard mpath "$a.x" == "marks.a.data.x" && mpath "$a._gid" == "marks.a._id" && mpath "$a._label" == "marks.a.label"
#guard mpath "x" == "data.x" && mpath "$.x" == "data.x" && mpath "_gid" == "_id" && mpathOld "$a.x" == "data.x"
#guard mpath "$a.x" == ".".intercalate (mpathL "$a.x") && mpath "_gid" == ".".intercalate (mpathL "_gid")
#guard mongoRes t0 "$a.x" == .num 2048 && coreRes t0 "$a.x" == .num 2048 && mongoResOld t0 "$a.x" == .num 1024
#guard mongoRes t0 "$a._gid" == .str "v2" && coreRes t0 "$a._gid" == .str "v2" && mongoRes t0 "_gid" == .str "v1"
#guard keyDefined t0 "$a.x" && !keyDefined t0 "$b.x" && keyAddressesField "$a.x" && !keyAddressesField "$a"
-- test: outside the hypothesis (mark b absent) the two sides do differ on `_gid`
#guard coreRes t0 "$b._gid" == .str "" && mongoRes t0 "$b._gid" == .null

/-- test (non-vacuity of `filter_equiv_marks_partial`): hypotheses hold for an expression mixing
    the current element and mark a (given what the two keys resolve to). -/
example (t : Trav) (hx : coreRes t "x" = .num 1024) (hax : coreRes t "$a.x" = .num 2048) :
    agreeW dec (coreRes t) (.and [.cond "$a.x" .gt (.num 1024), .not (.cond "x" .eq (.num 2048))]) = true := by
  simp [agreeW, agreeWList, leafAgreeW, leafAgree, hx, hax, isScalar, isNumJ, notNumText]
end markTests

/-- FROZEN, about convertPath BEFORE the fix (it dropped the namespace): on the traveler `t0`
    (current vertex x = 1, mark a with x = 2) the old filter for `has(eq("$a.x", 1))` —
    `{data.x: {$eq: 1}}` — addresses the CURRENT document and selects it, the core engine compares
    mark a's x = 2 and does not keep it; the repaired field name `marks.a.data.x` agrees with core.
    (`hn`/`hp`: what GetNamespace / GetJSONPath give for "$a.x" — string splitting does not reduce
    in the kernel; both are checked by evaluation in the `#guard`s above.) -/
theorem old_mark_key_addresses_current (numOf : String → Option Int)
    (hn : nsOf "$a.x" = some "a") (hp : Path.jsonPathOf "$a.x" = ["data", "x"]) :
    mEval (mongoResOld t0) (convert (.cond "$a.x" .eq (.num 1024)) false) = some true ∧
    evalBy numOf (coreRes t0) (.cond "$a.x" .eq (.num 1024)) = false ∧
    mEval (mongoRes t0) (convert (.cond "$a.x" .eq (.num 1024)) false) = some false := by
  have hold : mongoResOld t0 "$a.x" = .num 1024 := by
    simp [mongoResOld, mpathOldL, basePath, hp, mongoGet, pipeDoc, mongoFields, t0, JV.getPath?, JV.member]
  have hnew : mongoRes t0 "$a.x" = .num 2048 := by
    simp [mongoRes, mpathL, hn, basePath, hp, mongoGet, pipeDoc, mongoFields, t0, JV.getPath?, JV.member]
  have hcore : coreRes t0 "$a.x" = .num 2048 := by
    simp [coreRes, hn, t0, List.lookup, lookup, Path.lookupDoc, hp, Path.toDict, JV.getPath?, JV.member]
  refine ⟨?_, ?_, ?_⟩
  · simp [convert, convCond, opOf, mEval, evalOp, hold]
  · simp [evalBy, matchesCond, hcore]
  · simp [convert, convCond, opOf, mEval, evalOp, hnew]

/-! ### Non-vacuity -/
section examples
example : leafAgree dec (.num 2048) .gt (.num 1024) = true := by decide
example : leafAgree dec (.str "abc") .gt (.num 1024) = true := by decide
example : leafAgree dec (.str "30") .gt (.num 1024) = false := by decide
example : leafAgree dec .null .within (.arr [.null, .num 1024]) = true := by decide
example : leafAgree dec .null .within (.num 1024) = true := by decide
example : leafAgree dec (.num 1024) .contains (.num 1024) = true := by decide
example : leafAgree dec (.arr [.num 1024]) .contains (.num 1024) = false ∧
    leafAgreeW dec (.arr [.num 1024]) .contains (.num 1024) = true := by decide
example : leafAgree dec (.num 2048) .between (.arr [.num 1024, .num 3072]) = true := by decide
example : leafTranslatable .inside (.arr []) = true := by decide
example : Lemmas.okArg .vertex (.marks .one .edge) = true := by decide
example : aggsTyped [{ kind := .v }, { kind := .aggregate, list := ["n"] }] = true := by decide
example : definedFrom [] [{ kind := .v }, { kind := .as_, name := "a" }, { kind := .select, list := ["a"] }] = true := by
  simp [definedFrom]
end examples

end Grip.Props.C14
