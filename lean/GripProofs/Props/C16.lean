/-
  Property C16 — accepted identifiers and values are stored verbatim or rejected.

  Layer 2 of the storage model (DESIGN.md §4.3): the key bytes `C03.encode` are injective,
  parseable by the Go `*KeyParse` functions and prefix-faithful exactly on keys whose components
  are free of the separator byte; what the (repaired) write path accepts is separator-free; the
  structured filters of C03's model are the byte-prefix scans of the Go code.
-/
import GripProofs.Lemmas.C16

set_option linter.unusedSimpArgs false

namespace Grip.Props.C16
open Grip Grip.C03 Grip.C16 Grip.Props.C16.Lemmas

/-! ### injectivity and parsing -/

private theorem comps_ne_nil (k : SKey) : comps k ≠ [] := by cases k <;> simp [comps]

private theorem comps_inj {k k' : SKey} (h : comps k = comps k') : k = k' := by
  cases k <;> cases k' <;> simp [comps] at h ⊢ <;> first | exact h | simp_all

/-- Keys of separator-free components are distinct as bytes. -/
theorem encode_inj {k k' : SKey} (hk : NulFree k) (hk' : NulFree k') (h : encode k = encode k') : k = k' := by
  rw [encode_comps, encode_comps] at h
  have := congrArg splitNul h
  rw [splitNul_joinNul _ (comps_ne_nil k) hk, splitNul_joinNul _ (comps_ne_nil k') hk'] at this
  exact comps_inj this

/-- The Go `*KeyParse` functions (through `parse`) recover every separator-free key. -/
theorem parse_encode {k : SKey} (hk : NulFree k) : parse (encode k) = some k := by
  rw [encode_comps]
  cases k with
  | vertex g id =>
    have h := splitNul_joinNul _ (comps_ne_nil _) hk
    simp only [comps, edgeSingle] at h hk
    simp only [comps, parse, joinNul, List.cons_append, List.nil_append, vertexKeyParse]
    simp only [joinNul, List.cons_append, List.nil_append] at h
    simp [h, strOf_utf8]
  | edge g eid s d l =>
    have h := splitNul_joinNul _ (comps_ne_nil _) hk
    simp only [comps, edgeSingle] at h hk
    simp only [comps, edgeSingle, parse, joinNul, List.cons_append, List.nil_append, edgeKeyParse, sixParse]
    simp only [joinNul, List.cons_append, List.nil_append] at h
    simp [h, strOf_utf8, edgeSingle]
  | src g s d eid l =>
    have h := splitNul_joinNul _ (comps_ne_nil _) hk
    simp only [comps, edgeSingle] at h hk
    simp only [comps, edgeSingle, parse, joinNul, List.cons_append, List.nil_append, srcEdgeKeyParse, sixParse]
    simp only [joinNul, List.cons_append, List.nil_append] at h
    simp [h, strOf_utf8, edgeSingle]
  | dst g d s eid l =>
    have h := splitNul_joinNul _ (comps_ne_nil _) hk
    simp only [comps, edgeSingle] at h hk
    simp only [comps, edgeSingle, parse, joinNul, List.cons_append, List.nil_append, dstEdgeKeyParse, sixParse]
    simp only [joinNul, List.cons_append, List.nil_append] at h
    simp [h, strOf_utf8, edgeSingle]
  | graph g =>
    have h := splitNul_joinNul _ (comps_ne_nil _) hk
    simp only [comps, edgeSingle] at h hk
    simp only [comps, parse, joinNul, List.cons_append, List.nil_append, graphKeyParse]
    simp only [joinNul, List.cons_append, List.nil_append] at h
    simp [h, strOf_utf8]
  | field f =>
    have h := splitNul_joinNul _ (comps_ne_nil _) hk
    simp only [comps, edgeSingle] at h hk
    simp only [comps, parse, joinNul, List.cons_append, List.nil_append, fieldKeyParse]
    simp only [joinNul, List.cons_append, List.nil_append] at h
    simp [h, strOf_utf8]
  | doc d =>
    have h := splitNul_joinNul _ (comps_ne_nil _) hk
    simp only [comps, edgeSingle] at h hk
    simp only [comps, parse, joinNul, List.cons_append, List.nil_append]
    simp only [joinNul, List.cons_append, List.nil_append] at h
    simp [h, strOf_utf8]
  | term f t =>
    have hf : (0 : UInt8) ∉ utf8 f := hk _ (by simp [comps])
    have h1 : (0 : UInt8) ∉ ([116] : Bytes) := by decide
    have h2 : (0 : UInt8) ∉ ([termString] : Bytes) := by decide
    have h : splitNulN 4 (joinNul (comps (.term f t))) = [[116], utf8 f, [termString], utf8 t] := by
      simp only [comps, joinNul_cons₂]
      rw [splitNulN_append 2 _ _ h1, splitNulN_append 1 _ _ hf, splitNulN_append 0 _ _ h2]
      simp [joinNul, splitNulN]
    have h0 : joinNul (comps (.term f t)) = 116 :: 0 :: joinNul [utf8 f, [termString], utf8 t] := by
      simp [comps, joinNul]
    rw [h0] at h ⊢
    simp only [parse, termKeyParse, h]
    simp [strOf_utf8, termString]
  | entry f t doc =>
    have hf : (0 : UInt8) ∉ utf8 f := hk _ (by simp [comps])
    have ht : (0 : UInt8) ∉ utf8 t := hk _ (by simp [comps])
    have hd : (0 : UInt8) ∉ utf8 doc := hk _ (by simp [comps])
    have h1 : (0 : UInt8) ∉ ([105] : Bytes) := by decide
    have h2 : (0 : UInt8) ∉ ([termString] : Bytes) := by decide
    have h : splitNulN 4 (joinNul (comps (.entry f t doc))) = [[105], utf8 f, [termString], utf8 t ++ 0 :: utf8 doc] := by
      simp only [comps, joinNul_cons₂]
      rw [splitNulN_append 2 _ _ h1, splitNulN_append 1 _ _ hf, splitNulN_append 0 _ _ h2]
      simp [joinNul, splitNulN]
    have hs : splitNul (utf8 t ++ 0 :: utf8 doc) = [utf8 t, utf8 doc] := by
      rw [splitNul_append _ _ ht, splitNul_single _ hd]
    have h0 : joinNul (comps (.entry f t doc)) = 105 :: 0 :: joinNul [utf8 f, [termString], utf8 t, utf8 doc] := by
      simp [comps, joinNul]
    rw [h0] at h ⊢
    simp only [parse, entryKeyParse, h]
    simp [hs, strOf_utf8, termString]

/-! ### prefix faithfulness: byte-prefix scans = structured patterns -/

/-- VertexListPrefix(g) selects exactly the vertex keys of graph g (graph "a" does not see graph "ab"). -/
theorem vertexListPrefix_faithful (g : String) (k : SKey) (hg : (0 : UInt8) ∉ utf8 g) (hk : NulFree k) :
    vertexListPrefix g <+: encode k ↔ patVertexList g k = true := by
  have hp : ∀ p ∈ ([[118], utf8 g] : List Bytes), (0 : UInt8) ∉ p := by
    intro p hp; simp at hp; rcases hp with rfl|rfl <;> first | assumption | decide
  have := prefix_faithful [[118], utf8 g] (comps k) (by simp) hp hk
  rw [encode_comps]
  show joinNul ([[118], utf8 g] ++ [[]]) <+: _ ↔ _
  rw [this]
  cases k <;> simp [comps, patVertexList, List.cons_prefix_cons, edgeSingle, termString]
  all_goals (first | omega | (constructor <;> (intro h; simp_all)) | simp_all)

/-- EdgeListPrefix(g) selects exactly the edge keys of graph g. -/
theorem edgeListPrefix_faithful (g : String) (k : SKey) (hg : (0 : UInt8) ∉ utf8 g) (hk : NulFree k) :
    edgeListPrefix g <+: encode k ↔ patEdgeList g k = true := by
  have hp : ∀ p ∈ ([[101], utf8 g] : List Bytes), (0 : UInt8) ∉ p := by
    intro p hp; simp at hp; rcases hp with rfl|rfl <;> first | assumption | decide
  have := prefix_faithful [[101], utf8 g] (comps k) (by simp) hp hk
  rw [encode_comps]
  show joinNul ([[101], utf8 g] ++ [[]]) <+: _ ↔ _
  rw [this]
  cases k <;> simp [comps, patEdgeList, List.cons_prefix_cons, edgeSingle, termString]
  all_goals (first | omega | (constructor <;> (intro h; simp_all)) | simp_all)

/-- EdgeKeyPrefix(g, eid) selects exactly the edge records with id eid in graph g. -/
theorem edgeKeyPrefix_faithful (g eid : String) (k : SKey) (hg : (0 : UInt8) ∉ utf8 g) (heid : (0 : UInt8) ∉ utf8 eid) (hk : NulFree k) :
    edgeKeyPrefix g eid <+: encode k ↔ patEdgeKey g eid k = true := by
  have hp : ∀ p ∈ ([[101], utf8 g, utf8 eid] : List Bytes), (0 : UInt8) ∉ p := by
    intro p hp; simp at hp; rcases hp with rfl|rfl|rfl <;> first | assumption | decide
  have := prefix_faithful [[101], utf8 g, utf8 eid] (comps k) (by simp) hp hk
  rw [encode_comps]
  show joinNul ([[101], utf8 g, utf8 eid] ++ [[]]) <+: _ ↔ _
  rw [this]
  cases k <;> simp [comps, patEdgeKey, List.cons_prefix_cons, edgeSingle, termString]
  all_goals (first | omega | (constructor <;> (intro h; simp_all)) | simp_all)

/-- SrcEdgeListPrefix(g) selects exactly the by-source entries of graph g. -/
theorem srcEdgeListPrefix_faithful (g : String) (k : SKey) (hg : (0 : UInt8) ∉ utf8 g) (hk : NulFree k) :
    srcEdgeListPrefix g <+: encode k ↔ patSrcList g k = true := by
  have hp : ∀ p ∈ ([[115], utf8 g] : List Bytes), (0 : UInt8) ∉ p := by
    intro p hp; simp at hp; rcases hp with rfl|rfl <;> first | assumption | decide
  have := prefix_faithful [[115], utf8 g] (comps k) (by simp) hp hk
  rw [encode_comps]
  show joinNul ([[115], utf8 g] ++ [[]]) <+: _ ↔ _
  rw [this]
  cases k <;> simp [comps, patSrcList, List.cons_prefix_cons, edgeSingle, termString]
  all_goals (first | omega | (constructor <;> (intro h; simp_all)) | simp_all)

/-- DstEdgeListPrefix(g) selects exactly the by-destination entries of graph g. -/
theorem dstEdgeListPrefix_faithful (g : String) (k : SKey) (hg : (0 : UInt8) ∉ utf8 g) (hk : NulFree k) :
    dstEdgeListPrefix g <+: encode k ↔ patDstList g k = true := by
  have hp : ∀ p ∈ ([[100], utf8 g] : List Bytes), (0 : UInt8) ∉ p := by
    intro p hp; simp at hp; rcases hp with rfl|rfl <;> first | assumption | decide
  have := prefix_faithful [[100], utf8 g] (comps k) (by simp) hp hk
  rw [encode_comps]
  show joinNul ([[100], utf8 g] ++ [[]]) <+: _ ↔ _
  rw [this]
  cases k <;> simp [comps, patDstList, List.cons_prefix_cons, edgeSingle, termString]
  all_goals (first | omega | (constructor <;> (intro h; simp_all)) | simp_all)

/-- SrcEdgePrefix(g, id) selects exactly the out-edges of vertex id (vertex "a" does not see vertex "ab"). -/
theorem srcEdgePrefix_faithful (g id : String) (k : SKey) (hg : (0 : UInt8) ∉ utf8 g) (hid : (0 : UInt8) ∉ utf8 id) (hk : NulFree k) :
    srcEdgePrefix g id <+: encode k ↔ patSrc g id k = true := by
  have hp : ∀ p ∈ ([[115], utf8 g, utf8 id] : List Bytes), (0 : UInt8) ∉ p := by
    intro p hp; simp at hp; rcases hp with rfl|rfl|rfl <;> first | assumption | decide
  have := prefix_faithful [[115], utf8 g, utf8 id] (comps k) (by simp) hp hk
  rw [encode_comps]
  show joinNul ([[115], utf8 g, utf8 id] ++ [[]]) <+: _ ↔ _
  rw [this]
  cases k <;> simp [comps, patSrc, List.cons_prefix_cons, edgeSingle, termString]
  all_goals (first | omega | (constructor <;> (intro h; simp_all)) | simp_all)

/-- DstEdgePrefix(g, id) selects exactly the in-edges of vertex id. -/
theorem dstEdgePrefix_faithful (g id : String) (k : SKey) (hg : (0 : UInt8) ∉ utf8 g) (hid : (0 : UInt8) ∉ utf8 id) (hk : NulFree k) :
    dstEdgePrefix g id <+: encode k ↔ patDst g id k = true := by
  have hp : ∀ p ∈ ([[100], utf8 g, utf8 id] : List Bytes), (0 : UInt8) ∉ p := by
    intro p hp; simp at hp; rcases hp with rfl|rfl|rfl <;> first | assumption | decide
  have := prefix_faithful [[100], utf8 g, utf8 id] (comps k) (by simp) hp hk
  rw [encode_comps]
  show joinNul ([[100], utf8 g, utf8 id] ++ [[]]) <+: _ ↔ _
  rw [this]
  cases k <;> simp [comps, patDst, List.cons_prefix_cons, edgeSingle, termString]
  all_goals (first | omega | (constructor <;> (intro h; simp_all)) | simp_all)

/-- SrcEdgeKeyPrefix selects exactly the by-source entries of one edge. -/
theorem srcEdgeKeyPrefix_faithful (g s d eid : String) (k : SKey) (hg : (0 : UInt8) ∉ utf8 g) (hs : (0 : UInt8) ∉ utf8 s) (hd : (0 : UInt8) ∉ utf8 d) (heid : (0 : UInt8) ∉ utf8 eid) (hk : NulFree k) :
    srcEdgeKeyPrefix g s d eid <+: encode k ↔ patSrcKey g s d eid k = true := by
  have hp : ∀ p ∈ ([[115], utf8 g, utf8 s, utf8 d, utf8 eid] : List Bytes), (0 : UInt8) ∉ p := by
    intro p hp; simp at hp; rcases hp with rfl|rfl|rfl|rfl|rfl <;> first | assumption | decide
  have := prefix_faithful [[115], utf8 g, utf8 s, utf8 d, utf8 eid] (comps k) (by simp) hp hk
  rw [encode_comps]
  show joinNul ([[115], utf8 g, utf8 s, utf8 d, utf8 eid] ++ [[]]) <+: _ ↔ _
  rw [this]
  cases k <;> simp [comps, patSrcKey, List.cons_prefix_cons, edgeSingle, termString]
  all_goals (first | omega | (constructor <;> (intro h; simp_all)) | simp_all)

/-- DstEdgeKeyPrefix selects exactly the by-destination entries of one edge. -/
theorem dstEdgeKeyPrefix_faithful (g s d eid : String) (k : SKey) (hg : (0 : UInt8) ∉ utf8 g) (hs : (0 : UInt8) ∉ utf8 s) (hd : (0 : UInt8) ∉ utf8 d) (heid : (0 : UInt8) ∉ utf8 eid) (hk : NulFree k) :
    dstEdgeKeyPrefix g s d eid <+: encode k ↔ patDstKey g s d eid k = true := by
  have hp : ∀ p ∈ ([[100], utf8 g, utf8 d, utf8 s, utf8 eid] : List Bytes), (0 : UInt8) ∉ p := by
    intro p hp; simp at hp; rcases hp with rfl|rfl|rfl|rfl|rfl <;> first | assumption | decide
  have := prefix_faithful [[100], utf8 g, utf8 d, utf8 s, utf8 eid] (comps k) (by simp) hp hk
  rw [encode_comps]
  show joinNul ([[100], utf8 g, utf8 d, utf8 s, utf8 eid] ++ [[]]) <+: _ ↔ _
  rw [this]
  cases k <;> simp [comps, patDstKey, List.cons_prefix_cons, edgeSingle, termString]
  all_goals (first | omega | (constructor <;> (intro h; simp_all)) | simp_all)

/-- kvindex TermPrefix(field) selects exactly the term keys of the field. -/
theorem termPrefix_faithful (f : String) (k : SKey) (hf : (0 : UInt8) ∉ utf8 f) (hk : NulFree k) :
    termPrefix f <+: encode k ↔ patTerm f k = true := by
  have hp : ∀ p ∈ ([[116], utf8 f] : List Bytes), (0 : UInt8) ∉ p := by
    intro p hp; simp at hp; rcases hp with rfl|rfl <;> first | assumption | decide
  have := prefix_faithful [[116], utf8 f] (comps k) (by simp) hp hk
  rw [encode_comps]
  show joinNul ([[116], utf8 f] ++ [[]]) <+: _ ↔ _
  rw [this]
  cases k <;> simp [comps, patTerm, List.cons_prefix_cons, edgeSingle, termString]
  all_goals (first | omega | (constructor <;> (intro h; simp_all)) | simp_all)

/-- kvindex EntryPrefix(field) selects exactly the entry keys of the field. -/
theorem entryPrefix_faithful (f : String) (k : SKey) (hf : (0 : UInt8) ∉ utf8 f) (hk : NulFree k) :
    entryPrefix f <+: encode k ↔ patEntry f k = true := by
  have hp : ∀ p ∈ ([[105], utf8 f] : List Bytes), (0 : UInt8) ∉ p := by
    intro p hp; simp at hp; rcases hp with rfl|rfl <;> first | assumption | decide
  have := prefix_faithful [[105], utf8 f] (comps k) (by simp) hp hk
  rw [encode_comps]
  show joinNul ([[105], utf8 f] ++ [[]]) <+: _ ↔ _
  rw [this]
  cases k <;> simp [comps, patEntry, List.cons_prefix_cons, edgeSingle, termString]
  all_goals (first | omega | (constructor <;> (intro h; simp_all)) | simp_all)

/-- kvindex EntryValuePrefix(field, string term) selects exactly the entries of that term. -/
theorem entryValuePrefix_faithful (f t : String) (k : SKey) (hf : (0 : UInt8) ∉ utf8 f) (ht : (0 : UInt8) ∉ utf8 t) (hk : NulFree k) :
    entryValuePrefix f t <+: encode k ↔ patEntryValue f t k = true := by
  have hp : ∀ p ∈ ([[105], utf8 f, [termString], utf8 t] : List Bytes), (0 : UInt8) ∉ p := by
    intro p hp; simp at hp; rcases hp with rfl|rfl|rfl|rfl <;> first | assumption | decide
  have := prefix_faithful [[105], utf8 f, [termString], utf8 t] (comps k) (by simp) hp hk
  rw [encode_comps]
  show joinNul ([[105], utf8 f, [termString], utf8 t] ++ [[]]) <+: _ ↔ _
  rw [this]
  cases k <;> simp [comps, patEntryValue, List.cons_prefix_cons, edgeSingle, termString]
  all_goals (first | omega | (constructor <;> (intro h; simp_all)) | simp_all)

/-- kvindex TermTypePrefix(field, TermString) selects exactly the (string) term keys of the field. -/
theorem termTypePrefix_faithful (f : String) (k : SKey) (hf : (0 : UInt8) ∉ utf8 f) (hk : NulFree k) :
    termTypePrefix f <+: encode k ↔ patTerm f k = true := by
  have hp : ∀ p ∈ ([[116], utf8 f, [termString]] : List Bytes), (0 : UInt8) ∉ p := by
    intro p hp; simp at hp; rcases hp with rfl|rfl|rfl <;> first | assumption | decide
  have := prefix_faithful [[116], utf8 f, [termString]] (comps k) (by simp) hp hk
  rw [encode_comps]
  show joinNul ([[116], utf8 f, [termString]] ++ [[]]) <+: _ ↔ _
  rw [this]
  cases k <;> simp [comps, patTerm, List.cons_prefix_cons, edgeSingle, termString]
  all_goals (first | omega | (constructor <;> (intro h; simp_all)) | simp_all)

/-- kvindex EntryTypePrefix(field, TermString) selects exactly the (string) entry keys of the field. -/
theorem entryTypePrefix_faithful (f : String) (k : SKey) (hf : (0 : UInt8) ∉ utf8 f) (hk : NulFree k) :
    entryTypePrefix f <+: encode k ↔ patEntry f k = true := by
  have hp : ∀ p ∈ ([[105], utf8 f, [termString]] : List Bytes), (0 : UInt8) ∉ p := by
    intro p hp; simp at hp; rcases hp with rfl|rfl|rfl <;> first | assumption | decide
  have := prefix_faithful [[105], utf8 f, [termString]] (comps k) (by simp) hp hk
  rw [encode_comps]
  show joinNul ([[105], utf8 f, [termString]] ++ [[]]) <+: _ ↔ _
  rw [this]
  cases k <;> simp [comps, patEntry, List.cons_prefix_cons, edgeSingle, termString]
  all_goals (first | omega | (constructor <;> (intro h; simp_all)) | simp_all)

/-- GraphPrefix() = "g" (no separator needed: the family letter is the whole prefix). -/
theorem graphPrefix_faithful (k : SKey) : graphPrefix <+: encode k ↔ patGraph k = true := by
  rw [encode_comps]
  cases k <;> simp [comps, joinNul, graphPrefix, patGraph, List.cons_prefix_cons]

/-- FieldPrefix() = "f". -/
theorem fieldPrefix_faithful (k : SKey) : fieldPrefix <+: encode k ↔ patField k = true := by
  rw [encode_comps]
  cases k <;> simp [comps, joinNul, fieldPrefix, patField, List.cons_prefix_cons]

/-! ### the converse: with a separator byte inside a component every one of these fails -/

/-- Injectivity fails: vertex "b\x00c" of graph "a" and vertex "c" of graph "a\x00b" share one key. -/
theorem nul_breaks_inj :
    encode (.vertex "a" "b\x00c") = encode (.vertex "a\x00b" "c") ∧ SKey.vertex "a" "b\x00c" ≠ .vertex "a\x00b" "c" := by
  rw [encode_comps, encode_comps]; decide

/-- Parsing fails: the key of vertex "a\x00b" parses as vertex "a" (another element appears). -/
theorem nul_breaks_parse :
    vertexKeyParse (encode (.vertex "g" "a\x00b")) = some ("g", "a") ∧ parse (encode (.vertex "g" "a\x00b")) = some (.vertex "g" "a") := by
  have h : encode (.vertex "g" "a\x00b") = joinNul [[118], utf8 "g", utf8 "a", utf8 "b"] := by rw [encode_comps]; decide
  have hs := splitNul_joinNul [[118], utf8 "g", utf8 "a", utf8 "b"] (by simp) (by decide)
  rw [h]
  constructor
  · simp [vertexKeyParse, hs, strOf_utf8]
  · have h0 : joinNul [[118], utf8 "g", utf8 "a", utf8 "b"] = 118 :: 0 :: joinNul [utf8 "g", utf8 "a", utf8 "b"] := by decide
    rw [h0] at hs ⊢
    simp [parse, vertexKeyParse, hs, strOf_utf8]

/-- An edge label ending in the separator leaves EdgeKeyParse without its type byte: the Go code
    indexes an empty slice (index out of range inside the listing goroutine). -/
theorem nul_breaks_edge_parse : edgeKeyParse (encode (.edge "g" "e" "a" "b" "L\x00")) = none := by
  have h : encode (.edge "g" "e" "a" "b" "L\x00") = joinNul [[101], utf8 "g", utf8 "e", utf8 "a", utf8 "b", utf8 "L", [], [1]] := by
    rw [encode_comps]; decide
  have hs := splitNul_joinNul [[101], utf8 "g", utf8 "e", utf8 "a", utf8 "b", utf8 "L", [], [1]] (by simp) (by decide)
  simp [edgeKeyParse, sixParse, h, hs]

/-- Prefix faithfulness fails: graph "a" sees the vertices of graph "a\x00b". -/
theorem nul_breaks_prefix :
    vertexListPrefix "a" <+: encode (.vertex "a\x00b" "c") ∧ patVertexList "a" (.vertex "a\x00b" "c") = false := by
  rw [encode_comps]; decide

/-- … and a delete addressed at "b\x00c" scans the edges from b to c (DelVertex before the fix). -/
theorem nul_breaks_delete_prefix :
    srcEdgePrefix "a" "b\x00c" <+: encode (.src "a" "b" "c" "e1" "L") ∧ patSrc "a" "b\x00c" (.src "a" "b" "c" "e1" "L") = false := by
  rw [encode_comps]; decide

/-- Without the trailing separator the prefixes would not be faithful even on clean names:
    "v|a" is a byte prefix of the key of a vertex of graph "ab". -/
theorem trailing_separator_needed :
    joinNul [[118], utf8 "a"] <+: encode (.vertex "ab" "x") ∧ patVertexList "a" (.vertex "ab" "x") = false := by
  rw [encode_comps]; decide

/-! ### what the write path accepts -/

/-- gripql validation as it was (C03's `validVertex`, `validName`): identifiers with the separator pass. -/
theorem validate_gap :
    ∃ v : VertexIn, validVertex v = true ∧ ¬ NulFree (.vertex "g" v.gid) := by
  refine ⟨⟨"a\x00b", "L", .obj []⟩, by decide, ?_⟩
  intro h
  exact absurd (h (utf8 "a\x00b") (by simp [comps])) (by decide)

private theorem noNul_iff (s : String) : noNul s = true ↔ (0 : UInt8) ∉ utf8 s := by
  simp [noNul, hasNul]

private theorem labelField_nulFree {g kind : String} (hg : (0 : UInt8) ∉ utf8 g) (hk : (0 : UInt8) ∉ utf8 kind) :
    (0 : UInt8) ∉ utf8 (labelField g kind) := by
  have h1 : (0 : UInt8) ∉ utf8 "." := by decide
  have h2 : (0 : UInt8) ∉ utf8 ".label" := by decide
  simp [labelField, utf8_append, hg, hk, h1, h2]

/-- Every key written for a vertex the repaired write path accepts is separator-free. -/
theorem accepted_vertex_nulFree {g : String} {v : VertexIn} (hg : validName16 g = true) (hv : validVertex16 v = true) :
    NulFree (.vertex g v.gid) ∧ NulFree (.entry (labelField g "v") v.label v.gid) ∧
    NulFree (.term (labelField g "v") v.label) ∧ NulFree (.doc v.gid) := by
  simp only [validName16, validVertex16, Bool.and_eq_true, noNul_iff] at hg hv
  obtain ⟨⟨⟨⟨_, hid⟩, _⟩, hl⟩, _⟩ := hv
  have hf := labelField_nulFree hg.1 (by decide : (0 : UInt8) ∉ utf8 "v")
  refine ⟨?_, ?_, ?_, ?_⟩ <;> intro c hc <;> simp [comps] at hc <;>
    rcases hc with rfl | rfl | rfl | rfl | rfl <;> first | assumption | exact hg.1 | decide

/-- Every key written for an edge the repaired write path accepts is separator-free. -/
theorem accepted_edge_nulFree {g : String} {e : EdgeIn} (hg : validName16 g = true) (he : validEdge16 e = true) :
    NulFree (.edge g e.gid e.frm e.to e.label) ∧ NulFree (.src g e.frm e.to e.gid e.label) ∧
    NulFree (.dst g e.to e.frm e.gid e.label) ∧ NulFree (.entry (labelField g "e") e.label e.gid) ∧
    NulFree (.term (labelField g "e") e.label) ∧ NulFree (.doc e.gid) := by
  simp only [validName16, validEdge16, Bool.and_eq_true, noNul_iff] at hg he
  obtain ⟨⟨⟨⟨⟨⟨⟨⟨_, hid⟩, _⟩, hl⟩, _⟩, hf⟩, _⟩, ht⟩, _⟩ := he
  have hfl := labelField_nulFree hg.1 (by decide : (0 : UInt8) ∉ utf8 "e")
  refine ⟨?_, ?_, ?_, ?_, ?_, ?_⟩ <;> intro c hc <;> simp [comps] at hc <;>
    rcases hc with rfl | rfl | rfl | rfl | rfl | rfl | rfl <;> first | assumption | exact hg.1 | decide

/-- The graph key and the two field keys AddGraph writes. -/
theorem accepted_graph_nulFree {g : String} (hg : validName16 g = true) :
    NulFree (.graph g) ∧ NulFree (.field (labelField g "v")) ∧ NulFree (.field (labelField g "e")) := by
  simp only [validName16, Bool.and_eq_true, noNul_iff] at hg
  have h1 := labelField_nulFree hg.1 (by decide : (0 : UInt8) ∉ utf8 "v")
  have h2 := labelField_nulFree hg.1 (by decide : (0 : UInt8) ∉ utf8 "e")
  refine ⟨?_, ?_, ?_⟩ <;> intro c hc <;> simp [comps] at hc <;>
    rcases hc with rfl | rfl <;> first | assumption | exact hg.1 | decide

/-- The repaired validation only ever strengthens the old one (so C03's model, run on sanitised
    batches, is the repaired code). -/
theorem valid16_imp_valid (x : ElemIn) (h : validElem16 x = true) :
    (match x with | .v v => validVertex v | .e e => validEdge e) = true := by
  have hf : ∀ ks : List String, ks.all validFieldName16 = true → ks.all validFieldName = true := by
    intro ks hks
    simp only [List.all_eq_true] at hks ⊢
    intro k hk
    have := hks k hk
    simp only [validFieldName16, validName16, validFieldName, Bool.and_eq_true] at this ⊢
    exact ⟨this.1, this.2.2⟩
  cases x with
  | v v =>
    simp only [validElem16, validVertex16, Bool.and_eq_true] at h
    simp only [validVertex, Bool.and_eq_true]
    exact ⟨⟨h.1.1.1.1, h.1.1.2⟩, hf _ h.2⟩
  | e e =>
    simp only [validElem16, validEdge16, Bool.and_eq_true] at h
    simp only [validEdge, Bool.and_eq_true]
    exact ⟨⟨⟨⟨h.1.1.1.1.1.1.1.1, h.1.1.1.1.1.1.2⟩, h.1.1.1.1.2⟩, h.1.1.2⟩, hf _ h.2⟩

example : validVertex16 ⟨"a b|c/日本", "label", .obj []⟩ = true := by decide
example : validVertex16 ⟨"a\x00b", "L", .obj []⟩ = false := by decide
example : validName16 "a\x00b" = false := by decide

/-! ### accepted ⇒ verbatim, nothing else changes; rejected ⇒ nothing changes -/

/-- insertVertex on an accepted vertex: lookup returns it verbatim and no other vertex, of this or of
    any other graph, changes (C03's structured-key model of kvgraph.insertVertex + AddDocTx). -/
theorem accepted_vertex_roundtrip (fields : List String) (m : KV) (g : String) (v : VertexIn)
    (hv : validVertex16 v = true) :
    let r := insertElem fields m g (sanitize (.v v))
    r.2 = true ∧ getVertex r.1 g v.gid = some ⟨v.gid, v.label, storedData v.data⟩ ∧
    ∀ g' id', (g', id') ≠ (g, v.gid) → getVertex r.1 g' id' = getVertex m g' id' := by
  have hs : sanitize (.v v) = .v v := by simp [sanitize, validElem16, hv]
  have hv0 : validVertex v = true := valid16_imp_valid (.v v) (by simpa [validElem16] using hv)
  simp only [hs, insertElem, insertVertex, hv0, storedData, ofPV_toPV]
  have key : ∀ (g' id' : String) (m0 : KV),
      (addDoc fields m0 g "v" v.label v.gid).get (.vertex g' id') = m0.get (.vertex g' id') := by
    intro g' id' m0
    unfold addDoc
    split <;> simp [get_set_ne]
  refine ⟨by simp, ?_, ?_⟩
  · simp [getVertex, key, get_set_eq]
  · intro g' id' hne
    have : SKey.vertex g' id' ≠ SKey.vertex g v.gid := by
      intro e; injection e with e1 e2; exact hne (by rw [e1, e2])
    simp [getVertex, key, get_set_ne _ _ _ _ this]

/-- A vertex the repaired validation refuses is reported as an error and leaves the store unchanged. -/
theorem rejected_elem_unchanged (fields : List String) (m : KV) (g : String) (x : ElemIn)
    (hx : validElem16 x = false) : insertElem fields m g (sanitize x) = (m, false) := by
  simp [sanitize, hx, refused, insertElem, insertVertex, validVertex]

/-- Identifier refused by a delete / graph call of the repaired code: error, state unchanged. -/
theorem rejected_call_unchanged (s : KState) (g id : String) :
    (validName16 g = false → step16 s (.addGraph g) = (s, .err)) ∧
    (noNul g = false → step16 s (.delGraph g) = (s, .err)) ∧
    (noNul id = false → step16 s (.delV g id) = (s, .err)) ∧
    (noNul id = false → step16 s (.delE g id) = (s, .err)) := by
  refine ⟨?_, ?_, ?_, ?_⟩ <;> intro h <;> simp [step16, h]

/-- Property values: the protobuf Struct conversion on the write path followed by AsMap on the read
    path is the identity on JSON values (finite numbers; see finding C16-nonfinite-number). -/
theorem struct_roundtrip (d : JV) : storedData d = d := ofPV_toPV d

/-! ### what this buys C03: its structured filters are the Go code's byte-prefix scans -/

private theorem bool_eq_of_iff {a b : Bool} (h : a = true ↔ b = true) : a = b := by
  cases a <;> cases b <;> simp_all

/-- On a store whose keys are separator-free, scanning with `bytes.HasPrefix(key, VertexListPrefix(g))`
    selects exactly the entries C03's `vertexList`/`delGraph` select structurally. -/
theorem scan_vertexList_faithful (m : KV) (g : String) (hg : (0 : UInt8) ∉ utf8 g)
    (hm : ∀ p ∈ m, NulFree p.1) :
    m.filter (fun p => hasPrefix (vertexListPrefix g) (encode p.1)) = m.filter (fun p => patVertexList g p.1) := by
  apply List.filter_congr
  intro p hp
  have := vertexListPrefix_faithful g p.1 hg (hm p hp)
  apply bool_eq_of_iff
  rw [hasPrefix, List.isPrefixOf_iff_prefix]
  exact this

/-- Same for the out-edge scan of one vertex (GetOutChannel, DelVertex). -/
theorem scan_srcEdge_faithful (m : KV) (g id : String) (hg : (0 : UInt8) ∉ utf8 g) (hid : (0 : UInt8) ∉ utf8 id)
    (hm : ∀ p ∈ m, NulFree p.1) :
    m.filter (fun p => hasPrefix (srcEdgePrefix g id) (encode p.1)) = m.filter (fun p => patSrc g id p.1) := by
  apply List.filter_congr
  intro p hp
  have := srcEdgePrefix_faithful g id p.1 hg hid (hm p hp)
  apply bool_eq_of_iff
  rw [hasPrefix, List.isPrefixOf_iff_prefix]
  exact this

/-- Same for the edge lookup by id (GetEdge, DelEdge). -/
theorem scan_edgeKey_faithful (m : KV) (g eid : String) (hg : (0 : UInt8) ∉ utf8 g) (he : (0 : UInt8) ∉ utf8 eid)
    (hm : ∀ p ∈ m, NulFree p.1) :
    m.filter (fun p => hasPrefix (edgeKeyPrefix g eid) (encode p.1)) = m.filter (fun p => patEdgeKey g eid p.1) := by
  apply List.filter_congr
  intro p hp
  have := edgeKeyPrefix_faithful g eid p.1 hg he (hm p hp)
  apply bool_eq_of_iff
  rw [hasPrefix, List.isPrefixOf_iff_prefix]
  exact this

/-- Same for the label index lookup (VertexLabelScan → GetTermMatch). -/
theorem scan_entryValue_faithful (m : KV) (f t : String) (hf : (0 : UInt8) ∉ utf8 f) (ht : (0 : UInt8) ∉ utf8 t)
    (hm : ∀ p ∈ m, NulFree p.1) :
    m.filter (fun p => hasPrefix (entryValuePrefix f t) (encode p.1)) = m.filter (fun p => patEntryValue f t p.1) := by
  apply List.filter_congr
  intro p hp
  have := entryValuePrefix_faithful f t p.1 hf ht (hm p hp)
  apply bool_eq_of_iff
  rw [hasPrefix, List.isPrefixOf_iff_prefix]
  exact this

example : NulFree (.vertex "a" "ab") := by intro c hc; simp [comps] at hc; rcases hc with rfl | rfl | rfl <;> decide

end Grip.Props.C16
