/-
  Props.C03 — kvgraph (MODEL `Grip.C03.step`) refines the abstract last-write-wins graph store
  (SPEC `Grip.C03.Spec.specStep`), for every history of operations.

  The refinement relation `Refines` and the side condition `NoReadd` are defined in
  `GripProofs/Lemmas/C03Defs.lean`.  `Refines s a` says: graph keys ↔ `a.graphs`; vertex keys ↔
  `a.getV` (label and data); edge records ↔ `a.getE` (at most one record per edge id, key
  components = from/to/label of the record); every src/dst key ↔ an edge record; no duplicate
  keys; stamps and clock equal; label fields of existing graphs registered; every live element has
  its label-index entry and term key (the index may hold stale extras: the reads filter them).

  Open finding C03-edge-readd: re-adding a live edge id with different endpoints or label leaves
  two edge records in kvgraph (and in the MODEL).  The full-strength refinement is therefore false;
  it is proved as `…_partial` under the decidable side condition `NoReadd`, and its negation is
  proved on the concrete witness history (`edge_readd_witness`).
-/
import Grip.Model.C03
import Grip.Spec.C03
import GripProofs.Lemmas.C03Del

namespace Grip.Props.C03
open Grip Grip.C03 Grip.C03.Spec

/-- The empty store represents the empty abstract graph store. -/
theorem refines_init : Refines {} {} := by
  refine ⟨?_, rfl, rfl, by simp⟩
  constructor <;> simp [Lemmas.KeysNodup, KV.get, AG.getV, AG.getE, edgeAt]

/-- One operation.  PARTIAL: holds under `NoReadd a op`, which
    (1) excludes the region of the open finding C03-edge-readd (a valid edge of an addE/bulk batch
        re-using the id of a live edge, or of an earlier valid edge of the batch, with different
        from/to/label), where the full statement is false (`edge_readd_witness`); and
    (2) for `addGraph g` with a valid name assumes `GoodName g` (the first dot-component of
        `g.v.label` / `g.e.label` is `g`), a fact about `String.splitOn` on dot-free names that is
        true for every valid name but not proved in Lean.
    What is missing for full strength: (1) a repair of kvgraph's insertEdge, (2) that string lemma. -/
theorem step_refines_partial {s : KState} {a : AG} (h : Refines s a) (op : Op) (hop : NoReadd a op) :
    Refines (step s op).1 (specStep a op).1 ∧ (step s op).2 = (specStep a op).2 := by
  cases op with
  | addGraph g => exact Lemmas.addGraph_refines h g hop
  | delGraph g => exact Lemmas.delGraph_refines h g
  | addV g vs =>
    have key : ∀ (vs : List VertexIn) (a0 : AG), noReaddAll g a0 (vs.map .v) = true := by
      intro vs
      induction vs with
      | nil => intro _; rfl
      | cons v vs ih => intro a0; simp only [List.map_cons, noReaddAll, okElem, Bool.true_and]; exact ih _
    exact Lemmas.addElems_refines h g (vs.map .v) (fun _ => key vs a)
  | addE g es => exact Lemmas.addElems_refines h g (es.map .e) hop
  | bulk g xs => exact Lemmas.addElems_refines h g xs hop
  | delV g id => exact Lemmas.delV_refines h g id
  | delE g eid => exact Lemmas.delE_refines h g eid

/-- Histories.  PARTIAL for the same two reasons as `step_refines_partial`: the side condition is
    required of every operation of the history, at the abstract state reached before it. -/
theorem history_refines_partial (ops : List Op) :
    ∀ {s : KState} {a : AG}, Refines s a → NoReaddHist a ops → Refines (run s ops) (specRun a ops) := by
  induction ops with
  | nil => intro s a h _; exact h
  | cons o os ih =>
    intro s a h hh
    simp only [run, specRun, List.foldl_cons]
    exact ih (step_refines_partial h o hh.1).1 hh.2

/-- From the empty store. -/
theorem history_refines_init_partial (ops : List Op) (hh : NoReaddHist {} ops) :
    Refines (run {} ops) (specRun {} ops) :=
  history_refines_partial ops refines_init hh

end Grip.Props.C03
