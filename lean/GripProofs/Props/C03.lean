import Grip.Model.C03
import Grip.Spec.C03
namespace Grip.Props.C03
open Grip.C03

/-- placeholder obligation replaced below as the refinement proofs land -/
theorem touch_changes_stamp (s : KState) (g : String) : (s.touch g).stamp g = some (s.clock + 1) := by
  simp [KState.touch, KState.stamp]

end Grip.Props.C03
