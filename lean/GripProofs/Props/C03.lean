/-
  Props.C03 — kvgraph (MODEL `Grip.C03.step`) refines the abstract last-write-wins graph store
  (SPEC `Grip.C03.Spec.specStep`), for every history of operations.

  The refinement relation `Refines` and the side condition `NoReadd` are defined in
  `GripProofs/Lemmas/C03Defs.lean`.  `Refines s a` says: graph keys ↔ `a.graphs`; vertex keys ↔
  `a.getV` (label and data); edge records ↔ `a.getE` (at most one record per edge id, key
  components = from/to/label of the record); every src/dst key ↔ an edge record; no duplicate
  keys; stamps and clock equal; label fields of existing graphs registered; every live element has
  its label-index entry and term key (the index may hold stale extras: the reads filter them).

  Open finding C03-edge-readd: re-adding a live edge id with different endpoints or label leaves
  two edge records in kvgraph (and in the MODEL).  The full-strength refinement is therefore false;
  it is proved as `…_partial` under the decidable side condition `NoReadd`, and its negation is
  proved on the concrete witness history (`edge_readd_witness`).
-/
import Grip.Model.C03
import Grip.Spec.C03
import GripProofs.Lemmas.C03Lbl
import GripProofs.Lemmas.C03Names
import GripProofs.Lemmas.C03Cor

namespace Grip.Props.C03
open Grip Grip.C03 Grip.C03.Spec

/-- The empty store represents the empty abstract graph store. -/
theorem refines_init : Refines {} {} := by
  refine ⟨?_, rfl, rfl, by simp⟩
  constructor <;> simp [Lemmas.KeysNodup, KV.get, AG.getV, AG.getE, edgeAt]

/-- One operation.  PARTIAL: holds under `NoReadd a op`, which excludes exactly the region of the
    open finding C03-edge-readd (a valid edge of an addE/bulk batch re-using the id of a live edge,
    or of an earlier valid edge of the batch, with different from/to/label), where the full
    statement is false (`edge_readd_witness`).  Every other operation — graph creation and deletion,
    vertex writes, deletes, edges re-added with the same endpoints and label — satisfies `NoReadd`
    trivially (`noReadd_only_edges`).  (The string fact the earlier version assumed for addGraph,
    that `strings.Split(field, ".")[0]` of a graph's label field is the graph name, is now proved
    for every valid name: `Lemmas.goodName_of_valid`.)
    What is missing for full strength: a repair of kvgraph's insertEdge. -/
theorem step_refines_partial {s : KState} {a : AG} (h : Refines s a) (op : Op) (hop : NoReadd a op) :
    Refines (step s op).1 (specStep a op).1 ∧ (step s op).2 = (specStep a op).2 := by
  cases op with
  | addGraph g => exact Lemmas.addGraph_refines h g (noReadd_addGraph hop)
  | delGraph g => exact Lemmas.delGraph_refines h g
  | addV g vs =>
    have key : ∀ (vs : List VertexIn) (a0 : AG), noReaddAll g a0 (vs.map .v) = true := by
      intro vs
      induction vs with
      | nil => intro _; rfl
      | cons v vs ih => intro a0; simp only [List.map_cons, noReaddAll, okElem, Bool.true_and]; exact ih _
    exact Lemmas.addElems_refines h g (vs.map .v) (fun _ => key vs a)
  | addE g es => exact Lemmas.addElems_refines h g (es.map .e) (noReadd_addE hop)
  | bulk g xs => exact Lemmas.addElems_refines h g xs (noReadd_bulk hop)
  | delV g id => exact Lemmas.delV_refines h g id
  | delE g eid => exact Lemmas.delE_refines h g eid

/-- The side condition constrains edge writes only. -/
theorem noReadd_only_edges (a : AG) (op : Op)
    (h : ∀ g es, op ≠ .addE g es) (h' : ∀ g xs, op ≠ .bulk g xs) : NoReadd a op := by
  cases op with
  | addE g es => exact absurd rfl (h g es)
  | bulk g xs => exact absurd rfl (h' g xs)
  | _ => simp [NoReadd, noReadd]

/-- Histories.  PARTIAL for the same reason as `step_refines_partial`: the side condition is
    required of every operation of the history, at the abstract state reached before it. -/
theorem history_refines_partial (ops : List Op) :
    ∀ {s : KState} {a : AG}, Refines s a → NoReaddHist a ops → Refines (run s ops) (specRun a ops) := by
  induction ops with
  | nil => intro s a h _; exact h
  | cons o os ih =>
    intro s a h hh
    rw [noReaddHist_cons] at hh
    simp only [run, specRun, List.foldl_cons]
    exact ih (step_refines_partial h o hh.1).1 hh.2

/-- From the empty store. -/
theorem history_refines_init_partial (ops : List Op) (hh : NoReaddHist {} ops) :
    Refines (run {} ops) (specRun {} ops) :=
  history_refines_partial ops refines_init hh

/-! ### everything observable equals the abstract graph -/

/-- Under the refinement relation every read of graph `g` the property calls observable —
    lookup by id, full listings, neighbours and incident edges in both directions with any label
    filter, the label-index scan, the label listings, graph existence and the timestamp — equals
    the read of the abstract graph (listings as multisets: `List.Perm`; label listings as sets). -/
theorem observe_eq {s : KState} {a : AG} (h : Refines s a) (g : String) :
    (∀ id, getVertex s.kv g id = Spec.getVertex a g id) ∧
    (∀ eid, getEdge s.kv g eid = Spec.getEdge a g eid) ∧
    (vertexList s.kv g).Perm (Spec.vertexList a g) ∧
    (edgeList s.kv g).Perm (Spec.edgeList a g) ∧
    (∀ id labels, (outV s.kv g id labels).Perm (Spec.outV a g id labels)) ∧
    (∀ id labels, (inV s.kv g id labels).Perm (Spec.inV a g id labels)) ∧
    (∀ id labels, (outE s.kv g id labels).Perm (Spec.outE a g id labels)) ∧
    (∀ id labels, (inE s.kv g id labels).Perm (Spec.inE a g id labels)) ∧
    (∀ label, (verticesWithLabel s.kv g label).Perm (Spec.verticesWithLabel a g label)) ∧
    (∀ l, l ∈ listVertexLabels s.kv g ↔ l ∈ Spec.listVertexLabels a g) ∧
    (∀ l, l ∈ listEdgeLabels s.kv g ↔ l ∈ Spec.listEdgeLabels a g) ∧
    hasGraph s g = a.graphs.contains g ∧
    s.stamp g = a.stamp g :=
  ⟨Lemmas.getVertex_eq h.inv g, Lemmas.getEdge_eq h.inv g, Lemmas.vertexList_perm h.inv g,
   Lemmas.edgeList_perm h.inv g, Lemmas.outV_perm h.inv g, Lemmas.inV_perm h.inv g,
   Lemmas.outE_perm h.inv g, Lemmas.inE_perm h.inv g, Lemmas.verticesWithLabel_perm h.inv g,
   Lemmas.listVertexLabels_mem h.inv g, Lemmas.listEdgeLabels_mem h.inv g,
   Lemmas.hasGraph_iff h g, by simp [KState.stamp, AG.stamp, h.stamps]⟩

/-! ### the open finding: the full-strength statement is false -/

/-- corpus/C03/kf-edge-readd.ops -/
def witnessOps : List Op :=
  [ .addGraph "g1",
    .addV "g1" [⟨"a", "L", .obj []⟩, ⟨"b", "L", .obj []⟩],
    .addE "g1" [⟨"e1", "L", "a", "b", .obj []⟩],
    .addE "g1" [⟨"e1", "L", "b", "a", .obj []⟩] ]

/-- Negation of the full-strength statement on the witness history of C03-edge-readd: after
    re-adding edge `e1` with swapped endpoints the MODEL (= kvgraph) lists two records for `e1`,
    the abstract graph one; so the edge listings are not permutations of one another and
    `Refines` fails after this history (by `observe_eq`). -/
theorem edge_readd_witness :
    ((edgeList (run {} witnessOps).kv "g1").filter (·.gid = "e1")).length = 2 ∧
    ((Spec.edgeList (specRun {} witnessOps) "g1").filter (·.gid = "e1")).length = 1 ∧
    ¬ (edgeList (run {} witnessOps).kv "g1").Perm (Spec.edgeList (specRun {} witnessOps) "g1") ∧
    ¬ NoReaddHist {} witnessOps := by
  have h1 : ((edgeList (run {} witnessOps).kv "g1").filter (·.gid = "e1")).length = 2 := by
    with_unfolding_all decide
  have h2 : ((Spec.edgeList (specRun {} witnessOps) "g1").filter (·.gid = "e1")).length = 1 := by
    with_unfolding_all decide
  refine ⟨h1, h2, ?_, ?_⟩
  · intro hp
    have := (hp.filter (·.gid = "e1")).length_eq
    rw [h1, h2] at this
    exact absurd this (by decide)
  · intro hh
    have := (observe_eq (history_refines_init_partial witnessOps hh) "g1").2.2.2.1
    have := (this.filter (·.gid = "e1")).length_eq
    rw [h1, h2] at this
    exact absurd this (by decide)

/-! ### non-vacuity -/

/-- a history that satisfies the side conditions (it re-adds `e1` with the same endpoints and new
    data, re-adds vertex `a` with another label, deletes and re-creates) -/
def goodOps : List Op :=
  [ .addGraph "g1", .addGraph "g2",
    .addV "g1" [⟨"a", "L", .obj []⟩, ⟨"b", "L", .obj []⟩, ⟨"", "L", .obj []⟩],
    .addE "g1" [⟨"e1", "L", "a", "b", .obj []⟩],
    .bulk "g1" [.e ⟨"e1", "L", "a", "b", .obj [("k", .num 1)]⟩, .v ⟨"a", "M", .obj []⟩],
    .addE "g2" [⟨"e1", "L", "b", "a", .obj []⟩],
    .delV "g1" "b", .delE "g2" "e1", .delGraph "g2" ]

theorem goodOps_ok : NoReaddHist {} goodOps := by
  unfold goodOps
  rw [Lemmas.noReaddHist_addGraph "g1", Lemmas.noReaddHist_addGraph "g2"]
  with_unfolding_all decide

/-- non-vacuity of `history_refines_partial`: the side conditions hold on `goodOps`, hence the
    refinement relation holds after it -/
example : Refines (run {} goodOps) (specRun {} goodOps) :=
  history_refines_init_partial goodOps goodOps_ok

/-- the side condition holds on the witness history up to the offending operation, and fails
    with it (`edge_readd_witness`) -/
example : NoReaddHist {} (witnessOps.take 3) := by
  show NoReaddHist {} [.addGraph "g1", _, _]
  rw [Lemmas.noReaddHist_addGraph "g1"]
  with_unfolding_all decide

/-! ### corollaries stated outright -/

/-- Invalid elements are rejected with an error and change nothing: a non-empty AddVertex /
    AddEdge / BulkAdd all of whose elements are invalid returns an error and leaves the whole
    state (store, fields, timestamps, clock) as it was — on any state, no invariant needed.
    (Invalid elements inside a mixed batch are skipped likewise: that is part of
    `step_refines_partial`, since the SPEC's `putElem` ignores them.) -/
theorem invalid_rejected (s : KState) (g : String) :
    (∀ vs : List VertexIn, vs ≠ [] → (∀ v, v ∈ vs → validVertex v = false) →
      step s (.addV g vs) = (s, .err)) ∧
    (∀ es : List EdgeIn, es ≠ [] → (∀ e, e ∈ es → validEdge e = false) →
      step s (.addE g es) = (s, .err)) ∧
    (∀ xs : List ElemIn, xs ≠ [] → (∀ x, x ∈ xs → validElem x = false) →
      step s (.bulk g xs) = (s, .err)) := by
  refine ⟨fun vs hne h => ?_, fun es hne h => ?_, fun xs hne h => ?_⟩
  · apply Lemmas.addElems_all_invalid s g (vs.map .v) (by simpa using hne)
    intro x hx
    obtain ⟨v, hv, rfl⟩ := List.mem_map.1 hx
    exact h v hv
  · apply Lemmas.addElems_all_invalid s g (es.map .e) (by simpa using hne)
    intro x hx
    obtain ⟨e, he, rfl⟩ := List.mem_map.1 hx
    exact h e he
  · exact Lemmas.addElems_all_invalid s g xs hne h

/-- Deleting something absent changes nothing.  An absent edge: error, MODEL and SPEC states
    unchanged.  An absent vertex with no (dangling) edge attached to its id: store and abstract
    graph unchanged (the operation still counts as a write for the timestamp, as in the SPEC).
    NOTE: edges may dangle (AddEdge does not check its endpoints), and kvgraph's DelVertex of an
    absent vertex id does delete the dangling edges attached to that id; the SPEC says the same, so
    the hypothesis `he` is needed. -/
theorem delete_absent_noop {s : KState} {a : AG} (h : Refines s a) (g : String) :
    (∀ eid, a.getE g eid = none →
      step s (.delE g eid) = (s, .err) ∧ specStep a (.delE g eid) = (a, .err)) ∧
    (∀ id, g ∈ a.graphs → a.getV g id = none →
      (∀ eid r, a.getE g eid = some r → r.frm ≠ id ∧ r.to ≠ id) →
      (step s (.delV g id)).1.kv = s.kv ∧
      (specStep a (.delV g id)).1.graphs = a.graphs ∧
      (specStep a (.delV g id)).1.verts = a.verts ∧
      (specStep a (.delV g id)).1.edges = a.edges) :=
  ⟨fun eid hr => Lemmas.delE_absent h g eid hr, fun id hg hv he => Lemmas.delV_absent h g id hg hv he⟩

/-- The timestamp reported for graph `g` changes across an operation iff the operation is a
    write to `g` (`Wrote`: created `g`, deleted `g`, accepted at least one element for existing
    `g`, deleted a vertex on existing `g`, deleted an existing edge of `g`) — in particular it
    never changes for a graph other than the one the operation addresses.  No side condition: the
    timestamp behaviour is right even in the region of the open finding. -/
theorem timestamp_iff_write {s : KState} {a : AG} (h : Refines s a) (op : Op) (g : String) :
    ((step s op).1.stamp g ≠ s.stamp g ↔ Wrote a op g) ∧
    ((specStep a op).1.stamp g ≠ a.stamp g ↔ Wrote a op g) ∧
    (g ≠ opGraph op → (step s op).1.stamp g = s.stamp g) := by
  have hm : (step s op).1.stamp g = (specStep a op).1.stamp g := by
    simp [KState.stamp, AG.stamp, (Lemmas.step_stamps h op).1]
  have hs : s.stamp g = a.stamp g := by simp [KState.stamp, AG.stamp, h.stamps]
  have hsp := Lemmas.spec_stamp_iff h.stampLe op g
  refine ⟨by rw [hm, hs]; exact hsp, hsp, ?_⟩
  intro hne
  rw [hm, hs]
  apply Classical.byContradiction
  intro hc
  have hw := hsp.1 hc
  cases op with
  | delGraph g0 => exact hne hw
  | addGraph g0 => exact hne hw.1
  | addV g0 _ => exact hne hw.1
  | addE g0 _ => exact hne hw.1
  | bulk g0 _ => exact hne hw.1
  | delV g0 _ => exact hne hw.1
  | delE g0 _ => exact hne hw.1

end Grip.Props.C03
