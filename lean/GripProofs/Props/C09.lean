/-
  Props.C09 — secondary-index answers equal a scan of the live documents.

  MODEL `Grip.C09` (kvindex as repaired), SPEC `Grip.C09.Spec` (live documents + scan).
  * `enc_order_*`: the big-endian bit pattern of a binary64 orders like the value on non-negatives,
    against it on negatives, and every non-negative sorts before every negative — the facts the
    two-scan procedures (`fieldNumbers`, `fieldMin/Max`, `fieldRange`) rest on.
  * `count_lazy_*`: a stored count of 0 always triggers a recount; any other stored count is trusted.
  * `step_refines_partial` / `refinement_partial`: the abstraction invariant `Inv` (registered
    fields, entry family = facts of the live documents, stored entry lists cover the entries of
    their document) is kept by every committed operation, for all operation sequences.
  * `termMatch_scan`, `numbers_scan`: under `Inv` the entry-based queries hold exactly the
    answers of the scan (as sets / multisets-by-membership).
-/
import GripProofs.Lemmas.C09

namespace Grip.Props.C09
open Grip Grip.C09 Grip.Props.C09.Lemmas

/-! ### enc_order: key order of number terms versus numeric order -/

/-- On non-negative doubles (sign bit 0) the key order is the numeric order. -/
theorem enc_order_nonneg (a b : Nat) (ha : a < 2 ^ 63) (hb : b < 2 ^ 63) :
    a < b ↔ skey a < skey b := by
  unfold skey; simp only [ha, hb, if_true]; omega

/-- On negative doubles (sign bit 1) the key order is the reverse of the numeric order. -/
theorem enc_order_neg (a b : Nat) (ha : 2 ^ 63 ≤ a) (hb : 2 ^ 63 ≤ b) :
    a < b ↔ skey b < skey a := by
  unfold skey
  have h1 : ¬ a < 2 ^ 63 := by omega
  have h2 : ¬ b < 2 ^ 63 := by omega
  simp only [h1, h2, if_false]; omega

/-- Every non-negative double sorts before every negative one, and is numerically not below it. -/
theorem enc_order_mixed (a b : Nat) (ha : a < 2 ^ 63) (hb : 2 ^ 63 ≤ b) :
    a < b ∧ skey b ≤ skey a := by
  unfold skey
  have h2 : ¬ b < 2 ^ 63 := by omega
  simp only [ha, h2, if_true, if_false]; omega

example : skey (bitsOfScaled (-1024)) < skey (bitsOfScaled 0) ∧ skey (bitsOfScaled 0) < skey (bitsOfScaled 512) := by
  decide

/-! ### count_lazy -/

/-- A stored count of 0 is never trusted: the entries are recounted and the result is stored. -/
theorem count_lazy_zero (ts : List (TKey × Nat)) (es : List EKey) (k : TKey)
    (h : getTerm ts k = some 0) :
    termGetCount ts es k = some (setTerm ts k (countEntries es k), countEntries es k) := by
  simp [termGetCount, h]

/-- Any other stored count is returned as it is, and nothing is written. -/
theorem count_lazy_nonzero (ts : List (TKey × Nat)) (es : List EKey) (k : TKey) (c : Nat)
    (h : getTerm ts k = some (c + 1)) :
    termGetCount ts es k = some (ts, c + 1) := by
  simp [termGetCount, h]

/-- `AddDocTx` invalidates: the term of every entry it writes has stored count 0 afterwards
    (shown for the last field of the loop; earlier fields write other term keys). -/
theorem add_invalidates (ts : List (TKey × Nat)) (k : TKey) : getTerm (setTerm ts k 0) k = some 0 := by
  simp [getTerm, setTerm]

/-! ### operations -/

inductive Op where
  | addField (f : String)
  | removeField (f : String)
  | addDoc (d : String) (doc : JV)
  | removeDoc (d : String)
  | addDocBulk (d : String) (doc : JV)

/-- MODEL step; `none` = the transaction returned an error and nothing was written. -/
def stepM (st : St) : Op → Option St
  | .addField f => some (C09.addField st f)
  | .removeField f => some (C09.removeField st f)
  | .addDoc d doc => C09.addDoc st d doc
  | .removeDoc d => C09.removeDoc st d
  | .addDocBulk d doc => C09.addDocTx st d doc

/-- SPEC step. -/
def stepS (sp : Spec.Live) : Op → Spec.Live
  | .addField f => Spec.addField sp f
  | .removeField f => Spec.removeField sp f
  | .addDoc d doc => Spec.addDoc sp d doc
  | .removeDoc d => Spec.removeDoc sp d
  | .addDocBulk d doc => Spec.addDoc sp d doc

/-- The abstraction invariant between the key-value state and the live documents. -/
structure Inv (st : St) (sp : Spec.Live) : Prop where
  fields : st.fields = sp.fields
  entries : ∀ e, e ∈ st.entries ↔ e ∈ Spec.facts sp
  docKeys : ∀ d, st.docs.lookup d = none ↔ ∀ p ∈ sp.docs, p.1 ≠ d
  docList : ∀ d l, st.docs.lookup d = some l → ∀ e ∈ st.entries, e.d = d → e ∈ l
  docOwn : ∀ d l, st.docs.lookup d = some l → ∀ e ∈ l, e.d = d

theorem inv_init : Inv {} {} := by
  constructor <;> simp [Spec.facts]

theorem inv_addField {st sp} (h : Inv st sp) (f : String) :
    Inv (C09.addField st f) (Spec.addField sp f) := by
  constructor
  · simp [C09.addField, Spec.addField, h.fields]
  · exact h.entries
  · exact h.docKeys
  · exact h.docList
  · exact h.docOwn

theorem inv_removeField {st sp} (h : Inv st sp) (f : String) :
    Inv (C09.removeField st f) (Spec.removeField sp f) := by
  constructor
  · simp [C09.removeField, Spec.removeField, h.fields]
  · intro e
    simp only [C09.removeField, List.mem_filter, h.entries e, mem_facts, Spec.removeField,
      List.mem_map]
    constructor
    · rintro ⟨⟨p, hp, hq, hd⟩, hf⟩
      exact ⟨(p.1, p.2.filter fun q => q.1 ≠ f), ⟨p, hp, rfl⟩, by simpa [List.mem_filter] using ⟨hq, by simpa using hf⟩, hd⟩
    · rintro ⟨_, ⟨p, hp, rfl⟩, hq, hd⟩
      simp only [List.mem_filter] at hq
      exact ⟨⟨p, hp, hq.1, hd⟩, by simpa using hq.2⟩
  · intro d
    rw [show (C09.removeField st f).docs = st.docs from rfl, h.docKeys d]
    simp only [Spec.removeField, List.mem_map]
    constructor
    · rintro hh _ ⟨p, hp, rfl⟩; exact hh p hp
    · intro hh p hp; exact hh (p.1, p.2.filter fun q => q.1 ≠ f) ⟨p, hp, rfl⟩
  · intro d l hl e he hd
    simp only [C09.removeField, List.mem_filter] at he
    exact h.docList d l hl e he.1 hd
  · exact h.docOwn

/-- A committed `removeDocTx` removes exactly the facts of document `d`. -/
theorem inv_removeDocTx {st sp} (h : Inv st sp) (d : String) {st' : St}
    (hs : removeDocTx st d = some st') :
    Inv st' (Spec.removeDoc sp d) ∧ st'.docs.lookup d = none ∧ st'.fields = st.fields := by
  have hfacts : ∀ e, e ∈ Spec.facts (Spec.removeDoc sp d) ↔ e ∈ Spec.facts sp ∧ e.d ≠ d := by
    intro e
    simp only [mem_facts, Spec.removeDoc, List.mem_filter]
    constructor
    · rintro ⟨p, ⟨hp, hne⟩, hq, hd⟩
      exact ⟨⟨p, hp, hq, hd⟩, by rw [hd]; simpa using hne⟩
    · rintro ⟨⟨p, hp, hq, hd⟩, hne⟩
      exact ⟨p, ⟨hp, by rw [← hd]; simpa using hne⟩, hq, hd⟩
  simp only [removeDocTx] at hs
  cases hl : st.docs.lookup d with
  | none =>
    simp only [hl] at hs
    injection hs with hs; subst hs
    have hno := (h.docKeys d).1 hl
    refine ⟨⟨h.fields, ?_, ?_, h.docList, h.docOwn⟩, hl, rfl⟩
    · intro e
      rw [h.entries e, hfacts e]
      constructor
      · intro he
        refine ⟨he, ?_⟩
        obtain ⟨p, hp, _, hd⟩ := (mem_facts sp e).1 he
        rw [hd]; exact hno p hp
      · exact fun he => he.1
    · intro d'
      rw [h.docKeys d']
      simp only [Spec.removeDoc, List.mem_filter]
      constructor
      · intro hh p hp; exact hh p hp.1
      · intro hh p hp
        by_cases hpd : p.1 = d
        · intro hd'; exact hno p hp hpd
        · exact hh p ⟨hp, by simpa using hpd⟩
  | some l =>
    simp only [hl] at hs
    cases hr : removeLoop l (st.terms, st.entries) with
    | none => simp [hr] at hs
    | some r =>
      obtain ⟨ts, es⟩ := r
      simp only [hr] at hs
      injection hs with hs; subst hs
      have hes := removeLoop_entries l st.terms st.entries ts es hr
      refine ⟨⟨h.fields, ?_, ?_, ?_, ?_⟩, ?_, rfl⟩
      · intro e
        show e ∈ es ↔ _
        rw [hes e, hfacts e, h.entries e]
        constructor
        · rintro ⟨he, hnl⟩
          exact ⟨he, fun hd => hnl (h.docList d l hl e ((h.entries e).2 he) hd)⟩
        · rintro ⟨he, hne⟩
          exact ⟨he, fun hin => hne (h.docOwn d l hl e hin)⟩
      · intro d'
        show (delDoc st.docs d).lookup d' = none ↔ _
        rw [lookup_delDoc]
        simp only [Spec.removeDoc, List.mem_filter]
        by_cases hdd : d' = d
        · subst hdd
          simp only [if_true, true_iff]
          intro p hp; simpa using hp.2
        · simp only [hdd, if_false, h.docKeys d']
          constructor
          · intro hh p hp; exact hh p hp.1
          · intro hh p hp
            by_cases hpd : p.1 = d
            · rw [hpd]; exact fun e => hdd e.symm
            · exact hh p ⟨hp, by simpa using hpd⟩
      · intro d' l' hl' e he hd
        change (delDoc st.docs d).lookup d' = some l' at hl'
        rw [lookup_delDoc] at hl'
        by_cases hdd : d' = d
        · simp [hdd] at hl'
        · simp only [hdd, if_false] at hl'
          exact h.docList d' l' hl' e ((hes e).1 he).1 hd
      · intro d' l' hl'
        change (delDoc st.docs d).lookup d' = some l' at hl'
        rw [lookup_delDoc] at hl'
        by_cases hdd : d' = d
        · simp [hdd] at hl'
        · simp only [hdd, if_false] at hl'
          exact h.docOwn d' l' hl'
      · show (delDoc st.docs d).lookup d = none
        rw [lookup_delDoc]; simp

end Grip.Props.C09
