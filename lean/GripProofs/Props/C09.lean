/-
  Props.C09 — secondary-index answers equal a scan of the live documents.

  MODEL `Grip.C09` (kvindex as repaired), SPEC `Grip.C09.Spec` (live documents + scan).
  * `enc_order_*`: the big-endian bit pattern of a binary64 orders like the value on non-negatives,
    against it on negatives, and every non-negative sorts before every negative — the facts the
    two-scan procedures (`fieldNumbers`, `fieldMin/Max`, `fieldRange`) rest on.
  * `count_lazy_*`: a stored count of 0 always triggers a recount; any other stored count is trusted.
  * `step_refines_partial` / `refinement_partial`: the abstraction invariant `Inv` (registered
    fields, entry family = facts of the live documents, stored entry lists cover the entries of
    their document) is kept by every committed operation, for all operation sequences.
  * `termMatch_scan`, `numbers_scan`: under `Inv` the entry-based queries hold exactly the
    answers of the scan (as sets / multisets-by-membership).
-/
import GripProofs.Lemmas.C09

namespace Grip.Props.C09
open Grip Grip.C09 Grip.Props.C09.Lemmas

/-! ### enc_order: key order of number terms versus numeric order -/

/-- On non-negative doubles (sign bit 0) the key order is the numeric order. -/
theorem enc_order_nonneg (a b : Nat) (ha : a < 2 ^ 63) (hb : b < 2 ^ 63) :
    a < b ↔ skey a < skey b := by
  unfold skey; simp only [ha, hb, if_true]; omega

/-- On negative doubles (sign bit 1) the key order is the reverse of the numeric order. -/
theorem enc_order_neg (a b : Nat) (ha : 2 ^ 63 ≤ a) (hb : 2 ^ 63 ≤ b) :
    a < b ↔ skey b < skey a := by
  unfold skey
  have h1 : ¬ a < 2 ^ 63 := by omega
  have h2 : ¬ b < 2 ^ 63 := by omega
  simp only [h1, h2, if_false]; omega

/-- Every non-negative double sorts before every negative one, and is numerically not below it. -/
theorem enc_order_mixed (a b : Nat) (ha : a < 2 ^ 63) (hb : 2 ^ 63 ≤ b) :
    a < b ∧ skey b ≤ skey a := by
  unfold skey
  have h2 : ¬ b < 2 ^ 63 := by omega
  simp only [ha, h2, if_true, if_false]; omega

example : skey (bitsOfScaled (-1024)) < skey (bitsOfScaled 0) ∧ skey (bitsOfScaled 0) < skey (bitsOfScaled 512) := by
  decide

/-! ### count_lazy -/

/-- A stored count of 0 is never trusted: the entries are recounted and the result is stored. -/
theorem count_lazy_zero (ts : List (TKey × Nat)) (es : List EKey) (k : TKey)
    (h : getTerm ts k = some 0) :
    termGetCount ts es k = some (setTerm ts k (countEntries es k), countEntries es k) := by
  simp [termGetCount, h]

/-- Any other stored count is returned as it is, and nothing is written. -/
theorem count_lazy_nonzero (ts : List (TKey × Nat)) (es : List EKey) (k : TKey) (c : Nat)
    (h : getTerm ts k = some (c + 1)) :
    termGetCount ts es k = some (ts, c + 1) := by
  simp [termGetCount, h]

/-- `AddDocTx` invalidates: the term of every entry it writes has stored count 0 afterwards
    (shown for the last field of the loop; earlier fields write other term keys). -/
theorem add_invalidates (ts : List (TKey × Nat)) (k : TKey) : getTerm (setTerm ts k 0) k = some 0 := by
  simp [getTerm, setTerm]

/-! ### operations -/

inductive Op where
  | addField (f : String)
  | removeField (f : String)
  | addDoc (d : String) (doc : JV)
  | removeDoc (d : String)
  | addDocBulk (d : String) (doc : JV)

/-- MODEL step; `none` = the transaction returned an error and nothing was written. -/
def stepM (st : St) : Op → Option St
  | .addField f => some (C09.addField st f)
  | .removeField f => some (C09.removeField st f)
  | .addDoc d doc => C09.addDoc st d doc
  | .removeDoc d => C09.removeDoc st d
  | .addDocBulk d doc => C09.addDocTx st d doc

/-- SPEC step. -/
def stepS (sp : Spec.Live) : Op → Spec.Live
  | .addField f => Spec.addField sp f
  | .removeField f => Spec.removeField sp f
  | .addDoc d doc => Spec.addDoc sp d doc
  | .removeDoc d => Spec.removeDoc sp d
  | .addDocBulk d doc => Spec.addDoc sp d doc

/-- The abstraction invariant between the key-value state and the live documents. -/
structure Inv (st : St) (sp : Spec.Live) : Prop where
  fields : st.fields = sp.fields
  entries : ∀ e, e ∈ st.entries ↔ e ∈ Spec.facts sp
  docKeys : ∀ d, st.docs.lookup d = none ↔ ∀ p ∈ sp.docs, p.1 ≠ d
  docList : ∀ d l, st.docs.lookup d = some l → ∀ e ∈ st.entries, e.d = d → e ∈ l
  docOwn : ∀ d l, st.docs.lookup d = some l → ∀ e ∈ l, e.d = d

theorem inv_init : Inv {} {} := by
  constructor <;> simp [Spec.facts]

theorem inv_addField {st sp} (h : Inv st sp) (f : String) :
    Inv (C09.addField st f) (Spec.addField sp f) := by
  constructor
  · simp [C09.addField, Spec.addField, h.fields]
  · exact h.entries
  · exact h.docKeys
  · exact h.docList
  · exact h.docOwn

theorem inv_removeField {st sp} (h : Inv st sp) (f : String) :
    Inv (C09.removeField st f) (Spec.removeField sp f) := by
  constructor
  · simp [C09.removeField, Spec.removeField, h.fields]
  · intro e
    simp only [C09.removeField, List.mem_filter, h.entries e, mem_facts, Spec.removeField,
      List.mem_map]
    constructor
    · rintro ⟨⟨p, hp, hq, hd⟩, hf⟩
      exact ⟨(p.1, p.2.filter fun q => q.1 ≠ f), ⟨p, hp, rfl⟩, by simpa [List.mem_filter] using ⟨hq, by simpa using hf⟩, hd⟩
    · rintro ⟨_, ⟨p, hp, rfl⟩, hq, hd⟩
      simp only [List.mem_filter] at hq
      exact ⟨⟨p, hp, hq.1, hd⟩, by simpa using hq.2⟩
  · intro d
    rw [show (C09.removeField st f).docs = st.docs from rfl, h.docKeys d]
    simp only [Spec.removeField, List.mem_map]
    constructor
    · rintro hh _ ⟨p, hp, rfl⟩; exact hh p hp
    · intro hh p hp; exact hh (p.1, p.2.filter fun q => q.1 ≠ f) ⟨p, hp, rfl⟩
  · intro d l hl e he hd
    simp only [C09.removeField, List.mem_filter] at he
    exact h.docList d l hl e he.1 hd
  · exact h.docOwn

/-- A committed `removeDocTx` removes exactly the facts of document `d`. -/
theorem inv_removeDocTx {st sp} (h : Inv st sp) (d : String) {st' : St}
    (hs : removeDocTx st d = some st') :
    Inv st' (Spec.removeDoc sp d) ∧ st'.docs.lookup d = none ∧ st'.fields = st.fields := by
  have hfacts : ∀ e, e ∈ Spec.facts (Spec.removeDoc sp d) ↔ e ∈ Spec.facts sp ∧ e.d ≠ d := by
    intro e
    simp only [mem_facts, Spec.removeDoc, List.mem_filter]
    constructor
    · rintro ⟨p, ⟨hp, hne⟩, hq, hd⟩
      exact ⟨⟨p, hp, hq, hd⟩, by rw [hd]; simpa using hne⟩
    · rintro ⟨⟨p, hp, hq, hd⟩, hne⟩
      exact ⟨p, ⟨hp, by rw [← hd]; simpa using hne⟩, hq, hd⟩
  simp only [removeDocTx] at hs
  cases hl : st.docs.lookup d with
  | none =>
    simp only [hl] at hs
    injection hs with hs; subst hs
    have hno := (h.docKeys d).1 hl
    refine ⟨⟨h.fields, ?_, ?_, h.docList, h.docOwn⟩, hl, rfl⟩
    · intro e
      rw [h.entries e, hfacts e]
      constructor
      · intro he
        refine ⟨he, ?_⟩
        obtain ⟨p, hp, _, hd⟩ := (mem_facts sp e).1 he
        rw [hd]; exact hno p hp
      · exact fun he => he.1
    · intro d'
      rw [h.docKeys d']
      simp only [Spec.removeDoc, List.mem_filter]
      constructor
      · intro hh p hp; exact hh p hp.1
      · intro hh p hp
        by_cases hpd : p.1 = d
        · intro hd'; exact hno p hp hpd
        · exact hh p ⟨hp, by simpa using hpd⟩
  | some l =>
    simp only [hl] at hs
    cases hr : removeLoop l (st.terms, st.entries) with
    | none => simp [hr] at hs
    | some r =>
      obtain ⟨ts, es⟩ := r
      simp only [hr] at hs
      injection hs with hs; subst hs
      have hes := removeLoop_entries l st.terms st.entries ts es hr
      refine ⟨⟨h.fields, ?_, ?_, ?_, ?_⟩, ?_, rfl⟩
      · intro e
        show e ∈ es ↔ _
        rw [hes e, hfacts e, h.entries e]
        constructor
        · rintro ⟨he, hnl⟩
          exact ⟨he, fun hd => hnl (h.docList d l hl e ((h.entries e).2 he) hd)⟩
        · rintro ⟨he, hne⟩
          exact ⟨he, fun hin => hne (h.docOwn d l hl e hin)⟩
      · intro d'
        show (delDoc st.docs d).lookup d' = none ↔ _
        rw [lookup_delDoc]
        simp only [Spec.removeDoc, List.mem_filter]
        by_cases hdd : d' = d
        · subst hdd
          simp only [if_true, true_iff]
          intro p hp; simpa using hp.2
        · simp only [hdd, if_false, h.docKeys d']
          constructor
          · intro hh p hp; exact hh p hp.1
          · intro hh p hp
            by_cases hpd : p.1 = d
            · rw [hpd]; exact fun e => hdd e.symm
            · exact hh p ⟨hp, by simpa using hpd⟩
      · intro d' l' hl' e he hd
        change (delDoc st.docs d).lookup d' = some l' at hl'
        rw [lookup_delDoc] at hl'
        by_cases hdd : d' = d
        · simp [hdd] at hl'
        · simp only [hdd, if_false] at hl'
          exact h.docList d' l' hl' e ((hes e).1 he).1 hd
      · intro d' l' hl'
        change (delDoc st.docs d).lookup d' = some l' at hl'
        rw [lookup_delDoc] at hl'
        by_cases hdd : d' = d
        · simp [hdd] at hl'
        · simp only [hdd, if_false] at hl'
          exact h.docOwn d' l' hl'
      · show (delDoc st.docs d).lookup d = none
        rw [lookup_delDoc]; simp

theorem mem_map_mk (d : String) (pr : List (String × Term)) (e : EKey) :
    e ∈ pr.map (mk d) ↔ (e.f, e.t) ∈ pr ∧ e.d = d := by
  simp only [List.mem_map, mk]
  constructor
  · rintro ⟨q, hq, rfl⟩; exact ⟨hq, rfl⟩
  · rintro ⟨hq, hd⟩; exact ⟨(e.f, e.t), hq, by cases e; simp_all⟩

/-- A committed `addDocTx` of a document id that is not live adds exactly the facts of the
    projected document.  (On a live id it does not: `bulk_replace_counterexample`.) -/
theorem inv_addDocTx {st sp} (h : Inv st sp) (d : String) (doc : JV) {st' : St}
    (hnew : st.docs.lookup d = none) (hs : addDocTx st d doc = some st') :
    Inv st' (Spec.addDoc sp d doc) := by
  have hno := (h.docKeys d).1 hnew
  have hlp := addLoop_project doc d st.fields st.terms st.entries []
  simp only [addDocTx] at hs
  rw [h.fields] at hlp hs
  cases hp : Spec.project doc sp.fields with
  | none => simp only [hp] at hlp; simp [hlp] at hs
  | some pr =>
    simp only [hp] at hlp
    obtain ⟨ts', es', h1, h2⟩ := hlp
    simp only [h1] at hs
    injection hs with hs; subst hs
    have hfilter : (Spec.removeDoc sp d).docs = sp.docs := by
      simp only [Spec.removeDoc]
      apply List.filter_eq_self.2
      intro p hp'; simpa using hno p hp'
    have hfacts : ∀ e, e ∈ Spec.facts (Spec.addDoc sp d doc) ↔ e ∈ Spec.facts sp ∨ e ∈ pr.map (mk d) := by
      intro e
      simp only [Spec.addDoc, hp, mem_facts, hfilter, List.mem_cons, mem_map_mk]
      constructor
      · rintro ⟨p, hp' | hp', hq, hd⟩
        · subst hp'; exact Or.inr ⟨hq, hd⟩
        · exact Or.inl ⟨p, hp', hq, hd⟩
      · rintro (⟨p, hp', hq, hd⟩ | ⟨hq, hd⟩)
        · exact ⟨p, Or.inr hp', hq, hd⟩
        · exact ⟨(d, pr), Or.inl rfl, hq, hd⟩
    have hdocs : ∀ d', (setDoc st.docs d ([] ++ pr.map (mk d))).lookup d' =
        if d' = d then some (pr.map (mk d)) else st.docs.lookup d' := by
      intro d'
      simp only [setDoc, List.lookup_cons, List.nil_append]
      by_cases hdd : d' = d
      · simp [hdd]
      · have hb : (d' == d) = false := by simpa using hdd
        simp only [hb, lookup_delDoc, hdd, if_false]
    refine ⟨by simp [Spec.addDoc, hp], ?_, ?_, ?_, ?_⟩
    · intro e
      show e ∈ es' ↔ _
      rw [h2 e, hfacts e, h.entries e]
    · intro d'
      show (setDoc st.docs d ([] ++ pr.map (mk d))).lookup d' = none ↔ _
      rw [hdocs d']
      simp only [Spec.addDoc, hp, hfilter, List.mem_cons]
      by_cases hdd : d' = d
      · subst hdd
        simp only [if_true]
        constructor
        · intro hh; cases hh
        · intro hh; exact absurd rfl (hh (d', pr) (Or.inl rfl))
      · simp only [hdd, if_false, h.docKeys d']
        constructor
        · rintro hh p (hp' | hp')
          · subst hp'; exact fun e => hdd e.symm
          · exact hh p hp'
        · intro hh p hp'; exact hh p (Or.inr hp')
    · intro d' l' hl' e he hd
      change (setDoc st.docs d ([] ++ pr.map (mk d))).lookup d' = some l' at hl'
      change e ∈ es' at he
      rw [hdocs d'] at hl'
      rw [h2 e] at he
      by_cases hdd : d' = d
      · subst hdd
        simp only [if_true] at hl'
        injection hl' with hl'; subst hl'
        rcases he with he | he
        · exfalso
          obtain ⟨p, hp', _, hd'⟩ := (mem_facts sp e).1 ((h.entries e).1 he)
          exact hno p hp' (by rw [← hd', hd])
        · exact he
      · simp only [hdd, if_false] at hl'
        rcases he with he | he
        · exact h.docList d' l' hl' e he hd
        · exfalso; exact hdd (by rw [← hd]; exact ((mem_map_mk d pr e).1 he).2)
    · intro d' l' hl' e he
      change (setDoc st.docs d ([] ++ pr.map (mk d))).lookup d' = some l' at hl'
      rw [hdocs d'] at hl'
      by_cases hdd : d' = d
      · subst hdd
        simp only [if_true] at hl'
        injection hl' with hl'; subst hl'
        exact ((mem_map_mk d' pr e).1 he).2
      · simp only [hdd, if_false] at hl'
        exact h.docOwn d' l' hl' e he

/-- `none` when the projection of the document is rejected: a rejected insertion writes nothing
    and the SPEC ignores it too. -/
theorem addDocTx_rejected (st : St) (sp : Spec.Live) (hf : st.fields = sp.fields) (d : String) (doc : JV)
    (hp : Spec.project doc sp.fields = none) :
    addDocTx st d doc = none ∧ Spec.addDoc sp d doc = sp := by
  have hlp := addLoop_project doc d st.fields st.terms st.entries []
  rw [hf, hp] at hlp
  simp only at hlp
  constructor
  · simp [addDocTx, hf, hlp]
  · simp [Spec.addDoc, hp]

/-- Bulk insertion is only judged on document ids that are not live (open finding C09-bulk-replace). -/
def BulkFresh (sp : Spec.Live) : Op → Prop
  | .addDocBulk d _ => ∀ p ∈ sp.docs, p.1 ≠ d
  | _ => True

/-- PARTIAL.  Every *committed* operation keeps the abstraction invariant; bulk insertion only
    on a document id that is not live.  Missing for full strength: (1) that `removeLoop` never
    fails on a reachable state (needs the term-key invariant "every entry has its term key and a
    stored count is 0 or exact", which this file proves only locally as `count_lazy_*`; the
    correspondence run observes that RemoveDoc/AddDoc never fail for that reason);
    (2) bulk replacement, which the code gets wrong (`bulk_replace_counterexample`). -/
theorem step_refines_partial {st sp} (h : Inv st sp) (o : Op) (hb : BulkFresh sp o) {st' : St}
    (hs : stepM st o = some st') : Inv st' (stepS sp o) := by
  cases o with
  | addField f => simp only [stepM] at hs; injection hs with hs; subst hs; exact inv_addField h f
  | removeField f => simp only [stepM] at hs; injection hs with hs; subst hs; exact inv_removeField h f
  | removeDoc d => exact (inv_removeDocTx h d hs).1
  | addDocBulk d doc =>
    exact inv_addDocTx h d doc ((h.docKeys d).2 hb) hs
  | addDoc d doc =>
    simp only [stepM, C09.addDoc] at hs
    cases hr : removeDocTx st d with
    | none => simp [hr] at hs
    | some st1 =>
      simp only [hr] at hs
      obtain ⟨h1, hnone, hfields⟩ := inv_removeDocTx h d hr
      have h2 := inv_addDocTx h1 d doc hnone hs
      -- SPEC: adding to the state without `d` is adding to the state
      cases hp : Spec.project doc sp.fields with
      | none =>
        have := (addDocTx_rejected st1 (Spec.removeDoc sp d) h1.fields d doc hp).1
        rw [this] at hs; cases hs
      | some pr =>
        have : Spec.addDoc (Spec.removeDoc sp d) d doc = Spec.addDoc sp d doc := by
          simp only [Spec.addDoc, Spec.removeDoc, hp, List.filter_filter, Bool.and_self]
        rw [this] at h2
        exact h2

/-- Run a sequence; an operation whose transaction fails leaves the state as it was. -/
def runM : St → List Op → St
  | st, [] => st
  | st, o :: os => runM ((stepM st o).getD st) os

def runS : Spec.Live → List Op → Spec.Live
  | sp, [] => sp
  | sp, o :: os => runS (stepS sp o) os

/-- Every operation of the sequence either commits or is an insertion the SPEC rejects too, and
    bulk insertions hit fresh ids. -/
def Judged : St → Spec.Live → List Op → Prop
  | _, _, [] => True
  | st, sp, o :: os =>
    BulkFresh sp o ∧
    (match stepM st o with
     | some st' => Judged st' (stepS sp o) os
     | none => stepS sp o = sp ∧ Judged st sp os)

/-- PARTIAL (see `step_refines_partial`).  For every operation sequence from the empty index the
    key-value state abstracts to the live documents of the SPEC. -/
theorem refinement_partial (ops : List Op) :
    ∀ st sp, Inv st sp → Judged st sp ops → Inv (runM st ops) (runS sp ops) := by
  induction ops with
  | nil => intro st sp h _; exact h
  | cons o os ih =>
    intro st sp h hj
    simp only [Judged] at hj
    obtain ⟨hb, hrest⟩ := hj
    simp only [runM, runS]
    cases hs : stepM st o with
    | some st' =>
      simp only [hs] at hrest
      exact ih st' (stepS sp o) (step_refines_partial h o hb hs) hrest
    | none =>
      simp only [hs] at hrest
      simp only [Option.getD_none, hrest.1]
      exact ih st sp h hrest.2

/-! ### queries under the invariant -/

/-- ids matching a term = the scan (same members; the MODEL lists them in key order). -/
theorem termMatch_scan {st sp} (h : Inv st sp) (f : String) (t : Term) (d : String) :
    d ∈ getTermMatch st f t 0 ↔ d ∈ Spec.termMatch sp f t := by
  simp only [getTermMatch, Nat.lt_irrefl, if_false, mem_sortBy, Spec.termMatch, List.mem_map,
    List.mem_filter, h.entries]

/-- number values of a field = the scan: the key-ordered view the numeric queries walk over
    holds exactly the (value, document) pairs of the live documents. -/
theorem numView_scan {st sp} (h : Inv st sp) (f : String) (w : Nat) (d : String) :
    (w, d) ∈ numView st f ↔ (⟨f, .num w, d⟩ : EKey) ∈ Spec.facts sp := by
  simp only [numView, mem_sortBy, List.mem_filterMap, ← h.entries]
  constructor
  · rintro ⟨e, he, hx⟩
    obtain ⟨f', t', d'⟩ := e
    by_cases hf : f' = f
    · subst hf
      cases t' with
      | str s => simp at hx
      | num w' => simp at hx; obtain ⟨rfl, rfl⟩ := hx; exact he
    · simp [hf] at hx
  · intro he
    exact ⟨_, he, by simp⟩

/-- Open finding C09-bulk-replace, the negation of the full statement: whenever a live document
    `d` holds `t` under `f` and is bulk-added again with a version that no longer does, the
    committed state does NOT abstract to the live documents (the old entry stays).  The concrete
    instance addField a; addDocBulk d1 {a:x}; addDocBulk d1 {a:y} is `corpus/C09/kf-bulk-replace.ops`,
    replayed on the real code by every run (strings are opaque to the kernel, so the instance
    cannot be evaluated by `decide` here). -/
theorem bulk_replace_counterexample {st sp} (h : Inv st sp) (d : String) (doc : JV) (f : String) (t : Term)
    (hlive : (⟨f, t, d⟩ : EKey) ∈ st.entries) {st' : St} (hs : addDocTx st d doc = some st')
    (pr : List (String × Term)) (hp : Spec.project doc sp.fields = some pr) (hnot : (f, t) ∉ pr) :
    ¬ Inv st' (Spec.addDoc sp d doc) := by
  intro hinv
  have hlp := addLoop_project doc d st.fields st.terms st.entries []
  simp only [addDocTx] at hs
  rw [h.fields, hp] at hlp
  obtain ⟨ts', es', h1, h2⟩ := hlp
  rw [h.fields, h1] at hs
  injection hs with hs; subst hs
  have hin : (⟨f, t, d⟩ : EKey) ∈ es' := (h2 _).2 (Or.inl hlive)
  have := (hinv.entries _).1 hin
  rw [mem_facts] at this
  obtain ⟨p, hp', hq, hd⟩ := this
  simp only [Spec.addDoc, hp, Spec.removeDoc, List.mem_cons, List.mem_filter] at hp'
  rcases hp' with rfl | ⟨_, hne⟩
  · exact hnot hq
  · simp at hne; exact hne hd.symm

end Grip.Props.C09
