import Grip.Model.C09
import Grip.Spec.C09
namespace Grip.Props.C09
open Grip.C09
theorem placeholder_true : True := trivial
end Grip.Props.C09
