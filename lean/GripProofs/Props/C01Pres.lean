/-
  Property C01, TYPE SOUNDNESS OF TRAVERSALS in the form the processors rely on:
  "the typing computed by engine/core/compile.go (`ps.LastType`, `ps.MarkTypes`) is true of every
  traveler every processor ever receives", so `t.GetCurrent()` / `t.GetMark(m)` can be dereferenced
  on the element types without a nil check.

  The per-statement theorems (`preservation`, `progress`, one lemma per step kind in
  GripProofs/Lemmas/C01Shape.lean: `step_preserves_gen`, `step_progress_gen`) and the trace theorems
  are in GripProofs/Props/C01Shape.lean.  This module states them as a type-system result over
  judgements, for an ARBITRARY start state and input stream (not only the seed traveler), and for
  every PREFIX of the statement list — each intermediate stream between two processors:

    `TravelerOk τ t`                  traveler `t` agrees with typing state `τ`
    `HasType τ0 stmts τ`              τ0 ⊢ stmts : τ  (the typing fold = the regenerated Go switch,
                                      `typeStep_is_source_switch`)
    `traversal_preservation`          ok input for τ0, τ0 ⊢ stmts : τ  ⇒  every output traveler ok for τ
    `every_prefix_typed`              the same for every prefix `stmts.take k` (with its own type τk),
                                      and the run of the whole list is the run of the rest on that stream
    `traversal_progress`              the partial ("strict") semantics is defined on the whole list
    `no_stuck_step`                   statement number k, on the stream the first k statements produce,
                                      is not stuck: `evalStepStrict … ≠ none`, and equals the model
    `rejected_move_is_stuck`          converse of progress for the six moves: rejected ⇒ stuck
    `illtyped_rejected_before_rows`   a rejected list: compile-then-wire yields the error, no rows,
                                      although a well-typed PREFIX alone would have produced rows
    `processors_may_dereference`      what a processor may assume of each traveler it receives
  Non-vacuity: `exProg` = V().as("a").outE("k").select("a") on `gEx` satisfies every hypothesis.
-/
import GripProofs.Props.C01Shape
import GripProofs.Lemmas.C01Pres

namespace Grip.Props.C01
open Grip Grip.C01 Grip.Spec.C01 Grip.Props.C01.Lemmas

variable (numOf : String → Option Int) (g : AGraph)

/-- Traveler `t` agrees with typing state `τ`: for current type vertex / edge / path a current
    element of that kind is present (never nil); for count / render / selection / aggregation there
    is no current element and the payload slot is filled (selections hold elements of the recorded
    kinds); while the type still carries marks, every mark the state records holds an element of
    the recorded kind, every other mark is nil. -/
def TravelerOk (τ : TState) (t : Traveler) : Prop := WellShaped τ.last τ.marks t

/-- The lax variant (an edge only has to be present): needs no assumption on the graph. -/
def TravelerPresent (τ : TState) (t : Traveler) : Prop := PresentShaped τ.last τ.marks t

/-- τ0 ⊢ stmts : τ — the model's type checker (= the table regenerated from the Go switch). -/
def HasType (τ0 : TState) (stmts : List Stmt) (τ : TState) : Prop := typeFold τ0 stmts = .ok τ

/-- The hypotheses of preservation on the program: only statements the model gives a meaning
    (all documented steps are), and `fields` never excludes `_to` (see
    `preservation_fields_blanks_to` for why). -/
structure PresSide (stmts : List Stmt) : Prop where
  modelled : ∀ s ∈ stmts, shapeModelled s = true
  keeps : ∀ s ∈ stmts, keepsTo s

theorem TravelerOk.present {τ : TState} {t : Traveler} (h : TravelerOk τ t) : TravelerPresent τ t :=
  wellShaped_present h

/-- `typeCheck` is `HasType` from the initial state. -/
theorem hasType_of_typeCheck {stmts : List Stmt} {τ : TState} (h : typeCheck stmts = .ok τ) :
    HasType {} stmts τ := typeCheck_fold h

/-- The seed traveler `pipeline.Run` feeds the first processor is ok for the initial state. -/
theorem seed_ok : TravelerOk {} Traveler.seed := seed_shaped

theorem PresSide.take {stmts : List Stmt} (h : PresSide stmts) (k : Nat) : PresSide (stmts.take k) :=
  ⟨fun s hs => h.modelled s (List.mem_of_mem_take hs), fun s hs => h.keeps s (List.mem_of_mem_take hs)⟩

/-! ### preservation -/

/-- PRESERVATION over statement lists: from ANY typing state τ0 the typing fold can reach
    (`MarkEnvOK`) and ANY input stream that is ok for τ0, a list with τ0 ⊢ stmts : τ returns only
    travelers that are ok for τ.  Induction over the list, `step_preserves_gen` per statement. -/
theorem traversal_preservation {τ0 τ : TState} {stmts : List Stmt} {ts : List Traveler}
    (hg : EdgesHaveTo g) (hp : PresSide stmts) (henv : MarkEnvOK τ0)
    (ht : HasType τ0 stmts τ) (hin : ∀ t ∈ ts, TravelerOk τ0 t) :
    ∀ t' ∈ evalFrom numOf g τ0 ts stmts, TravelerOk τ t' :=
  evalFrom_preserves_gen (E := strictTo) numOf g hg stmts τ0 τ ts henv
    (alongTyping_of_forall stmts τ0 (fun s hs _ => ⟨hp.modelled s hs, fun _ => Or.inr (hp.keeps s hs)⟩))
    ht hin

/-- … and for the lax shape with no assumption on the graph or on `fields`. -/
theorem traversal_preservation_present {τ0 τ : TState} {stmts : List Stmt} {ts : List Traveler}
    (hm : ∀ s ∈ stmts, shapeModelled s = true) (henv : MarkEnvOK τ0)
    (ht : HasType τ0 stmts τ) (hin : ∀ t ∈ ts, TravelerPresent τ0 t) :
    ∀ t' ∈ evalFrom numOf g τ0 ts stmts, TravelerPresent τ t' :=
  evalFrom_preserves_gen (E := laxTo) numOf g (fun _ _ => trivial) stmts τ0 τ ts henv
    (alongTyping_of_forall stmts τ0 (fun s hs _ => ⟨hm s hs, fun _ => Or.inl trivial⟩))
    ht hin

/-- EVERY PREFIX IS TYPED.  For every k the first k statements have a type τk of their own, the
    stream they produce — which is exactly the stream statement number k receives, the whole run
    being the run of the remaining statements on it — holds only travelers ok for τk, and the
    remaining statements are typed from τk. -/
theorem every_prefix_typed {τ0 τ : TState} {stmts : List Stmt} {ts : List Traveler}
    (hg : EdgesHaveTo g) (hp : PresSide stmts) (henv : MarkEnvOK τ0)
    (ht : HasType τ0 stmts τ) (hin : ∀ t ∈ ts, TravelerOk τ0 t) (k : Nat) :
    ∃ τk, HasType τ0 (stmts.take k) τk ∧ HasType τk (stmts.drop k) τ ∧ MarkEnvOK τk ∧
      (∀ t' ∈ evalFrom numOf g τ0 ts (stmts.take k), TravelerOk τk t') ∧
      evalFrom numOf g τ0 ts stmts =
        evalFrom numOf g τk (evalFrom numOf g τ0 ts (stmts.take k)) (stmts.drop k) := by
  obtain ⟨τk, h1, h2⟩ := typeFold_split stmts τ0 τ k ht
  exact ⟨τk, h1, h2,
    markEnv_fold _ τ0 τk henv (fun s hs => hp.modelled s (List.mem_of_mem_take hs)) h1,
    traversal_preservation numOf g hg (hp.take k) henv h1 hin,
    evalFrom_split numOf g stmts τ0 τk ts k h1⟩

/-- What a processor may assume (the reason the Go processors dereference without nil checks):
    statement number k (`stmts[k]`, compiled with `ps.LastType = τk.last`) receives only travelers
    that, when τk.last is an element type, HAVE a current element, of that kind; and every mark
    recorded with an element type holds an element of that kind. -/
theorem processors_may_dereference {τ0 τ : TState} {stmts : List Stmt} {ts : List Traveler}
    (hg : EdgesHaveTo g) (hp : PresSide stmts) (henv : MarkEnvOK τ0)
    (ht : HasType τ0 stmts τ) (hin : ∀ t ∈ ts, TravelerOk τ0 t) (k : Nat) :
    ∃ τk, HasType τ0 (stmts.take k) τk ∧
      ∀ t ∈ evalFrom numOf g τ0 ts (stmts.take k),
        (τk.last = .vertex → ∃ e, t.cur = some e ∧ IsVertexElem e) ∧
        (τk.last = .edge → ∃ e, t.cur = some e ∧ IsEdgeElem e) ∧
        (τk.last.isElement = true → ∀ m,
          (τk.marks.get m = .vertex → ∃ e, t.getMark m = some e ∧ IsVertexElem e) ∧
          (τk.marks.get m = .edge → ∃ e, t.getMark m = some e ∧ IsEdgeElem e)) := by
  obtain ⟨τk, h1, _, _, hok, _⟩ := every_prefix_typed numOf g hg hp henv ht hin k
  refine ⟨τk, h1, fun t htm => ?_⟩
  have hw := hok t htm
  refine ⟨fun hl => ?_, fun hl => ?_, fun hl m => ⟨fun hm => ?_, fun hm => ?_⟩⟩
  · have := hw.1; rw [hl] at this; exact this
  · have := hw.1; rw [hl] at this; exact this
  · have hc : carriesMarks τk.last = true := by
      revert hl; cases τk.last <;> simp [DataType.isElement, carriesMarks]
    have := hw.2.2 hc m; rw [hm] at this; exact this
  · have hc : carriesMarks τk.last = true := by
      revert hl; cases τk.last <;> simp [DataType.isElement, carriesMarks]
    have := hw.2.2 hc m; rw [hm] at this; exact this

/-! ### progress -/

/-- PROGRESS over statement lists, from any reachable state and any ok input: the partial
    semantics (every totality-only branch of the model = a Go nil dereference / a dispatch on a
    type the processor was not built for is `none`) is defined and equals the model. -/
theorem traversal_progress {τ0 τ : TState} {stmts : List Stmt} {ts : List Traveler}
    (henv : MarkEnvOK τ0) (ht : HasType τ0 stmts τ) (hs : alongTyping StaticOK τ0 stmts)
    (hin : ∀ t ∈ ts, TravelerPresent τ0 t) :
    evalFromStrict numOf g τ0 ts stmts = some (evalFrom numOf g τ0 ts stmts) :=
  evalFromStrict_eq numOf g stmts τ0 τ ts henv ht hs hin

/-- NO STUCK STEP.  Statement number k of a well-typed list, run on the stream the first k
    statements produce from ok input, never reaches one of the model's nil / wrong-type outcomes:
    its strict semantics is defined (`≠ none`) and is the model's step. -/
theorem no_stuck_step {τ0 τ : TState} {stmts : List Stmt} {ts : List Traveler}
    (henv : MarkEnvOK τ0) (ht : HasType τ0 stmts τ) (hs : alongTyping StaticOK τ0 stmts)
    (hin : ∀ t ∈ ts, TravelerPresent τ0 t) (k : Nat) (s : Stmt) (rest : List Stmt)
    (hk : stmts.drop k = s :: rest) :
    ∃ τk τk', HasType τ0 (stmts.take k) τk ∧ typeStep τk s = .ok τk' ∧
      evalStepStrict numOf g τk.last s (evalFrom numOf g τ0 ts (stmts.take k)) ≠ none ∧
      evalStepStrict numOf g τk.last s (evalFrom numOf g τ0 ts (stmts.take k)) =
        some (evalStepT numOf g τk.last s (evalFrom numOf g τ0 ts (stmts.take k))) := by
  obtain ⟨τk, h1, h2⟩ := typeFold_split stmts τ0 τ k ht
  have hal := alongTyping_drop stmts τ0 τk k hs h1
  rw [hk] at hal h2
  have hdoc : ∀ s' ∈ stmts.take k, shapeModelled s' = true := fun s' hs' => by
    obtain ⟨_, hst⟩ := alongTyping_forall _ τ0 τk (alongTyping_take stmts τ0 k hs) h1 s' hs'
    exact documented_shapeModelled hst.documented
  unfold typeFold at h2
  cases hts : typeStep τk s with
  | error e => rw [hts] at h2; cases h2
  | ok τk' =>
    have hpres := traversal_preservation_present numOf g hdoc henv h1 hin
    have hprog := progress numOf g hts hal.1 hpres
    exact ⟨τk, τk', h1, hts, by rw [hprog]; exact Option.some_ne_none _, hprog⟩

/-- CONVERSE of progress for the moves: the type checker rejects a move (`out/in/both` to vertices,
    `outE/inE/bothE` to edges) only where the processor it would build has nothing to stand on —
    whenever `typeStep` rejects such a statement, the strict semantics is stuck on every non-empty
    input stream.  So loosening one of these typing rules (admitting `outE` after an edge, `out`
    after `count`, …) breaks `progress`.  (For other statements a rejection is not always
    necessary in this sense: `has(and())` after `count` would not be stuck.) -/
theorem rejected_move_is_stuck (st : TState) (s : Stmt)
    (hk : s.kind ∈ [Kind.out, .in_, .both, .outE, .inE, .bothE]) (e : TypeErr)
    (he : typeStep st s = .error e) (t : Traveler) (ts : List Traveler) :
    evalStepStrict numOf g st.last s (t :: ts) = none := by
  obtain ⟨last, marks⟩ := st
  cases s <;> simp [Stmt.kind] at hk <;>
    (cases last <;> simp [typeStep, moveToVertex, moveToEdge] at he <;>
      simp [evalStepStrict, flatS, allDefined, stepOutS, stepInS, stepOutES, stepInES, both2])

/-- test: `outE` standing on an edge, `out` standing on a count -/
example : evalStepStrict numOf gEx .edge (.outE []) [tEdgeAB] = none ∧
    evalStepStrict numOf gEx .count (.out []) [{ count := 2 }] = none :=
  ⟨rejected_move_is_stuck numOf gEx ⟨.edge, []⟩ (.outE []) (by simp [Stmt.kind]) .badLastType rfl _ _,
   rejected_move_is_stuck numOf gEx ⟨.count, []⟩ (.out []) (by simp [Stmt.kind]) .badLastType rfl _ _⟩

/-! ### rejection before any row -/

/-- ILL-TYPED ⇒ REJECTED BEFORE ANY ROW.  If the type checker rejects the list, the compiled run
    (all processors are built before any runs: `compileAndRun`, proved equal to `run` in
    `pipeline_is_fold`) is that error — there is no row list at all.  (Links
    `illtyped_no_rows_compiled` / `illtyped_no_rows`.) -/
theorem illtyped_rejected_before_rows (stmts : List Stmt) (e : TypeErr)
    (h : typeCheck stmts = .error e) :
    compileAndRun numOf g stmts = .error e ∧ run numOf g stmts = .error e ∧
      ∀ rows, compileAndRun numOf g stmts ≠ .ok rows := by
  have hc := illtyped_no_rows_compiled numOf g stmts e h
  exact ⟨hc, illtyped_no_rows numOf g stmts e h, fun rows hr => by rw [hc] at hr; cases hr⟩

/-! ### non-vacuity: a 4-step traversal with a mark and a select, on a concrete graph -/

/-- `V().as("a").outE("k").select("a")` -/
def exProg : List Stmt := [.V [], .as_ "a", .outE ["k"], .select ["a"]]

theorem validFieldName_a : validFieldName "a" = true := by
  have h1 : ("a".startsWith "_") = false := by simp
  have h2 : ("a".startsWith "-") = false := by simp
  have h3 : Path.reserved.contains "a" = false := by decide
  have h4 : "a".toList = ['a'] := by rfl
  have h5 : forbiddenChars.contains 'a' = false := by decide
  simp only [validFieldName, h1, h2, h3, h4, List.any_cons, List.any_nil, h5]
  decide

def τV : TState := ⟨.vertex, []⟩
def τVa : TState := ⟨.vertex, [("a", .vertex)]⟩
def τEa : TState := ⟨.edge, [("a", .vertex)]⟩

theorem ex_t1 : typeStep {} (.V []) = .ok τV := rfl
theorem ex_t2 : typeStep τV (.as_ "a") = .ok τVa := by
  have h1 : ("a" == "") = false := by decide
  have h2 : ("a" == currentNamespace) = false := by decide
  simp [typeStep, τV, τVa, validFieldName_a, h1, h2, MarkTypes.set]
theorem ex_t3 : typeStep τVa (.outE ["k"]) = .ok τEa := rfl
theorem ex_t4 : typeStep τEa (.select ["a"]) = .ok τVa := by
  have : MarkTypes.get [("a", DataType.vertex)] "a" = .vertex := by decide
  simp [typeStep, needElement, τEa, τVa, this]

/-- the program is accepted, with final type vertex and mark `a : vertex` -/
theorem exProg_typed : typeCheck exProg = .ok τVa := by
  simp only [exProg, typeCheck, validate, typeFold, ex_t1, ex_t2, ex_t3, ex_t4]

theorem exProg_side : PresSide exProg :=
  ⟨by decide, fun s hs => by
    simp only [exProg, List.mem_cons, List.not_mem_nil, or_false] at hs
    rcases hs with rfl | rfl | rfl | rfl <;> trivial⟩

theorem exProg_static : alongTyping StaticOK {} exProg := by
  have hm : (MarkTypes.get τEa.marks "a").isElement = true := by decide
  simp only [exProg, alongTyping, ex_t1, ex_t2, ex_t3, ex_t4, and_true]
  refine ⟨?_, ?_, ?_, ?_⟩
  · exact staticOK_of_norefs rfl rfl rfl (by decide)
  · exact staticOK_of_norefs rfl rfl rfl (by decide)
  · exact staticOK_of_norefs rfl rfl rfl (by decide)
  · refine ⟨rfl, fun p hp => (by cases hp), fun m h => ?_, fun h => (by cases h)⟩
    simp only [stmtMarks, List.mem_singleton] at h
    subst h; exact hm

theorem exProg_eval : evalFrom numOf gEx {} [Traveler.seed] exProg =
    evalStepT numOf gEx .edge (.select ["a"]) (evalStepT numOf gEx .vertex (.outE ["k"])
      (evalStepT numOf gEx .vertex (.as_ "a") (evalStepT numOf gEx .noData (.V []) [Traveler.seed]))) := by
  simp only [exProg, evalFrom, ex_t1, ex_t2, ex_t3, ex_t4]
  rfl

/-- NON-VACUITY: on `gEx` the program `exProg` satisfies every hypothesis of the theorems above
    (graph, side conditions, reachable start state, typing, ok input), so their conclusions hold
    of it: all output travelers are ok for the final type, each of the four statements is not
    stuck on the stream in front of it, and the run does produce travelers (three: one per
    `k`-edge of `gEx`, each selected back to the vertex marked `a`). -/
example :
    EdgesHaveTo gEx ∧ PresSide exProg ∧ MarkEnvOK {} ∧ HasType {} exProg τVa ∧
    (∀ t ∈ [Traveler.seed], TravelerOk {} t) ∧ alongTyping StaticOK {} exProg ∧
    (∀ t' ∈ evalFrom numOf gEx {} [Traveler.seed] exProg, TravelerOk τVa t') ∧
    (∀ k, ∃ τk, HasType {} (exProg.take k) τk ∧
      ∀ t' ∈ evalFrom numOf gEx {} [Traveler.seed] (exProg.take k), TravelerOk τk t') ∧
    evalFromStrict numOf gEx {} [Traveler.seed] exProg = some (evalFrom numOf gEx {} [Traveler.seed] exProg) ∧
    (evalFrom (fun _ => none) gEx {} [Traveler.seed] exProg).length = 3 := by
  have hseed : ∀ t ∈ [Traveler.seed], TravelerOk {} t := fun t ht => by
    simp only [List.mem_singleton] at ht; subst ht; exact seed_ok
  have hty := hasType_of_typeCheck exProg_typed
  refine ⟨gEx_edgesHaveTo, exProg_side, markEnv_initial, hty, hseed, exProg_static,
    traversal_preservation numOf gEx gEx_edgesHaveTo exProg_side markEnv_initial hty hseed,
    fun k => ?_,
    traversal_progress numOf gEx markEnv_initial hty exProg_static
      (fun t ht => (hseed t ht).present), ?_⟩
  · obtain ⟨τk, h1, _, _, h4, _⟩ :=
      every_prefix_typed numOf gEx gEx_edgesHaveTo exProg_side markEnv_initial hty hseed k
    exact ⟨τk, h1, h4⟩
  · rw [exProg_eval]; decide

/-- the third statement (`outE`, k = 2) is not stuck on the stream `V().as("a")` produces -/
example : ∃ τk τk', HasType {} (exProg.take 2) τk ∧ typeStep τk (.outE ["k"]) = .ok τk' ∧
    evalStepStrict numOf gEx τk.last (.outE ["k"]) (evalFrom numOf gEx {} [Traveler.seed] (exProg.take 2)) ≠ none := by
  obtain ⟨τk, τk', h1, h2, h3, _⟩ := no_stuck_step numOf gEx (ts := [Traveler.seed]) markEnv_initial
    (hasType_of_typeCheck exProg_typed) exProg_static
    (fun t ht => by simp only [List.mem_singleton] at ht; subst ht; exact seed_ok.present)
    2 (.outE ["k"]) [.select ["a"]] rfl
  exact ⟨τk, τk', h1, h2, h3⟩

/-- `illtyped_rejected_before_rows` is not vacuous: `V().count().out()` is rejected although its
    prefix `V().count()` is accepted and yields a row. -/
example : typeCheck [.V [], .count, .out []] = .error .badLastType ∧
    compileAndRun numOf gEx [.V [], .count, .out []] = .error .badLastType ∧
    typeCheck [.V [], .count] = .ok ⟨.count, []⟩ :=
  ⟨rfl, (illtyped_rejected_before_rows numOf gEx _ _ rfl).1, rfl⟩

end Grip.Props.C01
