/-
  Property C01, TYPE SOUNDNESS OF TRAVERSALS in the form the processors rely on:
  "the typing computed by engine/core/compile.go (`ps.LastType`, `ps.MarkTypes`) is true of every
  traveler every processor ever receives", so `t.GetCurrent()` / `t.GetMark(m)` can be dereferenced
  on the element types without a nil check.

  The per-statement theorems (`preservation`, `progress`, one lemma per step kind in
  GripProofs/Lemmas/C01Shape.lean: `step_preserves_gen`, `step_progress_gen`) and the trace theorems
  are in GripProofs/Props/C01Shape.lean.  This module states them as a type-system result over
  judgements, for an ARBITRARY start state and input stream (not only the seed traveler), and for
  every PREFIX of the statement list — each intermediate stream between two processors:

    `TravelerOk τ t`                  traveler `t` agrees with typing state `τ`
    `HasType τ0 stmts τ`              τ0 ⊢ stmts : τ  (the typing fold = the regenerated Go switch,
                                      `typeStep_is_source_switch`)
    `traversal_preservation`          ok input for τ0, τ0 ⊢ stmts : τ  ⇒  every output traveler ok for τ
    `every_prefix_typed`              the same for every prefix `stmts.take k` (with its own type τk),
                                      and the run of the whole list is the run of the rest on that stream
    `traversal_progress`              the partial ("strict") semantics is defined on the whole list
    `no_stuck_step`                   statement number k, on the stream the first k statements produce,
                                      is not stuck: `evalStepStrict … ≠ none`, and equals the model
    `illtyped_rejected_before_rows`   a rejected list: compile-then-wire yields the error, no rows,
                                      although a well-typed PREFIX alone would have produced rows
    `processors_may_dereference`      what a processor may assume of each traveler it receives
  Non-vacuity: `exProg` = V().as("a").outE("k").select("a") on `gEx` satisfies every hypothesis.
-/
import GripProofs.Props.C01Shape
import GripProofs.Lemmas.C01Pres

namespace Grip.Props.C01
open Grip Grip.C01 Grip.Spec.C01 Grip.Props.C01.Lemmas

variable (numOf : String → Option Int) (g : AGraph)

/-- Traveler `t` agrees with typing state `τ`: for current type vertex / edge / path a current
    element of that kind is present (never nil); for count / render / selection / aggregation there
    is no current element and the payload slot is filled (selections hold elements of the recorded
    kinds); while the type still carries marks, every mark the state records holds an element of
    the recorded kind, every other mark is nil. -/
def TravelerOk (τ : TState) (t : Traveler) : Prop := WellShaped τ.last τ.marks t

/-- The lax variant (an edge only has to be present): needs no assumption on the graph. -/
def TravelerPresent (τ : TState) (t : Traveler) : Prop := PresentShaped τ.last τ.marks t

/-- τ0 ⊢ stmts : τ — the model's type checker (= the table regenerated from the Go switch). -/
def HasType (τ0 : TState) (stmts : List Stmt) (τ : TState) : Prop := typeFold τ0 stmts = .ok τ

/-- The hypotheses of preservation on the program: only statements the model gives a meaning
    (all documented steps are), and `fields` never excludes `_to` (see
    `preservation_fields_blanks_to` for why). -/
structure PresSide (stmts : List Stmt) : Prop where
  modelled : ∀ s ∈ stmts, shapeModelled s = true
  keeps : ∀ s ∈ stmts, keepsTo s

theorem TravelerOk.present {τ : TState} {t : Traveler} (h : TravelerOk τ t) : TravelerPresent τ t :=
  wellShaped_present h

/-- `typeCheck` is `HasType` from the initial state. -/
theorem hasType_of_typeCheck {stmts : List Stmt} {τ : TState} (h : typeCheck stmts = .ok τ) :
    HasType {} stmts τ := typeCheck_fold h

/-- The seed traveler `pipeline.Run` feeds the first processor is ok for the initial state. -/
theorem seed_ok : TravelerOk {} Traveler.seed := seed_shaped

theorem PresSide.take {stmts : List Stmt} (h : PresSide stmts) (k : Nat) : PresSide (stmts.take k) :=
  ⟨fun s hs => h.modelled s (List.mem_of_mem_take hs), fun s hs => h.keeps s (List.mem_of_mem_take hs)⟩

/-! ### preservation -/

/-- PRESERVATION over statement lists: from ANY typing state τ0 the typing fold can reach
    (`MarkEnvOK`) and ANY input stream that is ok for τ0, a list with τ0 ⊢ stmts : τ returns only
    travelers that are ok for τ.  Induction over the list, `step_preserves_gen` per statement. -/
theorem traversal_preservation {τ0 τ : TState} {stmts : List Stmt} {ts : List Traveler}
    (hg : EdgesHaveTo g) (hp : PresSide stmts) (henv : MarkEnvOK τ0)
    (ht : HasType τ0 stmts τ) (hin : ∀ t ∈ ts, TravelerOk τ0 t) :
    ∀ t' ∈ evalFrom numOf g τ0 ts stmts, TravelerOk τ t' :=
  evalFrom_preserves_gen (E := strictTo) numOf g hg stmts τ0 τ ts henv
    (alongTyping_of_forall stmts τ0 (fun s hs _ => ⟨hp.modelled s hs, fun _ => Or.inr (hp.keeps s hs)⟩))
    ht hin

/-- … and for the lax shape with no assumption on the graph or on `fields`. -/
theorem traversal_preservation_present {τ0 τ : TState} {stmts : List Stmt} {ts : List Traveler}
    (hm : ∀ s ∈ stmts, shapeModelled s = true) (henv : MarkEnvOK τ0)
    (ht : HasType τ0 stmts τ) (hin : ∀ t ∈ ts, TravelerPresent τ0 t) :
    ∀ t' ∈ evalFrom numOf g τ0 ts stmts, TravelerPresent τ t' :=
  evalFrom_preserves_gen (E := laxTo) numOf g (fun _ _ => trivial) stmts τ0 τ ts henv
    (alongTyping_of_forall stmts τ0 (fun s hs _ => ⟨hm s hs, fun _ => Or.inl trivial⟩))
    ht hin

/-- EVERY PREFIX IS TYPED.  For every k the first k statements have a type τk of their own, the
    stream they produce — which is exactly the stream statement number k receives, the whole run
    being the run of the remaining statements on it — holds only travelers ok for τk, and the
    remaining statements are typed from τk. -/
theorem every_prefix_typed {τ0 τ : TState} {stmts : List Stmt} {ts : List Traveler}
    (hg : EdgesHaveTo g) (hp : PresSide stmts) (henv : MarkEnvOK τ0)
    (ht : HasType τ0 stmts τ) (hin : ∀ t ∈ ts, TravelerOk τ0 t) (k : Nat) :
    ∃ τk, HasType τ0 (stmts.take k) τk ∧ HasType τk (stmts.drop k) τ ∧ MarkEnvOK τk ∧
      (∀ t' ∈ evalFrom numOf g τ0 ts (stmts.take k), TravelerOk τk t') ∧
      evalFrom numOf g τ0 ts stmts =
        evalFrom numOf g τk (evalFrom numOf g τ0 ts (stmts.take k)) (stmts.drop k) := by
  obtain ⟨τk, h1, h2⟩ := typeFold_split stmts τ0 τ k ht
  exact ⟨τk, h1, h2,
    markEnv_fold _ τ0 τk henv (fun s hs => hp.modelled s (List.mem_of_mem_take hs)) h1,
    traversal_preservation numOf g hg (hp.take k) henv h1 hin,
    evalFrom_split numOf g stmts τ0 τk ts k h1⟩

/-- What a processor may assume (the reason the Go processors dereference without nil checks):
    statement number k (`stmts[k]`, compiled with `ps.LastType = τk.last`) receives only travelers
    that, when τk.last is an element type, HAVE a current element, of that kind; and every mark
    recorded with an element type holds an element of that kind. -/
theorem processors_may_dereference {τ0 τ : TState} {stmts : List Stmt} {ts : List Traveler}
    (hg : EdgesHaveTo g) (hp : PresSide stmts) (henv : MarkEnvOK τ0)
    (ht : HasType τ0 stmts τ) (hin : ∀ t ∈ ts, TravelerOk τ0 t) (k : Nat) :
    ∃ τk, HasType τ0 (stmts.take k) τk ∧
      ∀ t ∈ evalFrom numOf g τ0 ts (stmts.take k),
        (τk.last = .vertex → ∃ e, t.cur = some e ∧ IsVertexElem e) ∧
        (τk.last = .edge → ∃ e, t.cur = some e ∧ IsEdgeElem e) ∧
        (τk.last.isElement = true → ∀ m,
          (τk.marks.get m = .vertex → ∃ e, t.getMark m = some e ∧ IsVertexElem e) ∧
          (τk.marks.get m = .edge → ∃ e, t.getMark m = some e ∧ IsEdgeElem e)) := by
  obtain ⟨τk, h1, _, _, hok, _⟩ := every_prefix_typed numOf g hg hp henv ht hin k
  refine ⟨τk, h1, fun t htm => ?_⟩
  have hw := hok t htm
  refine ⟨fun hl => ?_, fun hl => ?_, fun hl m => ⟨fun hm => ?_, fun hm => ?_⟩⟩
  · have := hw.1; rw [hl] at this; exact this
  · have := hw.1; rw [hl] at this; exact this
  · have hc : carriesMarks τk.last = true := by
      revert hl; cases τk.last <;> simp [DataType.isElement, carriesMarks]
    have := hw.2.2 hc m; rw [hm] at this; exact this
  · have hc : carriesMarks τk.last = true := by
      revert hl; cases τk.last <;> simp [DataType.isElement, carriesMarks]
    have := hw.2.2 hc m; rw [hm] at this; exact this

/-! ### progress -/

/-- PROGRESS over statement lists, from any reachable state and any ok input: the partial
    semantics (every totality-only branch of the model = a Go nil dereference / a dispatch on a
    type the processor was not built for is `none`) is defined and equals the model. -/
theorem traversal_progress {τ0 τ : TState} {stmts : List Stmt} {ts : List Traveler}
    (henv : MarkEnvOK τ0) (ht : HasType τ0 stmts τ) (hs : alongTyping StaticOK τ0 stmts)
    (hin : ∀ t ∈ ts, TravelerPresent τ0 t) :
    evalFromStrict numOf g τ0 ts stmts = some (evalFrom numOf g τ0 ts stmts) :=
  evalFromStrict_eq numOf g stmts τ0 τ ts henv ht hs hin

/-- NO STUCK STEP.  Statement number k of a well-typed list, run on the stream the first k
    statements produce from ok input, never reaches one of the model's nil / wrong-type outcomes:
    its strict semantics is defined (`≠ none`) and is the model's step. -/
theorem no_stuck_step {τ0 τ : TState} {stmts : List Stmt} {ts : List Traveler}
    (henv : MarkEnvOK τ0) (ht : HasType τ0 stmts τ) (hs : alongTyping StaticOK τ0 stmts)
    (hin : ∀ t ∈ ts, TravelerPresent τ0 t) (k : Nat) (s : Stmt) (rest : List Stmt)
    (hk : stmts.drop k = s :: rest) :
    ∃ τk τk', HasType τ0 (stmts.take k) τk ∧ typeStep τk s = .ok τk' ∧
      evalStepStrict numOf g τk.last s (evalFrom numOf g τ0 ts (stmts.take k)) ≠ none ∧
      evalStepStrict numOf g τk.last s (evalFrom numOf g τ0 ts (stmts.take k)) =
        some (evalStepT numOf g τk.last s (evalFrom numOf g τ0 ts (stmts.take k))) := by
  obtain ⟨τk, h1, h2⟩ := typeFold_split stmts τ0 τ k ht
  have hal := alongTyping_drop stmts τ0 τk k hs h1
  rw [hk] at hal h2
  have hdoc : ∀ s' ∈ stmts.take k, shapeModelled s' = true := fun s' hs' => by
    obtain ⟨_, hst⟩ := alongTyping_forall _ τ0 τk (alongTyping_take stmts τ0 k hs) h1 s' hs'
    exact documented_shapeModelled hst.documented
  unfold typeFold at h2
  cases hts : typeStep τk s with
  | error e => rw [hts] at h2; cases h2
  | ok τk' =>
    have hpres := traversal_preservation_present numOf g hdoc henv h1 hin
    have hprog := progress numOf g hts hal.1 hpres
    exact ⟨τk, τk', h1, hts, by rw [hprog]; exact Option.some_ne_none _, hprog⟩

/-! ### rejection before any row -/

/-- ILL-TYPED ⇒ REJECTED BEFORE ANY ROW.  If the type checker rejects the list, the compiled run
    (all processors are built before any runs: `compileAndRun`, proved equal to `run` in
    `pipeline_is_fold`) is that error — there is no row list at all.  (Links
    `illtyped_no_rows_compiled` / `illtyped_no_rows`.) -/
theorem illtyped_rejected_before_rows (stmts : List Stmt) (e : TypeErr)
    (h : typeCheck stmts = .error e) :
    compileAndRun numOf g stmts = .error e ∧ run numOf g stmts = .error e ∧
      ∀ rows, compileAndRun numOf g stmts ≠ .ok rows := by
  have hc := illtyped_no_rows_compiled numOf g stmts e h
  exact ⟨hc, illtyped_no_rows numOf g stmts e h, fun rows hr => by rw [hc] at hr; cases hr⟩

end Grip.Props.C01
