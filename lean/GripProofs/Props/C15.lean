/-
  Property C15 — a gripper-mapped graph is exactly the graph its mapping describes.
  Property theorems only; lemmas are in GripProofs/Lemmas/C15*.lean.

  `t : Tables` (any table contents), `m : Mapping` (any vertex / edge types).  MODEL = the read
  interface of gripper.TabularGraph (`tg…`, Grip.Model.C15); SPEC = `materialise t m`
  (Grip.Spec.C15) and C01's `run` on it.
-/
import Grip.Model.C15
import Grip.Spec.C15
import GripProofs.Lemmas.C15
import GripProofs.Lemmas.C15Edges
import GripProofs.Lemmas.C15Run

namespace Grip.Props.C15
open Grip Grip.C15 Grip.Spec.C15 Grip.Props.C15.Lemmas

/-! ### one vertex per table row -/

/-- The vertex listing is the materialised vertex list, and a vertex is in it exactly when it is
    the image of a row of a vertex type's table: id = prefix + row id, the mapped label, the row
    as properties; there are as many as rows; looking an id up finds what the listing holds; and
    with prefix-free prefixes the channel lookup (which asks every source whose prefix matches)
    finds that same single vertex. -/
theorem mapped_vertices (t : Tables) (m : Mapping) :
    tgVertexList t m = (materialise t m).verts ∧
    (∀ x, x ∈ tgVertexList t m ↔
      ∃ v ∈ m.verts, ∃ r ∈ t.rows v.table, x = { gid := v.pfx ++ r.id, label := v.label, data := r.data }) ∧
    (tgVertexList t m).length = (m.verts.map (fun v => (t.rows v.table).length)).sum ∧
    (∀ key, tgGetVertex t m key = (materialise t m).getVertex key) ∧
    (PrefixFree m → ∀ key, tgVertexChan t m key = ((materialise t m).getVertex key).toList) := by
  refine ⟨rfl, ?_, ?_, getVertex_eq t m, fun h => vertexChan_eq t m h⟩
  · intro x
    simp only [tgVertexList, List.mem_flatMap, List.mem_map, mkVertex]
    constructor
    · rintro ⟨v, hv, r, hr, rfl⟩; exact ⟨v, hv, r, hr, rfl⟩
    · rintro ⟨v, hv, r, hr, rfl⟩; exact ⟨v, hv, r, hr, rfl⟩
  · simp [tgVertexList, List.length_flatMap]

/-! ### one edge per link row with non-empty endpoints -/

/-- What NewTabularGraph checks includes that every edge type starts and ends at a declared
    vertex type. -/
theorem configOk_ends_declared (t : Tables) (m : Mapping) (h : configOk t m = true) : EndsDeclared m := by
  intro e he
  simp only [configOk, Bool.and_eq_true, List.all_eq_true, List.any_eq_true] at h
  obtain ⟨⟨⟨⟨⟨⟨⟨⟨v1, hv1, h1⟩, ⟨v2, hv2, h2⟩⟩, _⟩, _⟩, _⟩, _⟩, _⟩, _⟩ := h.2 e he
  constructor
  · exact List.mem_map.2 ⟨v2, hv2, by simpa using h2⟩
  · exact List.mem_map.2 ⟨v1, hv1, by simpa using h1⟩

/-- The materialised edges are exactly: for every edge type and every row of its link table whose
    two link fields hold non-empty strings, one edge from (from-type prefix + from value) to
    (to-type prefix + to value) with the mapped label and the row as properties — and nothing for
    a row with a missing, non-string or empty link field. -/
theorem materialised_edges (t : Tables) (m : Mapping) (x : Elem) :
    x ∈ (materialise t m).edges ↔
      ∃ e ∈ m.edges, ∃ r ∈ t.rows e.table, ∃ f d,
        fieldString r.data e.fromField = some f ∧ fieldString r.data e.toField = some d ∧
        f ≠ "" ∧ d ≠ "" ∧
        x = { gid := e.frm ++ f ++ "-" ++ e.label ++ "-" ++ e.to ++ d, frm := e.frm ++ f, to := e.to ++ d,
              label := e.label, data := r.data } := by
  simp only [materialise, List.mem_flatMap, List.mem_filterMap]
  constructor
  · rintro ⟨e, he, r, hr, hx⟩
    refine ⟨e, he, r, hr, ?_⟩
    unfold specEdge at hx
    split at hx
    · rename_i f d hf hd
      split at hx
      · rename_i hne
        simp only [Bool.and_eq_true, bne_iff_ne, ne_eq] at hne
        exact ⟨f, d, hf, hd, hne.1, hne.2, (Option.some.inj hx).symm⟩
      · cases hx
    · cases hx
  · rintro ⟨e, he, r, hr, f, d, hf, hd, hfe, hde, rfl⟩
    refine ⟨e, he, r, hr, ?_⟩
    simp [specEdge, hf, hd, hfe, hde]

/-- The gripper graph exposes exactly these edges: the full listing, and — in both directions —
    the edges and the neighbours of any id, with any label list (multisets; prefix-free prefixes,
    edge types between declared vertex types). -/
theorem mapped_edges (t : Tables) (m : Mapping) (hp : PrefixFree m) (hd : EndsDeclared m) :
    (tgEdgeList t m).Perm (materialise t m).edges ∧
    (∀ key ls, (tgOutEdges t m key ls).Perm ((materialise t m).outEdges key ls)) ∧
    (∀ key ls, (tgInEdges t m key ls).Perm ((materialise t m).inEdges key ls)) ∧
    (∀ key ls, (tgOutVerts t m key ls).Perm ((materialise t m).outVerts key ls)) ∧
    (∀ key ls, (tgInVerts t m key ls).Perm ((materialise t m).inVerts key ls)) :=
  ⟨edgeList_perm t m hp hd, outEdges_perm t m hp hd, inEdges_perm t m hp hd,
   outVerts_perm t m hp hd, inVerts_perm t m hp hd⟩

/-- Hence the whole read interface of the gripper graph agrees with the read interface of the
    materialised graph (id lookups of vertices exactly, everything else as multisets). -/
theorem reads_agree (t : Tables) (m : Mapping) (hp : PrefixFree m) (hd : EndsDeclared m) :
    ReadsPerm (tgReads t m) (Reads.ofGraph (materialise t m)) where
  vertexList := by simp [tgReads, Reads.ofGraph, (mapped_vertices t m).1]
  edgeList := edgeList_perm t m hp hd
  getVertex := getVertex_eq t m
  vertexChan := fun id => by
    simp only [tgReads, Reads.ofGraph, vertexChan_eq t m hp]
    exact List.Perm.refl _
  outEdges := outEdges_perm t m hp hd
  inEdges := inEdges_perm t m hp hd
  outVerts := outVerts_perm t m hp hd
  inVerts := inVerts_perm t m hp hd

/-! ### traversals -/

/-- The reduction lemma: C01's semantics is a function of the read interface, and on statements
    whose meaning is order-free it respects multiset agreement of two interfaces — same error or
    the same rows as multisets. -/
theorem reads_determine_rows (numOf : String → Option Int) (a b : Reads) (h : ReadsPerm a b)
    (stmts : List Stmt) (hs : ∀ s ∈ stmts, plainStmt s = true) :
    SameRows (runPlainR numOf a stmts) (runPlainR numOf b stmts) :=
  runPlainR_perm numOf h stmts hs

/-- … and over the read interface of an abstract graph it is C01's `run`. -/
theorem reads_of_graph_is_run (numOf : String → Option Int) (g : AGraph) (stmts : List Stmt) :
    runPlainR numOf (Reads.ofGraph g) stmts = run numOf g stmts :=
  runPlainR_ofGraph numOf g stmts

/-- TabularOptimizer + FindVertex/EdgeHasLabelStart: the plan with the driver's label scan returns
    exactly what the literal plan returns — for every read interface whose scans are the listing
    filtered by label, every statement list (ill-typed ones included: the same error). -/
theorem tabularOptimizer_preserves (numOf : String → Option Int) (rd : Reads)
    (scanV scanE : List String → List Elem)
    (hV : ∀ ls, scanV ls = rd.vertexList.filter (fun v => ls.contains v.label))
    (hE : ∀ ls, scanE ls = rd.edgeList.filter (fun e => ls.contains e.label))
    (stmts : List Stmt) : runR numOf rd scanV scanE stmts = runPlainR numOf rd stmts :=
  optimizer_eq numOf rd scanV scanE hV hE stmts

/-- The gripper scans are the gripper listings filtered by label, so on the gripper graph the
    optimized plan equals the literal plan. -/
theorem tabularOptimizer_preserves_gripper (numOf : String → Option Int) (t : Tables) (m : Mapping)
    (stmts : List Stmt) : runT numOf t m stmts = runPlainR numOf (tgReads t m) stmts :=
  optimizer_eq numOf (tgReads t m) _ _ (vertexLabelScan_eq t m) (edgeLabelScan_eq t m) stmts

/-- Every traversal over the gripper graph returns what the same traversal returns on the
    materialised graph (same compile error, or the same rows as multisets).
    PARTIAL: proved for traversals made of order-free statements that look no edge up by id
    (`plainStmt`).  Missing: (1) `E(ids)` — `ParseEdge` splits the id at `-`, which is exact only
    when no prefix, label or link value contains `-` and no two link rows share an edge id; the
    correspondence run samples it; (2) `limit/skip/range/distinct`, whose SPEC (C01) is "a
    sub-multiset of the given size" rather than an equality of rows: by `reads_agree` the inputs
    of such a step agree as multisets, C01's `limit_ok/skip_ok/range_ok/distinct_sub` then bound
    its output on either side. -/
theorem traversal_eq_partial (numOf : String → Option Int) (t : Tables) (m : Mapping)
    (hp : PrefixFree m) (hd : EndsDeclared m) (stmts : List Stmt)
    (hs : ∀ s ∈ stmts, plainStmt s = true) :
    SameRows (runT numOf t m stmts) (run numOf (materialise t m) stmts) := by
  rw [tabularOptimizer_preserves_gripper, ← reads_of_graph_is_run]
  exact reads_determine_rows numOf _ _ (reads_agree t m hp hd) stmts hs

/-- The row *count* of any such traversal followed by `count` is equal (not only as multisets). -/
theorem traversal_count_eq (numOf : String → Option Int) (t : Tables) (m : Mapping)
    (hp : PrefixFree m) (hd : EndsDeclared m) (stmts : List Stmt)
    (hs : ∀ s ∈ stmts, plainStmt s = true) (a b : List Row)
    (ha : runT numOf t m stmts = .ok a) (hb : run numOf (materialise t m) stmts = .ok b) :
    a.length = b.length := by
  have h := traversal_eq_partial numOf t m hp hd stmts hs
  rw [ha, hb] at h
  exact h.length_eq

/-! ### write calls -/

/-- Every write call is refused and leaves tables and mapping (hence the exposed graph) as they were. -/
theorem writes_refused (s : Tables × Mapping) (op : WriteOp) :
    (tgWrite s op).1 = true ∧ (tgWrite s op).2 = s ∧
    tgVertexList (tgWrite s op).2.1 (tgWrite s op).2.2 = tgVertexList s.1 s.2 ∧
    tgEdgeList (tgWrite s op).2.1 (tgWrite s op).2.2 = tgEdgeList s.1 s.2 :=
  ⟨rfl, rfl, rfl, rfl⟩

/-! ### the prefix-free hypothesis is needed; non-vacuity -/

/-- Two vertex types whose prefixes overlap ("A" and "AB"): the id "AB1" is row "B1" of the first
    and row "1" of the second. -/
def tOverlap : Tables :=
  [{ name := "T1", rows := [{ id := "B1" }] }, { name := "T2", rows := [{ id := "1" }] }]
def mOverlap : Mapping :=
  { verts := [{ pfx := "A", label := "P", table := "T1" }, { pfx := "AB", label := "Q", table := "T2" }] }

/-- With overlapping prefixes the channel lookup of one id answers twice (once per source) where
    the materialised graph's lookup answers once: `PrefixFree` cannot be dropped. -/
theorem prefix_free_needed :
    ¬ PrefixFree mOverlap ∧
    (tgVertexChan tOverlap mOverlap "AB1").length = 2 ∧
    (((materialise tOverlap mOverlap).getVertex "AB1").toList).length = 1 := by
  refine ⟨by decide, by decide, by decide⟩

/-- A row id with a `-` ("a-b"): the edge is listed, but looking its id up finds nothing. -/
def tDash : Tables :=
  [{ name := "T1", rows := [{ id := "a-b" }] }, { name := "T2", rows := [{ id := "1" }] },
   { name := "L", rows := [{ id := "r1", data := .obj [("f", .str "a-b"), ("t", .str "1")] }] }]
def mDash : Mapping :=
  { verts := [{ pfx := "A:", label := "A", table := "T1" }, { pfx := "B:", label := "B", table := "T2" }],
    edges := [{ name := "E1", frm := "A:", to := "B:", label := "k", table := "L", fromField := "f", toField := "t" }] }

def rowCount (r : Except TypeErr (List Row)) : Nat :=
  match r with
  | .ok rows => rows.length
  | .error _ => 0

/-- OPEN FINDING C15-edge-id-dash: the full-strength `traversal_eq` (without the `plainStmt`
    hypothesis) is false.  On a prefix-free, accepted mapping, `E("A:a-b-k-B:1")` returns the edge on
    the materialised graph and nothing on the gripper graph (ParseEdge splits the id at every `-`),
    although `E()` lists exactly that id. -/
theorem traversal_eq_fails_on_dash_ids :
    PrefixFree mDash ∧ configOk tDash mDash = true ∧
    (tgEdgeList tDash mDash).map (·.gid) = ["A:a-b-k-B:1"] ∧
    rowCount (runT (fun _ => none) tDash mDash [.E ["A:a-b-k-B:1"]]) = 0 ∧
    rowCount (run (fun _ => none) (materialise tDash mDash) [.E ["A:a-b-k-B:1"]]) = 1 ∧
    dashLookup [.E ["A:a-b-k-B:1"]] = true := by
  refine ⟨by decide, by decide, by decide, by decide, by decide, by decide⟩

def tEx : Tables :=
  [{ name := "T1", rows := [{ id := "1" }, { id := "2" }] },
   { name := "T2", rows := [{ id := "1" }] },
   { name := "L", rows := [{ id := "r1", data := .obj [("f", .str "1"), ("t", .str "1")] },
                            { id := "r2", data := .obj [("f", .str "2"), ("t", .str "")] },
                            { id := "r3", data := .obj [("f", .str "1"), ("t", .str "1")] }] }]
def mEx : Mapping :=
  { verts := [{ pfx := "A:", label := "A", table := "T1" }, { pfx := "B:", label := "B", table := "T2" }],
    edges := [{ name := "E1", frm := "A:", to := "B:", label := "k", table := "L", fromField := "f", toField := "t" }] }

example : PrefixFree mEx := by decide
example : configOk tEx mEx = true := by decide
example : EndsDeclared mEx := configOk_ends_declared tEx mEx (by decide)
/-- three vertices; two edges (the repeated link twice, the row with the empty `t` not at all) -/
example : (tgVertexList tEx mEx).length = 3 ∧ (tgEdgeList tEx mEx).length = 2 ∧
    ((materialise tEx mEx).edges).length = 2 := by decide
example : ∀ s ∈ [Stmt.V [], .hasLabel ["A"], .out [], .count], plainStmt s = true := by decide
example : (tabularOptimize [Stmt.V [], .hasLabel ["A"], .hasLabel ["B"]]).map (·.2) = some [.hasLabel ["B"]] := rfl
example : tabularOptimize [Stmt.V ["A:1"], .hasLabel ["A"]] = none := rfl

end Grip.Props.C15
