/-
  Property C15 — a gripper-mapped graph is exactly the graph its mapping describes.
  Property theorems only; lemmas are in GripProofs/Lemmas/C15*.lean.

  `t : Tables` (any table contents), `m : Mapping` (any vertex / edge types).  MODEL = the read
  interface of gripper.TabularGraph (`tg…`, Grip.Model.C15); SPEC = `materialise t m`
  (Grip.Spec.C15) and C01's `run` on it.
-/
import Grip.Model.C15
import Grip.Spec.C15
import GripProofs.Lemmas.C15

namespace Grip.Props.C15
open Grip Grip.C15 Grip.Spec.C15 Grip.Props.C15.Lemmas

/-! ### one vertex per table row -/

/-- The vertex listing is the materialised vertex list, and a vertex is in it exactly when it is
    the image of a row of a vertex type's table: id = prefix + row id, the mapped label, the row
    as properties; there are as many as rows; looking an id up finds what the listing holds; and
    with prefix-free prefixes the channel lookup (which asks every source whose prefix matches)
    finds that same single vertex. -/
theorem mapped_vertices (t : Tables) (m : Mapping) :
    tgVertexList t m = (materialise t m).verts ∧
    (∀ x, x ∈ tgVertexList t m ↔
      ∃ v ∈ m.verts, ∃ r ∈ t.rows v.table, x = { gid := v.pfx ++ r.id, label := v.label, data := r.data }) ∧
    (tgVertexList t m).length = (m.verts.map (fun v => (t.rows v.table).length)).sum ∧
    (∀ key, tgGetVertex t m key = (materialise t m).getVertex key) ∧
    (PrefixFree m → ∀ key, tgVertexChan t m key = ((materialise t m).getVertex key).toList) := by
  refine ⟨rfl, ?_, ?_, getVertex_eq t m, fun h => vertexChan_eq t m h⟩
  · intro x
    simp only [tgVertexList, List.mem_flatMap, List.mem_map, mkVertex]
    constructor
    · rintro ⟨v, hv, r, hr, rfl⟩; exact ⟨v, hv, r, hr, rfl⟩
    · rintro ⟨v, hv, r, hr, rfl⟩; exact ⟨v, hv, r, hr, rfl⟩
  · simp [tgVertexList, List.length_flatMap]

/-! ### write calls -/

/-- Every write call is refused and leaves tables and mapping (hence the exposed graph) as they were. -/
theorem writes_refused (s : Tables × Mapping) (op : WriteOp) :
    (tgWrite s op).1 = true ∧ (tgWrite s op).2 = s ∧
    tgVertexList (tgWrite s op).2.1 (tgWrite s op).2.2 = tgVertexList s.1 s.2 ∧
    tgEdgeList (tgWrite s op).2.1 (tgWrite s op).2.2 = tgEdgeList s.1 s.2 :=
  ⟨rfl, rfl, rfl, rfl⟩

end Grip.Props.C15
