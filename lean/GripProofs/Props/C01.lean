/-
  Property C01 — traversal results equal the documented step-by-step semantics.
  Property theorems only (obligations counted by Audit.lean); lemmas are in GripProofs/Lemmas/C01*.lean.
  Everything is stated for an arbitrary abstract graph `g : AGraph` (any labels, nested data,
  parallel edges, self loops, edges with absent endpoints, isolated vertices, the empty graph —
  `AGraph` imposes nothing) and arbitrary statement lists.
-/
import Grip.Model.Eval
import Grip.Model.C01
import Grip.Spec.C01
import GripProofs.Lemmas.C01
import GripProofs.Lemmas.C01Typing
import GripProofs.Lemmas.C01Distinct
import GripGen.CoreTyping

namespace Grip.Props.C01
open Grip Grip.C01 Grip.Spec.C01 Grip.Props.C01.Lemmas

variable (numOf : String → Option Int) (g : AGraph)

/-! ### ill-typed ⇒ error, and no row -/

/-- An ill-typed traversal is rejected: `run` yields the error and therefore no row. -/
theorem illtyped_no_rows (stmts : List Stmt) (e : TypeErr)
    (h : typeCheck stmts = .error e) : run numOf g stmts = .error e := by
  simp [run, h]

/-- The same for the compile-then-wire MODEL: every processor is built before any runs, so a type
    error anywhere in the statement list means that nothing ran. -/
theorem illtyped_no_rows_compiled (stmts : List Stmt) (e : TypeErr)
    (h : typeCheck stmts = .error e) : compileAndRun numOf g stmts = .error e := by
  unfold typeCheck at h
  unfold compileAndRun
  cases hv : validate stmts with
  | error e' => simp [hv] at h; simp [h]
  | ok u =>
    simp only [hv] at h
    simp [(compile_fold numOf g stmts {}).1 e h]

/-! ### wiring = fold -/

/-- The back-to-front channel wiring of `pipeline.Start` computes the left fold of the processors. -/
theorem wiring_is_fold (procs : List Proc) (input : List Traveler) :
    startWiring procs input = procs.foldl (fun ts p => p ts) input :=
  wiring_fold procs input

/-- Compile-all-then-wire equals the step-by-step fold `run` (the SPEC's reading of a traversal). -/
theorem pipeline_is_fold (stmts : List Stmt) : compileAndRun numOf g stmts = run numOf g stmts := by
  unfold compileAndRun run typeCheck
  cases hv : validate stmts with
  | error e => rfl
  | ok u =>
    cases hf : typeFold {} stmts with
    | error e => simp [(compile_fold numOf g stmts {}).1 e hf]
    | ok stf =>
      obtain ⟨ps, hps, hlen, hfold⟩ := (compile_fold numOf g stmts {}).2 stf hf
      simp only [hps]
      have hemp : ps.isEmpty = stmts.isEmpty := by
        cases ps <;> cases stmts <;> simp_all
      rw [hemp]
      split
      · rfl
      · rw [wiring_fold, hfold]

/-! ### per-row steps: the result of a stream is the union of the results of its rows -/

/-- Every step whose documented meaning is given per row distributes over `++` (so its result on
    a stream depends on the rows only, and equals the concatenation of the per-row results). -/
theorem step_homomorphic (from_ : DataType) (s : Stmt) (h : perRow s = true) (xs ys : List Traveler) :
    evalStepT numOf g from_ s (xs ++ ys) = evalStepT numOf g from_ s xs ++ evalStepT numOf g from_ s ys := by
  cases s <;> simp_all [perRow, evalStepT, List.flatMap_append, List.filter_append, List.map_append]

/-- … and therefore respects multiset equality of its input. -/
theorem step_perm (from_ : DataType) (s : Stmt) (h : perRow s = true) (xs ys : List Traveler)
    (hp : xs.Perm ys) : (evalStepT numOf g from_ s xs).Perm (evalStepT numOf g from_ s ys) := by
  cases s <;> simp_all [perRow, evalStepT] <;>
    first
      | exact hp
      | exact hp.flatMap_right _
      | exact hp.filter _
      | exact hp.map _

/-- `both`: the engine's order (all in-results, then all out-results) is a permutation of the
    per-row meaning "in-neighbours and out-neighbours of each row". -/
theorem both_perm (from_ : DataType) (ls : List String) (ts : List Traveler) :
    (evalStepT numOf g from_ (.both ls) ts).Perm (ts.flatMap (bothRow g from_ ls)) := by
  exact flatMap_pair_perm (stepIn g from_ ls) (stepOut g from_ ls) ts

theorem bothE_perm (from_ : DataType) (ls : List String) (ts : List Traveler) :
    (evalStepT numOf g from_ (.bothE ls) ts).Perm (ts.flatMap (bothERow g ls)) := by
  exact flatMap_pair_perm (stepInE g ls) (stepOutE g ls) ts

/-- `both` distributes over `++` up to permutation. -/
theorem both_homomorphic (from_ : DataType) (ls : List String) (xs ys : List Traveler) :
    (evalStepT numOf g from_ (.both ls) (xs ++ ys)).Perm
      (evalStepT numOf g from_ (.both ls) xs ++ evalStepT numOf g from_ (.both ls) ys) := by
  simp only [evalStepT, List.flatMap_append]
  exact shuffle4 _ _ _ _

/-! ### limit / skip / range: count arithmetic on the untruncated count, and sub-multiset -/

theorem limit_ok (from_ : DataType) (n : Nat) (ts : List Traveler) :
    TruncOk ts (evalStepT numOf g from_ (.limit n) ts) (limitCount n ts.length) :=
  ⟨List.take_sublist n ts, by simp [evalStepT, limitCount]⟩

theorem skip_ok (from_ : DataType) (n : Nat) (ts : List Traveler) :
    TruncOk ts (evalStepT numOf g from_ (.skip n) ts) (skipCount n ts.length) :=
  ⟨List.drop_sublist n ts, by simp [evalStepT, skipCount]⟩

/-- `range(start, stop)`: `stop = -1` means "no upper bound", a negative `start` is 0, any other
    negative `stop` admits nothing. -/
theorem range_ok (from_ : DataType) (a b : Int) (ts : List Traveler) :
    TruncOk ts (evalStepT numOf g from_ (.range a b) ts) (rangeCount a b ts.length) := by
  refine ⟨rangeGo_sublist a b 0 ts, ?_⟩
  have h := rangeGo_length a b 0 ts
  simp only [evalStepT, stepRange, rangeCount, h]
  split <;> simp

/-- The row count after a truncation step depends on the *number* of rows before it only (so it
    is the same for every order in which the store may enumerate them). -/
theorem trunc_count_order_free (from_ : DataType) (s : Stmt) (xs ys : List Traveler)
    (hs : s.kind = .limit ∨ s.kind = .skip ∨ s.kind = .range) (h : xs.length = ys.length) :
    (evalStepT numOf g from_ s xs).length = (evalStepT numOf g from_ s ys).length := by
  cases s <;> simp [Stmt.kind] at hs
  · rw [(limit_ok numOf g from_ _ xs).len, (limit_ok numOf g from_ _ ys).len, h]
  · rw [(skip_ok numOf g from_ _ xs).len, (skip_ok numOf g from_ _ ys).len, h]
  · rw [(range_ok numOf g from_ _ _ xs).len, (range_ok numOf g from_ _ _ ys).len, h]

/-- `distinct` returns a sub-multiset of its input. -/
theorem distinct_sub (from_ : DataType) (fs : List String) (ts : List Traveler) :
    (evalStepT numOf g from_ (.distinct fs) ts).Sublist ts := by
  simpa [evalStepT, stepDistinct] using distinctGo_sublist _ [] ts

/-- the field list `distinct` uses: the compiler's default key is the element id -/
def distinctFields (fs : List String) : List String := if fs.isEmpty then ["_gid"] else fs

/-- `distinct` keeps exactly one row per key value: every row kept has all the key fields, no two
    rows kept have the same key, and a key occurs among the rows kept iff it occurs in the input. -/
theorem distinct_one_per_key (from_ : DataType) (fs : List String) (ts : List Traveler) :
    let out := evalStepT numOf g from_ (.distinct fs) ts
    (∀ t ∈ out, ∃ k, distinctKey (distinctFields fs) t = some k) ∧
    (keysOf (distinctFields fs) out).Nodup ∧
    (∀ k, k ∈ keysOf (distinctFields fs) out ↔ k ∈ keysOf (distinctFields fs) ts) := by
  have h := distinctGo_keys (distinctFields fs) [] ts
  show (∀ t ∈ distinctGo (distinctFields fs) [] ts, ∃ k, distinctKey (distinctFields fs) t = some k) ∧
    (keysOf (distinctFields fs) (distinctGo (distinctFields fs) [] ts)).Nodup ∧
    (∀ k, k ∈ keysOf (distinctFields fs) (distinctGo (distinctFields fs) [] ts) ↔ k ∈ keysOf (distinctFields fs) ts)
  refine ⟨h.1, h.2.1, fun k => ?_⟩
  have := h.2.2 k
  simpa using this

/-- Hence the NUMBER of rows `distinct` returns is the number of different keys, whatever the order
    of its input (which the documentation does not fix): two orders of one input give equally many
    rows, with the same keys. -/
theorem distinct_count_order_free (from_ : DataType) (fs : List String) (xs ys : List Traveler)
    (h : xs.Perm ys) :
    (evalStepT numOf g from_ (.distinct fs) xs).length = (evalStepT numOf g from_ (.distinct fs) ys).length ∧
    (keysOf (distinctFields fs) (evalStepT numOf g from_ (.distinct fs) xs)).Perm
      (keysOf (distinctFields fs) (evalStepT numOf g from_ (.distinct fs) ys)) := by
  have hp := distinctGo_keys_perm (distinctFields fs) [] h
  refine ⟨?_, hp⟩
  show (distinctGo (distinctFields fs) [] xs).length = (distinctGo (distinctFields fs) [] ys).length
  rw [distinctGo_length, distinctGo_length]
  exact hp.length_eq

/-- When the key tells the rows of the input apart (rows with equal keys are equal rows — e.g. a key
    containing the element id on rows that differ in nothing but their element), the result itself
    does not depend on the order of the input: `distinct` respects multiset equality. This is the
    comparison class the correspondence run uses for traversals with several `distinct` steps. -/
theorem distinct_perm_of_key_injective (from_ : DataType) (fs : List String) (xs ys : List Traveler)
    (h : xs.Perm ys)
    (hinj : ∀ a ∈ xs, ∀ b ∈ xs, distinctKey (distinctFields fs) a = distinctKey (distinctFields fs) b →
      distinctKey (distinctFields fs) a ≠ none → a = b) :
    (evalStepT numOf g from_ (.distinct fs) xs).Perm (evalStepT numOf g from_ (.distinct fs) ys) := by
  have hinj' : ∀ a ∈ ys, ∀ b ∈ ys, distinctKey (distinctFields fs) a = distinctKey (distinctFields fs) b →
      distinctKey (distinctFields fs) a ≠ none → a = b :=
    fun a ha b hb => hinj a (h.mem_iff.2 ha) b (h.mem_iff.2 hb)
  have hx := distinctGo_rows_of_inj (distinctFields fs) [] xs hinj
  have hy := distinctGo_rows_of_inj (distinctFields fs) [] ys hinj'
  show (distinctGo (distinctFields fs) [] xs).Perm (distinctGo (distinctFields fs) [] ys)
  rw [List.perm_ext_iff_of_nodup hx.1 hy.1]
  intro t
  rw [hx.2 t, hy.2 t, h.mem_iff]

/-- non-vacuity (a test, not the unbounded claim): two rows on one vertex, one on another -/
example : (stepDistinct [] [({} : Traveler), {}]).length ≤ 2 := by
  exact (distinctGo_sublist _ [] _).length_le

/-- `count` yields exactly one row carrying the number of rows it was given. -/
theorem count_row (from_ : DataType) (ts : List Traveler) :
    evalStepT numOf g from_ .count ts = [{ count := ts.length }] := rfl

/-! ### result shape -/

/-- Type soundness (shape part): every row of a well-typed traversal has the shape of the
    traversal's final data type. -/
theorem rows_have_shape (stmts : List Stmt) (st : TState) (rows : List Row)
    (ht : typeCheck stmts = .ok st) (hr : run numOf g stmts = .ok rows) :
    ∀ r ∈ rows, Row.hasShape st.last r := by
  simp only [run, ht] at hr
  split at hr
  · simp only [Except.ok.injEq] at hr; subst hr; simp
  · simp only [Except.ok.injEq] at hr
    subst hr
    intro r hr
    obtain ⟨t, _, rfl⟩ := List.mem_map.1 hr
    unfold convert
    cases st.last <;> simp [Row.hasShape]
    cases t.agg <;> simp

/-! ### the typing model is the Go switch -/

/-- The hand-written typing step equals the table interpreter over the hand-written table … -/
theorem typeStep_is_table (st : TState) (s : Stmt) : typeStep st s = typeStepT handTable st s :=
  Lemmas.typeStep_eq_table st s

/-- … and the hand-written table equals the table regenerated from engine/core/compile.go on this
    run (finite check by `decide` over all statement kinds × variants; each entry lists the outcome
    for all eight data types, the argument checks and the mark-recording flag).  A change to the
    Go typing switch changes `GripGen.CoreTyping.table` and breaks this theorem. -/
theorem typing_table_matches_source :
    ∀ (k : Kind) (v : Variant), handTable.find k v = GripGen.CoreTyping.table.find k v := by
  have h : (Kind.all.all fun k => Variant.all.all fun v =>
      decide (handTable.find k v = GripGen.CoreTyping.table.find k v)) = true := by decide
  intro k v
  have hk := List.all_eq_true.1 h k (Kind.mem_all k)
  have hv := List.all_eq_true.1 hk v (Lemmas.Variant.mem_all v)
  exact of_decide_eq_true hv

/-- Hence the typing MODEL is the Go switch as it is in the source today, for every statement and
    every typing state. -/
theorem typeStep_is_source_switch (st : TState) (s : Stmt) :
    typeStep st s = typeStepT GripGen.CoreTyping.table st s := by
  rw [typeStep_is_table]
  exact Lemmas.typeStepT_congr _ _ typing_table_matches_source st s

/-- Statements may only follow what the switch admits: e.g. nothing but `count`, `limit`, `skip`,
    `range`, `as`, `unwind` (and the loop/assignment statements) is accepted after `count`. -/
theorem after_count_only_rowwise (marks : MarkTypes) (s : Stmt) (st' : TState)
    (h : typeStep ⟨.count, marks⟩ s = .ok st') :
    s.kind ∈ [Kind.limit, .skip, .range, .count, .as_, .unwind, .set, .increment, .mark, .jump,
              .lookupVertsIndex, .engineCustom] := by
  cases s <;> simp_all [typeStep, Stmt.kind, moveToVertex, moveToEdge, needElement]

/-! ### non-vacuity -/

def gEx : AGraph :=
  { verts := [{ gid := "a", label := "P" }, { gid := "b", label := "Q" }],
    edges := [{ gid := "e1", label := "k", frm := "a", to := "b" },
              { gid := "e2", label := "k", frm := "a", to := "a" },
              { gid := "e3", label := "k", frm := "b", to := "ghost" }] }

example : typeCheck [.V [], .out [], .count] = .ok { last := .count } := rfl
example : typeCheck [.V [], .count, .out []] = .error .badLastType := rfl
example : ∃ rows, run (fun _ => none) gEx [.V [], .out [], .limit 1] = .ok rows ∧ rows.length = 1 := by
  refine ⟨_, rfl, ?_⟩; decide
example : (evalStepT (fun _ => none) gEx .vertex (.range 1 (-1)) [{}, {}, {}]).length = 2 := by decide

end Grip.Props.C01
