import Grip.Model.Eval
namespace Grip.Props.C01
open Grip

/-- An ill-typed traversal is rejected with an error before any row is produced. -/
theorem illtyped_no_rows (numOf : String → Option Int) (g : AGraph) (stmts : List Stmt) (e : TypeErr)
    (h : typeCheck stmts = .error e) : run numOf g stmts = .error e := by
  simp [run, h]

end Grip.Props.C01
