import Grip.Spec.C04
import GripProofs.Lemmas.C04Reopen
import GripProofs.Lemmas.C04Crash

namespace Grip.Props.C04
open Grip.C03 Grip.C04 Grip.C04.Spec Grip.Props.C04.Lemmas

/-- Label-index lookups only return existing vertices carrying the label (any persisted map,
    in particular every crash state): kvgraph filters stale index entries on read. -/
theorem lookup_sound (m : KV) : LookupSound m := by
  intro g l v hv
  unfold verticesWithLabel at hv
  rw [List.mem_filterMap] at hv
  obtain ⟨p, _, hp⟩ := hv
  split at hp
  · rename_i f t doc _
    split at hp
    · rename_i hft
      cases hgv : getVertex m g doc with
      | none => simp [hgv] at hp
      | some w =>
        simp only [hgv] at hp
        split at hp
        · rename_i hl
          have : w = v := by simpa using hp
          subst this
          have hid : w.gid = doc := by
            unfold getVertex at hgv
            split at hgv <;> simp at hgv
            rw [← hgv]
          rw [hid]
          exact ⟨hgv, hl⟩
        · simp at hp
    · simp at hp
  · simp at hp

/-- The write list of every call, applied completely, is exactly the persisted map of C03's `step`:
    the crash cuts below are cuts of the very transition the C03 refinement theorems talk about. -/
theorem step_eq_writes (s : KState) (op : Op) : applyAll (writes s op) s.kv = (step s op).1.kv :=
  Lemmas.step_eq_writes s op

/-- A history of calls and restarts, started on an empty directory, keeps the in-memory field
    registry equal (as a set) to the persisted field keys. -/
theorem fields_in_sync (h : List Ev) : FieldsSync (runEv {} h) :=
  sync_run h {} (fun _ => rfl)

/-- **Reopen is transparent.**  Insert a restart anywhere in a history (which may itself contain
    restarts): every call answers the same, and afterwards the persisted map — hence every
    observation: graph list, lookups, listings, neighbours, label-index lookups, label listings —
    is the same as without the restart.  Timestamps are not part of `Obs`. -/
theorem reopen_transparent (h₁ h₂ : List Ev) :
    Obs (runEv {} (h₁ ++ [.reopen] ++ h₂)) = Obs (runEv {} (h₁ ++ h₂)) ∧
    results {} (h₁ ++ [.reopen] ++ h₂) = results {} (h₁ ++ h₂) := by
  have hs : FieldsSync (runEv {} h₁) := fields_in_sync h₁
  have hsim : Sim (reopen (runEv {} h₁)) (runEv {} h₁) := sim_reopen_self _ hs
  have hrun := sim_run h₂ _ _ hsim
  constructor
  · have e1 : runEv {} (h₁ ++ [.reopen] ++ h₂) = runEv (reopen (runEv {} h₁)) h₂ := by
      rw [runEv_append, runEv_append]; rfl
    have e2 : runEv {} (h₁ ++ h₂) = runEv (runEv {} h₁) h₂ := runEv_append _ _ _
    rw [e1, e2]; unfold Obs; rw [hrun.1.1]
  · have e1 : results {} (h₁ ++ [.reopen] ++ h₂) = results {} h₁ ++ results (reopen (runEv {} h₁)) h₂ := by
      rw [results_append, results_append, runEv_append, List.append_assoc]; rfl
    rw [e1, results_append, hrun.2]

/-- The same from any state whose registry is in sync (e.g. any state reached after a restart). -/
theorem reopen_transparent_from (s : KState) (hs : FieldsSync s) (h : List Ev) :
    Obs (runEv (reopen s) h) = Obs (runEv s h) ∧ results (reopen s) h = results s h := by
  have hrun := sim_run h _ _ (sim_reopen_self s hs)
  exact ⟨by unfold Obs; rw [hrun.1.1], hrun.2⟩

/-- Non-vacuity: the empty directory is in sync, and a restart of it is transparent for the history
    "create a graph, add a vertex" whatever the names are. -/
example (g : String) (v : VertexIn) :
    Obs (runEv {} ([.reopen] ++ [.op (.addGraph g), .op (.addV g [v])])) =
    Obs (runEv {} [.op (.addGraph g), .op (.addV g [v])]) :=
  (reopen_transparent [] [.op (.addGraph g), .op (.addV g [v])]).1

/-- A restart in the middle: the registry reloaded from the field keys still indexes the vertex. -/
example (g : String) (v : VertexIn) :
    Obs (runEv {} ([.op (.addGraph g)] ++ [.reopen] ++ [.op (.addV g [v])])) =
    Obs (runEv {} ([.op (.addGraph g)] ++ [.op (.addV g [v])])) :=
  (reopen_transparent [.op (.addGraph g)] [.op (.addV g [v])]).1

/-! ### crash points -/

/-- What a crash state persists: the first `k` writes of the call, nothing else (`reopen` keeps the map). -/
theorem crash_kv (s : KState) (op : Op) (k : Nat) :
    (crashAt s op k).kv = applyPrefix k (writes s op) s.kv := reopen_kv _

/-- A restarted server's registry is in sync whatever the cut, so everything `reopen_transparent_from`
    says holds from a crash state on (later calls behave as on a server that never stopped). -/
theorem crash_fields_in_sync (s : KState) (op : Op) (k : Nat) : FieldsSync (crashAt s op k) := sync_reopen _

/-- **DeleteGraph is crash-safe at every cut** (all states with the weak invariant and validly named
    graphs; no hypothesis on the state after the call).  With the graph key deleted first (the repair),
    later writes only delete keys of a graph that is no longer listed. -/
theorem crash_weak_inv_delGraph (hsplit : SplitFact) (s : KState) (g : String) (k : Nat)
    (hw : WeakInv s.kv) (hv : ValidListed s.kv) : WeakInv (crashAt s (.delGraph g) k).kv := by
  rw [crash_kv]; exact delGraph_cut_weak hsplit s g k hw hv

/-- **Weak invariant at every cut of every call** — partial: it assumes that the *completed* call
    re-establishes the weak invariant (`hfull`), which is part of the C03 invariant proof
    (GripProofs/Props/C03: `Inv` is preserved by `step`) and is not re-proved here.  What this
    theorem adds is every *interior* cut: AddGraph (sweep of an unlisted name, field keys before the
    graph key), DeleteGraph (graph key first), and that all other calls issue a single atomic write.
    Superseded by `crash_weak_inv` (GripProofs/Props/C04Full), which has neither `hsplit` nor `hfull`. -/
theorem crash_weak_inv_partial (hsplit : SplitFact) (s : KState) (op : Op) (k : Nat)
    (hw : WeakInv s.kv) (hv : ValidListed s.kv) (hfull : WeakInv (step s op).1.kv) :
    WeakInv (crashAt s op k).kv := by
  rw [crash_kv]
  by_cases h1 : ∃ g, op = .addGraph g
  · obtain ⟨g, rfl⟩ := h1; exact addGraph_cut hsplit s g k hw hv hfull
  by_cases h2 : ∃ g, op = .delGraph g
  · obtain ⟨g, rfl⟩ := h2; exact delGraph_cut_weak hsplit s g k hw hv
  have hs := writes_single s op (fun g e => h1 ⟨g, e⟩) (fun g e => h2 ⟨g, e⟩)
  rcases cut_single s op k hs with e | e <;> rw [e]
  · exact hw
  · exact hfull

/-- Interior cuts exist only for AddGraph and DeleteGraph: every other call is one atomic write, so
    a crash leaves the state before or the state after it. -/
theorem crash_atomic (s : KState) (op : Op) (k : Nat) (h1 : ∀ g, op ≠ .addGraph g) (h2 : ∀ g, op ≠ .delGraph g) :
    (crashAt s op k).kv = s.kv ∨ (crashAt s op k).kv = (step s op).1.kv := by
  rw [crash_kv]; exact cut_single s op k (writes_single s op h1 h2)

/-- **Acknowledged requests are fully present**: at every cut of every call, every key holds the value
    it had before the call (the result of all acknowledged requests) or the value the completed call
    gives it; in particular keys the call does not write keep their value, and cut 0 is the state
    before the call.  The third disjunct exists since the repair of AddGraph (an unlisted name is swept
    before it is listed again): a key *owned by a name that was not listed before the call* (`Doomed g`:
    elements, adjacency, label-index and field keys of `g`) may already have been deleted at the cut
    although the completed call writes it again (the two field keys).  An unlisted name owns no
    acknowledged data — no call can read those keys — so nothing acknowledged is lost. -/
theorem acked_present (s : KState) (op : Op) (k : Nat) (key : SKey) :
    (crashAt s op k).kv.get key = s.kv.get key ∨
    (crashAt s op k).kv.get key = (step s op).1.kv.get key ∨
    (∃ g, op = .addGraph g ∧ hasGraph s g = false ∧ Doomed g key = true ∧ (crashAt s op k).kv.get key = none) := by
  rw [crash_kv]
  by_cases h1 : ∃ g, op = .addGraph g
  · obtain ⟨g, rfl⟩ := h1
    by_cases hg : hasGraph s g = true
    · rcases present_addGraph s g k (Or.inr hg) key with e | e
      · exact Or.inl e
      · exact Or.inr (Or.inl e)
    · rcases presentSwept_addGraph s g k key with e | e | e
      · exact Or.inl e
      · exact Or.inr (Or.inl e)
      · exact Or.inr (Or.inr ⟨g, rfl, by simpa using hg, e⟩)
  by_cases h2 : ∃ g, op = .delGraph g
  · obtain ⟨g, rfl⟩ := h2
    rcases present_delGraph s g k key with e | e
    · exact Or.inl e
    · exact Or.inr (Or.inl e)
  have hs := writes_single s op (fun g e => h1 ⟨g, e⟩) (fun g e => h2 ⟨g, e⟩)
  rcases cut_single s op k hs with e | e <;> rw [e]
  · exact Or.inl rfl
  · exact Or.inr (Or.inl rfl)

/-- The strict form (`Present`: before or after, nothing else) for every call except AddGraph of a valid
    name that is not listed. -/
theorem acked_present_strict (s : KState) (op : Op) (k : Nat)
    (h : ∀ g, op = .addGraph g → ¬ validName g = true ∨ hasGraph s g = true) :
    Present s.kv (crashAt s op k).kv (step s op).1.kv := by
  rw [crash_kv]
  by_cases h1 : ∃ g, op = .addGraph g
  · obtain ⟨g, rfl⟩ := h1; exact present_addGraph s g k (h g rfl)
  by_cases h2 : ∃ g, op = .delGraph g
  · obtain ⟨g, rfl⟩ := h2; exact present_delGraph s g k
  have hs := writes_single s op (fun g e => h1 ⟨g, e⟩) (fun g e => h2 ⟨g, e⟩)
  intro key
  rcases cut_single s op k hs with e | e <;> rw [e]
  · exact Or.inl rfl
  · exact Or.inr rfl

theorem crash_before_first_write (s : KState) (op : Op) : (crashAt s op 0).kv = s.kv := by
  rw [crash_kv]; rfl

/-- Non-vacuity of the hypotheses: the empty directory satisfies the weak invariant and has only
    validly named graphs (none). -/
example : WeakInv ({} : KState).kv ∧ ValidListed ({} : KState).kv := by
  refine ⟨⟨?_, ?_, ?_, ?_, ?_, ?_⟩, ?_⟩ <;> (try unfold ValidListed) <;> intros <;> simp_all [Listed, KV.has]

end Grip.Props.C04
