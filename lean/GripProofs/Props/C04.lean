import Grip.Spec.C04

namespace Grip.Props.C04
open Grip.C03 Grip.C04 Grip.C04.Spec

/-- Label-index lookups only return existing vertices carrying the label (any persisted map,
    in particular every crash state): kvgraph filters stale index entries on read. -/
theorem lookup_sound (m : KV) : LookupSound m := by
  intro g l v hv
  unfold verticesWithLabel at hv
  rw [List.mem_filterMap] at hv
  obtain ⟨p, _, hp⟩ := hv
  split at hp
  · rename_i f t doc _
    split at hp
    · rename_i hft
      cases hgv : getVertex m g doc with
      | none => simp [hgv] at hp
      | some w =>
        simp only [hgv] at hp
        split at hp
        · rename_i hl
          have : w = v := by simpa using hp
          subst this
          have hid : w.gid = doc := by
            unfold getVertex at hgv
            split at hgv <;> simp at hgv
            rw [← hgv]
          rw [hid]
          exact ⟨hgv, hl⟩
        · simp at hp
    · simp at hp
  · simp at hp

end Grip.Props.C04
