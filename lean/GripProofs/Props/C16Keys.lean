/-
  GripProofs.Props.C16Keys — the byte layout of every key and scan prefix of the MODEL
  (`Grip.C03.encode`, the `*Prefix` functions of Grip/Model/C16.lean) against the translation of
  kvgraph/keys.go and kvindex/keys.go that tools/extract/c03_keys.go regenerates on every run
  (GripGen.KVKeys).  For ALL arguments.
-/
import Grip.Model.C16
import GripProofs.Lemmas.C16
import GripGen.KVKeys

namespace Grip.Props.C16
open Grip Grip.C03 Grip.C16
open GripGen

theorem join_zero_eq_joinNul : ∀ parts : List Bytes, KVKeys.join [0] parts = joinNul parts
  | [] => rfl
  | [_] => rfl
  | x :: y :: rest => by
    have ih := join_zero_eq_joinNul (y :: rest)
    simp only [KVKeys.join, joinNul] at ih ⊢
    rw [ih]
    simp

/-- Every key the model writes has the bytes the Go constructor gives it (vertex, edge, the two
    adjacency indexes, graph, and the four kinds of index keys; edge type `edgeSingle`, term type
    string = 1). -/
theorem keys_match_source (g id s d l f t doc : String) :
    encode (.vertex g id) = KVKeys.VertexKey g id ∧
    encode (.edge g id s d l) = KVKeys.EdgeKey g id s d l KVKeys.edgeSingle ∧
    encode (.src g s d id l) = KVKeys.SrcEdgeKey g s d id l KVKeys.edgeSingle ∧
    encode (.dst g d s id l) = KVKeys.DstEdgeKey g s d id l KVKeys.edgeSingle ∧
    encode (.graph g) = KVKeys.GraphKey g ∧
    encode (.field f) = KVKeys.FieldKey f ∧
    encode (.term f t) = KVKeys.TermKey f 1 (KVKeys.bytes t) ∧
    encode (.entry f t doc) = KVKeys.EntryKey f 1 (KVKeys.bytes t) doc ∧
    encode (.doc doc) = KVKeys.DocKey doc := by
  have hb : ∀ s : String, KVKeys.bytes s = bytesOf s := fun _ => rfl
  have hv : bytesOf "v" = [118] := by rw [Lemmas.bytesOf_eq_utf8]; decide
  have he : bytesOf "e" = [101] := by rw [Lemmas.bytesOf_eq_utf8]; decide
  have hs : bytesOf "s" = [115] := by rw [Lemmas.bytesOf_eq_utf8]; decide
  have hd : bytesOf "d" = [100] := by rw [Lemmas.bytesOf_eq_utf8]; decide
  have hg : bytesOf "g" = [103] := by rw [Lemmas.bytesOf_eq_utf8]; decide
  have hf : bytesOf "f" = [102] := by rw [Lemmas.bytesOf_eq_utf8]; decide
  have ht : bytesOf "t" = [116] := by rw [Lemmas.bytesOf_eq_utf8]; decide
  have hi : bytesOf "i" = [105] := by rw [Lemmas.bytesOf_eq_utf8]; decide
  have hD : bytesOf "D" = [68] := by rw [Lemmas.bytesOf_eq_utf8]; decide
  refine ⟨?_, ?_, ?_, ?_, ?_, ?_, ?_, ?_, ?_⟩ <;>
    simp only [encode, KVKeys.VertexKey, KVKeys.EdgeKey, KVKeys.SrcEdgeKey, KVKeys.DstEdgeKey, KVKeys.GraphKey,
      KVKeys.FieldKey, KVKeys.TermKey, KVKeys.EntryKey, KVKeys.DocKey, join_zero_eq_joinNul, hb,
      hv, he, hs, hd, hg, hf, ht, hi, hD,
      KVKeys.vertexPrefix, KVKeys.edgePrefix, KVKeys.srcEdgePrefix, KVKeys.dstEdgePrefix, KVKeys.graphPrefix,
      KVKeys.idxFieldPrefix, KVKeys.idxTermPrefix, KVKeys.idxEntryPrefix, KVKeys.idxDocPrefix, KVKeys.edgeSingle]

/-- Every prefix a scan of kvgraph / kvindex uses. -/
theorem prefixes_match_source (g id s d f t : String) :
    graphPrefix = KVKeys.GraphPrefix ∧ fieldPrefix = KVKeys.FieldPrefix ∧
    vertexListPrefix g = KVKeys.VertexListPrefix g ∧ edgeListPrefix g = KVKeys.EdgeListPrefix g ∧
    edgeKeyPrefix g id = KVKeys.EdgeKeyPrefix g id ∧
    srcEdgeListPrefix g = KVKeys.SrcEdgeListPrefix g ∧ dstEdgeListPrefix g = KVKeys.DstEdgeListPrefix g ∧
    srcEdgePrefix g id = KVKeys.SrcEdgePrefix g id ∧ dstEdgePrefix g id = KVKeys.DstEdgePrefix g id ∧
    srcEdgeKeyPrefix g s d id = KVKeys.SrcEdgeKeyPrefix g s d id ∧
    dstEdgeKeyPrefix g s d id = KVKeys.DstEdgeKeyPrefix g s d id ∧
    termPrefix f = KVKeys.TermPrefix f ∧ termTypePrefix f = KVKeys.TermTypePrefix f 1 ∧
    entryPrefix f = KVKeys.EntryPrefix f ∧ entryTypePrefix f = KVKeys.EntryTypePrefix f 1 ∧
    entryValuePrefix f t = KVKeys.EntryValuePrefix f 1 (KVKeys.bytes t) := by
  have hb : ∀ s : String, KVKeys.bytes s = utf8 s := fun s => by
    show s.toUTF8.toList = utf8 s
    exact Lemmas.bytesOf_eq_utf8 s
  refine ⟨rfl, rfl, ?_, ?_, ?_, ?_, ?_, ?_, ?_, ?_, ?_, ?_, ?_, ?_, ?_, ?_⟩ <;>
    simp only [vertexListPrefix, edgeListPrefix, edgeKeyPrefix, srcEdgeListPrefix, dstEdgeListPrefix, srcEdgePrefix,
      dstEdgePrefix, srcEdgeKeyPrefix, dstEdgeKeyPrefix, termPrefix, termTypePrefix, entryPrefix, entryTypePrefix,
      entryValuePrefix, KVKeys.VertexListPrefix, KVKeys.EdgeListPrefix, KVKeys.EdgeKeyPrefix, KVKeys.SrcEdgeListPrefix,
      KVKeys.DstEdgeListPrefix, KVKeys.SrcEdgePrefix, KVKeys.DstEdgePrefix, KVKeys.SrcEdgeKeyPrefix,
      KVKeys.DstEdgeKeyPrefix, KVKeys.TermPrefix, KVKeys.TermTypePrefix, KVKeys.EntryPrefix, KVKeys.EntryTypePrefix,
      KVKeys.EntryValuePrefix, join_zero_eq_joinNul, hb, termString,
      KVKeys.vertexPrefix, KVKeys.edgePrefix, KVKeys.srcEdgePrefix, KVKeys.dstEdgePrefix,
      KVKeys.idxTermPrefix, KVKeys.idxEntryPrefix]

end Grip.Props.C16
