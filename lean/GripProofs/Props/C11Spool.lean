/-
  Grip.Props.C11 (continued) — the ORDER of the spooling goroutine's effects against a concurrent
  reader: what a client that polls `GetJob` and calls `ViewJob` / `ResumeJob` while the job is
  being spooled, or after the server was killed and started again, can see.

  Vocabulary (Grip.Model.C11Spool): `St` is the shared state of ONE job (results file = complete
  lines `file` + an unterminated `tail`, writer-side `buffer`, in-memory `state` / `count`,
  `statusFile`, the goroutine's program counter).  `step v l` is one labelled step: `spool` /
  `spoolCut` / `createFails` are effects of the goroutine of `FSResults.Spool` in the order of
  the Go code, `getStatus` / `stream` are `FSResults.Status` / `FSResults.Stream`, `restart` is a
  kill followed by `NewFSJobStorage`.  `Reachable v input s`: `s` is reached from `Spool(input)`
  by ANY sequence of such steps (all interleavings, any number of restarts); `run v ls` executes
  a schedule and collects the observations.  The variants: `direct` is the code as it is
  (`resultFile.Write` per row), `flushAfter cap` is the regression (buffered writer, `Flush`
  deferred to the return of the goroutine), `flushBefore cap` flushes right after the loop.

  What is NOT in this model: the content of a row (C11's `spool_roundtrip`), the worker pools
  (C13), several jobs (jobs share nothing but the `sync.Map`), `Delete`, power loss.
  `Stream` reads the file at one instant; the file only grows and — in the safe variants — is
  final when `Stream` is allowed, so a slower scan sees the same lines.

  No hypotheses beyond the ones in the statements: every theorem is for every input, every row
  type, every schedule.
-/
import Grip.Model.C11Spool
import GripProofs.Lemmas.C11Spool
import GripProofs.Lemmas.C11Store

namespace Grip.Props.C11
open Grip Grip.C11 Grip.C11.Spool

variable {α : Type}

/-- a schedule that runs from `Spool(input)` ends in a reachable state -/
theorem reachable_of_run {v : Spool.Variant} {input : List α} {ls : List Label} {s : St α}
    {os : List (Obs α)} (h : Spool.run v ls (init input) = some (s, os)) : Reachable v input s :=
  (run_reachable ls _ _ _ Reachable.init h).1

/-! ### (1) the code as it is: COMPLETE implies every row is in the file -/

/-- **safe_complete_implies_all_rows.** Unbuffered, or flushed before the state change: in
    every reachable state — whatever the interleaving, before or after any number of restarts —
    a job whose state is COMPLETE is present, its results file holds exactly the input rows as
    whole lines, and its count is the number of rows. -/
theorem safe_complete_implies_all_rows {v : Spool.Variant} {input : List α} {s : St α}
    (hv : v.safe = true) (h : Reachable v input s) (hc : s.state = .complete) :
    s.present = true ∧ s.file = input ∧ s.tail = .clean ∧ s.count = input.length :=
  h.inv.complete_all hv hc

/-- **complete_implies_all_rows.** The code as it is (`resultFile.Write` per row): in every
    reachable state, `state = COMPLETE → file = input ∧ count = |input|`. -/
theorem complete_implies_all_rows {input : List α} {s : St α}
    (h : Reachable .direct input s) (hc : s.state = .complete) :
    s.file = input ∧ s.count = input.length :=
  have := safe_complete_implies_all_rows rfl h hc
  ⟨this.2.1, this.2.2.2⟩

/-- what `Stream` and `Status` answer in a state where everything is in place -/
theorem answers_of_complete {input : List α} {s : St α} (hp : s.present = true)
    (hc : s.state = .complete) (hf : s.file = input) (ht : s.tail = .clean)
    (hn : s.count = input.length) :
    stream s = .rows (input.map .ok) ∧ getStatus s = .status .complete input.length := by
  simp [stream, getStatus, St.readFile, hp, hc, hf, ht, hn]

/-- **reader_sees_all.** The code as it is: whenever `Stream` hands out rows — at any point of
    any interleaving — they are exactly the input rows, each a whole line, and `Status` at that
    moment says COMPLETE with a count equal to the number of rows handed out. -/
theorem reader_sees_all {input : List α} {s s' : St α} {l : Label} {rows : List (Line α)}
    (h : Reachable .direct input s) (hs : step .direct l s = some (s', .rows rows)) :
    rows = input.map .ok ∧ getStatus s = .status .complete rows.length := by
  obtain ⟨_, hc, rfl⟩ := step_rows hs
  obtain ⟨hp, hf, ht, hn⟩ := safe_complete_implies_all_rows rfl h hc
  have := answers_of_complete hp hc hf ht hn
  simp [St.readFile, hf, ht, this.2]

/-- **reader_sees_all_trace.** The same over a whole history: in the observations of ANY
    schedule of goroutine steps, polls, views and restarts, every view that returns rows returns
    exactly the input rows, and every poll that says COMPLETE reports the input's length — so a
    client that was told "COMPLETE, count n" and then (or before) reads the job reads n rows. -/
theorem reader_sees_all_trace {input : List α} {ls : List Label} {s : St α} {os : List (Obs α)}
    (h : Spool.run .direct ls (init input) = some (s, os)) :
    (∀ rows, .rows rows ∈ os → rows = input.map .ok) ∧
    (∀ n, .status .complete n ∈ os → n = input.length) := by
  obtain ⟨_, hobs⟩ := run_reachable ls _ _ _ Reachable.init h
  constructor
  · intro rows hm
    obtain ⟨l, s1, s1', hr, hs⟩ := hobs _ hm
    exact (reader_sees_all hr hs).1
  · intro n hm
    obtain ⟨l, s1, s1', hr, hs⟩ := hobs _ hm
    obtain ⟨_, hst, rfl⟩ := step_status hs
    exact (complete_implies_all_rows hr hst.symm).2

/-- test (non-vacuity of (1)): a client polls and views between the effects of the goroutine,
    the server is restarted after the job is done, the client polls and views again -/
example :
    (Spool.run .direct (sched 5 ++ [.getStatus, .stream] ++ sched 8 ++ [.getStatus, .stream] ++ sched 2
        ++ [.restart, .getStatus, .stream]) (init [10, 20, 30])).map
      (fun r => r.2.filter (· != .silent))
    = some [.status .running 1, .notComplete,
            .status .complete 3, .rows [.ok 10, .ok 20, .ok 30],
            .status .complete 3, .rows [.ok 10, .ok 20, .ok 30]] := by decide

/-- test: the hypotheses of `complete_implies_all_rows` are satisfiable for every input — the
    goroutine left alone reaches COMPLETE -/
example (input : List α) : ∃ s, Reachable .direct input s ∧ s.state = .complete :=
  ⟨_, reachable_done input, rfl⟩

/-! ### (2) the code as it is: the count never runs ahead of the file -/

/-- **count_never_exceeds_file.** The code as it is: in every reachable state the count is at
    most the number of complete lines in the results file — a client polling a RUNNING job is
    never told more rows than are on disk. -/
theorem count_never_exceeds_file {input : List α} {s : St α} (h : Reachable .direct input s) :
    s.count ≤ s.file.length :=
  (h.inv.direct_count h.unbuf).1

/-- while the goroutine lives the count lags the file by at most one row (the window between the
    newline and `addCount(1)`) -/
theorem count_lags_by_one {input : List α} {s : St α} (h : Reachable .direct input s)
    (hl : s.pc ≠ .dead) : s.file.length ≤ s.count + 1 :=
  (h.inv.direct_count h.unbuf).2 hl

/-- **file_prefix_of_input.** In every reachable state of EVERY variant, the complete lines of
    the results file followed by the row whose bytes are partly written are a prefix of the
    input; in particular `file <+: input`. -/
theorem file_prefix_of_input {v : Spool.Variant} {input : List α} {s : St α} (h : Reachable v input s) :
    s.file ++ s.tail.pending <+: input ∧ s.file <+: input :=
  ⟨h.inv.pre, (List.prefix_append _ _).trans h.inv.pre⟩

/-- The code as it is never buffers a row and never cuts one. -/
theorem direct_never_cuts {input : List α} {s : St α} (h : Reachable .direct input s) :
    s.buffer = [] ∧ ∀ r, s.tail ≠ .cut r :=
  h.unbuf

/-- the poll form of (2): the count a client is told is at most the lines on disk at that moment -/
theorem status_count_le_file {input : List α} {s s' : St α} {l : Label} {st : JobState} {n : Nat}
    (h : Reachable .direct input s) (hs : step .direct l s = some (s', .status st n)) :
    n ≤ s.file.length := by
  obtain ⟨_, _, rfl⟩ := step_status hs
  exact count_never_exceeds_file h

/-- test: a crash between `Write(row)` and `Write("\n")` — the file ends in an unterminated
    line, the count (lost anyway) was not ahead, the job is not listed after the restart -/
example :
    (Spool.run .direct (sched 5 ++ [.getStatus, .restart, .getStatus]) (init [10, 20, 30])).map
      (fun r => (r.1.file, r.1.tail, r.2.filter (· != .silent)))
    = some ([10], .noNl 20, [.status .running 1, .notFound]) := by decide

/-! ### (3) buffered writer, flush deferred past the state change: the regression -/

/-- **buffered_flush_after_complete_breaks.** Buffered writer with room for two rows, `Flush`
    deferred: on an input of three rows there is a reachable state with `state = COMPLETE` and
    `file ≠ input`; the client is told "COMPLETE, 3 rows" and reads two. -/
theorem buffered_flush_after_complete_breaks :
    ∃ s, Reachable (.flushAfter (some 2)) [1, 2, 3] s ∧ s.state = .complete ∧ s.file ≠ [1, 2, 3] ∧
      getStatus s = .status .complete 3 ∧ stream s = .rows [.ok 1, .ok 2] := by
  have h : Spool.run (.flushAfter (some 2)) (sched 10) (init [1, 2, 3])
      = some ({ todo := [], file := [1, 2], buffer := [3], state := .complete, count := 3,
                statusFile := some none, pc := .writeStatus }, List.replicate 10 .silent) := by
    decide
  exact ⟨_, reachable_of_run h, by decide⟩

/-- the same with an unbounded buffer: "COMPLETE, 3 rows", and no row at all -/
theorem buffered_unbounded_serves_nothing :
    ∃ s, Reachable (.flushAfter none) [1, 2, 3] s ∧ s.state = .complete ∧ s.file ≠ [1, 2, 3] ∧
      getStatus s = .status .complete 3 ∧ stream s = .rows [] := by
  have h : Spool.run (.flushAfter none) (sched 10) (init [1, 2, 3])
      = some ({ todo := [], buffer := [1, 2, 3], state := .complete, count := 3,
                statusFile := some none, pc := .writeStatus }, List.replicate 10 .silent) := by
    decide
  exact ⟨_, reachable_of_run h, by decide⟩

/-- and the spill that does not end on a row boundary: the client reads two rows and a row cut
    in the middle of its line -/
theorem buffered_reader_sees_cut_row :
    ∃ s, Reachable (.flushAfter (some 2)) [1, 2, 3] s ∧
      getStatus s = .status .complete 3 ∧ stream s = .rows [.ok 1, .ok 2, .garbage] := by
  have h : Spool.run (.flushAfter (some 2)) (sched 5 ++ [.spoolCut] ++ sched 4) (init [1, 2, 3])
      = some ({ todo := [], file := [1, 2], tail := .cut 3, state := .complete, count := 3,
                statusFile := some none, pc := .writeStatus }, List.replicate 10 .silent) := by
    decide
  exact ⟨_, reachable_of_run h, by decide⟩

/-- The regression survives a restart: killed after the status file is written and before the
    deferred `Flush`, the job comes back COMPLETE with count 3 and an empty results file — for
    good, the buffer died with the process. -/
theorem buffered_crash_truncates_forever :
    (Spool.run (.flushAfter none) (sched 11 ++ [.restart, .getStatus, .stream]) (init [1, 2, 3])).map
      (fun r => r.2.filter (· != .silent))
    = some [.status .complete 3, .rows []] := by decide

/-- **buffered_small_job_serves_nothing.** The regression, in general: for EVERY non-empty
    input that fits in the buffer (any capacity, or unbounded),
    (a) the state right after `setState(COMPLETE)` is reachable, and
    (b) in every reachable state at that program point (whatever the readers did meanwhile) the
        results file is EMPTY while `Status` says COMPLETE with the full count: `Stream` is
        allowed and returns no row. -/
theorem buffered_small_job_serves_nothing {cap : Option Nat} {input : List α}
    (hne : input ≠ []) (hfit : Fits cap input.length) :
    (∃ s, Reachable (.flushAfter cap) input s ∧ s.pc = .writeStatus) ∧
    ∀ s, Reachable (.flushAfter cap) input s → s.pc = .writeStatus →
      s.state = .complete ∧ s.file = [] ∧ s.file ≠ input ∧
      getStatus s = .status .complete input.length ∧ stream s = .rows [] := by
  refine ⟨⟨_, reachable_servedNothing input hfit, rfl⟩, fun s hr hpc => ?_⟩
  obtain ⟨hp, hc, hn⟩ := hr.inv.at_writeStatus hpc
  have hns := hr.noSpill hfit
  simp only [NoSpill, hpc, reduceCtorEq, false_or] at hns
  obtain ⟨hf, ht, _⟩ := hns
  refine ⟨hc, hf, ?_, ?_, ?_⟩
  · rw [hf]; exact fun h => hne h.symm
  · simp [getStatus, hp, hc, hn]
  · simp [stream, St.readFile, hp, hc, hf, ht]

/-- test: `Fits` is satisfiable with a finite capacity, and needed — with room for two rows a
    job of three does reach the file before COMPLETE (first witness above) -/
example : Fits (some 5) [1, 2, 3].length := fun c h => by cases h; decide
example : Fits none [1, 2, 3].length := fun c h => by cases h

/-! ### (4) buffered writer, flushed before the state change: fine again -/

/-- **buffered_flush_before_complete_ok.** The buffered writer with `Flush` after the loop,
    before `setState(COMPLETE)`, satisfies (1) for every capacity, every input and every
    interleaving, including the spills that cut rows: COMPLETE implies `file = input`, whole
    lines, `count = |input|`.  With (3): the invariant fails exactly when the flush comes after
    the state change. -/
theorem buffered_flush_before_complete_ok {cap : Option Nat} {input : List α} {s : St α}
    (h : Reachable (.flushBefore cap) input s) (hc : s.state = .complete) :
    s.file = input ∧ s.tail = .clean ∧ s.count = input.length :=
  have := safe_complete_implies_all_rows rfl h hc
  ⟨this.2.1, this.2.2.1, this.2.2.2⟩

/-- the reader form of (4) -/
theorem buffered_flush_before_reader_sees_all {cap : Option Nat} {input : List α} {s s' : St α}
    {l : Label} {rows : List (Line α)} (h : Reachable (.flushBefore cap) input s)
    (hs : step (.flushBefore cap) l s = some (s', .rows rows)) :
    rows = input.map .ok ∧ getStatus s = .status .complete rows.length := by
  obtain ⟨_, hc, rfl⟩ := step_rows hs
  obtain ⟨hp, hf, ht, hn⟩ := safe_complete_implies_all_rows rfl h hc
  have := answers_of_complete hp hc hf ht hn
  simp [St.readFile, hf, ht, this.2]

/-- test: room for two rows, the spill cuts the third row; a poll before the flush sees RUNNING,
    the view after COMPLETE sees all three rows whole -/
example :
    (Spool.run (.flushBefore (some 2)) (sched 5 ++ [.spoolCut] ++ sched 2 ++ [.getStatus, .stream]
        ++ sched 3 ++ [.getStatus, .stream]) (init [1, 2, 3])).map
      (fun r => r.2.filter (· != .silent))
    = some [.status .running 3, .notComplete,
            .status .complete 3, .rows [.ok 1, .ok 2, .ok 3]] := by decide

/-! ### (5) restart -/

/-- **restart_complete_job_readable.** The code as it is: kill the server at ANY point of any
    interleaving and start it again; if the reloaded job says COMPLETE then it is listed, the
    results file holds every input row as a whole line, the reloaded count is the number of rows,
    and `Stream` returns them.  (The status file's content is written after every row is in the
    file, and a created-but-empty status file is not a job: see below.) -/
theorem restart_complete_job_readable {input : List α} {s : St α}
    (h : Reachable .direct input s) (hc : (restart s).state = .complete) :
    (restart s).present = true ∧ (restart s).file = input ∧ (restart s).tail = .clean ∧
    (restart s).count = input.length ∧
    stream (restart s) = .rows (input.map .ok) ∧
    getStatus (restart s) = .status .complete input.length := by
  have hr : Reachable .direct input (restart s) := h.step (o := .silent) .restart rfl
  obtain ⟨hp, hf, ht, hn⟩ := safe_complete_implies_all_rows rfl hr hc
  exact ⟨hp, hf, ht, hn, answers_of_complete hp hc hf ht hn⟩

/-- test: the hypothesis is satisfiable for every input — kill the server after the goroutine
    has returned -/
example (input : List α) : ∃ s, Reachable .direct input s ∧ (restart s).state = .complete :=
  ⟨_, reachable_done input, rfl⟩

/-- **restart_listed_iff_status_written.** What `NewFSJobStorage` makes of the job directory:
    the job is listed after a restart exactly when its status file has been WRITTEN (not merely
    created), and then with the state and count that were written. -/
theorem restart_listed_iff_status_written (s : St α) :
    (restart s).present = true ↔ ∃ st n, s.statusFile = some (some (st, n)) := by
  unfold restart
  split
  · rename_i st n h; simp [h]
  · rename_i h
    simp only [Bool.false_eq_true, false_iff, not_exists]
    intro st n h'; exact h st n h'

/-- A created-but-empty status file (`os.Create` done, `statusFile.Write` not): `json.Unmarshal`
    fails with "unexpected end of JSON input", `NewFSJobStorage` logs and skips — the job is not
    found, not listed, not readable after the restart. -/
theorem restart_empty_status_not_listed (s : St α) (h : s.statusFile = some none) :
    (restart s).present = false ∧ getStatus (restart s) = .notFound ∧
    stream (restart s) = .notFound := by
  simp [restart, h, getStatus, stream]

/-- **restart_after_return_keeps_job.** The positive half of "completed jobs remain listed and
    readable after a restart" (any safe variant): once the goroutine is past the status write, a
    COMPLETE job survives a kill — same state, same count, same rows. -/
theorem restart_after_return_keeps_job {v : Spool.Variant} {input : List α} {s : St α}
    (hv : v.safe = true) (h : Reachable v input s) (hpc : s.pc = .close ∨ s.pc = .done)
    (hc : s.state = .complete) :
    getStatus (restart s) = getStatus s ∧ stream (restart s) = stream s ∧
    stream s = .rows (input.map .ok) := by
  obtain ⟨hsf, _, _⟩ := h.inv.final_status hpc hc
  obtain ⟨hp, hf, ht, hn⟩ := safe_complete_implies_all_rows hv h hc
  have ha := answers_of_complete hp hc hf ht hn
  refine ⟨?_, ?_, ha.1⟩
  · simp [restart, hsf, getStatus, hp, hc]
  · simp [restart, hsf, stream, St.readFile, hp, hc]

/-- test: the hypotheses hold at the end of the unbuffered goroutine's run, for every input -/
example (input : List α) :
    ∃ s, Reachable .direct input s ∧ (s.pc = .close ∨ s.pc = .done) ∧ s.state = .complete :=
  ⟨_, reachable_done input, .inr rfl, rfl⟩

/-! #### FINDING (code as it is): a job that a client saw COMPLETE can vanish at a restart

  `FSResults.Spool` (storage.go:179-185) does `os.Create(statusPath)`, then
  `job.setState(COMPLETE)`, then `json.Marshal(job)` and `statusFile.Write`.  Between the state
  change and the write, `Status` answers COMPLETE and `Stream` serves every row — but the status
  file is empty.  A kill in that window leaves an empty status file; `NewFSJobStorage`
  (storage.go:81-92) fails to unmarshal it and skips the job.  After the restart the job the
  client saw COMPLETE is not found, not listed, not resumable, and its directory (results file
  and empty status file) is orphaned: `Delete` looks the job up in `fs.jobs` and does nothing.
  This does not contradict `restart_complete_job_readable` (what IS reloaded as COMPLETE is
  whole); it contradicts "completed jobs remain listed, readable and resumable after a restart"
  read for a job that was OBSERVED complete.  The window closes at `statusFile.Write`
  (`restart_after_return_keeps_job`).  A fix in the order of effects: write (and close) the
  status file before `setState(COMPLETE)`.
-/

/-- **complete_seen_then_lost_on_restart** (concrete): poll → "COMPLETE, 3", view → three rows,
    kill + start, poll → not found, view → not found. -/
theorem complete_seen_then_lost_on_restart :
    (Spool.run .direct (sched 13 ++ [.getStatus, .stream, .restart, .getStatus, .stream])
        (init [10, 20, 30])).map (fun r => (r.2.filter (· != .silent), r.1.statusFile, r.1.file))
    = some ([.status .complete 3, .rows [.ok 10, .ok 20, .ok 30], .notFound, .notFound],
            some none, [10, 20, 30]) := by decide

/-- … and for every input: the state right after `setState(COMPLETE)` is reachable; there
    `Status` says COMPLETE with the full count and `Stream` serves every row; a restart from
    there loses the job and leaves the orphaned files. -/
theorem complete_seen_then_lost_on_restart_general (input : List α) :
    ∃ s, Reachable .direct input s ∧
      getStatus s = .status .complete input.length ∧ stream s = .rows (input.map .ok) ∧
      getStatus (restart s) = .notFound ∧ stream (restart s) = .notFound ∧
      (restart s).statusFile = some none ∧ (restart s).file = input :=
  ⟨unwrittenSt input, reachable_unwritten input,
    by simp [unwrittenSt, getStatus], by simp [unwrittenSt, stream, St.readFile],
    by simp [unwrittenSt, restart, getStatus], by simp [unwrittenSt, restart, stream],
    by simp [unwrittenSt, restart], by simp [unwrittenSt, restart]⟩

/-! ### the small-step run and the big-step model agree -/

/-- **spool_function_is_goroutine_run.** `Store.spool` of Grip.Model.C11 (the function the other
    C11 theorems are about) leaves for a fresh job name exactly what the unbuffered goroutine
    leaves when it has returned: same lines in the results file, same state and count in memory
    and in the status file. -/
theorem spool_function_is_goroutine_run {κ : Type} (s : Store κ) (graph id : String)
    (sums : List κ) (st : TState) (lines : List JV)
    (hm : s.lookup graph id = none) (hd : s.dir graph id = none) :
    ∃ fin : St JV, Reachable .direct lines fin ∧ fin.pc = .done ∧
      ((s.spool graph id sums st lines).dir graph id).map (·.results) = some fin.file ∧
      ((s.spool graph id sums st lines).lookup graph id).map (fun j => (j.state, j.count))
        = some (fin.state, fin.count) ∧
      (((s.spool graph id sums st lines).dir graph id).bind (·.status)).map
        (fun j => (j.state, j.count)) = fin.statusFile.join := by
  obtain ⟨h1, h2⟩ := Lemmas.spool_result s graph id sums st lines hm hd
  refine ⟨doneSt lines, reachable_done lines, rfl, ?_, ?_, ?_⟩
  · rw [h2]; rfl
  · rw [h1]; rfl
  · rw [h2]; rfl

end Grip.Props.C11
