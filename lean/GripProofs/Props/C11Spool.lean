/-
  Grip.Props.C11 (continued) — the ORDER of the spooling goroutine's effects against a concurrent
  reader: what a client that polls `GetJob` and calls `ViewJob` / `ResumeJob` while the job is
  being spooled, or after the server was killed and started again, can see.

  Vocabulary (Grip.Model.C11Spool): `St` is the shared state of ONE job (results file = complete
  lines `file` + an unterminated `tail`, writer-side `buffer`, in-memory `state` / `count`,
  `statusFile`, the goroutine's program counter).  `step v l` is one labelled step: `spool` /
  `spoolCut` / `createFails` are effects of the goroutine of `FSResults.Spool` in the order of
  the Go code, `getStatus` / `stream` are `FSResults.Status` / `FSResults.Stream`, `restart` is a
  kill followed by `NewFSJobStorage`.  `Reachable v input s`: `s` is reached from `Spool(input)`
  by ANY sequence of such steps (all interleavings, any number of restarts); `run v ls` executes
  a schedule and collects the observations.  The variants: `direct` is the code as it is, i.e.
  AFTER fix 3895728 (`resultFile.Write` per row; the status file is written BEFORE
  `job.setState(COMPLETE)`), `directOld` is the code as it was BEFORE fix 3895728 (the status file
  written AFTER `setState(COMPLETE)`; kept frozen, for the finding of section (7)),
  `flushAfter cap` is the regression (buffered writer, `Flush` deferred to the return of the
  goroutine, otherwise the repaired order), `flushBefore cap` flushes right after the loop.
  "The code as it is" below always means `direct`.

  What is NOT in this model: the content of a row (C11's `spool_roundtrip`), the worker pools
  (C13), several jobs (jobs share nothing but the `sync.Map`), `Delete`, power loss.
  `Stream` reads the file at one instant; the file only grows and — in the safe variants — is
  final when `Stream` is allowed, so a slower scan sees the same lines.

  No hypotheses beyond the ones in the statements: every theorem is for every input, every row
  type, every schedule.
-/
import Grip.Model.C11Spool
import GripProofs.Lemmas.C11Spool
import GripProofs.Lemmas.C11Store

namespace Grip.Props.C11
open Grip Grip.C11 Grip.C11.Spool

variable {α : Type}

/-- a schedule that runs from `Spool(input)` ends in a reachable state -/
theorem reachable_of_run {v : Spool.Variant} {input : List α} {ls : List Label} {s : St α}
    {os : List (Obs α)} (h : Spool.run v ls (init input) = some (s, os)) : Reachable v input s :=
  (run_reachable ls _ _ _ Reachable.init h).1

/-! ### (1) the code as it is: COMPLETE implies every row is in the file -/

/-- **safe_complete_implies_all_rows.** Unbuffered, or flushed before the state change: in
    every reachable state — whatever the interleaving, before or after any number of restarts —
    a job whose state is COMPLETE is present, its results file holds exactly the input rows as
    whole lines, and its count is the number of rows. -/
theorem safe_complete_implies_all_rows {v : Spool.Variant} {input : List α} {s : St α}
    (hv : v.safe = true) (h : Reachable v input s) (hc : s.state = .complete) :
    s.present = true ∧ s.file = input ∧ s.tail = .clean ∧ s.count = input.length :=
  h.inv.complete_all hv hc

/-- **complete_implies_all_rows.** The code as it is (`resultFile.Write` per row): in every
    reachable state, `state = COMPLETE → file = input ∧ count = |input|`. -/
theorem complete_implies_all_rows {input : List α} {s : St α}
    (h : Reachable .direct input s) (hc : s.state = .complete) :
    s.file = input ∧ s.count = input.length :=
  have := safe_complete_implies_all_rows rfl h hc
  ⟨this.2.1, this.2.2.2⟩

/-- what `Stream` and `Status` answer in a state where everything is in place -/
theorem answers_of_complete {input : List α} {s : St α} (hp : s.present = true)
    (hc : s.state = .complete) (hf : s.file = input) (ht : s.tail = .clean)
    (hn : s.count = input.length) :
    stream s = .rows (input.map .ok) ∧ getStatus s = .status .complete input.length := by
  simp [stream, getStatus, St.readFile, hp, hc, hf, ht, hn]

/-- **reader_sees_all.** The code as it is: whenever `Stream` hands out rows — at any point of
    any interleaving — they are exactly the input rows, each a whole line, and `Status` at that
    moment says COMPLETE with a count equal to the number of rows handed out. -/
theorem reader_sees_all {input : List α} {s s' : St α} {l : Label} {rows : List (Line α)}
    (h : Reachable .direct input s) (hs : step .direct l s = some (s', .rows rows)) :
    rows = input.map .ok ∧ getStatus s = .status .complete rows.length := by
  obtain ⟨_, hc, rfl⟩ := step_rows hs
  obtain ⟨hp, hf, ht, hn⟩ := safe_complete_implies_all_rows rfl h hc
  have := answers_of_complete hp hc hf ht hn
  simp [St.readFile, hf, ht, this.2]

/-- **reader_sees_all_trace.** The same over a whole history: in the observations of ANY
    schedule of goroutine steps, polls, views and restarts, every view that returns rows returns
    exactly the input rows, and every poll that says COMPLETE reports the input's length — so a
    client that was told "COMPLETE, count n" and then (or before) reads the job reads n rows. -/
theorem reader_sees_all_trace {input : List α} {ls : List Label} {s : St α} {os : List (Obs α)}
    (h : Spool.run .direct ls (init input) = some (s, os)) :
    (∀ rows, .rows rows ∈ os → rows = input.map .ok) ∧
    (∀ n, .status .complete n ∈ os → n = input.length) := by
  obtain ⟨_, hobs⟩ := run_reachable ls _ _ _ Reachable.init h
  constructor
  · intro rows hm
    obtain ⟨l, s1, s1', hr, hs⟩ := hobs _ hm
    exact (reader_sees_all hr hs).1
  · intro n hm
    obtain ⟨l, s1, s1', hr, hs⟩ := hobs _ hm
    obtain ⟨_, hst, rfl⟩ := step_status hs
    exact (complete_implies_all_rows hr hst.symm).2

/-- test (non-vacuity of (1)): a client polls and views between the effects of the goroutine
    (in the loop; right after the status file is written, where the job still says RUNNING; after
    `setState(COMPLETE)`), the server is restarted after the job is done, the client polls and
    views again -/
example :
    (Spool.run .direct (sched 5 ++ [.getStatus, .stream] ++ sched 8 ++ [.getStatus, .stream] ++ sched 1
        ++ [.getStatus, .stream] ++ sched 1 ++ [.restart, .getStatus, .stream]) (init [10, 20, 30])).map
      (fun r => r.2.filter (· != .silent))
    = some [.status .running 1, .notComplete,
            .status .running 3, .notComplete,
            .status .complete 3, .rows [.ok 10, .ok 20, .ok 30],
            .status .complete 3, .rows [.ok 10, .ok 20, .ok 30]] := by decide

/-- The order before fix 3895728 had the same property (1) — the rows were never the problem:
    `state = COMPLETE → file = input ∧ count = |input|` in every reachable state of `directOld`. -/
theorem old_complete_implies_all_rows {input : List α} {s : St α}
    (h : Reachable .directOld input s) (hc : s.state = .complete) :
    s.file = input ∧ s.count = input.length :=
  have := safe_complete_implies_all_rows rfl h hc
  ⟨this.2.1, this.2.2.2⟩

/-- test: the hypotheses of `complete_implies_all_rows` are satisfiable for every input — the
    goroutine left alone reaches COMPLETE -/
example (input : List α) : ∃ s, Reachable .direct input s ∧ s.state = .complete :=
  ⟨_, reachable_done input, rfl⟩

/-! ### (2) the code as it is: the count never runs ahead of the file -/

/-- **count_never_exceeds_file.** The code as it is: in every reachable state the count is at
    most the number of complete lines in the results file — a client polling a RUNNING job is
    never told more rows than are on disk. -/
theorem count_never_exceeds_file {input : List α} {s : St α} (h : Reachable .direct input s) :
    s.count ≤ s.file.length :=
  (h.inv.direct_count rfl (h.unbuf rfl)).1

/-- while the goroutine lives the count lags the file by at most one row (the window between the
    newline and `addCount(1)`) -/
theorem count_lags_by_one {input : List α} {s : St α} (h : Reachable .direct input s)
    (hl : s.pc ≠ .dead) : s.file.length ≤ s.count + 1 :=
  (h.inv.direct_count rfl (h.unbuf rfl)).2 hl

/-- **file_prefix_of_input.** In every reachable state of EVERY variant, the complete lines of
    the results file followed by the row whose bytes are partly written are a prefix of the
    input; in particular `file <+: input`. -/
theorem file_prefix_of_input {v : Spool.Variant} {input : List α} {s : St α} (h : Reachable v input s) :
    s.file ++ s.tail.pending <+: input ∧ s.file <+: input :=
  ⟨h.inv.pre, (List.prefix_append _ _).trans h.inv.pre⟩

/-- The code as it is never buffers a row and never cuts one. -/
theorem direct_never_cuts {input : List α} {s : St α} (h : Reachable .direct input s) :
    s.buffer = [] ∧ ∀ r, s.tail ≠ .cut r :=
  h.unbuf rfl

/-- the poll form of (2): the count a client is told is at most the lines on disk at that moment -/
theorem status_count_le_file {input : List α} {s s' : St α} {l : Label} {st : JobState} {n : Nat}
    (h : Reachable .direct input s) (hs : step .direct l s = some (s', .status st n)) :
    n ≤ s.file.length := by
  obtain ⟨_, _, rfl⟩ := step_status hs
  exact count_never_exceeds_file h

/-- test: a crash between `Write(row)` and `Write("\n")` — the file ends in an unterminated
    line, the count (lost anyway) was not ahead, the job is not listed after the restart -/
example :
    (Spool.run .direct (sched 5 ++ [.getStatus, .restart, .getStatus]) (init [10, 20, 30])).map
      (fun r => (r.1.file, r.1.tail, r.2.filter (· != .silent)))
    = some ([10], .noNl 20, [.status .running 1, .notFound]) := by decide

/-! ### (3) buffered writer, flush deferred past the state change: the regression -/

/-- **buffered_flush_after_complete_breaks.** Buffered writer with room for two rows, `Flush`
    deferred: on an input of three rows there is a reachable state with `state = COMPLETE` and
    `file ≠ input`; the client is told "COMPLETE, 3 rows" and reads two. -/
theorem buffered_flush_after_complete_breaks :
    ∃ s, Reachable (.flushAfter (some 2)) [1, 2, 3] s ∧ s.state = .complete ∧ s.file ≠ [1, 2, 3] ∧
      getStatus s = .status .complete 3 ∧ stream s = .rows [.ok 1, .ok 2] := by
  have h : Spool.run (.flushAfter (some 2)) (sched 11) (init [1, 2, 3])
      = some ({ todo := [], file := [1, 2], buffer := [3], state := .complete, count := 3,
                statusFile := some (some (.complete, 3)), pc := .flushPost },
              List.replicate 11 .silent) := by
    decide
  exact ⟨_, reachable_of_run h, by decide⟩

/-- the same with an unbounded buffer: "COMPLETE, 3 rows", and no row at all -/
theorem buffered_unbounded_serves_nothing :
    ∃ s, Reachable (.flushAfter none) [1, 2, 3] s ∧ s.state = .complete ∧ s.file ≠ [1, 2, 3] ∧
      getStatus s = .status .complete 3 ∧ stream s = .rows [] := by
  have h : Spool.run (.flushAfter none) (sched 11) (init [1, 2, 3])
      = some ({ todo := [], buffer := [1, 2, 3], state := .complete, count := 3,
                statusFile := some (some (.complete, 3)), pc := .flushPost },
              List.replicate 11 .silent) := by
    decide
  exact ⟨_, reachable_of_run h, by decide⟩

/-- and the spill that does not end on a row boundary: the client reads two rows and a row cut
    in the middle of its line -/
theorem buffered_reader_sees_cut_row :
    ∃ s, Reachable (.flushAfter (some 2)) [1, 2, 3] s ∧
      getStatus s = .status .complete 3 ∧ stream s = .rows [.ok 1, .ok 2, .garbage] := by
  have h : Spool.run (.flushAfter (some 2)) (sched 5 ++ [.spoolCut] ++ sched 5) (init [1, 2, 3])
      = some ({ todo := [], file := [1, 2], tail := .cut 3, state := .complete, count := 3,
                statusFile := some (some (.complete, 3)), pc := .flushPost },
              List.replicate 11 .silent) := by
    decide
  exact ⟨_, reachable_of_run h, by decide⟩

/-- The regression survives a restart: killed after the status file is written (the job still
    says RUNNING: the status file is AHEAD of the rows) and before the deferred `Flush`, the job
    comes back COMPLETE with count 3 and an empty results file — for good, the buffer died with
    the process.  The counterexample to `status_file_never_ahead_of_rows` for `flushAfter`. -/
theorem buffered_crash_truncates_forever :
    (Spool.run (.flushAfter none) (sched 10 ++ [.getStatus, .restart, .getStatus, .stream])
        (init [1, 2, 3])).map (fun r => (r.2.filter (· != .silent), r.1.statusFile, r.1.file))
    = some ([.status .running 3, .status .complete 3, .rows []], some (some (.complete, 3)), []) := by
  decide

/-- the same crash one step later, after `setState(COMPLETE)` (the point of the old theorem) -/
example :
    (Spool.run (.flushAfter none) (sched 11 ++ [.restart, .getStatus, .stream]) (init [1, 2, 3])).map
      (fun r => r.2.filter (· != .silent))
    = some [.status .complete 3, .rows []] := by decide

/-- **buffered_small_job_serves_nothing.** The regression, in general: for EVERY non-empty
    input that fits in the buffer (any capacity, or unbounded),
    (a) the state right after `setState(COMPLETE)` (the deferred `Flush` is next) is reachable, and
    (b) in every reachable state at that program point where the job says COMPLETE (whatever the
        readers did meanwhile; the other way to get there is a failed `os.Create`, state ERROR)
        the results file is EMPTY while `Status` says COMPLETE with the full count: `Stream` is
        allowed and returns no row; and a kill there brings back a COMPLETE job with the full
        count and no row. -/
theorem buffered_small_job_serves_nothing {cap : Option Nat} {input : List α}
    (hne : input ≠ []) (hfit : Fits cap input.length) :
    (∃ s, Reachable (.flushAfter cap) input s ∧ s.pc = .flushPost ∧ s.state = .complete) ∧
    ∀ s, Reachable (.flushAfter cap) input s → s.pc = .flushPost → s.state = .complete →
      s.file = [] ∧ s.file ≠ input ∧
      getStatus s = .status .complete input.length ∧ stream s = .rows [] ∧
      getStatus (restart s) = .status .complete input.length ∧ stream (restart s) = .rows [] := by
  refine ⟨⟨_, reachable_servedNothing input hfit, rfl, rfl⟩, fun s hr hpc hc => ?_⟩
  obtain ⟨hp, hn, hsf⟩ := hr.inv.complete_status rfl hc
  have hns := hr.noSpill hfit
  simp only [NoSpill, hpc, reduceCtorEq, false_or] at hns
  obtain ⟨hf, ht, _⟩ := hns
  refine ⟨hf, ?_, ?_, ?_, ?_, ?_⟩
  · rw [hf]; exact fun h => hne h.symm
  · simp [getStatus, hp, hc, hn]
  · simp [stream, St.readFile, hp, hc, hf, ht]
  · simp [restart, hsf, getStatus]
  · simp [restart, hsf, stream, St.readFile, hf, ht]

/-- **buffered_status_file_ahead_of_rows.** `status_file_never_ahead_of_rows` FAILS for the
    regression, in general: for every non-empty input that fits in the buffer there is a reachable
    state whose status file says COMPLETE with the full count while the results file is empty (the
    job itself still says RUNNING); a kill there resurrects a COMPLETE job without rows. -/
theorem buffered_status_file_ahead_of_rows {cap : Option Nat} {input : List α}
    (hne : input ≠ []) (hfit : Fits cap input.length) :
    ∃ s, Reachable (.flushAfter cap) input s ∧
      s.statusFile = some (some (.complete, input.length)) ∧ s.file = [] ∧ s.file ≠ input ∧
      getStatus s = .status .running input.length ∧
      getStatus (restart s) = .status .complete input.length ∧ stream (restart s) = .rows [] :=
  ⟨bufWindowSt input, reachable_bufWindow input hfit, rfl, rfl, fun h => hne h.symm,
    by simp [bufWindowSt, getStatus], by simp [bufWindowSt, restart, getStatus],
    by simp [bufWindowSt, restart, stream, St.readFile]⟩

/-- test: `Fits` is satisfiable with a finite capacity, and needed — with room for two rows a
    job of three does reach the file before COMPLETE (first witness above) -/
example : Fits (some 5) [1, 2, 3].length := fun c h => by cases h; decide
example : Fits none [1, 2, 3].length := fun c h => by cases h

/-! ### (4) buffered writer, flushed before the state change: fine again -/

/-- **buffered_flush_before_complete_ok.** The buffered writer with `Flush` after the loop,
    before the status file is written and before `setState(COMPLETE)`, satisfies (1) for every
    capacity, every input and every interleaving, including the spills that cut rows: COMPLETE
    implies `file = input`, whole lines, `count = |input|`.  With (3): the invariant fails exactly
    when the flush comes after the state change. -/
theorem buffered_flush_before_complete_ok {cap : Option Nat} {input : List α} {s : St α}
    (h : Reachable (.flushBefore cap) input s) (hc : s.state = .complete) :
    s.file = input ∧ s.tail = .clean ∧ s.count = input.length :=
  have := safe_complete_implies_all_rows rfl h hc
  ⟨this.2.1, this.2.2.1, this.2.2.2⟩

/-- the reader form of (4) -/
theorem buffered_flush_before_reader_sees_all {cap : Option Nat} {input : List α} {s s' : St α}
    {l : Label} {rows : List (Line α)} (h : Reachable (.flushBefore cap) input s)
    (hs : step (.flushBefore cap) l s = some (s', .rows rows)) :
    rows = input.map .ok ∧ getStatus s = .status .complete rows.length := by
  obtain ⟨_, hc, rfl⟩ := step_rows hs
  obtain ⟨hp, hf, ht, hn⟩ := safe_complete_implies_all_rows rfl h hc
  have := answers_of_complete hp hc hf ht hn
  simp [St.readFile, hf, ht, this.2]

/-- test: room for two rows, the spill cuts the third row; a poll before the flush sees RUNNING,
    the view after COMPLETE sees all three rows whole -/
example :
    (Spool.run (.flushBefore (some 2)) (sched 5 ++ [.spoolCut] ++ sched 2 ++ [.getStatus, .stream]
        ++ sched 4 ++ [.getStatus, .stream]) (init [1, 2, 3])).map
      (fun r => r.2.filter (· != .silent))
    = some [.status .running 3, .notComplete,
            .status .complete 3, .rows [.ok 1, .ok 2, .ok 3]] := by decide

/-! ### (5) restart -/

/-- what `NewFSJobStorage` makes of a written status file -/
theorem restart_of_written {s : St α} {st : JobState} {n : Nat}
    (h : s.statusFile = some (some (st, n))) :
    (restart s).present = true ∧ (restart s).state = st ∧ (restart s).count = n ∧
    (restart s).file = s.file ∧ (restart s).tail = s.tail := by
  simp [restart, h]

/-- **status_file_never_ahead_of_rows** (every safe variant: `direct`, `directOld`,
    `flushBefore`).  In every reachable state, a WRITTEN status file says COMPLETE, its count is the
    number of input rows, and the results file already holds every one of them as a whole line.
    (The status file is written after the last row is in the file.)  So a restart never
    resurrects a job with missing rows.  False for `flushAfter`:
    `buffered_status_file_ahead_of_rows`, `buffered_crash_truncates_forever`. -/
theorem safe_status_file_never_ahead_of_rows {v : Spool.Variant} {input : List α} {s : St α}
    {st : JobState} {n : Nat} (hv : v.safe = true) (h : Reachable v input s)
    (hsf : s.statusFile = some (some (st, n))) :
    st = .complete ∧ n = input.length ∧ s.file = input ∧ s.tail = .clean := by
  obtain ⟨h1, h2, h3⟩ := h.inv.disk st n hsf
  exact ⟨h1, h2, h3 hv⟩

/-- **status_file_never_ahead_of_rows.** The code as it is: whenever the status file says
    COMPLETE with count `n`, the results file holds all `n = |input|` rows. -/
theorem status_file_never_ahead_of_rows {input : List α} {s : St α} {n : Nat}
    (h : Reachable .direct input s) (hsf : s.statusFile = some (some (.complete, n))) :
    n = input.length ∧ s.file = input ∧ s.tail = .clean ∧ s.file.length = n := by
  obtain ⟨_, h2, h3, h4⟩ := safe_status_file_never_ahead_of_rows rfl h hsf
  exact ⟨h2, h3, h4, by rw [h3, h2]⟩

/-- test: the hypothesis is satisfiable for every input — and already in the window where the
    job still says RUNNING -/
example (input : List α) : ∃ s, Reachable .direct input s ∧ s.state = .running ∧
    s.statusFile = some (some (.complete, input.length)) :=
  ⟨_, reachable_window input, rfl, rfl⟩

/-- **restart_complete_job_readable.** The code as it is: kill the server at ANY point of any
    interleaving and start it again; if the reloaded job says COMPLETE then it is listed, the
    results file holds every input row as a whole line, the reloaded count is the number of rows,
    and `Stream` returns them.  (The status file's content is written after every row is in the
    file, and a created-but-empty status file is not a job: see below.)  Holds for every safe
    variant, so also for the order before fix 3895728. -/
theorem safe_restart_complete_job_readable {v : Spool.Variant} {input : List α} {s : St α}
    (hv : v.safe = true) (h : Reachable v input s) (hc : (restart s).state = .complete) :
    (restart s).present = true ∧ (restart s).file = input ∧ (restart s).tail = .clean ∧
    (restart s).count = input.length ∧
    stream (restart s) = .rows (input.map .ok) ∧
    getStatus (restart s) = .status .complete input.length := by
  have hr : Reachable v input (restart s) := h.step (o := .silent) .restart rfl
  obtain ⟨hp, hf, ht, hn⟩ := safe_complete_implies_all_rows hv hr hc
  exact ⟨hp, hf, ht, hn, answers_of_complete hp hc hf ht hn⟩

theorem restart_complete_job_readable {input : List α} {s : St α}
    (h : Reachable .direct input s) (hc : (restart s).state = .complete) :
    (restart s).present = true ∧ (restart s).file = input ∧ (restart s).tail = .clean ∧
    (restart s).count = input.length ∧
    stream (restart s) = .rows (input.map .ok) ∧
    getStatus (restart s) = .status .complete input.length :=
  safe_restart_complete_job_readable rfl h hc

/-- test: the hypothesis is satisfiable for every input — kill the server after the goroutine
    has returned, or already in the window before `setState(COMPLETE)` -/
example (input : List α) : ∃ s, Reachable .direct input s ∧ (restart s).state = .complete :=
  ⟨_, reachable_done input, rfl⟩
example (input : List α) : ∃ s, Reachable .direct input s ∧ s.state = .running ∧
    (restart s).state = .complete :=
  ⟨_, reachable_window input, rfl, rfl⟩

/-- **restart_listed_iff_status_written.** What `NewFSJobStorage` makes of the job directory:
    the job is listed after a restart exactly when its status file has been WRITTEN (not merely
    created), and then with the state and count that were written. -/
theorem restart_listed_iff_status_written (s : St α) :
    (restart s).present = true ↔ ∃ st n, s.statusFile = some (some (st, n)) := by
  unfold restart
  split
  · rename_i st n h; simp [h]
  · rename_i h
    simp only [Bool.false_eq_true, false_iff, not_exists]
    intro st n h'; exact h st n h'

/-- A created-but-empty status file (`os.Create` done, `statusFile.Write` not): `json.Unmarshal`
    fails with "unexpected end of JSON input", `NewFSJobStorage` logs and skips — the job is not
    found, not listed, not readable after the restart.  (In the repaired order the job says
    RUNNING while its status file is empty: `empty_status_file_job_not_complete`.) -/
theorem restart_empty_status_not_listed (s : St α) (h : s.statusFile = some none) :
    (restart s).present = false ∧ getStatus (restart s) = .notFound ∧
    stream (restart s) = .notFound := by
  simp [restart, h, getStatus, stream]

/-- **restart_after_return_keeps_job.** The positive half of "completed jobs remain listed and
    readable after a restart" (any safe variant, old order included): once the goroutine is past
    the status write and the state change, a COMPLETE job survives a kill — same state, same
    count, same rows.  (For the code as it is, `complete_seen_survives_restart` drops the
    hypothesis on the program point.) -/
theorem restart_after_return_keeps_job {v : Spool.Variant} {input : List α} {s : St α}
    (hv : v.safe = true) (h : Reachable v input s) (hpc : s.pc = .close ∨ s.pc = .done)
    (hc : s.state = .complete) :
    getStatus (restart s) = getStatus s ∧ stream (restart s) = stream s ∧
    stream s = .rows (input.map .ok) := by
  obtain ⟨hsf, _, _⟩ := h.inv.final_status hpc hc
  obtain ⟨hp, hf, ht, hn⟩ := safe_complete_implies_all_rows hv h hc
  have ha := answers_of_complete hp hc hf ht hn
  refine ⟨?_, ?_, ha.1⟩
  · simp [restart, hsf, getStatus, hp, hc]
  · simp [restart, hsf, stream, St.readFile, hp, hc]

/-- test: the hypotheses hold at the end of the unbuffered goroutine's run, for every input
    (repaired order and old order) -/
example (input : List α) :
    ∃ s, Reachable .direct input s ∧ (s.pc = .close ∨ s.pc = .done) ∧ s.state = .complete :=
  ⟨_, reachable_done input, .inr rfl, rfl⟩
example (input : List α) :
    ∃ s, Reachable .directOld input s ∧ (s.pc = .close ∨ s.pc = .done) ∧ s.state = .complete :=
  ⟨_, reachable_done_old input, .inr rfl, rfl⟩

/-! ### (6) the repaired order: a job that was seen COMPLETE survives every restart

  `FSResults.Spool` after fix 3895728: `os.Create(statusPath)`, then the final status (state
  COMPLETE, the count) is marshalled and WRITTEN to the status file, and only then
  `job.setState(COMPLETE)`.  So an in-memory COMPLETE — the only thing a client can see — implies
  a status file that `NewFSJobStorage` will accept.
-/

/-- what every later answer looks like once the job is COMPLETE -/
def Settled (input : List α) (o : Obs α) : Prop :=
  o = .silent ∨ o = .status .complete input.length ∨ o = .rows (input.map .ok)

/-- **complete_implies_status_written** (the invariant behind (6); any variant with the repaired
    order, buffered or not).  In every reachable state: `state = COMPLETE` implies the job is
    listed, `count = |input|` and `statusFile = some (some (COMPLETE, |input|))`. -/
theorem complete_implies_status_written {v : Spool.Variant} {input : List α} {s : St α}
    (hv : v.statusFirst = true) (h : Reachable v input s) (hc : s.state = .complete) :
    s.present = true ∧ s.count = input.length ∧
    s.statusFile = some (some (.complete, input.length)) :=
  h.inv.complete_status hv hc

/-- one step from a reachable COMPLETE state answers COMPLETE with the full count, or all rows -/
theorem settled_of_complete {v : Spool.Variant} {input : List α} {s s' : St α} {l : Label} {o : Obs α}
    (hs : v.safe = true) (h : Reachable v input s) (hc : s.state = .complete)
    (hst : step v l s = some (s', o)) : Settled input o := by
  obtain ⟨hp, hf, ht, hn⟩ := safe_complete_implies_all_rows hs h hc
  have ha := answers_of_complete hp hc hf ht hn
  rcases step_obs hst with rfl | rfl | rfl
  · exact .inl rfl
  · exact .inr (.inl ha.2)
  · exact .inr (.inr ha.1)

/-- (6) for every variant that is safe for the rows and has the repaired order (`direct`,
    `flushBefore cap`). -/
theorem safe_complete_seen_survives_restart {v : Spool.Variant} {input : List α} {s s' : St α}
    {ls : List Label} {os : List (Obs α)} (hs : v.safe = true) (hv : v.statusFirst = true)
    (h : Reachable v input s) (hc : s.state = .complete)
    (hrun : Spool.run v ls s = some (s', os)) :
    s'.state = .complete ∧ s'.statusFile = some (some (.complete, input.length)) ∧
    (restart s').present = true ∧ (restart s').state = .complete ∧
    (restart s').count = input.length ∧ (restart s').file = input ∧ (restart s').tail = .clean ∧
    getStatus (restart s') = .status .complete input.length ∧
    stream (restart s') = .rows (input.map .ok) ∧
    ∀ o ∈ os, Settled input o := by
  obtain ⟨hr', hc', hobs⟩ := run_complete hv ls s s' os h hc hrun
  obtain ⟨_, _, hsf⟩ := complete_implies_status_written hv hr' hc'
  obtain ⟨_, _, hf, ht⟩ := safe_status_file_never_ahead_of_rows hs hr' hsf
  obtain ⟨r1, r2, r3, r4, r5⟩ := restart_of_written hsf
  have ha := answers_of_complete r1 r2 (r4.trans hf) (r5.trans ht) r3
  refine ⟨hc', hsf, r1, r2, r3, r4.trans hf, r5.trans ht, ha.2, ha.1, fun o ho => ?_⟩
  obtain ⟨l, s1, s1', hr1, hc1, hst⟩ := hobs o ho
  exact settled_of_complete hs hr1 hc1 hst

/-- **complete_seen_survives_restart** (MAIN, the code as it is; every input, every
    interleaving, any number of restarts before and after).  Let `s` be ANY reachable state in
    which the in-memory state is COMPLETE (so a client may have been told so), and let `s'` be `s`
    itself (`ls = []`) or any state reached from `s` by any further schedule `ls` of goroutine
    steps, polls, views and restarts.  Then
    * `s'` still says COMPLETE and its status file is written: `(COMPLETE, |input|)`;
    * killing the server at `s'` and starting it again gives a job that is listed, COMPLETE, with
      count `|input|`, whose results file holds every input row as a whole line; `Status` and
      `Stream` answer accordingly;
    * every observation made along `ls` is silent, "COMPLETE, |input|", or all the rows — never
      "not found", never "not complete", never another state or count. -/
theorem complete_seen_survives_restart {input : List α} {s s' : St α} {ls : List Label}
    {os : List (Obs α)} (h : Reachable .direct input s) (hc : s.state = .complete)
    (hrun : Spool.run .direct ls s = some (s', os)) :
    s'.state = .complete ∧ s'.statusFile = some (some (.complete, input.length)) ∧
    (restart s').present = true ∧ (restart s').state = .complete ∧
    (restart s').count = input.length ∧ (restart s').file = input ∧ (restart s').tail = .clean ∧
    getStatus (restart s') = .status .complete input.length ∧
    stream (restart s') = .rows (input.map .ok) ∧
    ∀ o ∈ os, Settled input o :=
  safe_complete_seen_survives_restart rfl rfl h hc hrun

/-- the restart at that very point (`ls = []`) -/
theorem complete_seen_survives_restart_now {input : List α} {s : St α}
    (h : Reachable .direct input s) (hc : s.state = .complete) :
    s.statusFile = some (some (.complete, input.length)) ∧
    getStatus (restart s) = .status .complete input.length ∧
    stream (restart s) = .rows (input.map .ok) := by
  have := complete_seen_survives_restart (ls := []) h hc rfl
  exact ⟨this.2.1, this.2.2.2.2.2.2.2.1, this.2.2.2.2.2.2.2.2.1⟩

/-- a client was told COMPLETE: a poll that said COMPLETE, or a view that handed out rows -/
def SaysComplete (o : Obs α) : Prop := (∃ n, o = .status .complete n) ∨ (∃ rows, o = .rows rows)

/-- the history form, from any reachable start -/
theorem pairwise_settled_of_run {v : Spool.Variant} {input : List α} (hs : v.safe = true)
    (hv : v.statusFirst = true) : ∀ (ls : List Label) (s0 s : St α) (os : List (Obs α)),
    Reachable v input s0 → Spool.run v ls s0 = some (s, os) →
    os.Pairwise (fun a b => SaysComplete a → Settled input b)
  | [], s0, s, os, _, hr => by
    simp only [Spool.run, Option.some.injEq, Prod.mk.injEq] at hr
    obtain ⟨_, rfl⟩ := hr
    exact List.Pairwise.nil
  | l :: ls, s0, s, os, h0, hr => by
    simp only [Spool.run] at hr
    split at hr
    · cases hr
    · rename_i s1 o1 hstep
      split at hr
      · cases hr
      · rename_i s2 os2 hrun
        simp only [Option.some.injEq, Prod.mk.injEq] at hr
        obtain ⟨rfl, rfl⟩ := hr
        have h1 : Reachable v input s1 := h0.step l hstep
        refine List.Pairwise.cons (fun b hb hsay => ?_) (pairwise_settled_of_run hs hv ls s1 s2 os2 h1 hrun)
        have hc0 : s0.state = .complete := by
          rcases hsay with ⟨n, rfl⟩ | ⟨rows, rfl⟩
          · exact (step_status hstep).2.1.symm
          · exact (step_rows hstep).2.1
        have hc1 : s1.state = .complete := h0.inv.complete_stable hv hc0 hstep
        obtain ⟨_, _, hobs⟩ := run_complete hv ls s1 s2 os2 h1 hc1 hrun
        obtain ⟨l', t, t', ht, hct, hst⟩ := hobs b hb
        exact settled_of_complete hs ht hct hst

/-- **complete_seen_never_lost_trace.** The code as it is, over a whole history: in the
    observations of ANY schedule of goroutine steps, polls, views and restarts, once a poll said
    COMPLETE or a view handed out rows, EVERY later poll says "COMPLETE, |input|" and every later
    view returns all the input rows — whatever happens in between, restarts included. -/
theorem complete_seen_never_lost_trace {input : List α} {ls : List Label} {s : St α}
    {os : List (Obs α)} (h : Spool.run .direct ls (init input) = some (s, os)) :
    os.Pairwise (fun a b => SaysComplete a → Settled input b) :=
  pairwise_settled_of_run rfl rfl ls _ _ _ Reachable.init h

/-- test: the schedule of the old finding (`old_complete_seen_then_lost_on_restart` below) on the
    repaired code, with the kill at the first point where a client can see COMPLETE (one effect
    later than before: after 13 effects the job still says RUNNING): poll → "COMPLETE, 3", view →
    three rows, kill + start, poll → "COMPLETE, 3", view → three rows -/
example :
    (Spool.run .direct (sched 14 ++ [.getStatus, .stream, .restart, .getStatus, .stream])
        (init [10, 20, 30])).map (fun r => (r.2.filter (· != .silent), r.1.statusFile, r.1.file))
    = some ([.status .complete 3, .rows [.ok 10, .ok 20, .ok 30],
             .status .complete 3, .rows [.ok 10, .ok 20, .ok 30]],
            some (some (.complete, 3)), [10, 20, 30]) := by decide

/-- test: the hypotheses of `complete_seen_survives_restart` are satisfiable for every input, with
    a non-trivial continuation (the goroutine returns, a kill, a poll, a second kill) -/
example (input : List α) : ∃ s s' os, Reachable .direct input s ∧ s.state = .complete ∧
    Spool.run .direct [.spool, .restart, .getStatus, .restart] s = some (s', os) :=
  ⟨{ doneSt input with pc := .close }, _, _, (reachable_window input).spool rfl, rfl, rfl⟩

/-- test: `SaysComplete` and `Settled` on concrete answers -/
example : SaysComplete (.status .complete 3 : Obs Nat) := .inl ⟨3, rfl⟩
example : ¬ Settled [10, 20, 30] (.notFound : Obs Nat) := by simp [Settled]
example : ¬ Settled [10, 20, 30] (.status .running 3 : Obs Nat) := by simp [Settled]

/-- (6) holds for the buffered writer flushed before the status write as well -/
theorem buffered_flush_before_complete_seen_survives_restart {cap : Option Nat} {input : List α}
    {s s' : St α} {ls : List Label} {os : List (Obs α)}
    (h : Reachable (.flushBefore cap) input s) (hc : s.state = .complete)
    (hrun : Spool.run (.flushBefore cap) ls s = some (s', os)) :
    getStatus (restart s') = .status .complete input.length ∧
    stream (restart s') = .rows (input.map .ok) ∧ ∀ o ∈ os, Settled input o :=
  have := safe_complete_seen_survives_restart rfl rfl h hc hrun
  ⟨this.2.2.2.2.2.2.2.1, this.2.2.2.2.2.2.2.2.1, this.2.2.2.2.2.2.2.2.2⟩

/-! #### the window of the repaired order: status FILE says COMPLETE, job still says RUNNING

  Between `statusFile.Write` and `job.setState(COMPLETE)` the status file already says COMPLETE
  while `Status` still answers RUNNING.  Nothing reads the status file but `NewFSJobStorage`, so
  the only observers are a client (sees RUNNING with the final count a little longer, `Stream`
  still refused: harmless, and what it would have seen one effect earlier anyway) and a restart
  (finds a COMPLETE job with all its rows: `status_written_then_crash_is_complete_job`).
  No counterexample: the theorems below cover every reachable state of that window.
-/

/-- **status_written_then_crash_is_complete_job.** The code as it is: in ANY reachable state
    whose status file has been written — in particular in the window where the job still says
    RUNNING — a kill followed by a start yields a job that is listed, COMPLETE, with count
    `|input|`, and `Stream` returns every input row as a whole line. -/
theorem status_written_then_crash_is_complete_job {input : List α} {s : St α} {st : JobState}
    {n : Nat} (h : Reachable .direct input s) (hsf : s.statusFile = some (some (st, n))) :
    (restart s).present = true ∧ (restart s).state = .complete ∧
    (restart s).count = input.length ∧ (restart s).file = input ∧ (restart s).tail = .clean ∧
    getStatus (restart s) = .status .complete input.length ∧
    stream (restart s) = .rows (input.map .ok) := by
  obtain ⟨rfl, rfl, hf, ht⟩ := safe_status_file_never_ahead_of_rows rfl h hsf
  obtain ⟨r1, r2, r3, r4, r5⟩ := restart_of_written hsf
  have ha := answers_of_complete r1 r2 (r4.trans hf) (r5.trans ht) r3
  exact ⟨r1, r2, r3, r4.trans hf, r5.trans ht, ha.2, ha.1⟩

/-- **window_is_harmless.** The code as it is: EVERY reachable state in which the status file is
    written while the in-memory state is not COMPLETE is the goroutine standing between
    `statusFile.Write` and `setState(COMPLETE)`; there the job is listed and RUNNING with the
    final count, `Status` says "RUNNING, |input|", `Stream` is refused ("not complete"), every row
    is already in the results file — and a kill there yields the COMPLETE job with all rows. -/
theorem window_is_harmless {input : List α} {s : St α} {st : JobState} {n : Nat}
    (h : Reachable .direct input s) (hsf : s.statusFile = some (some (st, n)))
    (hnc : s.state ≠ .complete) :
    s.pc = .setComplete ∧ s.state = .running ∧ s.file = input ∧
    getStatus s = .status .running input.length ∧ stream s = .notComplete ∧
    getStatus (restart s) = .status .complete input.length ∧
    stream (restart s) = .rows (input.map .ok) := by
  have hpc := h.inv.written_not_complete rfl hsf hnc
  obtain ⟨hp, hst, hn, _⟩ := h.inv.at_setComplete rfl hpc
  obtain ⟨_, _, hf, _⟩ := safe_status_file_never_ahead_of_rows rfl h hsf
  have hr := status_written_then_crash_is_complete_job h hsf
  refine ⟨hpc, hst, hf, ?_, ?_, hr.2.2.2.2.2.1, hr.2.2.2.2.2.2⟩
  · simp [getStatus, hp, hst, hn]
  · simp [stream, hp, hst]

/-- The other half of the repaired order: while the status file is missing or empty the job does
    not say COMPLETE — what a kill would lose (`restart_empty_status_not_listed`) no client has
    been told is complete. -/
theorem empty_status_file_job_not_complete {input : List α} {s : St α}
    (h : Reachable .direct input s) (hsf : s.statusFile = none ∨ s.statusFile = some none) :
    s.state ≠ .complete := by
  intro hc
  have := (complete_implies_status_written rfl h hc).2.2
  rcases hsf with h' | h' <;> simp [h'] at this

/-- test: the window is reachable for every input -/
example (input : List α) : ∃ s, Reachable .direct input s ∧
    s.statusFile = some (some (.complete, input.length)) ∧ s.state ≠ .complete :=
  ⟨_, reachable_window input, rfl, by simp [windowSt]⟩

/-- test (the window, concretely): after 13 effects the status file is written; poll → "RUNNING,
    3", view → not complete; kill + start; poll → "COMPLETE, 3", view → three rows -/
example :
    (Spool.run .direct (sched 13 ++ [.getStatus, .stream, .restart, .getStatus, .stream])
        (init [10, 20, 30])).map (fun r => (r.2.filter (· != .silent), r.1.statusFile, r.1.file))
    = some ([.status .running 3, .notComplete,
             .status .complete 3, .rows [.ok 10, .ok 20, .ok 30]],
            some (some (.complete, 3)), [10, 20, 30]) := by decide

/-- test: a kill one effect earlier (status file created, still empty): the job was RUNNING, and
    is gone after the restart — no client was told COMPLETE -/
example :
    (Spool.run .direct (sched 12 ++ [.getStatus, .stream, .restart, .getStatus, .stream])
        (init [10, 20, 30])).map (fun r => (r.2.filter (· != .silent), r.1.statusFile))
    = some ([.status .running 3, .notComplete, .notFound, .notFound], some none) := by decide

/-! ### (7) FROZEN — the order before fix 3895728 (`directOld`): a job that a client saw COMPLETE
    could vanish at a restart

  THE ORDER BEFORE FIX 3895728.  `FSResults.Spool` did `os.Create(statusPath)`, then
  `job.setState(COMPLETE)`, then `json.Marshal(job)` and `statusFile.Write`.  Between the state
  change and the write, `Status` answered COMPLETE and `Stream` served every row — but the status
  file was empty.  A kill in that window left an empty status file; `NewFSJobStorage` fails to
  unmarshal it and skips the job.  After the restart the job the client saw COMPLETE was not
  found, not listed, not resumable, and its directory (results file and empty status file)
  orphaned: `Delete` looks the job up in `fs.jobs` and does nothing.  Reproduced on the real
  code (274 of 300 jobs with a large query) and repaired by fix 3895728: the status file is
  written before `setState(COMPLETE)` — variant `direct`, section (6).  The two witnesses below
  are kept as they were, about `directOld`; they are FALSE for `direct`
  (`complete_seen_survives_restart`, `complete_seen_never_lost_trace`).
-/

/-- **old_complete_seen_then_lost_on_restart** (the order before fix 3895728; concrete): poll →
    "COMPLETE, 3", view → three rows, kill + start, poll → not found, view → not found. -/
theorem old_complete_seen_then_lost_on_restart :
    (Spool.run .directOld (sched 13 ++ [.getStatus, .stream, .restart, .getStatus, .stream])
        (init [10, 20, 30])).map (fun r => (r.2.filter (· != .silent), r.1.statusFile, r.1.file))
    = some ([.status .complete 3, .rows [.ok 10, .ok 20, .ok 30], .notFound, .notFound],
            some none, [10, 20, 30]) := by decide

/-- **old_complete_seen_then_lost_on_restart_general** (the order before fix 3895728) … and for
    every input: the state right after `setState(COMPLETE)` is reachable; there `Status` says
    COMPLETE with the full count and `Stream` serves every row; a restart from there loses the job
    and leaves the orphaned files. -/
theorem old_complete_seen_then_lost_on_restart_general (input : List α) :
    ∃ s, Reachable .directOld input s ∧
      getStatus s = .status .complete input.length ∧ stream s = .rows (input.map .ok) ∧
      getStatus (restart s) = .notFound ∧ stream (restart s) = .notFound ∧
      (restart s).statusFile = some none ∧ (restart s).file = input :=
  ⟨unwrittenSt input, reachable_unwritten input,
    by simp [unwrittenSt, getStatus], by simp [unwrittenSt, stream, St.readFile],
    by simp [unwrittenSt, restart, getStatus], by simp [unwrittenSt, restart, stream],
    by simp [unwrittenSt, restart], by simp [unwrittenSt, restart]⟩

/-- The order before fix 3895728 violates the invariant of (6) and the history property, for
    every input: a reachable COMPLETE state with an empty status file. -/
theorem old_complete_without_status_file (input : List α) :
    ∃ s, Reachable .directOld input s ∧ s.state = .complete ∧ s.statusFile = some none :=
  ⟨unwrittenSt input, reachable_unwritten input, rfl, rfl⟩

/-- … and the old window closed at `statusFile.Write`: left alone, the old goroutine ended in the
    same final state as the repaired one. -/
example (input : List α) :
    (∃ s, Reachable .directOld input s ∧ s = doneSt input) ∧
    (∃ s, Reachable .direct input s ∧ s = doneSt input) :=
  ⟨⟨_, reachable_done_old input, rfl⟩, ⟨_, reachable_done input, rfl⟩⟩

/-! ### the small-step run and the big-step model agree -/

/-- **spool_function_is_goroutine_run.** `Store.spool` of Grip.Model.C11 (the function the other
    C11 theorems are about) leaves for a fresh job name exactly what the unbuffered goroutine (the
    code as it is; the order before fix 3895728 ends in the same state) leaves when it has
    returned: same lines in the results file, same state and count in memory and in the status
    file. -/
theorem spool_function_is_goroutine_run {κ : Type} (s : Store κ) (graph id : String)
    (sums : List κ) (st : TState) (lines : List JV)
    (hm : s.lookup graph id = none) (hd : s.dir graph id = none) :
    ∃ fin : St JV, Reachable .direct lines fin ∧ fin.pc = .done ∧
      ((s.spool graph id sums st lines).dir graph id).map (·.results) = some fin.file ∧
      ((s.spool graph id sums st lines).lookup graph id).map (fun j => (j.state, j.count))
        = some (fin.state, fin.count) ∧
      (((s.spool graph id sums st lines).dir graph id).bind (·.status)).map
        (fun j => (j.state, j.count)) = fin.statusFile.join := by
  obtain ⟨h1, h2⟩ := Lemmas.spool_result s graph id sums st lines hm hd
  refine ⟨doneSt lines, reachable_done lines, rfl, ?_, ?_, ?_⟩
  · rw [h2]; rfl
  · rw [h1]; rfl
  · rw [h2]; rfl

end Grip.Props.C11
