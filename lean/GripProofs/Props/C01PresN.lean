/-
  Property C01, type preservation WITH the four `*Null` moves (`outNull / inNull / outENull /
  inENull` — not among the property's documented steps, but compiled by the same switch and run by
  the same processors; model: Grip.EvalN, what the correspondence run executes for every
  traversal containing such a move).  After a `*Null` move the typing state still says
  vertex / edge, but a traveler may be a NULL ROW (`t.AddCurrent(nil)`), a mark recorded on such a
  row holds no element, and a several-mark `select` puts Go's placeholder in for it.  So the
  invariant the processors can rely on there is the null-tolerant one:

    `TravelerOkN τ t`            current element and marks: nil, or of the kind τ records;
                                 payload types: no current element, payload slot filled
    `travelerOk_okN`             `TravelerOk` (C01Pres) implies it
    `preservation_null_moves`    one statement of Grip.EvalN (any `emitNull` behaviour) preserves it
    `evalN_preservation`         whole programs: every traveler `EvalN.evalN` returns is ok for the
                                 final typing state
    `okN_present_kind`           what a processor may assume: IF the element is there it has the
                                 kind the compiler recorded (`t.IsNull()` is the only check needed)
    `null_rows_exist`            the tolerance is necessary: `V().outENull("zz")` on `gEx` is well
                                 typed (edge) and returns rows without current element, which are
                                 ok in the tolerant sense and NOT in the strict one
  Excluded statements (`nullModelled`): `aggregate` (identity in this model; C19 owns it) and the
  two Go-only statements.
-/
import GripProofs.Props.C01Pres
import GripProofs.Lemmas.C01PresN

namespace Grip.Props.C01
open Grip Grip.C01 Grip.Spec.C01 Grip.Props.C01.Lemmas

variable (numOf : String → Option Int) (g : AGraph)

/-- Traveler `t` agrees with typing state `τ`, null rows admitted. -/
def TravelerOkN (τ : TState) (t : Traveler) : Prop := NullShapedG strictTo τ.last τ.marks t

theorem travelerOk_okN {τ : TState} {t : Traveler} (h : TravelerOk τ t) : TravelerOkN τ t :=
  nullShaped_of_wellShaped h

/-- PRESERVATION, one statement of the semantics with `*Null` moves, for every behaviour `mi` of
    the adjacency channels ("found nothing"): ok input for τ, `typeStep τ s = .ok τ'` ⇒ ok output
    for τ'.  Same hypotheses as `preservation`; covers every statement but `aggregate` and the two
    Go-only ones. -/
theorem preservation_null_moves (mi : C02.NullMiss) {τ τ' : TState} {s : Stmt} {ts : List Traveler}
    (hg : EdgesHaveTo g) (hf : τ.last = .edge → keepsTo s) (henv : MarkEnvOK τ)
    (hm : nullModelled s = true) (ht : typeStep τ s = .ok τ')
    (hin : ∀ t ∈ ts, TravelerOkN τ t) :
    ∀ t' ∈ EvalN.evalStepN mi numOf g τ.last s ts, TravelerOkN τ' t' :=
  step_preserves_null (E := strictTo) mi numOf g hg (fun h => Or.inr (hf h)) henv hm ht hin

/-- PRESERVATION, whole programs of Grip.EvalN. -/
theorem evalN_preservation (mi : C02.NullMiss) (stmts : List Stmt) (τ : TState)
    (hg : EdgesHaveTo g) (hm : ∀ s ∈ stmts, nullModelled s = true) (hk : ∀ s ∈ stmts, keepsTo s)
    (ht : typeCheck stmts = .ok τ) :
    ∀ t ∈ EvalN.evalN mi numOf g stmts, TravelerOkN τ t :=
  evalFromX_preserves_null (E := strictTo) mi numOf g hg stmts {} τ 0 [Traveler.seed] markEnv_init
    (alongTyping_of_forall stmts {} (fun s hs _ => ⟨hm s hs, fun _ => Or.inr (hk s hs)⟩))
    (typeCheck_fold ht)
    (fun t h => by simp only [List.mem_singleton] at h; subst h; exact travelerOk_okN seed_ok)

/-- What a processor may assume of an ok traveler: a current element that is PRESENT has the kind
    of the static type, a mark that is present has the recorded kind; on the payload types there
    is no current element. -/
theorem okN_present_kind {τ : TState} {t : Traveler} (h : TravelerOkN τ t) :
    (τ.last = .vertex → ∀ e, t.cur = some e → IsVertexElem e) ∧
    (τ.last = .edge → ∀ e, t.cur = some e → IsEdgeElem e) ∧
    (hasCurrent τ.last = false → t.cur = none) ∧
    (τ.last.isElement = true → ∀ m e, t.getMark m = some e →
      (τ.marks.get m = .vertex → IsVertexElem e) ∧ (τ.marks.get m = .edge → IsEdgeElem e)) := by
  refine ⟨fun hl e he => ?_, fun hl e he => ?_, fun hl => kindN_payload hl h.1, fun hl m e he => ⟨fun hm => ?_, fun hm => ?_⟩⟩
  · have := h.1 e he; rw [hl] at this; obtain ⟨e', he', hk⟩ := this; cases he'; exact hk
  · have := h.1 e he; rw [hl] at this; obtain ⟨e', he', hk⟩ := this; cases he'; exact hk
  · have hc : carriesMarks τ.last = true := by
      revert hl; cases τ.last <;> simp [DataType.isElement, carriesMarks]
    have := h.2.2 hc m e he; rw [hm] at this; obtain ⟨e', he', hk⟩ := this; cases he'; exact hk
  · have hc : carriesMarks τ.last = true := by
      revert hl; cases τ.last <;> simp [DataType.isElement, carriesMarks]
    have := h.2.2 hc m e he; rw [hm] at this; obtain ⟨e', he', hk⟩ := this; cases he'; exact hk

/-! ### necessity and non-vacuity -/

/-- `V().outENull("zz")` on `gEx` (no edge is labelled `zz`): accepted with type edge; both rows
    are null rows — ok in the tolerant sense (by `evalN_preservation`), not in the strict one. -/
theorem null_rows_exist :
    typeCheck [.V [], .outENull ["zz"]] = .ok ⟨.edge, []⟩ ∧
    (EvalN.evalN C02.kvMiss (fun _ => none) gEx [.V [], .outENull ["zz"]]).map (·.cur) = [none, none] ∧
    (∀ t ∈ EvalN.evalN C02.kvMiss (fun _ => none) gEx [.V [], .outENull ["zz"]],
      TravelerOkN ⟨.edge, []⟩ t ∧ ¬ TravelerOk ⟨.edge, []⟩ t) := by
  have hev : (EvalN.evalN C02.kvMiss (fun _ => none) gEx [.V [], .outENull ["zz"]]).map (·.cur)
      = [none, none] := by decide
  refine ⟨rfl, hev, fun t ht => ⟨?_, fun hs => ?_⟩⟩
  · exact evalN_preservation (fun _ => none) gEx C02.kvMiss _ _ gEx_edgesHaveTo (by decide)
      (fun s hs => by
        simp only [List.mem_cons, List.not_mem_nil, or_false] at hs
        rcases hs with rfl | rfl <;> trivial) rfl t ht
  · obtain ⟨e, he, _⟩ := hs.1
    have : t.cur ∈ [none, none] := by rw [← hev]; exact List.mem_map_of_mem ht
    rw [he] at this
    simp at this

/-- test of `preservation_null_moves` on a mixed stream: `outNull` from the two vertices of `gEx`
    with label `k` — vertex `a` has `k`-edges (plain results), for `b` the only `k`-edge dangles:
    kvgraph found an edge, so no null row either (see `outNull_dangling_drops` in C01N). -/
example : ∀ t' ∈ EvalN.evalStepN C02.kvMiss numOf gEx .vertex (.outNull ["k"])
      [tVertexA, { cur := some { gid := "b", label := "Q" } }], TravelerOkN ⟨.vertex, []⟩ t' :=
  preservation_null_moves numOf gEx C02.kvMiss (τ := ⟨.vertex, []⟩) (τ' := ⟨.vertex, []⟩)
    gEx_edgesHaveTo (fun h => by cases h) (fun _ _ => rfl) rfl rfl
    (fun t ht => by
      simp only [List.mem_cons, List.not_mem_nil, or_false] at ht
      rcases ht with rfl | rfl
      · exact travelerOk_okN tVertexA_shaped
      · exact travelerOk_okN ⟨⟨_, rfl, rfl, rfl⟩, trivial, fun _ _ => rfl⟩)

end Grip.Props.C01
