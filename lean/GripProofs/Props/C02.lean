/-
  Property C02 — query planning (index rewrite, load elision) never changes answers.
  Property theorems only; lemmas are in GripProofs/Lemmas/C02*.lean.
  Everything is stated for an arbitrary abstract graph with unique ids (`AGraph.WellFormed`, what
  C03's invariant provides for a stored graph), arbitrary statement lists and — for elision — an
  arbitrary assignment `hon : Nat → Bool` of "the backend honours the do-not-load hint at this
  statement" (so: every backend between "ignores the hint" and "honours it everywhere").
-/
import Grip.Model.Eval
import Grip.Model.C02
import Grip.Spec.C02
import GripProofs.Lemmas.C02Analysis
import GripProofs.Lemmas.C02Opt
import GripProofs.Lemmas.C02Plan
import GripGen.InspectTables

namespace Grip.Props.C02
open Grip Grip.C02 Grip.C08 Grip.Spec.C02 Grip.Props.C02.Lemmas

variable (numOf : String → Option Int) (g : AGraph)

/-! ### the analysis tables are the Go source's -/

/-- The case lists the MODEL's analysis is written over (`startsStep`, `outArm`, `hasFieldRefs`)
    are the ones regenerated from engine/inspect/inspect.go on this run, and the shape facts of
    `IndexStartOptimize`/`extractHasVals`/`StepLoadData` the MODEL relies on all hold.  A changed
    case list, arm body or guard changes `GripGen.InspectTables` and breaks this theorem. -/
theorem inspect_tables_match_source :
    (Kind.all.all fun k => startsStep k == GripGen.InspectTables.stepStarters.contains k) = true
    ∧ (Kind.all.all fun k => k == .unknown || GripGen.InspectTables.stepStarters.contains k
        || GripGen.InspectTables.stepKeepers.contains k) = true
    ∧ (Kind.all.all fun k => armName (outArm k) ==
        ((GripGen.InspectTables.outArms.find? (·.1 == k)).map (·.2)).getD "none") = true
    ∧ (Kind.all.all fun k => hasFieldRefs k ==
        (GripGen.InspectTables.fieldRefSources.map (·.1)).contains k) = true
    ∧ (GripGen.InspectTables.optimizerFacts.all (·.2)) = true := by
  refine ⟨by decide, by decide, by decide, by decide, by decide⟩

/-! ### the and-flattening recursion terminates (the definition is accepted by well-founded
    recursion on the total size of the has-expressions) and is the Go recursion -/

theorem flatten_decreases (pre : List Stmt) (es : List HasE) (post : List Stmt) :
    pipeW (.V [] :: (pre ++ (es.map .has ++ post))) < pipeW (.V [] :: (pre ++ .has (.and es) :: post)) := by
  simp only [pipeW, pipeW_append, hasSizeL_map_le, stmtW, hasSize]
  omega

/-- Only a pipeline that starts with a bare `V()` is rewritten. -/
theorem only_bare_V_rewritten (stmts : List Stmt) (h : ∀ tail, stmts ≠ .V [] :: tail) :
    indexStartOptimize stmts = some stmts := by
  unfold indexStartOptimize
  split
  · rename_i tail; exact absurd rfl (h tail)
  · rfl

/-! ### equivalent spellings of a label / id filter -/

/-- `hasLabel(x)`, `has(eq(k,x))`, `has(within(k,[x]))` and their `and()`-wrapped forms keep
    exactly the same travelers, for every key `k` that addresses the label of the current element
    (`GetNamespace(k)` current and `GetJSONPath(k) = "$.label"`: `_label`, `$._label`) — on rows
    that HAVE a current element, or for a label other than "" (a row without current element, which
    only the `*Null` moves produce, reads as label "" under `has` but is dropped by `hasLabel`
    whatever the labels are: `spellings_differ_on_null_row`). -/
theorem spellings_agree_label (k x : String) (hc : keyIsCurrent k = true)
    (hp : Path.jsonPathOf k = ["label"]) (from_ : DataType) (ts : List Traveler)
    (hrows : x = "" → ∀ t ∈ ts, t.cur.isSome = true) :
    evalStepT numOf g from_ (.has (.cond k .eq (.str x))) ts = evalStepT numOf g from_ (.hasLabel [x]) ts
    ∧ evalStepT numOf g from_ (.has (.cond k .within (.arr [.str x]))) ts = evalStepT numOf g from_ (.hasLabel [x]) ts
    ∧ evalStepT numOf g from_ (.has (.and [.cond k .eq (.str x)])) ts = evalStepT numOf g from_ (.hasLabel [x]) ts
    ∧ evalStepT numOf g from_ (.has (.and [.and [.cond k .within (.arr [.str x])]])) ts
        = evalStepT numOf g from_ (.hasLabel [x]) ts := by
  have hv := fun t => value_label t k hc hp
  have hsome : ∀ t ∈ ts, t.cur.isSome = true ∨ curLabel t ≠ x := by
    intro t ht
    cases hcur : t.cur with
    | some c => exact Or.inl rfl
    | none =>
      by_cases hx : x = ""
      · exact Or.inl (by rw [← hcur]; exact hrows hx t ht)
      · exact Or.inr (by simp [curLabel, hcur]; exact fun h => hx h)
  refine ⟨?_, ?_, ?_, ?_⟩ <;>
    (simp only [evalStepT]; apply List.filter_congr; intro t ht
     rcases hsome t ht with h1 | h1
     · simp [keepHas, evalHas, evalHasList, allTrue, keepHasLabel, matchesCond, foundIn, hv t, str_beq, h1]
       try (by_cases h : curLabel t = x <;> simp [h])
     · simp [keepHas, evalHas, evalHasList, allTrue, keepHasLabel, matchesCond, foundIn, hv t, str_beq, h1])

/-- The two spellings differ exactly on a row without a current element and the label "":
    `has(eq(_label, ""))` keeps it, `hasLabel([""])` drops it (Go: `HasLabel.Process` tests
    `!t.IsNull()` first; `has` evaluates the condition on the empty document). -/
theorem spellings_differ_on_null_row (k : String) (hc : keyIsCurrent k = true)
    (hp : Path.jsonPathOf k = ["label"]) (from_ : DataType) (t : Traveler) (hcur : t.cur = none) :
    evalStepT numOf g from_ (.has (.cond k .eq (.str ""))) [t] = [t]
    ∧ evalStepT numOf g from_ (.hasLabel [""]) [t] = [] := by
  have hv := value_label t k hc hp
  constructor
  · simp [evalStepT, keepHas, evalHas, matchesCond, hv, str_beq, curLabel, hcur]
  · simp [evalStepT, keepHasLabel, hcur]

/-- The same for id filters (`hasId(x)`, `has(eq(_gid,x))`, `has(within(_gid,[x]))`, wrapped). -/
theorem spellings_agree_id (k x : String) (hc : keyIsCurrent k = true)
    (hp : Path.jsonPathOf k = ["gid"]) (from_ : DataType) (ts : List Traveler) :
    evalStepT numOf g from_ (.has (.cond k .eq (.str x))) ts = evalStepT numOf g from_ (.hasId [x]) ts
    ∧ evalStepT numOf g from_ (.has (.cond k .within (.arr [.str x]))) ts = evalStepT numOf g from_ (.hasId [x]) ts
    ∧ evalStepT numOf g from_ (.has (.and [.cond k .eq (.str x)])) ts = evalStepT numOf g from_ (.hasId [x]) ts := by
  have hv := fun t => value_gid t k hc hp
  refine ⟨?_, ?_, ?_⟩ <;>
    (simp only [evalStepT]; congr 1; funext t
     simp [keepHas, evalHas, evalHasList, allTrue, keepHasId, matchesCond, foundIn, hv t, str_beq]
     try (by_cases h : curId t = x <;> simp [h]))

/-- … and all spellings are rewritten to the same plan. -/
theorem spellings_same_plan (k x : String) (hc : keyIsCurrent k = true)
    (hp : Path.jsonPathOf k = ["label"]) :
    indexStartOptimize [.V [], .hasLabel [x]] = some [.lookupVertsIndex [x]]
    ∧ indexStartOptimize [.V [], .has (.cond k .eq (.str x))] = some [.lookupVertsIndex [x]]
    ∧ indexStartOptimize [.V [], .has (.cond k .within (.arr [.str x]))] = some [.lookupVertsIndex [x]]
    ∧ indexStartOptimize [.V [], .has (.and [.cond k .eq (.str x)])] = some [.lookupVertsIndex [x]] := by
  have c1 : ∀ c a, classify (.has (.cond k c a)) = .label := by
    intro c a; simp [classify, hc, hp]
  refine ⟨?_, ?_, ?_, ?_⟩
  · rw [opt_noAnd _ (by simp [splitAtAnd, classify])]
    simp [rewriteTail, rewriteLabel, firstIdx, classify, Lead.isId, Lead.isLabel, labelVals, dedup]
  · rw [opt_noAnd _ (by simp [splitAtAnd, c1])]
    simp [rewriteTail, rewriteLabel, firstIdx, c1, Lead.isId, Lead.isLabel, labelVals, dedup,
      extractHasVals]
  · rw [opt_noAnd _ (by simp [splitAtAnd, c1])]
    simp [rewriteTail, rewriteLabel, firstIdx, c1, Lead.isId, Lead.isLabel, labelVals, dedup,
      extractHasVals, strsOf]
  · rw [opt_and _ [] [.cond k .eq (.str x)] [] (by simp [splitAtAnd, classify])]
    simp only [List.nil_append, List.map_cons, List.map_nil, List.append_nil]
    rw [opt_noAnd _ (by simp [splitAtAnd, c1])]
    simp [rewriteTail, rewriteLabel, firstIdx, c1, Lead.isId, Lead.isLabel, labelVals, dedup,
      extractHasVals]

/-! ### the rewritten lookups return the rows the filters keep -/

/-- An id filter on the full scan keeps, up to order, what the id lookup over the de-duplicated
    list returns (so duplicates in `hasId("a","a")` cannot duplicate rows). -/
theorem id_lookup_perm (hg : g.WellFormed) (ids : List String) (hne : (dedup ids).isEmpty = false)
    (t : Traveler) :
    ((stepV g [] t).filter (keepHasId ids)).Perm (stepV g (dedup ids) t) :=
  stepV_filter_perm g hg ids hne t

/-- A label filter on the full scan keeps, up to order, what `LookupVertsIndex` over the
    de-duplicated labels returns (label-index scan, then vertex fetch). -/
theorem label_lookup_perm (hg : g.WellFormed) (ls : List String) (t : Traveler) :
    ((stepV g [] t).filter (keepHasLabel ls)).Perm (stepIndex g (dedup ls) t) :=
  stepIndex_filter_perm g hg ls t

/-- `extractHasVals` reads a condition correctly: the filter `has(cond)` on a key addressing the id
    keeps exactly the travelers whose id is among the extracted values. -/
theorem extracted_ids_sound (k : String) (c : Cond) (a : JV) (vals : List String)
    (hc : keyIsCurrent k = true) (hp : Path.jsonPathOf k = ["gid"])
    (h : extractHasVals (.cond k c a) = some vals) (hne : vals ≠ []) (t : Traveler) :
    keepHas numOf (.cond k c a) t = keepHasId vals t := by
  simp only [keepHas, evalHas, keepHasId, value_gid t k hc hp]
  exact extract_sound numOf k c a vals h hne (curId t)

theorem extracted_labels_sound (k : String) (c : Cond) (a : JV) (vals : List String)
    (hc : keyIsCurrent k = true) (hp : Path.jsonPathOf k = ["label"])
    (h : extractHasVals (.cond k c a) = some vals) (hne : vals ≠ []) (t : Traveler)
    (hcur : t.cur.isSome = true) :
    keepHas numOf (.cond k c a) t = keepHasLabel vals t := by
  simp only [keepHas, evalHas, keepHasLabel, value_label t k hc hp, hcur, Bool.true_and]
  exact extract_sound numOf k c a vals h hne (curLabel t)

/-! ### count() -/

/-- `count()` appended to a well-typed traversal returns one row: the number of rows the
    traversal returns without it. -/
theorem count_eq_length (stmts : List Stmt) (rows : List Row) (hne : stmts ≠ [])
    (h : run numOf g stmts = .ok rows) :
    run numOf g (stmts ++ [.count]) = .ok [.count rows.length] :=
  run_count numOf g stmts rows hne h

/-! ### the analysis covers every read -/

/-- Load elision, analysis half: in the table `PipelineStepOutputs` computes, every step whose
    element data some statement reads — through a field reference to the current element, through
    a field reference to a mark set in that step, through `select`, or because the statement
    copies the current element (`fields`, `unwind`, `has`) — is marked "load". -/
theorem analysis_covers_reads (stmts : List Stmt) :
    ∀ sk ∈ stmts.zip (stepIds stmts),
      Good (stepLoadData (stepOutputs stmts)) (markSteps (stmts.zip (stepIds stmts))) sk.1 sk.2 := by
  intro sk h
  exact (passAll_good _ _ sk h).mono (fun j hj => sn_imp _ j hj)

/-! ### non-vacuity -/

example : indexStartOptimize [.V [], .hasId ["a", "a"]] = some [.V ["a"]] := by
  rw [opt_noAnd _ (by simp [splitAtAnd, classify])]
  simp [classify, rewriteTail, firstIdx, Lead.isId, idVals, dedup]

example : ∃ g : AGraph, g.WellFormed := ⟨{ verts := [{ gid := "a" }], edges := [] }, by simp [AGraph.WellFormed]⟩

end Grip.Props.C02
