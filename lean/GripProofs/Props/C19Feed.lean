/-
  C19, operational part — "each aggregation's result is independent of the others requested in
  the same step" when one of the others FAILS.  Property theorems only.

  MODEL = Grip.C19.Feed (small-step fan-out of engine/core/processors.go `aggregate.Process`:
  a feeder, k bounded channels, k workers, `bad j` = the rows on which worker j meets an error).
  Three variants (Grip.C19.Feed.asCoded / earlyReturn / ctxWatch):

    (1) asCoded      drainAfterError = true,  feederWatchesCtx = false  — the code as it is;
    (2) earlyReturn  drainAfterError = false, feederWatchesCtx = false  — a worker returns at its
                     first error, the feeder still does plain blocking sends;
    (3) ctxWatch     drainAfterError = false, feederWatchesCtx = true   — … and the feeder selects
                     on `ctx.Done()` (the errgroup's context): the plausible "hardening".

  Every statement is for all k, all capacities ≥ 1, all inputs, all bad-predicates and all
  interleavings (`Reach (Step cfg) (init input) s` = s is reachable by some schedule; a maximal
  execution is one that ends in a `Stuck` state; all executions are finite, `bound`).

    * `feed_all_rows_as_coded` (1): every maximal execution ends with all channels closed and
      empty and every worker has consumed exactly the input, in order, whatever is bad for whom;
      `aggs_operationally_independent`, `aggs_operational_functional` (link to `aggs_independent`);
    * `early_return_blocks_as_coded_feeder` (2): a bad row followed by more than `cap` rows: the
      feeder NEVER returns, every maximal execution ends in a deadlock — the comment in the Go code
      ("If we return error before fully emptying channel, upstream processes will lock");
    * `ctx_watch_terminates`, `ctx_watch_truncates_others` (3): no deadlock, but a worker that never
      fails ends with a prefix of the input, of ANY length between `pre.length (+1)` and
      `pre.length + 1 + cap (+1)` — exactly those;
    * `count_correct_iff` (4): "a count that runs beside a failing aggregation returns the number of
      input rows, in every execution" holds iff `drainAfterError = true`.
-/
import GripProofs.Lemmas.C19FeedSched
import GripProofs.Props.C19

namespace Grip.Props.C19
open Grip.C07 (Reach)
open Grip.C19.Feed Grip.Props.C07.Lemmas Grip.Props.C19.FeedLemmas

/-! ## (1) the code as it is -/

/-- For every variant in which a failing worker keeps draining its channel (the feeder may or may
    not watch `ctx`: it can never see the cancellation before it has finished):
    (a) no execution has more than `bound` steps; (b) from every reachable state a state in which
    nothing can move is reachable; (c) in every such state the channels are closed and EMPTY, the
    feeder has not dropped anything, every worker has consumed exactly the input, in order, has
    not returned early, and has recorded an error iff some input row is bad for it. -/
theorem feed_all_rows_drain {α : Type} (cfg : Cfg α) (hd : cfg.drainAfterError = true)
    (hcap : 1 ≤ cfg.cap) (input : List α) :
    (∀ (r : Nat → St α) (n : Nat), r 0 = init input → (∀ i, i < n → Step cfg (r i) (r (i + 1))) →
        n ≤ bound cfg.k input.length) ∧
    (∀ s, Reach (Step cfg) (init input) s → ∃ t, Reach (Step cfg) s t ∧ Stuck cfg t) ∧
    (∀ s, Reach (Step cfg) (init input) s → Stuck cfg s →
        s.closed = true ∧ s.abort = false ∧
        ∀ j, j < cfg.k → (s.ws j).buf = [] ∧ (s.ws j).seen = input ∧ (s.ws j).stopped = false ∧
          (s.ws j).failed = input.any (cfg.bad j)) := by
  refine ⟨fun r n h0 hr => run_le_bound cfg input r n h0 hr, fun s _ => exists_stuck cfg s, ?_⟩
  intro s hr hs
  have hi := inv_reach hr
  have hlive : ∀ j, j < cfg.k → (s.ws j).stopped = false := by
    intro j hj
    cases hst : (s.ws j).stopped with
    | false => rfl
    | true => have := (hi.stop j hj hst).2; rw [hd] at this; cases this
  have hab : s.abort = false := by
    cases ha : s.abort with
    | false => rfl
    | true =>
      obtain ⟨j, hj, _, hst⟩ := (ctxDone_iff cfg s).1 (hi.abrt ha).2
      rw [hlive j hj] at hst; cases hst
  have hcl : s.closed = true := by
    rcases stuck_shape hcap hs with h | ⟨_, t, i, _, hik, hst, _⟩
    · exact h
    · rw [hlive i hik] at hst; cases hst
  refine ⟨hcl, hab, ?_⟩
  intro j hj
  have hb := stuck_bufs hs j hj (hlive j hj)
  have hseen : (s.ws j).seen = input := by
    have := hi.rows j hj
    rcases hi.fin hcl with ha | ⟨hh, ht⟩
    · rw [hab] at ha; cases ha
    · rw [hb, hh, ht] at this
      simpa [pend] using this
  refine ⟨hb, hseen, hlive j hj, ?_⟩
  rw [Bool.eq_iff_iff, List.any_eq_true]
  constructor
  · intro hf
    obtain ⟨x, hx, hbx⟩ := hi.fail j hj hf
    exact ⟨x, hseen ▸ hx, hbx⟩
  · rintro ⟨x, hx, hbx⟩
    exact hi.mark j hj x (hseen ▸ hx) hbx

/-- `feed_all_rows_as_coded` — (1): drainAfterError = true, feederWatchesCtx = false. -/
theorem feed_all_rows_as_coded {α : Type} (k cap : Nat) (hcap : 1 ≤ cap) (bad : Nat → α → Bool)
    (input : List α) :
    (∀ (r : Nat → St α) (n : Nat), r 0 = init input →
        (∀ i, i < n → Step (asCoded k cap bad) (r i) (r (i + 1))) → n ≤ bound k input.length) ∧
    (∀ s, Reach (Step (asCoded k cap bad)) (init input) s →
        ∃ t, Reach (Step (asCoded k cap bad)) s t ∧ Stuck (asCoded k cap bad) t) ∧
    (∀ s, Reach (Step (asCoded k cap bad)) (init input) s → Stuck (asCoded k cap bad) s →
        s.closed = true ∧ s.abort = false ∧
        ∀ j, j < k → (s.ws j).buf = [] ∧ (s.ws j).seen = input ∧ (s.ws j).stopped = false ∧
          (s.ws j).failed = input.any (bad j)) :=
  feed_all_rows_drain (asCoded k cap bad) rfl hcap input

/-- … at the capacity the code uses (GripGen.BuffersC07.aggBuffer = 1000, regenerated on every run) -/
theorem feed_all_rows_code_capacity {α : Type} (k : Nat) (bad : Nat → α → Bool) (input : List α)
    (s : St α) (hr : Reach (Step (asCoded k codeCap bad)) (init input) s)
    (hs : Stuck (asCoded k codeCap bad) s) (j : Nat) (hj : j < k) :
    s.closed = true ∧ (s.ws j).buf = [] ∧ (s.ws j).seen = input := by
  obtain ⟨hc, _, h⟩ := (feed_all_rows_as_coded k codeCap (by decide) bad input).2.2 s hr hs
  exact ⟨hc, (h j hj).1, (h j hj).2.1⟩

/-- Each aggregation's result is a function of the input alone: two steps with different numbers of
    aggregations, different capacities and different failing rows, run under any two schedules to
    the end, leave worker `j` of the one and worker `j'` of the other with the same rows. -/
theorem aggs_operationally_independent {α : Type} (k k' cap cap' : Nat) (hcap : 1 ≤ cap) (hcap' : 1 ≤ cap')
    (bad bad' : Nat → α → Bool) (input : List α) (s s' : St α)
    (hr : Reach (Step (asCoded k cap bad)) (init input) s) (hs : Stuck (asCoded k cap bad) s)
    (hr' : Reach (Step (asCoded k' cap' bad')) (init input) s') (hs' : Stuck (asCoded k' cap' bad') s')
    (j j' : Nat) (hj : j < k) (hj' : j' < k') : (s.ws j).seen = (s'.ws j').seen := by
  rw [(((feed_all_rows_as_coded k cap hcap bad input).2.2 s hr hs).2.2 j hj).2.1,
    (((feed_all_rows_as_coded k' cap' hcap' bad' input).2.2 s' hr' hs').2.2 j' hj').2.1]

/-- Link with the functional model (Grip.C19 / `aggs_independent`): at the end of any execution of
    the fan-out as coded, what the finaliser of the j-th aggregation makes of the rows its worker
    has consumed is what the functional model lists under that aggregation's name — whatever rows
    are bad for whichever aggregation. -/
theorem aggs_operational_functional (Q : List Int → Int → Int) (numOf : String → Option Int)
    (aggs : List Grip.C19.Named) (hn : (aggs.map (·.name)).Nodup) (cap : Nat) (hcap : 1 ≤ cap)
    (bad : Nat → Grip.Elem → Bool) (ts : List Grip.Elem) (s : St Grip.Elem)
    (hr : Reach (Step (asCoded aggs.length cap bad)) (init ts) s)
    (hs : Stuck (asCoded aggs.length cap bad) s) (j : Nat) (hj : j < aggs.length) :
    Grip.C19.runOne Q numOf aggs[j] (s.ws j).seen
      = Grip.C19.rowsOf aggs[j].name (Grip.C19.run Q numOf aggs ts) := by
  rw [(((feed_all_rows_as_coded aggs.length cap hcap bad ts).2.2 s hr hs).2.2 j hj).2.1]
  exact (aggs_independent Q numOf aggs hn ts aggs[j] (List.getElem_mem hj)).symm

/-! ### test instances for (1) -/

/-- worker 0 fails on row 9 -/
def badT : Nat → Nat → Bool := fun j x => j == 0 && x == 9

def rowT : List Move := [.take, .send, .work 0, .send, .work 1, .done]

/-- TEST (non-vacuity of (1)): a complete execution of the code as it is, two workers, capacity 1,
    worker 0 meets its error on the first row: both end with the whole input, worker 0 has recorded
    the error, nothing can move. -/
example : checkRun (asCoded 2 1 badT) (init [9, 1, 2]) (rowT ++ rowT ++ rowT ++ [.close])
    (fun s => stuckB (asCoded 2 1 badT) s && s.closed && (s.ws 0).seen == [9, 1, 2]
      && (s.ws 1).seen == [9, 1, 2] && (s.ws 0).failed && !(s.ws 1).failed) = true := by decide

/-! ## (2) a worker returns early, the feeder still does blocking sends -/

/-- `early_return_blocks_as_coded_feeder`.  Worker `i` returns at a bad row `b`, and more than
    `cap` rows follow `b` in the input (nothing is assumed about the other workers or about the rows
    before `b`).  Then, in the variant with early return and plain sends:
    (a) the feeder never returns in any execution — the channels are never closed, `g.Wait()` never
        returns, `out` is never closed;
    (b) all executions are finite, so (c) a deadlock is reachable, and (d) EVERY maximal execution
        ends in a deadlock, in which (e) the feeder sits in a send to the FULL channel of a worker
        that has returned;
    (f) no channel ever receives more than `pre.length + 1 + cap` rows (one more for the channels
        before `i`); in particular (g) a worker behind `i` never sees the whole input. -/
theorem early_return_blocks_as_coded_feeder {α : Type} (k cap : Nat) (hcap : 1 ≤ cap)
    (bad : Nat → α → Bool) (i : Nat) (hi : i < k) (pre post : List α) (b : α)
    (hb : bad i b = true) (hlen : cap < post.length) :
    (∀ s, Reach (Step (earlyReturn k cap bad)) (init (pre ++ b :: post)) s → s.closed = false) ∧
    (∀ (r : Nat → St α) (n : Nat), r 0 = init (pre ++ b :: post) →
        (∀ m, m < n → Step (earlyReturn k cap bad) (r m) (r (m + 1))) →
        n ≤ bound k (pre ++ b :: post).length) ∧
    (∃ s, Reach (Step (earlyReturn k cap bad)) (init (pre ++ b :: post)) s ∧ Deadlock (earlyReturn k cap bad) s) ∧
    (∀ s, Reach (Step (earlyReturn k cap bad)) (init (pre ++ b :: post)) s → Stuck (earlyReturn k cap bad) s →
        Deadlock (earlyReturn k cap bad) s ∧
        ∃ t i', s.hold = some (t, i') ∧ i' < k ∧ (s.ws i').stopped = true ∧ (s.ws i').buf.length = cap) ∧
    (∀ s, Reach (Step (earlyReturn k cap bad)) (init (pre ++ b :: post)) s → ∀ j, j < k →
        (s.ws j).seen.length + (s.ws j).buf.length ≤ pre.length + 1 + cap + (if j < i then 1 else 0)) ∧
    (∀ s, Reach (Step (earlyReturn k cap bad)) (init (pre ++ b :: post)) s → ∀ j, j < k → i ≤ j →
        (s.ws j).seen.length < (pre ++ b :: post).length) := by
  have hupper : ∀ s, Reach (Step (earlyReturn k cap bad)) (init (pre ++ b :: post)) s → ∀ j, j < k →
      (s.ws j).seen.length + (s.ws j).buf.length ≤ pre.length + 1 + cap + (if j < i then 1 else 0) :=
    fun s hr j hj => sent_upper (cfg := earlyReturn k cap bad) (inv_reach hr) rfl hi hb j hj
  have hopen : ∀ s, Reach (Step (earlyReturn k cap bad)) (init (pre ++ b :: post)) s → s.closed = false := by
    intro s hr
    have hinv := inv_reach hr
    cases hc : s.closed with
    | false => rfl
    | true =>
      rcases hinv.fin hc with ha | ⟨hh, ht⟩
      · have := (hinv.abrt ha).1
        cases this
      · have h1 := sent_length hinv i hi
        have h2 := hupper s hr i hi
        rw [hh, ht] at h1
        simp only [pend, List.length_nil, List.length_append, List.length_cons, Nat.lt_irrefl, if_false] at h1 h2
        omega
  have hstuck : ∀ s, Reach (Step (earlyReturn k cap bad)) (init (pre ++ b :: post)) s →
      Stuck (earlyReturn k cap bad) s → Deadlock (earlyReturn k cap bad) s ∧
        ∃ t i', s.hold = some (t, i') ∧ i' < k ∧ (s.ws i').stopped = true ∧ (s.ws i').buf.length = cap := by
    intro s hr hs
    refine ⟨⟨hs, hopen s hr⟩, ?_⟩
    rcases stuck_shape (cfg := earlyReturn k cap bad) hcap hs with h | ⟨_, t, i', hh, hik, hst, hfull, _⟩
    · rw [hopen s hr] at h; cases h
    · exact ⟨t, i', hh, hik, hst, Nat.le_antisymm ((inv_reach hr).room i' hik) hfull⟩
  refine ⟨hopen, fun r n h0 hr => run_le_bound _ _ r n h0 hr, ?_, hstuck, hupper, ?_⟩
  · obtain ⟨t, ht, hst⟩ := exists_stuck (earlyReturn k cap bad) (init (pre ++ b :: post))
    exact ⟨t, ht, (hstuck t ht hst).1⟩
  · intro s hr j hj hij
    have := hupper s hr j hj
    have hji : ¬ j < i := by omega
    simp only [hji, if_false, List.length_append, List.length_cons] at this ⊢
    omega

/-- CONCRETE WITNESS for (2), by evaluation: two workers, capacity 1, worker 0 returns at row 9,
    two more rows follow.  After this schedule nothing can move, the feeder has not returned, it
    holds row 2 in front of the full channel 0, and worker 1 (which never fails) has seen 2 of the 3
    rows and waits for ever. -/
def schedDeadlock : List Move :=
  [.take, .send, .work 0, .send, .work 1, .done, .take, .send, .send, .work 1, .done, .take]

theorem early_return_deadlock_witness :
    ∃ s, Reach (Step (earlyReturn 2 1 badT)) (init [9, 1, 2]) s ∧ Deadlock (earlyReturn 2 1 badT) s ∧
      s.hold = some (2, 0) ∧ (s.ws 0).stopped = true ∧ (s.ws 0).buf = [1] ∧
      (s.ws 1).seen = [9, 1] ∧ (s.ws 1).stopped = false := by
  have h : checkRun (earlyReturn 2 1 badT) (init [9, 1, 2]) schedDeadlock
      (fun s => stuckB (earlyReturn 2 1 badT) s && !s.closed && s.hold == some (2, 0)
        && (s.ws 0).stopped && (s.ws 0).buf == [1] && (s.ws 1).seen == [9, 1] && !(s.ws 1).stopped) = true := by
    decide
  obtain ⟨s, hr, hp⟩ := checkRun_witness h
  simp only [Bool.and_eq_true, Bool.not_eq_true', beq_iff_eq] at hp
  obtain ⟨⟨⟨⟨⟨⟨h1, h2⟩, h3⟩, h4⟩, h5⟩, h6⟩, h7⟩ := hp
  exact ⟨s, hr, ⟨stuckB_sound h1, h2⟩, h3, h4, h5, h6, h7⟩

/-- TEST: the hypotheses of (2) are satisfiable (the instance of the witness above) and the
    general theorem applies to it. -/
example : ∃ s, Reach (Step (earlyReturn 2 1 badT)) (init ([] ++ 9 :: [1, 2])) s ∧ Deadlock (earlyReturn 2 1 badT) s :=
  (early_return_blocks_as_coded_feeder 2 1 (by decide) badT 0 (by decide) [] [1, 2] 9 (by decide) (by decide)).2.2.1

/-! ## (3) the regression: early return, and the feeder selects on `ctx.Done()` -/

/-- No deadlock: all executions are finite and every maximal one ends with the channels closed and
    every worker that is still reading at the end of its channel.  But all that is known about what
    a worker has consumed is that it is a prefix of the input. -/
theorem ctx_watch_terminates {α : Type} (k cap : Nat) (hcap : 1 ≤ cap) (bad : Nat → α → Bool)
    (input : List α) :
    (∀ (r : Nat → St α) (n : Nat), r 0 = init input →
        (∀ m, m < n → Step (ctxWatch k cap bad) (r m) (r (m + 1))) → n ≤ bound k input.length) ∧
    (∀ s, Reach (Step (ctxWatch k cap bad)) (init input) s →
        ∃ t, Reach (Step (ctxWatch k cap bad)) s t ∧ Stuck (ctxWatch k cap bad) t) ∧
    (∀ s, Reach (Step (ctxWatch k cap bad)) (init input) s → Stuck (ctxWatch k cap bad) s →
        Final (ctxWatch k cap bad) s ∧ ∀ j, j < k → ∃ rest, (s.ws j).seen ++ rest = input) := by
  refine ⟨fun r n h0 hr => run_le_bound _ _ r n h0 hr, fun s _ => exists_stuck _ s, ?_⟩
  intro s hr hs
  have hinv := inv_reach hr
  refine ⟨⟨?_, fun j hj hst => stuck_bufs hs j hj hst⟩, ?_⟩
  · rcases stuck_shape (cfg := ctxWatch k cap bad) hcap hs with h | ⟨_, t, i, _, hik, hst, _, hno⟩
    · exact h
    · exact absurd ⟨rfl, (ctxDone_iff _ s).2 ⟨i, hik, (hinv.stop i hik hst).1, hst⟩⟩ hno
  · intro j hj
    exact ⟨_, by have := hinv.rows j hj; rw [List.append_assoc, List.append_assoc] at this; exact this⟩

/-- the two building blocks of the "there is an execution" half -/
theorem exists_abort_between_rows {α : Type} {cfg : Cfg α} {i : Nat} {pre post : List α} {b : α}
    (H : OneFails cfg i pre b post) (hw : cfg.feederWatchesCtx = true) (hcap : 1 ≤ cfg.cap) (hk : 0 < cfg.k)
    (m : Nat) (h1 : pre.length + 1 ≤ m) (h2 : m < (pre ++ b :: post).length) (h3 : m ≤ pre.length + 1 + cfg.cap) :
    ∃ s, Reach (Step cfg) (init (pre ++ b :: post)) s ∧ Stuck cfg s ∧
      ∀ j, j < cfg.k → j ≠ i → (s.ws j).seen = (pre ++ b :: post).take m := by
  obtain ⟨t, rest, e, _⟩ := split_at (pre ++ b :: post) m h2
  have hl : ((pre ++ b :: post).take m).length = m := by
    rw [List.length_take]; omega
  obtain ⟨s, hr, hs, _, hws⟩ := H.exists_abort_at hw hcap (dn := (pre ++ b :: post).take m) (t := t)
    (rest := rest) e.symm (h := 0) hk (by simp only [Nat.not_lt_zero, if_false]; omega)
    (by simp only [Nat.not_lt_zero, if_false]; omega)
  refine ⟨s, hr, hs, fun j hj hji => ?_⟩
  have := (hws j hj hji).1
  simpa using this

/-! ### (3), the characterisation -/

/-- `ctx_watch_truncates_others`.  Scenario `OneFails`: worker `i` meets its first bad row `b`
    after `pre`, no input row is bad for any other worker.  Let `j ≠ i` be another worker (say a
    `count`), `e = 1` if `j < i` (the feeder serves channel j before channel i) and `e = 0`
    otherwise.  In the variant where the feeder watches `ctx`:
    (a) every maximal execution ends with the channels closed and worker `j` at the end of its
        channel, not failed, having consumed exactly the first `m` rows of the input for some
        `pre.length + e ≤ m ≤ min input.length (pre.length + 1 + cap + e)`
        (what the feeder had sent it before it noticed the failure);
    (b) conversely EVERY such `m` is the outcome of some execution.
    Since `pre.length < input.length`, a worker behind the failing one can always be left with a
    strict prefix (`ctx_watch_strict_prefix`). -/
theorem ctx_watch_truncates_others {α : Type} (k cap : Nat) (hcap : 1 ≤ cap) (bad : Nat → α → Bool)
    (i : Nat) (pre post : List α) (b : α) (H : OneFails (ctxWatch k cap bad) i pre b post)
    (j : Nat) (hj : j < k) (hji : j ≠ i) :
    (∀ s, Reach (Step (ctxWatch k cap bad)) (init (pre ++ b :: post)) s → Stuck (ctxWatch k cap bad) s →
        Final (ctxWatch k cap bad) s ∧ (s.ws j).failed = false ∧ (s.ws j).stopped = false ∧
        (s.ws j).buf = [] ∧
        (s.ws j).seen = (pre ++ b :: post).take (s.ws j).seen.length ∧
        pre.length + (if j < i then 1 else 0) ≤ (s.ws j).seen.length ∧
        (s.ws j).seen.length ≤ min (pre ++ b :: post).length (pre.length + 1 + cap + (if j < i then 1 else 0))) ∧
    (∀ m, pre.length + (if j < i then 1 else 0) ≤ m →
        m ≤ min (pre ++ b :: post).length (pre.length + 1 + cap + (if j < i then 1 else 0)) →
        ∃ s, Reach (Step (ctxWatch k cap bad)) (init (pre ++ b :: post)) s ∧ Stuck (ctxWatch k cap bad) s ∧
          (s.ws j).seen = (pre ++ b :: post).take m) := by
  have hi : i < k := H.hi
  constructor
  · -- (a)
    intro s hr hs
    have hinv := inv_reach hr
    obtain ⟨hfin, _⟩ := (ctx_watch_terminates k cap hcap bad (pre ++ b :: post)).2.2 s hr hs
    obtain ⟨hnf, hns⟩ := H.other_alive hinv hj hji
    have hbuf := hfin.2 j hj hns
    have hrows := hinv.rows j hj
    rw [hbuf, List.append_nil, List.append_assoc] at hrows
    have hup := sent_upper (cfg := ctxWatch k cap bad) hinv rfl hi H.hb j hj
    have hlen := congrArg List.length hrows
    simp only [List.length_append] at hlen
    refine ⟨hfin, hnf, hns, hbuf, ?_, ?_, ?_⟩
    · conv => lhs; rw [← List.take_left' (l₁ := (s.ws j).seen) (l₂ := pend s.hold j ++ s.todo) rfl]
      rw [hrows]
    · rcases hinv.fin hfin.1 with ha | ⟨hh, ht⟩
      · have := H.sent_lower hinv (hinv.abrt ha).2 j hj
        rw [hbuf] at this
        simpa using this
      · rw [hh, ht] at hrows
        have hall : (s.ws j).seen.length = pre.length + post.length + 1 := by
          have := congrArg List.length hrows
          simp only [pend, List.length_nil, List.length_append, List.length_cons, Nat.add_zero] at this
          omega
        split <;> omega
    · rw [hbuf] at hup
      simp only [List.length_nil, Nat.add_zero] at hup
      exact Nat.le_min.2 ⟨by simp only [List.length_append]; omega, hup⟩
  · -- (b)
    intro m hlo hhi
    have hk0 : 0 < k := by omega
    obtain ⟨hhi1, hhi2⟩ := Nat.le_min.1 hhi
    have hn : (pre ++ b :: post).length = pre.length + post.length + 1 := by
      simp only [List.length_append, List.length_cons]; omega
    by_cases hjlt : j < i
    · simp only [hjlt, if_true] at hlo hhi2
      by_cases hm : pre.length + 2 ≤ m
      · -- the feeder has just sent row m-1 to channel j and notices in front of channel j+1
        obtain ⟨t, rest, e, e2⟩ := split_at (pre ++ b :: post) (m - 1) (by omega)
        have hm1 : m - 1 + 1 = m := by omega
        rw [hm1] at e2
        have hl : ((pre ++ b :: post).take (m - 1)).length = m - 1 := by
          rw [List.length_take]; omega
        have hij : ¬ i < j + 1 := by omega
        obtain ⟨s, hr, hs, _, hws⟩ := H.exists_abort_at (cfg := ctxWatch k cap bad) rfl hcap
          (dn := (pre ++ b :: post).take (m - 1)) (t := t) (rest := rest) e.symm (h := j + 1)
          (by show j + 1 < k; omega)
          (by simp only [hij, if_false]; omega)
          (by simp only [hij, if_false]; show _ ≤ pre.length + 1 + cap; omega)
        refine ⟨s, hr, hs, ?_⟩
        rw [(hws j hj hji).1, e2]
        simp
      · have hmeq : m = pre.length + 1 := by omega
        by_cases hmn : m < (pre ++ b :: post).length
        · obtain ⟨s, hr, hs, hws⟩ := exists_abort_between_rows (cfg := ctxWatch k cap bad) H rfl hcap hk0 m
            (by omega) hmn (by show m ≤ pre.length + 1 + cap; omega)
          exact ⟨s, hr, hs, hws j hj hji⟩
        · have hpost : post.length ≤ cap := by omega
          obtain ⟨s, hr, hs, _, hws⟩ := H.exists_complete (cfg := ctxWatch k cap bad) hcap hpost
          refine ⟨s, hr, hs, ?_⟩
          rw [(hws j hj hji).1, List.take_of_length_le (by omega)]
    · simp only [hjlt, if_false, Nat.add_zero] at hlo hhi2
      by_cases hm : m = pre.length
      · -- the feeder has just sent the bad row to channel i and notices in front of channel i+1
        have hii : i < i + 1 := by omega
        obtain ⟨s, hr, hs, _, hws⟩ := H.exists_abort_at (cfg := ctxWatch k cap bad) rfl hcap
          (dn := pre) (t := b) (rest := post) rfl (h := i + 1) (by show i + 1 < k; omega)
          (by simp only [hii, if_true]; omega)
          (by simp only [hii, if_true]; omega)
        refine ⟨s, hr, hs, ?_⟩
        have hjj : ¬ j < i + 1 := by omega
        rw [(hws j hj hji).1, hm]
        simp [hjj]
      · by_cases hmn : m < (pre ++ b :: post).length
        · obtain ⟨s, hr, hs, hws⟩ := exists_abort_between_rows (cfg := ctxWatch k cap bad) H rfl hcap hk0 m
            (by omega) hmn (by show m ≤ pre.length + 1 + cap; omega)
          exact ⟨s, hr, hs, hws j hj hji⟩
        · have hpost : post.length ≤ cap := by omega
          obtain ⟨s, hr, hs, _, hws⟩ := H.exists_complete (cfg := ctxWatch k cap bad) hcap hpost
          refine ⟨s, hr, hs, ?_⟩
          rw [(hws j hj hji).1, List.take_of_length_le (by omega)]

/-- the set of possible outcomes for worker `j`, as an equivalence -/
theorem ctx_watch_prefix_lengths_iff {α : Type} (k cap : Nat) (hcap : 1 ≤ cap) (bad : Nat → α → Bool)
    (i : Nat) (pre post : List α) (b : α) (H : OneFails (ctxWatch k cap bad) i pre b post)
    (j : Nat) (hj : j < k) (hji : j ≠ i) (m : Nat) :
    (∃ s, Reach (Step (ctxWatch k cap bad)) (init (pre ++ b :: post)) s ∧ Stuck (ctxWatch k cap bad) s ∧
        (s.ws j).seen.length = m) ↔
    (pre.length + (if j < i then 1 else 0) ≤ m ∧
      m ≤ min (pre ++ b :: post).length (pre.length + 1 + cap + (if j < i then 1 else 0))) := by
  obtain ⟨ha, hb⟩ := ctx_watch_truncates_others k cap hcap bad i pre post b H j hj hji
  constructor
  · rintro ⟨s, hr, hs, rfl⟩
    obtain ⟨_, _, _, _, _, h1, h2⟩ := ha s hr hs
    exact ⟨h1, h2⟩
  · rintro ⟨h1, h2⟩
    obtain ⟨s, hr, hs, hseen⟩ := hb m h1 h2
    refine ⟨s, hr, hs, ?_⟩
    rw [hseen, List.length_take]
    have := (Nat.le_min.1 h2).1
    omega

/-- A worker behind the failing one (a `count` listed after a `histogram`, say) can ALWAYS be left
    with a strict prefix of the input — here: exactly the rows before the bad one — although it
    never fails itself, the stream ends normally and nothing is reported to the client. -/
theorem ctx_watch_strict_prefix {α : Type} (k cap : Nat) (hcap : 1 ≤ cap) (bad : Nat → α → Bool)
    (i : Nat) (pre post : List α) (b : α) (H : OneFails (ctxWatch k cap bad) i pre b post)
    (j : Nat) (hj : j < k) (hij : i < j) :
    ∃ s, Reach (Step (ctxWatch k cap bad)) (init (pre ++ b :: post)) s ∧ Stuck (ctxWatch k cap bad) s ∧
      Final (ctxWatch k cap bad) s ∧ (s.ws j).failed = false ∧ (s.ws j).seen = pre ∧
      (s.ws j).seen.length < (pre ++ b :: post).length := by
  have hji : j ≠ i := by omega
  have hjlt : ¬ j < i := by omega
  obtain ⟨ha, hb⟩ := ctx_watch_truncates_others k cap hcap bad i pre post b H j hj hji
  obtain ⟨s, hr, hs, hseen⟩ := hb pre.length (by simp [hjlt]) (by
    simp only [hjlt, if_false, List.length_append, List.length_cons]
    exact Nat.le_min.2 ⟨by omega, by omega⟩)
  obtain ⟨hf, hnf, _⟩ := ha s hr hs
  have hpre : (s.ws j).seen = pre := by rw [hseen]; simp
  refine ⟨s, hr, hs, hf, hnf, hpre, ?_⟩
  rw [hpre]; simp

/-- CONCRETE WITNESS for (3), by evaluation: same two workers, capacity 1, input 9, 1, 2; worker 0
    returns at row 9; the feeder notices before it has sent row 1 to channel 1.  The execution is
    complete (nothing can move, channels closed), worker 1 never failed — and has seen 1 of 3 rows. -/
def schedTruncate : List Move :=
  [.take, .send, .work 0, .send, .work 1, .done, .take, .send, .notice, .close]

theorem ctx_watch_truncation_witness :
    ∃ s, Reach (Step (ctxWatch 2 1 badT)) (init [9, 1, 2]) s ∧ Stuck (ctxWatch 2 1 badT) s ∧
      s.closed = true ∧ (s.ws 1).failed = false ∧ (s.ws 1).buf = [] ∧ (s.ws 1).seen = [9] := by
  have h : checkRun (ctxWatch 2 1 badT) (init [9, 1, 2]) schedTruncate
      (fun s => stuckB (ctxWatch 2 1 badT) s && s.closed && !(s.ws 1).failed && (s.ws 1).buf == []
        && (s.ws 1).seen == [9]) = true := by
    decide
  obtain ⟨s, hr, hp⟩ := checkRun_witness h
  simp only [Bool.and_eq_true, Bool.not_eq_true', beq_iff_eq] at hp
  obtain ⟨⟨⟨⟨h1, h2⟩, h3⟩, h4⟩, h5⟩ := hp
  exact ⟨s, hr, stuckB_sound h1, h2, h3, h4, h5⟩

/-- TEST: the scenario `OneFails` is satisfiable (the instance of the witness above) … -/
theorem oneFails_test : OneFails (ctxWatch 2 1 badT) 0 [] 9 [1, 2] where
  hi := by decide
  drain := rfl
  hb := by decide
  hpre := by intro x hx; cases hx
  others := by
    intro j hj hji x _
    have : (j == 0) = false := by simpa using hji
    simp [ctxWatch, badT, this]

/-- … and the characterisation says: worker 1 ends with 0, 1 or 2 of the 3 rows, never with all. -/
example (m : Nat) :
    (∃ s, Reach (Step (ctxWatch 2 1 badT)) (init ([] ++ 9 :: [1, 2])) s ∧ Stuck (ctxWatch 2 1 badT) s ∧
        (s.ws 1).seen.length = m) ↔ m ≤ 2 := by
  rw [ctx_watch_prefix_lengths_iff 2 1 (by decide) badT 0 [] [1, 2] 9 oneFails_test 1 (by decide) (by decide) m]
  simp

/-! ## (4) which variant keeps "count equals the number of input rows" -/

/-- "In every maximal execution, every aggregation that never fails (a `count`) has returned — its
    channel closed and empty — having consumed as many rows as the input has." -/
def CountSurvives {α : Type} (cfg : Cfg α) (input : List α) : Prop :=
  ∀ s, Reach (Step cfg) (init input) s → Stuck cfg s →
    ∀ j, j < cfg.k → (∀ x, cfg.bad j x = false) →
      s.closed = true ∧ (s.ws j).buf = [] ∧ (s.ws j).seen.length = input.length

/-- `count_correct_iff`: over all numbers of aggregations, capacities ≥ 1, bad-predicates and inputs,
    the clause "count equals the number of input rows" survives a failing sibling in every
    execution IF AND ONLY IF a failing worker keeps draining its channel.  (Stated for the four
    combinations of the two switches; the three variants of this file follow.) -/
theorem count_correct_iff {α : Type} [Inhabited α] (drain watch : Bool) :
    (∀ (k cap : Nat), 1 ≤ cap → ∀ (bad : Nat → α → Bool) (input : List α),
        CountSurvives ⟨k, cap, bad, drain, watch⟩ input) ↔ drain = true := by
  constructor
  · intro h
    cases drain with
    | true => rfl
    | false =>
      exfalso
      -- two workers, capacity 1, every row is bad for worker 0, none for worker 1
      let bad : Nat → α → Bool := fun j _ => j == 0
      have hb1 : ∀ x, bad 1 x = false := fun _ => rfl
      cases watch with
      | false =>
        obtain ⟨s, hr, hs, hc⟩ := (early_return_blocks_as_coded_feeder 2 1 (Nat.le_refl 1) bad 0 (by omega) []
          [default, default] default rfl (by simp)).2.2.1
        have := (h 2 1 (Nat.le_refl 1) bad _ s hr hs 1 (by show 1 < 2; omega) hb1).1
        rw [hc] at this; cases this
      | true =>
        have H : OneFails (ctxWatch 2 1 bad) 0 [] default [default, default] :=
          { hi := by show 0 < 2; omega
            drain := rfl
            hb := rfl
            hpre := by intro x hx; cases hx
            others := by
              intro j hj hji x _
              have : (j == 0) = false := by simpa using hji
              simp [ctxWatch, bad, this] }
        obtain ⟨s, hr, hs, _, _, hseen, _⟩ := ctx_watch_strict_prefix 2 1 (Nat.le_refl 1) bad 0 []
          [default, default] default H 1 (by omega) (by omega)
        have := (h 2 1 (Nat.le_refl 1) bad _ s hr hs 1 (by show 1 < 2; omega) hb1).2.2
        rw [hseen] at this
        simp at this
  · intro hd k cap hcap bad input s hr hs j hj _
    subst hd
    obtain ⟨hc, _, hall⟩ := (feed_all_rows_drain ⟨k, cap, bad, true, watch⟩ rfl hcap input).2.2 s hr hs
    obtain ⟨hb, hseen, _⟩ := hall j hj
    exact ⟨hc, hb, by rw [hseen]⟩

/-- … for the three variants by name: only the code as it is keeps the clause. -/
theorem count_correct_variants {α : Type} [Inhabited α] :
    (∀ (k cap : Nat), 1 ≤ cap → ∀ (bad : Nat → α → Bool) (input : List α),
        CountSurvives (asCoded k cap bad) input) ∧
    ¬ (∀ (k cap : Nat), 1 ≤ cap → ∀ (bad : Nat → α → Bool) (input : List α),
        CountSurvives (earlyReturn k cap bad) input) ∧
    ¬ (∀ (k cap : Nat), 1 ≤ cap → ∀ (bad : Nat → α → Bool) (input : List α),
        CountSurvives (ctxWatch k cap bad) input) :=
  ⟨(count_correct_iff true false).2 rfl,
   fun h => Bool.noConfusion ((count_correct_iff (α := α) false false).1 h),
   fun h => Bool.noConfusion ((count_correct_iff (α := α) false true).1 h)⟩

/-- TEST: `CountSurvives` is not vacuous — the code as it is, on the instance above, has a maximal
    execution (`example` after `feed_all_rows_as_coded`), and in it the never-failing worker 1 has
    counted 3 rows. -/
example : CountSurvives (asCoded 2 1 badT) [9, 1, 2] :=
  (count_correct_iff (α := Nat) true false).2 rfl 2 1 (by decide) badT [9, 1, 2]

end Grip.Props.C19
