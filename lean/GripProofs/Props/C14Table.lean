/-
  GripProofs.Props.C14Table — the MODEL's filter translation (`opOf`, `convCond`, `junction` of
  Grip/Model/C14.lean) rendered in the notation of the regenerated table GripGen.MongoFilter
  (tools/extract/c14_filter.go reads mongo/has_evaluator.go on every run) and proved equal to it.
  A change of an operator, of a guard, of the negation wrapper or of the And/Or arms in the Go source
  changes the generated table and breaks `filter_table_matches_source` (or the extraction itself).
-/
import Grip.Model.C14
import GripGen.MongoFilter

namespace Grip.Props.C14
open Grip Grip.C14 Grip.C08

/-- the operator document with the argument written `val` -/
def renderOp : MOp → String
  | .eq _ => "{$eq: val}" | .ne _ => "{$ne: val}" | .gt _ => "{$gt: val}" | .gte _ => "{$gte: val}"
  | .lt _ => "{$lt: val}" | .lte _ => "{$lte: val}" | .in_ _ => "{$in: val}"
  | .elemMatchEq _ => "{$elemMatch: {$eq: val}}"
  | .not o => "{$not: " ++ renderOp o ++ "}"
  | .empty => "{}"

/-- the wrapper around the operator document, the operator written `expr` -/
def renderWrapOp : MOp → String
  | .not o => "{$not: " ++ renderWrapOp o ++ "}"
  | _ => "expr"

def renderWrap : MDoc → String
  | .field _ o => "{key: " ++ renderWrapOp o ++ "}"
  | _ => "?"

/-- what `convCond` does with an argument that is not a list, as a `matchNone` call -/
def renderGuard (c : Cond) : String :=
  match convCond "k" c (.num 0) false, convCond "k" c (.num 0) true with
  | .nothing, .all => "not a list: matchNone(not)"
  | .all, .nothing => "not a list: matchNone(!not)"
  | .field _ _, .field _ _ => ""
  | _, _ => "?"

def condNames : List (Cond × String) :=
  [(.eq, "EQ"), (.neq, "NEQ"), (.gt, "GT"), (.gte, "GTE"), (.lt, "LT"), (.lte, "LTE"),
   (.within, "WITHIN"), (.without, "WITHOUT"), (.contains, "CONTAINS")]

/-- the MODEL's operator table -/
def modelOps : List (String × String × String) :=
  condNames.map fun (c, n) => (n, renderGuard c, renderOp (opOf c (.arr [])))

def modelWrap : List String :=
  ["not: " ++ renderWrap (convCond "k" .unset .null true), "plain: " ++ renderWrap (convCond "k" .unset .null false)]

def renderEmpty (isAnd : Bool) : String :=
  match junction isAnd false [], junction isAnd true [] with
  | .nothing, .all => "matchNone(not)"
  | .all, .nothing => "matchNone(!not)"
  | _, _ => "?"

def renderJ : MDoc → String
  | .and _ => "$and" | .or _ => "$or" | _ => "?"

def modelArm (isAnd : Bool) : List String :=
  ["empty: " ++ renderEmpty isAnd, "not: " ++ renderJ (junction isAnd true [.all]),
   "plain: " ++ renderJ (junction isAnd false [.all])]

/-- The MODEL's translation of conditions, negation and And/Or is what the Go source says now. -/
theorem filter_table_matches_source :
    modelOps = GripGen.MongoFilter.ops ∧ modelWrap = GripGen.MongoFilter.wrap ∧
    modelArm true = GripGen.MongoFilter.andArm ∧ modelArm false = GripGen.MongoFilter.orArm := by
  decide

/-- convertPath as the MODEL reads it (`Grip.C14.mpath` / `mpathL`), statement by statement in the
    notation of the regenerated table: the namespace is taken from the ORIGINAL key (`nsOf`),
    GetJSONPath with the `$.` prefix dropped (`Path.jsonPathOf`), `gid` → `_id` before the mark
    prefix (`basePath`, so `$a._gid` ↦ `marks.a._id`), and a key outside the current namespace is
    addressed below `marks.<namespace>.` (`mpathL`).  A pinned reading: any edit of convertPath
    (the fix reverted, the path dropped, the rename moved after the prefix) breaks the theorem
    below until the model is re-read against it. -/
def modelPath : List String :=
  ["namespace := jsonpath.GetNamespace(key)",
   "key = jsonpath.GetJSONPath(key)",
   "key = strings.TrimPrefix(key, \"$.\")",
   "if key == \"gid\" { key = \"_id\" }",
   "if namespace != jsonpath.Current { key = \"marks.\" + namespace + \".\" + key }",
   "return key"]

/-- convertPath is, statement for statement, what the MODEL's `mpath` was read from. -/
theorem filter_path_matches_source : modelPath = GripGen.MongoFilter.path := by
  decide

/-- every condition of the enumeration other than the range operators (which convertHasExpression
    rewrites before convertCondition sees them) has a row -/
theorem filter_table_complete :
    GripGen.MongoFilter.ops.map (·.1) = ["EQ", "NEQ", "GT", "GTE", "LT", "LTE", "WITHIN", "WITHOUT", "CONTAINS"] := by
  decide

end Grip.Props.C14
