/-
  Property C01, type soundness over TRAVELERS (progress / preservation).
  Property theorems only; the vocabulary is Grip/Spec/C01Shape.lean, lemmas are in
  GripProofs/Lemmas/C01Shape.lean.  Everything is for an arbitrary abstract graph and arbitrary
  statement lists, except where a hypothesis is stated — and for each such hypothesis a theorem
  below shows, on a concrete input, that the claim is FALSE of the model without it.

  PRESERVATION  `preservation`, `preservation_present`, `markEnv_preserved`, `markEnv_initial`,
                `wellShaped_present`; for the excluded statements `unmodelled_is_identity`,
                `null_move_from_vertex`, `eNull_move_present`
  PROGRESS      `progress`, `progress_out`, `progress_out_kind`
  PROGRAMS      `trace_well_shaped`, `trace_present_shaped`, `result_well_shaped`, `run_progress`,
                `rows_well_shaped`, `rows_present`, `rows_have_shape'`
  NEGATIVE      `preservation_needs_edgesHaveTo`, `preservation_fields_blanks_to`,
                `preservation_fails_unmodelled`, `strict_marks_not_preserved`,
                `preservation_needs_markEnv`, `progress_fails_unwind_after_count`, `unwind_after_count_run`,
                `progress_fails_select_undefined_mark`, `progress_fails_has_undefined_mark`
-/
import GripProofs.Props.C01
import Grip.Spec.C01Shape
import GripProofs.Lemmas.C01Shape

namespace Grip.Props.C01
open Grip Grip.C01 Grip.Spec.C01 Grip.Props.C01.Lemmas

variable (numOf : String → Option Int) (g : AGraph)

/-! ### (1) preservation, one statement -/

/-- PRESERVATION.  If `typeStep st s = .ok st'` and every input traveler is well shaped for
    `st.last`, `st.marks`, then every traveler the step returns is well shaped for `st'.last`,
    `st'.marks` — for every statement except the seven the model gives no meaning
    (`shapeModelled`: the `*Null` moves, `aggregate`, `lookupVertsIndex`, `engineCustom`).
    Hypotheses (each is necessary, see the NEGATIVE theorems):
    * `EdgesHaveTo g` — stored edges have a non-blank `to` (the server's `Edge.Validate`); only
      then is an edge element recognisable as an edge by gdbi's discriminator `To != ""`;
    * `keepsTo s` when the current type is `edge` — `fields` must not exclude `_to`;
    * `MarkEnvOK st` — the static environment is one that the typing fold can produce. -/
theorem preservation {st st' : TState} {s : Stmt} {ts : List Traveler}
    (hg : EdgesHaveTo g) (hf : st.last = .edge → keepsTo s) (henv : MarkEnvOK st)
    (hm : shapeModelled s = true) (ht : typeStep st s = .ok st')
    (hin : ∀ t ∈ ts, WellShaped st.last st.marks t) :
    ∀ t' ∈ evalStepT numOf g st.last s ts, WellShaped st'.last st'.marks t' :=
  step_preserves_gen (E := strictTo) numOf g hg (fun h => Or.inr (hf h)) henv hm ht hin

/-- PRESERVATION of the weaker shape (an element of static kind `edge` only has to be PRESENT;
    vertices, payloads and marks as in `WellShaped`): no assumption on the graph or on `fields`. -/
theorem preservation_present {st st' : TState} {s : Stmt} {ts : List Traveler}
    (henv : MarkEnvOK st) (hm : shapeModelled s = true) (ht : typeStep st s = .ok st')
    (hin : ∀ t ∈ ts, PresentShaped st.last st.marks t) :
    ∀ t' ∈ evalStepT numOf g st.last s ts, PresentShaped st'.last st'.marks t' :=
  step_preserves_gen (E := laxTo) numOf g (fun _ _ => trivial) (fun _ => Or.inl trivial) henv hm ht hin

/-- The static invariant holds initially and is preserved by the typing step. -/
theorem markEnv_preserved {st st' : TState} {s : Stmt} (henv : MarkEnvOK st)
    (hm : shapeModelled s = true) (ht : typeStep st s = .ok st') : MarkEnvOK st' :=
  markEnv_step henv hm ht

theorem markEnv_initial : MarkEnvOK {} := markEnv_init

/-- `WellShaped` implies `PresentShaped`. -/
theorem wellShaped_present {ty : DataType} {marks : MarkTypes} {t : Traveler}
    (h : WellShaped ty marks t) : PresentShaped ty marks t := by
  have kind : ∀ (ty : DataType) (o : Option Elem), ElemOfKind strictTo ty o → ElemOfKind laxTo ty o := by
    intro ty o h
    cases ty <;> first | exact h | (obtain ⟨e, he, _⟩ := h; exact ⟨e, he, trivial⟩)
  refine ⟨kind _ _ h.1, ?_, fun hc m => kind _ _ (h.2.2 hc m)⟩
  cases ty <;> first | trivial | exact h.2.1 | skip
  obtain ⟨s, hs, hkv⟩ := h.2.1
  exact ⟨s, hs, fun kv hk => ⟨(hkv kv hk).1, fun _ => trivial⟩⟩

/-- What the excluded statements DO guarantee.  The model gives them no meaning: the step is the
    identity, so the travelers keep the shape of the type in FRONT of the statement … -/
theorem unmodelled_is_identity (from_ : DataType) (s : Stmt) (h : shapeModelled s = false)
    (ts : List Traveler) : evalStepT numOf g from_ s ts = ts := by
  cases s <;> first | rfl | cases h

/-- … which for `inNull`/`outNull` from a VERTEX is the announced type as well, … -/
theorem null_move_from_vertex {st st' : TState} {s : Stmt} {ts : List Traveler}
    (hs : s.kind = .inNull ∨ s.kind = .outNull) (hl : st.last = .vertex)
    (ht : typeStep st s = .ok st') (hin : ∀ t ∈ ts, WellShaped st.last st.marks t) :
    ∀ t' ∈ evalStepT numOf g st.last s ts, WellShaped st'.last st'.marks t' := by
  obtain ⟨last, marks⟩ := st
  simp only at hl; subst hl
  cases s <;> simp [Stmt.kind] at hs <;>
    (simp only [typeStep, moveToVertex] at ht
     injection ht with ht; subst ht
     exact hin)

/-- … and for `inENull`/`outENull` (vertex ↦ edge) still has a current element: the lax shape. -/
theorem eNull_move_present {st st' : TState} {s : Stmt} {ts : List Traveler}
    (hs : s.kind = .inENull ∨ s.kind = .outENull)
    (ht : typeStep st s = .ok st') (hin : ∀ t ∈ ts, PresentShaped st.last st.marks t) :
    ∀ t' ∈ evalStepT numOf g st.last s ts, PresentShaped st'.last st'.marks t' := by
  have key : moveToEdge st = .ok st' → ∀ t' ∈ ts, PresentShaped st'.last st'.marks t' := by
    intro h t' ht'
    obtain ⟨hl, rfl⟩ := moveToEdge_ok h
    have hw := hin t' ht'
    rw [hl] at hw
    obtain ⟨e, he, _⟩ := hw.1
    exact ⟨⟨e, he, trivial⟩, trivial, fun _ => hw.2.2 rfl⟩
  cases s <;> simp [Stmt.kind] at hs <;> exact key ht

/-! ### (2) progress, one statement -/

/-- PROGRESS / no undefined case.  `evalStepStrict` is the step semantics with every branch that
    exists only to keep `evalStepT` total replaced by `none`: the `getD ""` of `curId`/`curLabel`/
    `curFrom`/`curTo`, the `else` arm of `stepOut`/`stepIn` for a type that is neither vertex nor
    edge, `outE`/`inE` from a non-vertex, the dictionary of a nil element in `GetDoc`
    (`has`, `hasKey`, `distinct`, `render`, `unwind`), `t.cur.getD {}` of `fields`, the nil arm of
    `unwind`, the nil mark of `select`, and the catch-all arm of `evalStepT`.
    On well-shaped input (the lax shape suffices) a well-typed documented statement never reaches
    one of them: the strict semantics is defined and equals the model.
    `StaticOK` lists what the Go type checker does NOT check and progress therefore needs:
    field references and `select` name recorded marks; `unwind` stands on a type that has a
    current element (see the NEGATIVE theorems for each). -/
theorem progress {st st' : TState} {s : Stmt} {ts : List Traveler}
    (ht : typeStep st s = .ok st') (hs : StaticOK st s)
    (hin : ∀ t ∈ ts, PresentShaped st.last st.marks t) :
    evalStepStrict numOf g st.last s ts = some (evalStepT numOf g st.last s ts) :=
  step_progress_gen numOf g ht hs hin

/-- Made concrete for the moves: on well-shaped input `out` from a vertex scans the adjacency of the
    current element's id, `out` from an edge looks its `to` endpoint up — `curId`/`curTo` never fall
    back to `""` and the dispatch on the type never takes the arm of a non-element type. -/
theorem progress_out {st st' : TState} {ls : List String} {t : Traveler}
    (ht : typeStep st (.out ls) = .ok st') (h : PresentShaped st.last st.marks t) :
    ∃ c, t.cur = some c ∧
      ((st.last = .vertex ∧ stepOut g st.last ls t =
          (g.outVerts c.gid ls).map (fun v => t.addCurrent (some (vertexElem v)))) ∨
       (st.last = .edge ∧ stepOut g st.last ls t =
          ((g.getVertex c.to).toList).map (fun v => t.addCurrent (some (vertexElem v))))) := by
  obtain ⟨hl, _⟩ := moveToVertex_ok ht
  obtain ⟨c, hc⟩ := cur_some h hl
  refine ⟨c, hc, ?_⟩
  rcases hl with hl | hl
  · exact Or.inl ⟨hl, by simp [hl, stepOut, curId, hc]⟩
  · exact Or.inr ⟨hl, by simp [hl, stepOut, curTo, hc]⟩

/-- With the strict shape the element is moreover of the kind the dispatch assumes: from type
    `vertex` the current element has no endpoints, from type `edge` the endpoint `out` looks up is
    not blank. -/
theorem progress_out_kind {st st' : TState} {ls : List String} {t : Traveler}
    (ht : typeStep st (.out ls) = .ok st') (h : WellShaped st.last st.marks t) :
    ∃ c, t.cur = some c ∧ ((st.last = .vertex ∧ IsVertexElem c) ∨ (st.last = .edge ∧ IsEdgeElem c)) := by
  obtain ⟨hl, _⟩ := moveToVertex_ok ht
  have h1 := h.1
  rcases hl with hl | hl <;> rw [hl] at h1
  · obtain ⟨c, hc, hk⟩ := h1; exact ⟨c, hc, Or.inl ⟨hl, hk⟩⟩
  · obtain ⟨c, hc, hk⟩ := h1; exact ⟨c, hc, Or.inr ⟨hl, hk⟩⟩

/-! ### (3) whole programs -/

/-- Every intermediate traveler list of a traversal — `evalTrace` pairs each with the static state
    in front of it — is well shaped.  (No `typeCheck stmts = .ok _` hypothesis is needed: the trace
    of an ill-typed list stops at the statement that is rejected; `run` evaluates nothing then.
    With it, `trace_ends_with_result` says the trace ends with what `run` converts.) -/
theorem trace_well_shaped (stmts : List Stmt)
    (hg : EdgesHaveTo g) (hm : ∀ s ∈ stmts, shapeModelled s = true) (hk : ∀ s ∈ stmts, keepsTo s) :
    ∀ p ∈ evalTrace numOf g {} [Traveler.seed] stmts, ∀ t ∈ p.2, WellShaped p.1.last p.1.marks t :=
  trace_preserves_gen (E := strictTo) numOf g hg stmts {} _ markEnv_init
    (alongTyping_of_forall stmts {} (fun s hs _ => ⟨hm s hs, fun _ => Or.inr (hk s hs)⟩))
    (fun t ht => by simp only [List.mem_singleton] at ht; subst ht; exact seed_shaped)

/-- The same for the lax shape, with no assumption on the graph or on `fields`. -/
theorem trace_present_shaped (stmts : List Stmt) (hm : ∀ s ∈ stmts, shapeModelled s = true) :
    ∀ p ∈ evalTrace numOf g {} [Traveler.seed] stmts, ∀ t ∈ p.2, PresentShaped p.1.last p.1.marks t :=
  trace_preserves_gen (E := laxTo) numOf g (fun _ _ => trivial) stmts {} _ markEnv_init
    (alongTyping_of_forall stmts {} (fun s hs _ => ⟨hm s hs, fun _ => Or.inl trivial⟩))
    (fun t ht => by simp only [List.mem_singleton] at ht; subst ht; exact seed_shaped)

/-- The trace ends with the final state and the travelers `run` converts. -/
theorem trace_ends_with_result (stmts : List Stmt) (stf : TState) (ht : typeCheck stmts = .ok stf) :
    (stf, evalFrom numOf g {} [Traveler.seed] stmts) ∈ evalTrace numOf g {} [Traveler.seed] stmts :=
  evalTrace_final numOf g stmts {} stf _ (typeCheck_fold ht)

/-- Hence the travelers `run` converts are well shaped for the final type. -/
theorem result_well_shaped (stmts : List Stmt) (stf : TState)
    (hg : EdgesHaveTo g) (hm : ∀ s ∈ stmts, shapeModelled s = true) (hk : ∀ s ∈ stmts, keepsTo s)
    (ht : typeCheck stmts = .ok stf) :
    ∀ t ∈ evalFrom numOf g {} [Traveler.seed] stmts, WellShaped stf.last stf.marks t :=
  trace_well_shaped numOf g stmts hg hm hk _ (trace_ends_with_result numOf g stmts stf ht)

/-- PROGRESS for whole programs: the fold of the partial step function is defined and equals the
    model's fold — no step of a well-typed traversal (whose references name recorded marks) ever
    uses a branch that exists only for totality. -/
theorem run_progress (stmts : List Stmt) (stf : TState) (ht : typeCheck stmts = .ok stf)
    (hs : alongTyping StaticOK {} stmts) :
    evalFromStrict numOf g {} [Traveler.seed] stmts = some (evalFrom numOf g {} [Traveler.seed] stmts) :=
  evalFromStrict_eq numOf g stmts {} stf _ markEnv_init (typeCheck_fold ht) hs
    (fun t ht => by simp only [List.mem_singleton] at ht; subst ht; exact seed_shaped)

/-- Rows: each row of a well-typed traversal carries an element that is present and of the kind of
    the final type (never `Row.vertex none`), the selections have the recorded kinds, an aggregation
    row is never `nil`. -/
theorem rows_well_shaped (stmts : List Stmt) (stf : TState) (rows : List Row)
    (hg : EdgesHaveTo g) (hm : ∀ s ∈ stmts, shapeModelled s = true) (hk : ∀ s ∈ stmts, keepsTo s)
    (ht : typeCheck stmts = .ok stf) (hr : run numOf g stmts = .ok rows) :
    ∀ r ∈ rows, Row.wellShaped strictTo stf.last r := by
  simp only [run, ht] at hr
  split at hr
  · injection hr with hr; subst hr; simp
  · injection hr with hr; subst hr
    intro r hr
    obtain ⟨t, htm, rfl⟩ := List.mem_map.1 hr
    exact convert_wellShaped (result_well_shaped numOf g stmts stf hg hm hk ht t htm)

theorem rows_present (stmts : List Stmt) (stf : TState) (rows : List Row)
    (hm : ∀ s ∈ stmts, shapeModelled s = true)
    (ht : typeCheck stmts = .ok stf) (hr : run numOf g stmts = .ok rows) :
    ∀ r ∈ rows, Row.wellShaped laxTo stf.last r := by
  simp only [run, ht] at hr
  split at hr
  · injection hr with hr; subst hr; simp
  · injection hr with hr; subst hr
    intro r hr
    obtain ⟨t, htm, rfl⟩ := List.mem_map.1 hr
    exact convert_wellShaped (trace_present_shaped numOf g stmts hm _
      (trace_ends_with_result numOf g stmts stf ht) t htm)

/-- `rows_have_shape` (GripProofs/Props/C01.lean) re-derived as a corollary of preservation, for the
    traversals preservation covers. -/
theorem rows_have_shape' (stmts : List Stmt) (stf : TState) (rows : List Row)
    (hm : ∀ s ∈ stmts, shapeModelled s = true)
    (ht : typeCheck stmts = .ok stf) (hr : run numOf g stmts = .ok rows) :
    ∀ r ∈ rows, Row.hasShape stf.last r :=
  fun r h => wellShaped_hasShape (rows_present numOf g stmts stf rows hm ht hr r h)

/-! ### NEGATIVE results: each hypothesis above is necessary, each exclusion is real

  All of these are statements about the MODEL evaluated on concrete inputs (a test each, not an
  unbounded claim).  String functions (`splitOn`, `startsWith`) do not reduce in the kernel, so
  where a counterexample depends on parsing a key, the parsed value is a hypothesis of the theorem
  and a `#guard` next to it evaluates that hypothesis for the concrete key. -/

/-- a stored edge with a blank `to` (the server's `Edge.Validate` refuses it) -/
def gBlank : AGraph := { edges := [{ gid := "e", label := "k", frm := "a", to := "" }] }

/-- Without `EdgesHaveTo`: `E()` on a graph holding an edge with a blank `to` yields a traveler typed
    `edge` whose element gdbi's discriminator (`To != ""`) takes for a vertex. -/
theorem preservation_needs_edgesHaveTo :
    typeStep {} (.E []) = .ok { last := .edge } ∧
    (∀ t ∈ [Traveler.seed], WellShaped .noData [] t) ∧
    ¬ ∀ t' ∈ evalStepT numOf gBlank .noData (.E []) [Traveler.seed], WellShaped .edge [] t' := by
  refine ⟨rfl, fun t ht => by simp only [List.mem_singleton] at ht; subst ht; exact seed_shaped, ?_⟩
  intro h
  obtain ⟨e, he, hto⟩ := (h (Traveler.seed.addCurrent (some (edgeElem
    { gid := "e", label := "k", frm := "a", to := "" }))) (by simp [evalStepT, stepE, gBlank])).1
  cases he
  exact hto rfl

/-- Without `keepsTo`: `fields` with an exclusion of `_to` (keys that parse to the single exclude
    path `["to"]`) blanks the `to` of EVERY edge: the result is typed `edge`, present, but no longer
    recognisable as an edge.  In Go: `jsonpath.excludeFields`, `case "to": result.To = ""`; e.g.
    `E().fields(["-_to"]).out()` then asks `GetVertex("")` (LookupEdgeAdjOut) and returns nothing,
    and a later `AddCurrent` files the element under `Vertex` in the path. -/
theorem preservation_fields_blanks_to (ks : List String) (hk : fieldKeys ks = ([], [["to"]]))
    (marks : MarkTypes) (t : Traveler) (h : WellShaped .edge marks t) :
    typeStep ⟨.edge, marks⟩ (.fields ks) = .ok ⟨.edge, marks⟩ ∧
    ¬ WellShaped .edge marks (stepFields ks t) ∧ PresentShaped .edge marks (stepFields ks t) := by
  have hto : ∀ e : Elem, (fieldsElem ks e).to = "" := by
    intro e; simp [fieldsElem, hk, excludeFields, exclOne]
  refine ⟨rfl, ?_, ?_⟩
  · intro hw
    obtain ⟨e, he, hne⟩ := hw.1
    obtain ⟨e0, he0, _⟩ := h.1
    rw [stepFields_eq ks t e0 he0] at he
    cases he
    exact hne (hto _)
  · exact ws_fields (E := laxTo) ks (Or.inr rfl) (fun _ => Or.inl trivial) (wellShaped_present h)

#guard fieldKeys ["-_to"] == ([], [["to"]])

def tVertexA : Traveler := { cur := some { gid := "a", label := "P" } }
def tEdgeAB : Traveler := { cur := some { gid := "e1", label := "k", frm := "a", to := "b" } }

theorem tVertexA_shaped : WellShaped .vertex [] tVertexA :=
  ⟨⟨_, rfl, rfl, rfl⟩, trivial, fun _ _ => rfl⟩
theorem tEdgeAB_shaped : WellShaped .edge [] tEdgeAB :=
  ⟨⟨_, rfl, (by decide : "b" ≠ "")⟩, trivial, fun _ _ => rfl⟩

/-- The seven statements excluded from preservation: the model gives them no meaning (the identity)
    while their typing rule changes the data type, so the identity's output is not of the new type.
    (`inNull`/`outNull` from a VERTEX happen to be fine: vertex ↦ vertex.  For `inENull`/`outENull`
    the lax shape survives — the element is present — the strict one does not.) -/
theorem preservation_fails_unmodelled :
    ∀ s ∈ [Stmt.inNull [], .outNull [], .inENull [], .outENull [], .aggregate [],
           .lookupVertsIndex [], .engineCustom "x" .vertex],
      ∃ (st st' : TState) (ts : List Traveler), typeStep st s = .ok st' ∧ MarkEnvOK st ∧
        (∀ t ∈ ts, WellShaped st.last st.marks t) ∧
        ¬ ∀ t' ∈ evalStepT numOf g st.last s ts, WellShaped st'.last st'.marks t' := by
  have envE : MarkEnvOK ⟨.edge, []⟩ := fun _ _ => rfl
  have envV : MarkEnvOK ⟨.vertex, []⟩ := fun _ _ => rfl
  have one : ∀ {P : Traveler → Prop} {t : Traveler}, P t → ∀ t' ∈ [t], P t' := by
    intro P t h t' ht'; simp only [List.mem_singleton] at ht'; subst ht'; exact h
  intro s hs
  simp only [List.mem_cons, List.not_mem_nil, or_false] at hs
  rcases hs with rfl | rfl | rfl | rfl | rfl | rfl | rfl
  · refine ⟨⟨.edge, []⟩, ⟨.vertex, []⟩, [tEdgeAB], rfl, envE, one tEdgeAB_shaped, fun h => ?_⟩
    obtain ⟨e, he, _, hto⟩ := (h tEdgeAB (by simp [evalStepT])).1
    cases he; revert hto; decide
  · refine ⟨⟨.edge, []⟩, ⟨.vertex, []⟩, [tEdgeAB], rfl, envE, one tEdgeAB_shaped, fun h => ?_⟩
    obtain ⟨e, he, _, hto⟩ := (h tEdgeAB (by simp [evalStepT])).1
    cases he; revert hto; decide
  · refine ⟨⟨.vertex, []⟩, ⟨.edge, []⟩, [tVertexA], rfl, envV, one tVertexA_shaped, fun h => ?_⟩
    obtain ⟨e, he, hto⟩ := (h tVertexA (by simp [evalStepT])).1
    cases he; exact hto rfl
  · refine ⟨⟨.vertex, []⟩, ⟨.edge, []⟩, [tVertexA], rfl, envV, one tVertexA_shaped, fun h => ?_⟩
    obtain ⟨e, he, hto⟩ := (h tVertexA (by simp [evalStepT])).1
    cases he; exact hto rfl
  · refine ⟨⟨.vertex, []⟩, ⟨.aggregation, []⟩, [tVertexA], rfl, envV, one tVertexA_shaped, fun h => ?_⟩
    have := (h tVertexA (by simp [evalStepT])).1
    cases this
  · refine ⟨{}, ⟨.vertex, []⟩, [Traveler.seed], rfl, markEnv_init, one seed_shaped, fun h => ?_⟩
    obtain ⟨e, he, _⟩ := (h Traveler.seed (by simp [evalStepT])).1
    cases he
  · refine ⟨{}, ⟨.vertex, []⟩, [Traveler.seed], rfl, markEnv_init, one seed_shaped, fun h => ?_⟩
    obtain ⟨e, he, _⟩ := (h Traveler.seed (by simp [evalStepT])).1
    cases he

/-- Why the marks clause of `WellShaped` is tied to `carriesMarks`: `count` (like `render` and the
    several-mark `select`) emits a FRESH traveler, so a mark the static environment still records is
    gone — `V().as("a").count()`.  (No statement leads from these types back to an element type,
    so no well-typed traversal can read such a mark.) -/
theorem strict_marks_not_preserved :
    typeStep ⟨.vertex, [("a", .vertex)]⟩ .count = .ok ⟨.count, [("a", .vertex)]⟩ ∧
    ∀ ts, ∀ t' ∈ evalStepT numOf g .vertex .count ts, ¬ MarksShaped strictTo [("a", .vertex)] t' := by
  refine ⟨rfl, fun ts t' ht' hm => ?_⟩
  have : t' = { count := ts.length } := by simpa [evalStepT] using ht'
  subst this
  have h := hm "a"
  have hg : MarkTypes.get [("a", DataType.vertex)] "a" = .vertex := by decide
  rw [hg] at h
  obtain ⟨e, he, _⟩ := h
  cases he

def stBad : TState := ⟨.vertex, [("s", .selection)]⟩
def tBad : Traveler := { cur := some { gid := "a" }, marks := [("s", none)] }

/-- Without `MarkEnvOK`: in a static state no typing fold produces (an element type in front, a
    mark recorded with type `selection`), single-mark `select` moves to the mark's (nil) element and
    announces type `selection`, but the traveler carries no selections. -/
theorem preservation_needs_markEnv :
    typeStep stBad (.select ["s"]) = .ok ⟨.selection, [("s", .selection)]⟩ ∧
    WellShaped stBad.last stBad.marks tBad ∧ ¬ MarkEnvOK stBad ∧
    ¬ ∀ t' ∈ evalStepT numOf g .vertex (.select ["s"]) [tBad], WellShaped .selection stBad.marks t' := by
  have hg : ∀ m, MarkTypes.get [("s", DataType.selection)] m = if m = "s" then .selection else .noData :=
    fun m => get_set [] "s" m .selection
  refine ⟨?_, ⟨⟨_, rfl, rfl, rfl⟩, trivial, fun _ m => ?_⟩, ?_, ?_⟩
  · have : MarkTypes.get [("s", DataType.selection)] "s" = .selection := by decide
    simp [stBad, typeStep, needElement, this]
  · show ElemOfKind strictTo (MarkTypes.get [("s", DataType.selection)] m) (tBad.getMark m)
    rw [hg]
    split
    · next h => subst h; rfl
    · next h =>
      show tBad.getMark m = none
      have : ("s" == m) = false := by rw [beq_eq_false_iff_ne]; exact fun h' => h h'.symm
      simp [Traveler.getMark, tBad, this]
  · intro h
    have := h rfl "s"
    have hs : MarkTypes.get stBad.marks "s" = .selection := by decide
    rw [hs] at this
    cases this
  · intro h
    obtain ⟨s, hs, _⟩ := (h (stepSelect ["s"] tBad) (by simp [evalStepT])).2.1
    cases hs

/-- The strict semantics is undefined for `unwind` after a type without a current element, which
    the type checker admits (`case *gripql.GraphStatement_Unwind` checks nothing):
    `V().count().unwind("x")` is well typed and the input is well shaped.  The code (and, since
    session 3, the model) passes such a traveler on unchanged — `Unwind.Process`:
    `if t.IsNull() { out <- t; continue }`, after the fix "processors tolerate travelers without a
    current element" — so this is the one totality branch of `stepUnwind` that well-typed programs
    do reach. -/
theorem progress_fails_unwind_after_count :
    typeStep ⟨.count, []⟩ (.unwind "x") = .ok ⟨.count, []⟩ ∧
    WellShaped .count [] { count := 3 } ∧
    evalStepStrict numOf g .count (.unwind "x") [{ count := 3 }] = none ∧
    evalStepT numOf g .count (.unwind "x") [{ count := 3 }] = [{ count := 3 }] :=
  ⟨rfl, ⟨rfl, trivial, fun h => by cases h⟩, rfl, rfl⟩

/-- … and the whole traversal `V().count().unwind("x")`: accepted, and the answer is the count row
    (model = code; the correspondence run now generates such programs). -/
theorem unwind_after_count_run :
    run numOf g [.V [], .count, .unwind "x"] = .ok [Row.count (stepV g [] Traveler.seed).length] := by
  simp [run, typeCheck, validate, typeFold, typeStep, evalFrom, evalStepT, stepUnwind, convert]

/-- PROGRESS fails for `select` of a mark that was never recorded (the compiler types it `NoData`
    instead of rejecting it): the nil mark is taken. -/
theorem progress_fails_select_undefined_mark :
    typeStep ⟨.vertex, []⟩ (.select ["zz"]) = .ok ⟨.noData, []⟩ ∧
    WellShaped .vertex [] tVertexA ∧
    evalStepStrict numOf g .vertex (.select ["zz"]) [tVertexA] = none ∧
    (evalStepT numOf g .vertex (.select ["zz"]) [tVertexA]).map (convert ⟨.noData, []⟩) = [Row.nil] :=
  ⟨rfl, tVertexA_shaped, rfl, rfl⟩

/-- PROGRESS fails for a `has` whose key names a mark that is nil in the traveler (for instance one
    never recorded — the compiler does not look into field references): the condition is evaluated
    against the dictionary of an empty element. -/
theorem progress_fails_has_undefined_mark (p ns : String) (c : C08.Cond) (a : JV) (t : Traveler)
    (hp : Path.namespaceOf p = some ns) (hns : (ns == currentNamespace) = false)
    (hm : t.getMark ns = none) (marks : MarkTypes) :
    typeStep ⟨.vertex, marks⟩ (.has (.cond p c a)) = .ok ⟨.vertex, marks⟩ ∧
    evalStepStrict numOf g .vertex (.has (.cond p c a)) [t] = none ∧
    t.doc p = Path.nilDict := by
  refine ⟨rfl, ?_, ?_⟩
  · have : valueS t p = none := by simp [valueS, refElem, hp, hns, hm]
    simp [evalStepStrict, filterS, allDefined, evalHasS, this]
  · simp [Traveler.doc, hp, hns, hm, elemDict]

#guard Path.namespaceOf "$zz.x" == some "zz"
#guard ("zz" == currentNamespace) == false

/-! ### non-vacuity (tests: the hypotheses of the main theorems are satisfiable) -/

theorem gEx_edgesHaveTo : EdgesHaveTo gEx := by
  unfold EdgesHaveTo gEx; simp

/-- test of `preservation`: `outE` from vertex `a` of `gEx` — two travelers, both well-shaped edges -/
example : (evalStepT (fun _ => none) gEx .vertex (.outE []) [tVertexA]).length = 2 ∧
    ∀ t' ∈ evalStepT numOf gEx .vertex (.outE []) [tVertexA], WellShaped .edge [] t' :=
  ⟨by decide, preservation numOf gEx (st := ⟨.vertex, []⟩) (st' := ⟨.edge, []⟩) (s := .outE []) (ts := [tVertexA]) gEx_edgesHaveTo (fun h => (by cases h))
    (fun _ _ => rfl) rfl rfl
    (fun t ht => by simp only [List.mem_singleton] at ht; subst ht; exact tVertexA_shaped)⟩

def tEdgeMarked : Traveler :=
  { cur := some { gid := "e1", label := "k", frm := "a", to := "b" },
    marks := [("a", some { gid := "a", label := "P" })] }

/-- test of `preservation` on marks: single-mark `select(["a"])` from an edge, with the static
    environment `V().as("a").outE()` produces (`as` itself: see the `#guard` below — `typeStep` on
    `as` calls `validFieldName`, whose string functions do not reduce in the kernel) -/
example : typeStep ⟨.edge, [("a", .vertex)]⟩ (.select ["a"]) = .ok ⟨.vertex, [("a", .vertex)]⟩ ∧
    WellShaped .edge [("a", .vertex)] tEdgeMarked ∧
    ∀ t' ∈ evalStepT numOf gEx .edge (.select ["a"]) [tEdgeMarked], WellShaped .vertex [("a", .vertex)] t' := by
  have hg : ∀ m, MarkTypes.get [("a", DataType.vertex)] m = if m = "a" then .vertex else .noData :=
    fun m => get_set [] "a" m .vertex
  have hm : ∀ m, tEdgeMarked.getMark m = if m = "a" then some { gid := "a", label := "P" } else none :=
    fun m => getMark_addMark { cur := tEdgeMarked.cur } "a" m (some { gid := "a", label := "P" })
  have h1 : typeStep ⟨.edge, [("a", .vertex)]⟩ (.select ["a"]) = .ok ⟨.vertex, [("a", .vertex)]⟩ := by
    simp [typeStep, needElement, hg]
  have hw : WellShaped .edge [("a", .vertex)] tEdgeMarked := by
    refine ⟨⟨_, rfl, (by decide : "b" ≠ "")⟩, trivial, fun _ m => ?_⟩
    show ElemOfKind strictTo (MarkTypes.get [("a", DataType.vertex)] m) (tEdgeMarked.getMark m)
    rw [hg, hm]
    split
    · exact ⟨_, rfl, rfl, rfl⟩
    · rfl
  have henv : MarkEnvOK ⟨.edge, [("a", .vertex)]⟩ := by
    intro _ m
    show carriesMarks (MarkTypes.get [("a", DataType.vertex)] m) = true
    rw [hg]; split <;> rfl
  exact ⟨h1, hw, preservation numOf gEx (st := ⟨.edge, [("a", .vertex)]⟩) (st' := ⟨.vertex, [("a", .vertex)]⟩) (s := .select ["a"])
    (ts := [tEdgeMarked]) gEx_edgesHaveTo (fun _ => trivial) henv rfl h1
    (fun t ht => by simp only [List.mem_singleton] at ht; subst ht; exact hw)⟩

#guard (match typeStep ⟨.vertex, []⟩ (.as_ "a") with
  | .ok st => st == ⟨.vertex, [("a", .vertex)]⟩ | .error _ => false)

/-- test of `progress`: `out` on a vertex traveler and on an edge traveler -/
example : evalStepStrict numOf gEx .vertex (.out []) [tVertexA] =
    some (evalStepT numOf gEx .vertex (.out []) [tVertexA]) :=
  progress numOf gEx (st := ⟨.vertex, []⟩) (st' := ⟨.vertex, []⟩) (s := .out []) (ts := [tVertexA]) rfl
    ⟨rfl, fun _ h => (by cases h), fun _ h => (by cases h), fun h => (by cases h)⟩
    (fun t ht => by simp only [List.mem_singleton] at ht; subst ht
                    exact wellShaped_present tVertexA_shaped)

example : (evalStepStrict (fun _ => none) gEx .edge (.out []) [tEdgeAB]).map List.length = some 1 := by
  rw [progress (fun _ => none) gEx (st := ⟨.edge, []⟩) (st' := ⟨.vertex, []⟩) (s := .out []) (ts := [tEdgeAB]) rfl
    ⟨rfl, fun _ h => (by cases h), fun _ h => (by cases h), fun h => (by cases h)⟩
    (fun t ht => by simp only [List.mem_singleton] at ht; subst ht
                    exact wellShaped_present tEdgeAB_shaped)]
  decide

/-- a statement without field references or mark names, other than `unwind`, is statically fine -/
theorem staticOK_of_norefs {st : TState} {s : Stmt} (hd : s.kind.documented = true)
    (hr : stmtRefs s = []) (hm : stmtMarks s = []) (hu : s.kind ≠ .unwind) : StaticOK st s :=
  ⟨hd, fun p hp => (by rw [hr] at hp; cases hp), fun m h => (by rw [hm] at h; cases h),
    fun h => absurd h hu⟩

def progEx : List Stmt := [.V [], .outE ["k"], .in_ [], .hasLabel ["P"], .both [], .limit 3, .count]

/-- test of the whole-program theorems on `V().outE("k").in().hasLabel("P").both().limit(3).count()` -/
example : typeCheck progEx = .ok { last := .count } ∧
    (∀ p ∈ evalTrace numOf gEx {} [Traveler.seed] progEx, ∀ t ∈ p.2, WellShaped p.1.last p.1.marks t) ∧
    evalFromStrict numOf gEx {} [Traveler.seed] progEx = some (evalFrom numOf gEx {} [Traveler.seed] progEx) := by
  have hm : ∀ s ∈ progEx, shapeModelled s = true := by decide
  refine ⟨rfl, trace_well_shaped numOf gEx progEx gEx_edgesHaveTo hm ?_,
    run_progress numOf gEx progEx _ rfl ?_⟩
  · intro s hs
    simp only [progEx, List.mem_cons, List.not_mem_nil, or_false] at hs
    rcases hs with rfl | rfl | rfl | rfl | rfl | rfl | rfl <;> trivial
  · refine alongTyping_of_forall _ _ (fun s hs st => ?_)
    simp only [progEx, List.mem_cons, List.not_mem_nil, or_false] at hs
    rcases hs with rfl | rfl | rfl | rfl | rfl | rfl | rfl <;>
      exact staticOK_of_norefs rfl rfl rfl (by decide)

/-- … and the traversal does produce travelers along the way (the trace is not all empty) -/
example : (evalFrom (fun _ => none) gEx {} [Traveler.seed] [.V [], .outE ["k"], .in_ []]).length = 3 := by
  decide

end Grip.Props.C01
