/-
  Property C07, composition — `both` and `aggregate` EMBEDDED in a pipeline, and `aggregate` with
  any number of aggregations.

  Grip.Props.C07 proves termination of a linear chain, of the `both` stage and of the aggregate
  fan-out (k = 2) each standing alone.  Here:

    * `aggregate_fanout_k_terminates` — the fan-out for ANY k ≥ 1 aggregations, standing alone,
      with a bound in ℕ on the number of steps;
    * `composition_terminates` — the composition theorem: components that are well behaved on
      their own (`Good`: invariant, channel protocol, local progress, a well-founded measure that
      each of their own moves decreases) are well behaved when wired one behind the other, for all
      capacities; `composition_bounded` — the same with measures in ℕ (`GoodN`);
    * `chain_is_component`, `both_is_component`, `aggregate_is_component` — the stages of the
      engine are such components; `chain_open_closed_agree` — the open chain IS the chain of
      Grip.Model.C07;
    * `stage_between_chains_terminates`, `chain_both_chain_terminates`,
      `chain_aggregate_chain_terminates` (both with explicit bounds in ℕ), `both_then_chain_terminates`
      — the shapes `chain · stage · chain` and `source → both → chain → client`;
    * `aggregate_orphan_channel_deadlocks` — a counterexample: an aggregation for which no worker
      is started (aggregate.Process, `default:` branch) makes the stage hang.

  What "terminates standing alone" means here.  The hypothesis of the composition theorem is the
  certificate `Good` — exactly what the stand-alone proofs of Grip.Props.C07 establish (an
  invariant, a measure every step decreases, and: a stage that can do nothing is finished or waits
  for input on an open channel with room).  `good_terminates_alone` shows that the certificate
  implies termination standing alone.  A hypothesis that only says "every closed run with this
  stage ends" is NOT what is composed: such a statement gives no measure for the composition.
-/
import GripProofs.Props.C07
import GripProofs.Lemmas.C07CompChain
import GripProofs.Lemmas.C07CompBoth
import GripProofs.Lemmas.C07CompAggN
import GripProofs.Lemmas.C07CompAggChain

namespace Grip.Props.C07
open Grip.C07 Grip.Props.C07.Lemmas

/-! ## the composition theorem -/

/-- a well-behaved component terminates standing alone (source that sends any list and closes,
    client that keeps reading): no reachable deadlock, a final state stays reachable, no infinite
    execution -/
theorem good_terminates_alone {α : Type} {C : Comp α} (G : Good C) (input : List α) (s0 : C.σ)
    (h0 : G.inv s0) (hc : C.closed s0 = false) :
    (∀ s, Reach (SysStep C) (sysInit C input s0) s → (∀ s', ¬ SysStep C s s') → SysFinal s) ∧
    (∀ s, Reach (SysStep C) (sysInit C input s0) s → ∃ t, Reach (SysStep C) s t ∧ SysFinal t) ∧
    (¬ ∃ run : Nat → SysS C, run 0 = sysInit C input s0 ∧ ∀ i, SysStep C (run i) (run (i + 1))) :=
  sys_terminates G input s0 h0 hc

/-- `composition_terminates`: three well-behaved components wired one behind the other
    (`P` feeds `M` feeds `S`; every channel bounded) form a system that terminates for every input:
    (1) a reachable state in which nothing can move is final (everything sent, every channel closed);
    (2) a final state is reachable from every reachable state;
    (3) there is no infinite execution, whatever the schedule. -/
theorem composition_terminates {α : Type} {P M S : Comp α} (GP : Good P) (GM : Good M) (GS : Good S)
    (p0 : P.σ) (m0 : M.σ) (s0 : S.σ) (input : List α)
    (hp : GP.inv p0) (hm : GM.inv m0) (hs : GS.inv s0)
    (hpc : P.closed p0 = false) (hmc : M.closed m0 = false) (hsc : S.closed s0 = false)
    (hpe : P.ended p0 = false) (hme : M.ended m0 = false) :
    let C := P.seq (M.seq S)
    let init := sysInit C input (p0, (m0, s0))
    (∀ s, Reach (SysStep C) init s → (∀ s', ¬ SysStep C s s') → SysFinal s) ∧
    (∀ s, Reach (SysStep C) init s → ∃ t, Reach (SysStep C) s t ∧ SysFinal t) ∧
    (¬ ∃ run : Nat → SysS C, run 0 = init ∧ ∀ i, SysStep C (run i) (run (i + 1))) := by
  intro C init
  have hinv : (GP.seq (GM.seq GS)).inv (p0, (m0, s0)) :=
    ⟨hp, ⟨hm, hs, by rw [hsc, hme]⟩, by show M.closed m0 = P.ended p0; rw [hmc, hpe]⟩
  exact sys_terminates (GP.seq (GM.seq GS)) input (p0, (m0, s0)) hinv hpc

/-- `composition_bounded`: with measures in ℕ (each component measured relative to what its outputs
    still cost behind it) no execution of the composed system has more than `sysW` steps. -/
theorem composition_bounded {α : Type} {P M S : Comp α} (NP : GoodN P) (NM : GoodN M) (NS : GoodN S)
    (p0 : P.σ) (m0 : M.σ) (s0 : S.σ) (input : List α)
    (hp : NP.inv p0) (hm : NM.inv m0) (hs : NS.inv s0)
    (hpc : P.closed p0 = false) (hmc : M.closed m0 = false) (hsc : S.closed s0 = false)
    (hpe : P.ended p0 = false) (hme : M.ended m0 = false)
    (run : Nat → SysS (P.seq (M.seq S))) (k : Nat)
    (hr0 : run 0 = sysInit (P.seq (M.seq S)) input (p0, (m0, s0)))
    (hrun : ∀ i, i < k → SysStep (P.seq (M.seq S)) (run i) (run (i + 1))) :
    k ≤ sysW (NP.seq (NM.seq NS)) (sysInit (P.seq (M.seq S)) input (p0, (m0, s0))) := by
  have hinv : (NP.seq (NM.seq NS)).inv (p0, (m0, s0)) :=
    ⟨hp, ⟨hm, hs, by rw [hsc, hme]⟩, by show M.closed m0 = P.ended p0; rw [hmc, hpe]⟩
  exact sys_bounded (NP.seq (NM.seq NS)) input (p0, (m0, s0)) hinv hpc run k hr0 hrun

/-! ## the stages of the engine are well-behaved components -/

/-- the open chain is the chain of Grip.Model.C07: same moves, the last stage's action labelled -/
theorem chain_open_closed_agree {α : Type} (cs cs' : List (Cell α)) :
    Step cs cs' ↔ ∃ a, OStep cs a cs' :=
  ⟨step_ostep, fun ⟨_, h⟩ => ostep_step h⟩

/-- … and its weighted measure is `mu` when nothing is owed behind it -/
theorem chain_measure_agrees {α : Type} (cs : List (Cell α)) : muD d0 cs = mu cs := muD_zero cs

/-- a chain of stages with stage functions `fs` (any positive capacities) -/
def chain_is_component {α : Type} (fs : List (α → List α)) : GoodN (chainC α) := chainGoodN fs

/-- `both.Process` as deployed, with any two well-behaved branches and any positive input capacity -/
def both_is_component {α : Type} {C0 C1 : Comp α} (N0 : GoodN C0) (N1 : GoodN C1) (cap : Nat)
    (hcap : 0 < cap) (sig : α → Bool) : GoodN (bothC C0 C1 cap sig) := bothGoodN N0 N1 cap hcap sig

/-- `aggregate.Process` with any number of aggregations and any positive capacities -/
def aggregate_is_component (α : Type) (cap : Nat) (hcap : 0 < cap) (sig : α → Bool) :
    Good (aggC α cap sig) := aggGood α cap hcap sig

/-- the stage functions of a list of (capacity, stage function) -/
abbrev stageFs {α : Type} (st : List (Nat × (α → List α))) : List (α → List α) := st.map (fun s => s.2)

/-! ## a stage between two chains -/

/-- `stage_between_chains_terminates`: ANY well-behaved stage `M` placed between a chain prefix and
    a chain suffix (any number of stages ≥ 1 each, any positive capacities, any finite fan-outs)
    terminates for every input: no reachable deadlock, final state reachable, no infinite run. -/
theorem stage_between_chains_terminates {α : Type} {M : Comp α} (GM : Good M) (m0 : M.σ)
    (hm : GM.inv m0) (hmc : M.closed m0 = false) (hme : M.ended m0 = false)
    (pre suf : List (Nat × (α → List α))) (hpre : pre ≠ []) (hsuf : suf ≠ [])
    (hppos : ∀ s ∈ pre, 0 < s.1) (hspos : ∀ s ∈ suf, 0 < s.1) (input : List α) :
    let C := (chainC α).seq (M.seq (chainC α))
    let init := sysInit C input (emptyChain pre, (m0, emptyChain suf))
    (∀ s, Reach (SysStep C) init s → (∀ s', ¬ SysStep C s s') → SysFinal s) ∧
    (∀ s, Reach (SysStep C) init s → ∃ t, Reach (SysStep C) s t ∧ SysFinal t) ∧
    (¬ ∃ run : Nat → SysS C, run 0 = init ∧ ∀ i, SysStep C (run i) (run (i + 1))) :=
  composition_terminates (chainGoodN (stageFs pre)).toGood GM (chainGoodN (stageFs suf)).toGood
    (emptyChain pre) m0 (emptyChain suf) input
    (chainInv_empty pre hppos hpre) hm (chainInv_empty suf hspos hsuf)
    (closed_emptyChain pre hpre) hmc (closed_emptyChain suf hsuf)
    (lastDone_emptyChain pre hpre) hme

/- FULL STATEMENT (semantic hypothesis), NOT PROVED:

     theorem composition_semantic {α} (M : Comp α) (m0 : M.σ)
         (halone : ∀ input,
            (∀ s, Reach (SysStep M) (sysInit M input m0) s → (∀ s', ¬ SysStep M s s') → SysFinal s) ∧
            (¬ ∃ run : Nat → SysS M, run 0 = sysInit M input m0 ∧ ∀ i, SysStep M (run i) (run (i + 1))))
         (pre suf …) (input) :
         -- the three conclusions of `stage_between_chains_terminates`

   i.e. with "M terminates standing alone" as a bare statement about its closed runs instead of the
   certificate `Good M`.  What is proved (`composition_semantic_partial` = the same conclusion from
   the certificate) differs exactly in the hypothesis.  Missing: the construction of a certificate
   from `halone` — an invariant (reachability in some closed run), local progress (from deadlock
   freedom against the environment that withholds input and refuses output) and a measure (from
   the absence of infinite runs one only gets a well-founded order on reachable states by a
   König/dependent-choice argument over infinite runs of the composition projected to runs of `M`,
   and no bound in ℕ at all).  Every stage of the engine that is modelled comes with its
   certificate (`chain_is_component`, `both_is_component`, `aggregate_is_component`), so nothing
   in the pipeline depends on the missing direction. -/
theorem composition_semantic_partial {α : Type} {M : Comp α} (GM : Good M) (m0 : M.σ)
    (hm : GM.inv m0) (hmc : M.closed m0 = false) (hme : M.ended m0 = false)
    (pre suf : List (Nat × (α → List α))) (hpre : pre ≠ []) (hsuf : suf ≠ [])
    (hppos : ∀ s ∈ pre, 0 < s.1) (hspos : ∀ s ∈ suf, 0 < s.1) (input : List α) :
    let C := (chainC α).seq (M.seq (chainC α))
    let init := sysInit C input (emptyChain pre, (m0, emptyChain suf))
    (∀ s, Reach (SysStep C) init s → (∀ s', ¬ SysStep C s s') → SysFinal s) ∧
    (∀ s, Reach (SysStep C) init s → ∃ t, Reach (SysStep C) s t ∧ SysFinal t) ∧
    (¬ ∃ run : Nat → SysS C, run 0 = init ∧ ∀ i, SysStep C (run i) (run (i + 1))) :=
  stage_between_chains_terminates GM m0 hm hmc hme pre suf hpre hsuf hppos hspos input

/-! ## chain · both · chain -/

/-- `source → chain → both(branch chains) → chain → client` -/
def cbcComp (α : Type) (cap : Nat) (sig : α → Bool) : Comp α :=
  (chainC α).seq ((bothC (chainC α) (chainC α) cap sig).seq (chainC α))

def cbcInit {α : Type} (cap : Nat) (sig : α → Bool) (pre br0 br1 suf : List (Nat × (α → List α))) :
    (cbcComp α cap sig).σ :=
  (emptyChain pre, (bothInit (emptyChain br0) (emptyChain br1), emptyChain suf))

def cbcCert {α : Type} (cap : Nat) (hcap : 0 < cap) (sig : α → Bool)
    (pre br0 br1 suf : List (Nat × (α → List α))) : GoodN (cbcComp α cap sig) :=
  (chainGoodN (stageFs pre)).seq
    ((bothGoodN (chainGoodN (stageFs br0)) (chainGoodN (stageFs br1)) cap hcap sig).seq
      (chainGoodN (stageFs suf)))

/-- what one input item costs: through the prefix; every result of the prefix through the feeder
    of `both`, both branches, the held-back queue, and the suffix -/
def cbcItemCost {α : Type} (sig : α → Bool) (fsP fs0 fs1 fsS : List (α → List α)) (x : α) : Nat :=
  wItemD (bothCin sig (wItemD (wItemD d0 fsS) fs0) (wItemD (heldCost (wItemD d0 fsS)) fs1) (wItemD d0 fsS)) fsP x

/-- the explicit bound: per item its sending and `cbcItemCost`; one closing step per goroutine -/
def cbcBound {α : Type} (sig : α → Bool) (pre br0 br1 suf : List (Nat × (α → List α))) (input : List α) : Nat :=
  sumMap (fun x => 1 + cbcItemCost sig (stageFs pre) (stageFs br0) (stageFs br1) (stageFs suf) x) input
  + (pre.length + br0.length + br1.length + suf.length + 3)

theorem cbc_inv_init {α : Type} (cap : Nat) (hcap : 0 < cap) (sig : α → Bool)
    (pre br0 br1 suf : List (Nat × (α → List α)))
    (hpre : pre ≠ []) (hbr0 : br0 ≠ []) (hbr1 : br1 ≠ []) (hsuf : suf ≠ [])
    (hppos : ∀ s ∈ pre, 0 < s.1) (h0pos : ∀ s ∈ br0, 0 < s.1) (h1pos : ∀ s ∈ br1, 0 < s.1)
    (hspos : ∀ s ∈ suf, 0 < s.1) :
    (cbcCert cap hcap sig pre br0 br1 suf).inv (cbcInit cap sig pre br0 br1 suf) :=
  ⟨chainInv_empty pre hppos hpre,
   ⟨bothInv_init _ _ _ _ (chainInv_empty br0 h0pos hbr0) (chainInv_empty br1 h1pos hbr1)
      (closed_emptyChain br0 hbr0) (closed_emptyChain br1 hbr1),
    chainInv_empty suf hspos hsuf, closed_emptyChain suf hsuf⟩,
   (lastDone_emptyChain pre hpre).symm⟩

theorem cbc_bound_eq {α : Type} (cap : Nat) (hcap : 0 < cap) (sig : α → Bool)
    (pre br0 br1 suf : List (Nat × (α → List α))) (input : List α) :
    sysW (cbcCert cap hcap sig pre br0 br1 suf)
      (sysInit (cbcComp α cap sig) input (cbcInit cap sig pre br0 br1 suf))
      = cbcBound sig pre br0 br1 suf input := by
  simp only [sysW, sysInit, cbcCert, GoodN.seq, bothGoodN, chainGoodN, cbcInit, bothW, bothInit,
    muD_emptyChain, sumMap, bothFhW, cbcBound, cbcItemCost]
  simp
  omega

/-- `chain_both_chain_terminates`: `both.Process` as deployed (feeder goroutine, branch 0 passed on,
    branch 1 held back) with branch chains `br0`, `br1`, placed between a chain prefix `pre` and a
    chain suffix `suf`; all capacities positive, otherwise arbitrary; any input; any schedule:
    (1) no reachable deadlock; (2) a final state is reachable from every reachable state;
    (3) no execution has more than `cbcBound` steps. -/
theorem chain_both_chain_terminates {α : Type} (cap : Nat) (hcap : 0 < cap) (sig : α → Bool)
    (pre br0 br1 suf : List (Nat × (α → List α)))
    (hpre : pre ≠ []) (hbr0 : br0 ≠ []) (hbr1 : br1 ≠ []) (hsuf : suf ≠ [])
    (hppos : ∀ s ∈ pre, 0 < s.1) (h0pos : ∀ s ∈ br0, 0 < s.1) (h1pos : ∀ s ∈ br1, 0 < s.1)
    (hspos : ∀ s ∈ suf, 0 < s.1) (input : List α) :
    let C := cbcComp α cap sig
    let init := sysInit C input (cbcInit cap sig pre br0 br1 suf)
    (∀ s, Reach (SysStep C) init s → (∀ s', ¬ SysStep C s s') → SysFinal s) ∧
    (∀ s, Reach (SysStep C) init s → ∃ t, Reach (SysStep C) s t ∧ SysFinal t) ∧
    (∀ (run : Nat → SysS C) (k : Nat), run 0 = init →
        (∀ i, i < k → SysStep C (run i) (run (i + 1))) → k ≤ cbcBound sig pre br0 br1 suf input) := by
  intro C init
  have hinv := cbc_inv_init cap hcap sig pre br0 br1 suf hpre hbr0 hbr1 hsuf hppos h0pos h1pos hspos
  have hc : C.closed (cbcInit cap sig pre br0 br1 suf) = false := closed_emptyChain pre hpre
  obtain ⟨t1, t2, _⟩ := sys_terminates (cbcCert cap hcap sig pre br0 br1 suf).toGood input _ hinv hc
  refine ⟨t1, t2, ?_⟩
  intro run k hr0 hrun
  have := sys_bounded (cbcCert cap hcap sig pre br0 br1 suf) input _ hinv hc run k hr0 hrun
  rw [cbc_bound_eq] at this
  exact this

/-! ## source → both → chain → client (no prefix) -/

/-- `source → both(branch chains) → chain → client` -/
def bcComp (α : Type) (cap : Nat) (sig : α → Bool) : Comp α :=
  (bothC (chainC α) (chainC α) cap sig).seq (chainC α)

def bcCert {α : Type} (cap : Nat) (hcap : 0 < cap) (sig : α → Bool)
    (br0 br1 suf : List (Nat × (α → List α))) : GoodN (bcComp α cap sig) :=
  (bothGoodN (chainGoodN (stageFs br0)) (chainGoodN (stageFs br1)) cap hcap sig).seq (chainGoodN (stageFs suf))

def bcBound {α : Type} (sig : α → Bool) (br0 br1 suf : List (Nat × (α → List α))) (input : List α) : Nat :=
  sumMap (fun x => 1 + bothCin sig (wItemD (wItemD d0 (stageFs suf)) (stageFs br0))
    (wItemD (heldCost (wItemD d0 (stageFs suf))) (stageFs br1)) (wItemD d0 (stageFs suf)) x) input
  + (br0.length + br1.length + suf.length + 3)

/-- `both_then_chain_terminates`: the concrete shape `source → both → sink stages → client`, with
    the explicit measure `bcBound` -/
theorem both_then_chain_terminates {α : Type} (cap : Nat) (hcap : 0 < cap) (sig : α → Bool)
    (br0 br1 suf : List (Nat × (α → List α)))
    (hbr0 : br0 ≠ []) (hbr1 : br1 ≠ []) (hsuf : suf ≠ [])
    (h0pos : ∀ s ∈ br0, 0 < s.1) (h1pos : ∀ s ∈ br1, 0 < s.1) (hspos : ∀ s ∈ suf, 0 < s.1)
    (input : List α) :
    let C := bcComp α cap sig
    let init := sysInit C input (bothInit (emptyChain br0) (emptyChain br1), emptyChain suf)
    (∀ s, Reach (SysStep C) init s → (∀ s', ¬ SysStep C s s') → SysFinal s) ∧
    (∀ s, Reach (SysStep C) init s → ∃ t, Reach (SysStep C) s t ∧ SysFinal t) ∧
    (∀ (run : Nat → SysS C) (k : Nat), run 0 = init →
        (∀ i, i < k → SysStep C (run i) (run (i + 1))) → k ≤ bcBound sig br0 br1 suf input) := by
  intro C init
  have hinv : (bcCert cap hcap sig br0 br1 suf).inv (bothInit (emptyChain br0) (emptyChain br1), emptyChain suf) :=
    ⟨bothInv_init _ _ _ _ (chainInv_empty br0 h0pos hbr0) (chainInv_empty br1 h1pos hbr1)
      (closed_emptyChain br0 hbr0) (closed_emptyChain br1 hbr1),
     chainInv_empty suf hspos hsuf, closed_emptyChain suf hsuf⟩
  have hc : C.closed (bothInit (emptyChain br0) (emptyChain br1), emptyChain suf) = false := rfl
  obtain ⟨t1, t2, _⟩ := sys_terminates (bcCert cap hcap sig br0 br1 suf).toGood input _ hinv hc
  refine ⟨t1, t2, ?_⟩
  intro run k hr0 hrun
  have := sys_bounded (bcCert cap hcap sig br0 br1 suf) input _ hinv hc run k hr0 hrun
  have he : sysW (bcCert cap hcap sig br0 br1 suf) (sysInit C input (bothInit (emptyChain br0) (emptyChain br1), emptyChain suf))
      = bcBound sig br0 br1 suf input := by
    simp only [sysW, sysInit, bcCert, GoodN.seq, bothGoodN, chainGoodN, bothW, bothInit,
      muD_emptyChain, sumMap, bothFhW, bcBound]
    simp
    omega
  rw [he] at this
  exact this

/-! ## chain · aggregate(k) · chain -/

/-- `source → chain → aggregate(k aggregations) → chain → client` -/
def cacComp (α : Type) (cap : Nat) (sig : α → Bool) : Comp α :=
  pasComp (chainC α) (chainC α) cap sig

/-- the stream a chain of stages delivers for an input: the input pushed through every stage -/
def chainStream {α : Type} (stages : List (Nat × (α → List α))) (input : List α) : List α :=
  stages.foldl (fun acc s => acc.flatMap s.2) input

/-- the explicit bound.  `F`: what every aggregation will have read — the stream the prefix
    delivers, without signals.  Per input item: its sending and its way through the prefix, every
    result of the prefix weighted by what it costs in the aggregate stage (a signal: taken, passed
    on, then the suffix; any other traveler: taken, sent into and read from each of the k
    channels).  Per aggregation: computing, its results `g F` each emitted and pushed through the
    suffix, returning.  One closing step per goroutine. -/
def cacBound {α : Type} (sig : α → Bool) (aggs : List (Nat × (List α → List α)))
    (pre suf : List (Nat × (α → List α))) (input : List α) : Nat :=
  sumMap (fun x => 1 + wItemD (aggInCost sig aggs.length (wItemD d0 (stageFs suf))) (stageFs pre) x) input
  + sumMap (fun a => sumMap (fun y => 1 + wItemD d0 (stageFs suf) y) (a.2 (nonsig sig (chainStream pre input))) + 2) aggs
  + (pre.length + suf.length + 3)

theorem cac_bound_eq {α : Type} (cap : Nat) (sig : α → Bool) (aggs : List (Nat × (List α → List α)))
    (pre suf : List (Nat × (α → List α))) (input : List α) :
    pasW (chainGoodN (stageFs pre)) (chainGoodN (stageFs suf)) sig aggs.length
        (nonsig sig ((chainDet (stageFs pre)).fut (emptyChain pre) input))
        (sysInit (pasComp (chainC α) (chainC α) cap sig) input (emptyChain pre, (aggInit aggs, emptyChain suf)))
      = cacBound sig aggs pre suf input := by
  have h : ∀ (dS : α → Nat) (F : List α) (aggs : List (Nat × (List α → List α))),
      sumMap (wkCost dS F) (aggInit aggs).ws = sumMap (fun a => sumMap (fun y => 1 + dS y) (a.2 F) + 2) aggs := by
    intro dS F aggs
    induction aggs with
    | nil => rfl
    | cons a r ih =>
      simp only [aggInit, List.map_cons, sumMap] at ih ⊢
      rw [ih]
      simp [wkCost]
  have hlen : (aggInit aggs).ws.length = aggs.length := by simp [aggInit]
  have hflags : (aggInit aggs).inbuf = [] ∧ (aggInit aggs).fh = .idle ∧ (aggInit aggs).fedClosed = false ∧
      (aggInit aggs).done = false := ⟨rfl, rfl, rfl, rfl⟩
  have hfut : (chainDet (stageFs pre)).fut (emptyChain pre) input = chainStream pre input :=
    chainFut_emptyChain pre input
  rw [hfut]
  show sumMap _ input + _ + muD _ (emptyChain pre) + aggW sig _ _ (aggInit aggs) + muD d0 (emptyChain suf) = _
  simp only [aggW, h, hlen, hflags.1, hflags.2.1, hflags.2.2.1, hflags.2.2.2, sumMap, aggFhCost,
    muD_emptyChain, cacBound]
  simp [sysInit, chainGoodN]
  omega

/-- `chain_aggregate_chain_terminates`: `aggregate.Process` with ANY number k ≥ 1 of aggregations
    (capacities and result functions arbitrary) between a chain prefix and a chain suffix (any
    number of stages ≥ 1, any positive capacities, any finite fan-outs), any input, any schedule:
    (1) no reachable deadlock; (2) a final state is reachable from every reachable state;
    (3) no execution has more than `cacBound` steps. -/
theorem chain_aggregate_chain_terminates {α : Type} (cap : Nat) (hcap : 0 < cap) (sig : α → Bool)
    (aggs : List (Nat × (List α → List α))) (hne : aggs ≠ []) (hapos : ∀ a ∈ aggs, 0 < a.1)
    (pre suf : List (Nat × (α → List α))) (hpre : pre ≠ []) (hsuf : suf ≠ [])
    (hppos : ∀ s ∈ pre, 0 < s.1) (hspos : ∀ s ∈ suf, 0 < s.1) (input : List α) :
    let C := cacComp α cap sig
    let init := sysInit C input (emptyChain pre, (aggInit aggs, emptyChain suf))
    (∀ s, Reach (SysStep C) init s → (∀ s', ¬ SysStep C s s') → SysFinal s) ∧
    (∀ s, Reach (SysStep C) init s → ∃ t, Reach (SysStep C) s t ∧ SysFinal t) ∧
    (∀ (run : Nat → SysS C) (k : Nat), run 0 = init →
        (∀ i, i < k → SysStep C (run i) (run (i + 1))) → k ≤ cacBound sig aggs pre suf input) := by
  intro C init
  obtain ⟨t1, t2, _⟩ := stage_between_chains_terminates (aggGood α cap hcap sig) (aggInit aggs)
    (aggInv_init aggs hne hapos) rfl rfl pre suf hpre hsuf hppos hspos input
  refine ⟨t1, t2, ?_⟩
  intro run k hr0 hrun
  have := pas_bounded (chainGoodN (stageFs pre)) (chainDet (stageFs pre)) (chainGoodN (stageFs suf))
    cap hcap sig aggs hne hapos (emptyChain pre) (emptyChain suf) input
    (chainInv_empty pre hppos hpre) (chainInv_empty suf hspos hsuf)
    (closed_emptyChain pre hpre) (closed_emptyChain suf hsuf) (lastDone_emptyChain pre hpre)
    run k hr0 hrun
  rw [cac_bound_eq] at this
  exact this

/-- the same bound for ANY prefix whose output stream is determined by its input (`Det`) and ANY
    suffix, both with measures in ℕ: `pas_bounded` (Lemmas.C07CompAggChain). -/
theorem prefix_aggregate_suffix_bounded {α : Type} {P S : Comp α} (NP : GoodN P) (DP : Det P NP.toLaws)
    (NS : GoodN S) (cap : Nat) (hcap : 0 < cap) (sig : α → Bool) (aggs : List (Nat × (List α → List α)))
    (hne : aggs ≠ []) (hapos : ∀ a ∈ aggs, 0 < a.1) (p0 : P.σ) (q0 : S.σ) (input : List α)
    (hp : NP.inv p0) (hq : NS.inv q0) (hpc : P.closed p0 = false) (hqc : S.closed q0 = false)
    (hpe : P.ended p0 = false)
    (run : Nat → SysS (pasComp P S cap sig)) (n : Nat)
    (hr0 : run 0 = sysInit (pasComp P S cap sig) input (p0, (aggInit aggs, q0)))
    (hrun : ∀ i, i < n → SysStep (pasComp P S cap sig) (run i) (run (i + 1))) :
    n ≤ pasW NP NS sig aggs.length (nonsig sig (DP.fut p0 input))
          (sysInit (pasComp P S cap sig) input (p0, (aggInit aggs, q0))) :=
  pas_bounded NP DP NS cap hcap sig aggs hne hapos p0 q0 input hp hq hpc hqc hpe run n hr0 hrun

/-! ## aggregate with k aggregations, standing alone -/

/-- the explicit bound: every item is sent and taken by the feeder; a signal is passed on, any
    other item is sent into and read from each of the k channels; every worker computes, emits
    its results (a function of the input without signals) and returns; three closing steps -/
def aggBound {α : Type} (sig : α → Bool) (aggs : List (Nat × (List α → List α))) (input : List α) : Nat :=
  sumMap (aggTodoCost sig aggs.length d0) input
  + sumMap (fun a => (a.2 (nonsig sig input)).length + 2) aggs + 3

theorem agg_bound_eq {α : Type} (cap : Nat) (sig : α → Bool) (aggs : List (Nat × (List α → List α)))
    (input : List α) :
    aggSysW sig (nonsig sig input) (sysInit (aggC α cap sig) input (aggInit aggs)) = aggBound sig aggs input := by
  have hone : ∀ xs : List α, sumMap (fun y => 1 + d0 y) xs = xs.length := by
    intro xs
    induction xs with
    | nil => rfl
    | cons x xs ih => simp only [sumMap, List.length_cons]; rw [ih]; simp [d0]; omega
  have h : ∀ (F : List α) (aggs : List (Nat × (List α → List α))),
      sumMap (wkCost d0 F) (aggInit aggs).ws = sumMap (fun a => (a.2 F).length + 2) aggs := by
    intro F aggs
    induction aggs with
    | nil => rfl
    | cons a r ih =>
      simp only [aggInit, List.map_cons, sumMap] at ih ⊢
      rw [ih]
      simp [wkCost, hone]
  have hlen : (aggInit aggs).ws.length = aggs.length := by simp [aggInit]
  have hflags : (aggInit aggs).inbuf = [] ∧ (aggInit aggs).fh = .idle ∧ (aggInit aggs).fedClosed = false ∧
      (aggInit aggs).done = false := ⟨rfl, rfl, rfl, rfl⟩
  simp only [aggSysW, sysInit, aggW, aggBound, h, hlen, hflags.1, hflags.2.1, hflags.2.2.1, hflags.2.2.2,
    sumMap, aggFhCost]
  simp
  omega

/-- `aggregate_fanout_k_terminates`: aggregate.Process with ANY number k ≥ 1 of aggregations — one
    feeder goroutine sending every traveler into k bounded channels, k workers each draining its
    channel completely and then emitting finitely many results into the shared output, the output
    closed when all have returned — fed by a source and read by a client, for all positive
    capacities, all inputs, all result functions, all schedules:
    (1) a reachable state in which nothing can move is final;
    (2) a final state is reachable from every reachable state;
    (3) no execution has more than `aggBound` steps. -/
theorem aggregate_fanout_k_terminates {α : Type} (cap : Nat) (hcap : 0 < cap) (sig : α → Bool)
    (aggs : List (Nat × (List α → List α))) (hne : aggs ≠ []) (hapos : ∀ a ∈ aggs, 0 < a.1)
    (input : List α) :
    let C := aggC α cap sig
    let init := sysInit C input (aggInit aggs)
    (∀ s, Reach (SysStep C) init s → (∀ s', ¬ SysStep C s s') → SysFinal s) ∧
    (∀ s, Reach (SysStep C) init s → ∃ t, Reach (SysStep C) s t ∧ SysFinal t) ∧
    (∀ (run : Nat → SysS C) (k : Nat), run 0 = init →
        (∀ i, i < k → SysStep C (run i) (run (i + 1))) → k ≤ aggBound sig aggs input) := by
  intro C init
  obtain ⟨t1, t2, _⟩ := sys_terminates (aggGood α cap hcap sig) input (aggInit aggs)
    (aggInv_init aggs hne hapos) rfl
  refine ⟨t1, t2, ?_⟩
  intro run k hr0 hrun
  have hinit := aggsys_inv_init cap hcap sig input aggs hne hapos
  have := (run_bounded_inv (SysStep C) (AggSysInv cap hcap sig (nonsig sig input))
    (aggSysW sig (nonsig sig input)) (fun a b hi hs => aggsys_inv_step hi hs)
    (fun a b hi hs => aggsys_dec hi hs) run k (by rw [hr0]; exact hinit) hrun).2
  rw [hr0, agg_bound_eq] at this
  omega

/-! ## what the hypothesis "one worker per channel" is for

  `aggInit` starts one worker goroutine per channel.  aggregate.Process does so in a `switch` on the
  kind of the aggregation whose `default:` branch logs "unknown aggregation type" and CONTINUES:
  an aggregation without a kind (the protobuf oneof left unset, e.g. `{"name": "x"}`) gets a
  channel (`aChans[a.Name] = make(chan …, 1000)`) that the feeder writes every traveler to and that
  nobody reads.  In the model that is a worker that has already returned on an open channel. -/

/-- an aggregate stage with one channel (capacity 1) that no goroutine reads -/
def orphanAgg : AggS Nat :=
  { inbuf := [], inClosed := false, fh := .idle, fedClosed := false, done := false,
    ws := [{ cap := 1, g := fun _ => [], buf := [], seen := [], hand := [], chClosed := false, ph := .stopped }] }

/-- the state after the channel has taken one traveler and the feeder holds the next -/
def orphanStuck : SysS (aggC Nat 1 (fun _ => false)) :=
  { todo := [], srcClosed := true,
    st := ({ inbuf := [], inClosed := true, fh := .fan 1 0, fedClosed := false, done := false,
             ws := [{ cap := 1, g := fun _ => [], buf := [0], seen := [], hand := [], chClosed := false, ph := .stopped }] } : AggS Nat) }

/-- COUNTEREXAMPLE (to "the aggregate stage terminates whatever the list of aggregations"): with a
    channel nobody reads, capacity + 1 travelers suffice for a reachable state in which nothing can
    move and the output is not closed.  In the code: aggregate.Process, `default:` branch of the
    switch over `a.Aggregation.(type)`; input: an aggregation with no kind and more travelers than
    `bufferSize` = 1000. -/
theorem aggregate_orphan_channel_deadlocks :
    Reach (SysStep (aggC Nat 1 (fun _ => false))) (sysInit _ [0, 1] orphanAgg) orphanStuck ∧
    (∀ s', ¬ SysStep (aggC Nat 1 (fun _ => false)) orphanStuck s') ∧ ¬ SysFinal orphanStuck := by
  refine ⟨?_, ?_, ?_⟩
  · have r1 := Reach.step (Reach.refl (sysInit (aggC Nat 1 (fun _ => false)) [0, 1] orphanAgg))
      (SysStep.feed (t := 0) (ts := [1]) rfl (by show (0 : Nat) < 1; decide))
    have r2 := Reach.step r1 (SysStep.tau (AggTau.take (sig := fun _ => false) (t := 0) (ts := []) rfl rfl))
    have r3 := Reach.step r2 (SysStep.tau (AggTau.push (sig := fun _ => false) (t := 0) (i := 0) (l := []) (r := [])
        (w := { cap := 1, g := fun _ => [], buf := [], seen := [], hand := [], chClosed := false, ph := .stopped })
        rfl rfl rfl (by show (0 : Nat) < 1; decide)))
    have r4 := Reach.step r3 (SysStep.feed (t := 1) (ts := []) rfl (by show (0 : Nat) < 1; decide))
    have r5 := Reach.step r4 (SysStep.tau (AggTau.take (sig := fun _ => false) (t := 1) (ts := []) rfl rfl))
    have r6 := Reach.step r5 (SysStep.shut rfl rfl)
    exact r6
  · intro s' h
    have hws : ∀ (l r : List (Wk Nat)) (w : Wk Nat),
        [({ cap := 1, g := fun _ => [], buf := [0], seen := [], hand := [], chClosed := false, ph := .stopped } : Wk Nat)]
          = l ++ w :: r → l = [] ∧ w.ph = .stopped ∧ w.buf.length = 1 ∧ w.cap = 1 := by
      intro l r w he
      cases l with
      | nil => simp at he; obtain ⟨h1, _⟩ := he; subst h1; exact ⟨rfl, rfl, rfl, rfl⟩
      | cons a l => simp at he
    cases h with
    | feed ht _ => simp [orphanStuck] at ht
    | shut _ hs => simp [orphanStuck] at hs
    | tau h =>
      cases h with
      | take hfh _ => simp [orphanStuck] at hfh
      | @push t i l r w hfh hw hl hroom =>
        obtain ⟨_, _, hb, hc⟩ := hws l r w hw
        rw [hb, hc] at hroom
        exact absurd hroom (by decide)
      | closeFeed hfh _ _ _ => simp [orphanStuck] at hfh
      | @work l r w w' hw hst =>
        obtain ⟨_, hp, _, _⟩ := hws l r w hw
        exact wkstep_live hst hp
    | out h =>
      cases h with
      | sigOut hfh => simp [orphanStuck] at hfh
      | @work l r w w' hw hst =>
        obtain ⟨_, hp, _, _⟩ := hws l r w hw
        exact wkstep_live hst hp
    | fin h =>
      cases h with
      | mk hf _ _ => simp [orphanStuck] at hf
  · intro ⟨_, _, he⟩
    simp [orphanStuck, aggC] at he

/-! ## tests: the hypotheses are satisfiable, the bounds are numbers -/

namespace Test
/-- traveler 0 is a signal -/
def sig0 : Nat → Bool := fun x => x == 0
/-- three aggregations: a count, an echo of everything read, one without results -/
def aggs3 : List (Nat × (List Nat → List Nat)) := [(1, fun xs => [xs.length]), (2, fun xs => xs), (1, fun _ => [])]
def pre1 : List (Nat × (Nat → List Nat)) := [(1, fun x => [x, x + 1])]
def br2 : List (Nat × (Nat → List Nat)) := [(1, fun x => [x]), (2, fun x => [x, x])]
def suf1 : List (Nat × (Nat → List Nat)) := [(1, fun x => if x % 2 == 0 then [x] else [])]
end Test

/-- test (`aggregate_fanout_k_terminates`): k = 3 workers on capacity-1/2 channels, a signal and two
    travelers: the hypotheses hold, the system can move, and no run is longer than 31 steps -/
example :
    (∃ s', SysStep (aggC Nat 1 Test.sig0) (sysInit (aggC Nat 1 Test.sig0) [0, 5, 7] (aggInit Test.aggs3)) s') ∧
    (∀ (run : Nat → SysS (aggC Nat 1 Test.sig0)) (k : Nat),
        run 0 = sysInit (aggC Nat 1 Test.sig0) [0, 5, 7] (aggInit Test.aggs3) →
        (∀ i, i < k → SysStep (aggC Nat 1 Test.sig0) (run i) (run (i + 1))) → k ≤ 31) := by
  refine ⟨⟨_, SysStep.feed (t := 0) (ts := [5, 7]) rfl (by show (0 : Nat) < 1; decide)⟩, ?_⟩
  have h := (aggregate_fanout_k_terminates (α := Nat) 1 (by decide) Test.sig0 Test.aggs3
    (by simp [Test.aggs3]) (by simp [Test.aggs3]) [0, 5, 7]).2.2
  have hb : aggBound Test.sig0 Test.aggs3 [0, 5, 7] = 31 := by decide
  rw [hb] at h
  exact h

/-- test (`chain_both_chain_terminates`): a fan-out-2 prefix stage, two two-stage branches (one of
    them doubling), a filtering suffix stage, all channels of capacity 1 or 2, a signal and two
    travelers: the hypotheses hold and no run is longer than 128 steps -/
example :
    ∀ (run : Nat → SysS (cbcComp Nat 1 Test.sig0)) (k : Nat),
      run 0 = sysInit (cbcComp Nat 1 Test.sig0) [0, 1, 2] (cbcInit 1 Test.sig0 Test.pre1 Test.br2 Test.br2 Test.suf1) →
      (∀ i, i < k → SysStep (cbcComp Nat 1 Test.sig0) (run i) (run (i + 1))) → k ≤ 128 := by
  have h := (chain_both_chain_terminates (α := Nat) 1 (by decide) Test.sig0 Test.pre1 Test.br2 Test.br2 Test.suf1
    (by simp [Test.pre1]) (by simp [Test.br2]) (by simp [Test.br2]) (by simp [Test.suf1])
    (by simp [Test.pre1]) (by simp [Test.br2]) (by simp [Test.br2]) (by simp [Test.suf1]) [0, 1, 2]).2.2
  have hb : cbcBound Test.sig0 Test.pre1 Test.br2 Test.br2 Test.suf1 [0, 1, 2] = 128 := by decide
  rw [hb] at h
  exact h

/-- test (`chain_aggregate_chain_terminates`, `stage_between_chains_terminates`,
    `composition_terminates`): the same prefix and suffix around the three aggregations -/
example :
    ∀ (run : Nat → SysS (cacComp Nat 1 Test.sig0)) (k : Nat),
      run 0 = sysInit (cacComp Nat 1 Test.sig0) [0, 1, 2] (emptyChain Test.pre1, (aggInit Test.aggs3, emptyChain Test.suf1)) →
      (∀ i, i < k → SysStep (cacComp Nat 1 Test.sig0) (run i) (run (i + 1))) → k ≤ 76 := by
  have h := (chain_aggregate_chain_terminates (α := Nat) 1 (by decide) Test.sig0 Test.aggs3
    (by simp [Test.aggs3]) (by simp [Test.aggs3]) Test.pre1 Test.suf1
    (by simp [Test.pre1]) (by simp [Test.suf1]) (by simp [Test.pre1]) (by simp [Test.suf1]) [0, 1, 2]).2.2
  have hb : cacBound Test.sig0 Test.aggs3 Test.pre1 Test.suf1 [0, 1, 2] = 76 := by decide
  rw [hb] at h
  exact h

/-- test (`both_then_chain_terminates`): two branches and a filtering sink stage, capacities 1 and 2 -/
example :
    ∀ (run : Nat → SysS (bcComp Nat 1 Test.sig0)) (k : Nat),
      run 0 = sysInit (bcComp Nat 1 Test.sig0) [0, 1, 2] (bothInit (emptyChain Test.br2) (emptyChain Test.br2), emptyChain Test.suf1) →
      (∀ i, i < k → SysStep (bcComp Nat 1 Test.sig0) (run i) (run (i + 1))) → k ≤ 57 := by
  have h := (both_then_chain_terminates (α := Nat) 1 (by decide) Test.sig0 Test.br2 Test.br2 Test.suf1
    (by simp [Test.br2]) (by simp [Test.br2]) (by simp [Test.suf1])
    (by simp [Test.br2]) (by simp [Test.br2]) (by simp [Test.suf1]) [0, 1, 2]).2.2
  have hb : bcBound Test.sig0 Test.br2 Test.br2 Test.suf1 [0, 1, 2] = 57 := by decide
  rw [hb] at h
  exact h

/-- test (`composition_terminates`): certificates nest — a chain, then `both`, then
    `aggregate(3) · chain` as the third component: `source → chain → both → aggregate → chain → client` -/
example :
    let C := (chainC Nat).seq ((bothC (chainC Nat) (chainC Nat) 1 Test.sig0).seq ((aggC Nat 2 Test.sig0).seq (chainC Nat)))
    ¬ ∃ run : Nat → SysS C,
      run 0 = sysInit C [0, 1, 2]
        (emptyChain Test.pre1,
          (bothInit (emptyChain Test.br2) (emptyChain Test.br2), (aggInit Test.aggs3, emptyChain Test.suf1))) ∧
      ∀ i, SysStep C (run i) (run (i + 1)) :=
  (composition_terminates
    (chainGoodN (stageFs Test.pre1)).toGood
    (bothGoodN (chainGoodN (stageFs Test.br2)) (chainGoodN (stageFs Test.br2)) 1 (by decide) Test.sig0).toGood
    ((aggGood Nat 2 (by decide) Test.sig0).seq (chainGoodN (stageFs Test.suf1)).toGood)
    (emptyChain Test.pre1) (bothInit (emptyChain Test.br2) (emptyChain Test.br2))
    (aggInit Test.aggs3, emptyChain Test.suf1) [0, 1, 2]
    (chainInv_empty Test.pre1 (by simp [Test.pre1]) (by simp [Test.pre1]))
    (bothInv_init _ _ _ _ (chainInv_empty Test.br2 (by simp [Test.br2]) (by simp [Test.br2]))
      (chainInv_empty Test.br2 (by simp [Test.br2]) (by simp [Test.br2])) rfl rfl)
    ⟨aggInv_init Test.aggs3 (by simp [Test.aggs3]) (by simp [Test.aggs3]),
      chainInv_empty Test.suf1 (by simp [Test.suf1]) (by simp [Test.suf1]), rfl⟩
    rfl rfl rfl rfl rfl).2.2

end Grip.Props.C07
