/-
  Property C12 — mark/jump loops are exact and terminate under every schedule.

  MODEL: Grip.Model.C12 (labelled transition system of the mark, the FIFO stages between mark and
  jump, the jump, and the two queue goroutines; any interleaving = any path of `Step`).
  SPEC:  Grip.Spec.C12 (`iterate`, the iterative definition).

  Proved for every stage list, every input, every reachable state (i.e. every schedule of the
  model) and any number of travelers in flight:
    conservation            nothing lost, nothing duplicated, at every moment
    close_only_when_empty   the mark's closing transition fires only on an empty cycle
    closed_is_empty         … and a closed mark leaves nothing behind
    no_stuck_state          when only polling is enabled, the poll sends a signal or closes
    final_output_eq_iterate a closed loop has emitted exactly the iterative definition's rows
    terminates_once_empty_partial   liveness, shutdown phase only (see the comment there)
-/
import Grip.Model.C12
import GripProofs.Lemmas.C12
import GripProofs.Lemmas.C12Proto
import GripProofs.Lemmas.C12Cons
import GripProofs.Lemmas.C12Term

set_option linter.unusedSimpArgs false
namespace Grip.Props.C12
open Grip.C12 Lemmas

variable {T : Type}

/-- No travelers at the mark: no rows. -/
theorem iterate_empty (L : Loop T) (n : Nat) : iterate L n [] = [] := Lemmas.iterate_nil L n

/-- **Conservation.**  For a depth-bounded cycle (`μ` decreases on every traveler that comes back
    to the mark) there is a per-traveler row function `R` (`R t` = all rows `t` contributes once it
    enters the mark) such that in *every reachable state*
        emitted  ⊎  R(unread input)  ⊎  future rows of the messages in the cycle  =  R(input).
    No traveler is lost or duplicated by any interleaving, with any number in flight. -/
theorem conservation {sys : List (Stage T)} {μ : T → Nat} (hb : SysBounded sys μ)
    {inp0 : List T} {s : State T} (h : Reachable sys inp0 s) :
    (s.emitted ++ s.inp.flatMap (Rof sys μ) ++ pot (Rof sys μ) sys s.W).Perm
      (inp0.flatMap (Rof sys μ)) :=
  total_reachable (Rof_eq hb) h

/-- `R` is the unrolling of the cycle, to any sufficient depth. -/
theorem rows_unroll {sys : List (Stage T)} {μ : T → Nat} (hb : SysBounded sys μ) (N : Nat) (t : T)
    (h : μ t < N) : Rof sys μ t = unroll sys N t := Rof_eq_unroll hb N t h

/-- A closed mark leaves nothing in the cycle and nothing unread. -/
theorem closed_is_empty {sys : List (Stage T)} {inp0 : List T} {s : State T}
    (h : Reachable sys inp0 s) (hc : s.phase = .closed) : s.W = [] ∧ s.inp = [] :=
  let inv := protoInv_reachable h
  ⟨inv.closedW hc, inv.inpE (by simp [hc])⟩

/-- **Close only when empty.**  The step on which the mark's goroutine returns is taken only
    when no traveler is in any channel of the cycle (and the main input is exhausted): the only
    message left is the returning signal. -/
theorem close_only_when_empty {sys : List (Stage T)} {inp0 : List T} {s s' : State T} {l : Label}
    (h : Reachable sys inp0 s) (hs : Step sys l s s') (hne : s.phase ≠ .closed)
    (hc : s'.phase = .closed) : travCount s.W = 0 ∧ s.inp = [] ∧ s'.W = [] := by
  have inv := protoInv_reachable h
  have inv' := protoInv_step inv hs
  have hW' := inv'.closedW hc
  refine ⟨?_, ?_, hW'⟩
  · cases hs with
    | stageTrav hW hA hst => exact absurd hc hne
    | stageSig hW hA hst => exact absurd hc hne
    | openJump hp hW => exact absurd hc hne
    | openIn hp hN hI => exact absurd hc hne
    | openClose hp hN hI => simp at hc
    | closeTrav hp hW => exact absurd hc hne
    | @closeSig _ k B hp hW =>
      have hB : B = [] := by
        unfold markDecide at hW'
        split at hW'
        · simp at hW'
        · split at hW' <;> simpa using hW'
      simp [hW, hB, travCount]
    | closePoll hp hN =>
      have hB : s.W = [] := by
        unfold markDecide at hW'
        split at hW'
        · simp at hW'
        · split at hW' <;> simpa using hW'
      simp [hB, travCount]
  · have hp : s.phase ≠ .open := by
      intro hp
      cases hs <;> simp_all [markDecide]
    exact inv.inpE hp

/-- **No stuck state.**  If in a reachable, not yet closed state only polling steps are enabled
    (no stage can move, the mark has nothing to receive or read), then the poll itself makes
    progress: it closes the mark or sends a signal. -/
theorem no_stuck_state {sys : List (Stage T)} {inp0 : List T} {s : State T}
    (h : Reachable sys inp0 s) (hne : s.phase ≠ .closed)
    (honly : ∀ l s', Step sys l s s' → l = .poll) :
    Step sys .poll s (markDecide 1 s) ∧
      ((markDecide 1 s).phase = .closed ∨
       (markDecide 1 s).W = s.W ++ [(0, Msg.sig (s.curID + 1))]) := by
  have inv := protoInv_reachable h
  have htag := tagInv_reachable h
  have hW : s.W = [] := by
    cases hw : s.W with
    | nil => rfl
    | cons x B =>
      obtain ⟨i, m⟩ := x
      exfalso
      have hle : i ≤ sys.length := htag (i, m) (by simp [hw])
      rcases Nat.lt_or_eq_of_le hle with hlt | heq
      · have hst : sys[i]? = some sys[i] := List.getElem?_eq_getElem hlt
        cases m with
        | trav t =>
          have := honly _ _ (Step.stageTrav (A := []) (B := B) (i := i) (t := t) (st := sys[i])
            (by simp [hw]) (by simp) hst)
          simp at this
        | sig k =>
          have := honly _ _ (Step.stageSig (A := []) (B := B) (i := i) (k := k) (st := sys[i])
            (by simp [hw]) (by simp) hst)
          simp at this
      · subst heq
        cases hp : s.phase with
        | «open» =>
          have := honly _ _ (Step.openJump hp hw)
          simp at this
        | closing =>
          cases m with
          | trav t =>
            have := honly _ _ (Step.closeTrav hp hw)
            simp at this
          | sig k =>
            have := honly _ _ (Step.closeSig hp hw)
            simp at this
        | closed => exact hne hp
  have hN : ∀ x ∈ s.W, x.1 ≠ sys.length := by simp [hW]
  cases hp : s.phase with
  | «open» =>
    exfalso
    cases hi : s.inp with
    | nil =>
      have := honly _ _ (Step.openClose hp hN hi)
      simp at this
    | cons t r =>
      have := honly _ _ (Step.openIn hp hN hi)
      simp at this
  | closed => exact absurd hp hne
  | closing =>
    refine ⟨Step.closePoll hp hN, Or.inr ?_⟩
    have hw := inv.w hne
    cases ha : s.signalActive with
    | true => simp [WInv, ha, hW, sigCount] at hw
    | false =>
      have ho := inv.flags ha
      simp [markDecide, ha, ho]

/-- **Exactness.**  For a loop `mark . body . jump(cond, emit)` whose depth is bounded by `μ`
    (`Bounded`: a traveler that jumps back has a smaller measure — the counter pattern), whatever
    the schedule: once the mark has closed, the rows sent downstream are exactly (as a multiset)
    the rows of the iterative definition, for any pass count `N` beyond the bound. -/
theorem final_output_eq_iterate {L : Loop T} {μ : T → Nat} (hb : Bounded L μ)
    {inp0 : List T} {s : State T} (h : Reachable (loopSys L) inp0 s) (hc : s.phase = .closed)
    (N : Nat) (hN : ∀ t ∈ inp0, μ t < N) :
    s.emitted.Perm (iterate L N inp0) := by
  have hsb := sysBounded_loopSys hb
  have hcons := conservation hsb h
  obtain ⟨hW, hI⟩ := closed_is_empty h hc
  simp only [hW, hI, pot, List.flatMap_nil, List.append_nil] at hcons
  have e : inp0.flatMap (Rof (loopSys L) μ) = inp0.flatMap (unroll (loopSys L) N) :=
    flatMap_congr' (fun t ht => Rof_eq_unroll hsb N t (hN t ht))
  rw [e] at hcons
  exact hcons.trans (unroll_perm_iterate L N inp0)

/-- While the loop is still running, what has been emitted so far is a sub-multiset of the
    iterative definition's rows (nothing spurious, nothing twice). -/
theorem emitted_sub_iterate {L : Loop T} {μ : T → Nat} (hb : Bounded L μ)
    {inp0 : List T} {s : State T} (h : Reachable (loopSys L) inp0 s)
    (N : Nat) (hN : ∀ t ∈ inp0, μ t < N) :
    ∃ rest, (s.emitted ++ rest).Perm (iterate L N inp0) := by
  have hsb := sysBounded_loopSys hb
  have hcons := conservation hsb h
  have e : inp0.flatMap (Rof (loopSys L) μ) = inp0.flatMap (unroll (loopSys L) N) :=
    flatMap_congr' (fun t ht => Rof_eq_unroll hsb N t (hN t ht))
  rw [e, List.append_assoc] at hcons
  exact ⟨_, hcons.trans (unroll_perm_iterate L N inp0)⟩

/-! ### Non-vacuity -/

/-- counter loop on naturals: body `t ↦ [t+1]`, jump while `< 3`, emit. -/
def exLoop : Loop Nat := { body := fun t => [t + 1], cond := fun t => t < 3, emit := true }

example : Bounded exLoop (fun t => 3 - t) := by
  intro t t' h hc
  simp [exLoop] at h hc
  subst h
  show 3 - (t + 1) < 3 - t
  omega

example : iterate exLoop 5 [0] = [1, 2, 3] := by decide

/-- **Termination, shutdown phase** (the property's "terminates once no traveler remains in the
    cycle").  From a reachable state in which no traveler is left — main input closed and
    exhausted, no traveler in any channel of the cycle — every step of any goroutine is an idle
    poll (`s' = s`), the mark's closing step, or leads to such a state again with a strictly
    smaller `shutRank` (≤ 2·n + 5, n = number of stages).  Together with `no_stuck_state` (a
    non-idle step is enabled until the mark has closed) this gives: under weak fairness of the
    goroutines the mark closes within `shutRank` non-idle steps, whatever signals were outdated
    before.

    PARTIAL — what is missing for the full `terminates_bounded`: (1) the ranking argument for the
    phase in which travelers are still circulating.  The intended rank is
    `(n+3) · ticks(s) + shutRank s`, where `ticks` is the `pot` of `conservation` instantiated with
    the tick system (every stage move and every mark forward emits one tick; finite by
    `SysBounded`): a traveler move lowers `ticks` by one and can at most set `signalOutdated`
    (+n+2), every signal move lowers `shutRank`.  It is not mechanised.  (2) Fairness itself
    (infinite executions) is not formalised: the theorem bounds the non-idle steps, it does not
    model the Go scheduler (the queue's output goroutine busy-waits, the mark sleeps 1µs per
    empty poll). -/
theorem terminates_once_empty_partial {sys : List (Stage T)} {inp0 : List T} {s s' : State T}
    {l : Label} (h : Reachable sys inp0 s) (hq : Quiescent s) (hs : Step sys l s s') :
    s' = s ∨ s'.phase = .closed ∨ (Quiescent s' ∧ shutRank sys s' < shutRank sys s) :=
  shutdown_step (protoInv_reachable h) hq hs

/-- The hypothesis of `terminates_once_empty_partial` is met: e.g. right after the main input
    of an empty traversal has closed. -/
example : Quiescent ({ init ([] : List Nat) with phase := .closing }) := by
  simp [Quiescent, init, travCount]

example : Reachable (loopSys exLoop) [] ({ init ([] : List Nat) with phase := .closing }) :=
  Reachable.step Reachable.init (Step.openClose rfl (by simp [init]) rfl)

end Grip.Props.C12
