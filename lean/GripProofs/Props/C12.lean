import Grip.Spec.C12
import GripProofs.Lemmas.C12

namespace Grip.Props.C12
open Grip.C12

variable {T : Type}

/-- No travelers at the mark: no rows. -/
theorem iterate_empty (L : Loop T) (n : Nat) : iterate L n [] = [] := Lemmas.iterate_nil L n

end Grip.Props.C12
