/-
  Grip.Props.C11 — property theorems for C11: jobs faithfully store, resume and find traversals.

  Vocabulary (Grip.Model.C11): `submit` runs a traversal to completion into the job store
  (`Store.spool` of the marshalled travelers), `viewJob` / `resumeJob` / `Store.search` /
  `Store.list` / `Store.delete` / `Store.restart` are the service operations, `direct` is the
  direct traversal (`Compile` + `pipeline.Run` + `Convert`).  A *fresh* job name is one the store
  does not know (`ioutil.TempDir` provides it).

  Hypotheses that recur:
  * `travRep t` — the traveler is JSON-representable: element data are maps (a Go
    `map[string]interface{}`), path entries are in normal form (the model's `PathEl` has spare
    values for the blank id).  The driver checks it on every traveler of every run.
  * `hown` — a status file sits in the directory of the job it describes.
  * hash injectivity for `jobMatch_iff`.
  The order preservation of the marshalling / unmarshalling worker pools is C13's
  (`Props.C13.marshal_stream_ok`, `unmarshal_stream_ok`); `spool_stream_order` instantiates
  `roundrobin_identity` for the pool of four the job store uses.
-/
import Grip.Model.C11
import Grip.Spec.C13
import GripProofs.Props.C13
import GripProofs.Lemmas.C11
import GripProofs.Lemmas.C11Json
import GripProofs.Lemmas.C11Resume
import GripProofs.Lemmas.C11Store
import GripGen.C11Fields

namespace Grip.Props.C11
open Grip Grip.C11 Grip.C11.Store

/-! ### the model's JSON keys and JobMatch bound are those of today's source -/

/-- **traveler_json_matches_source.** The keys `marshal` writes are the exported fields of
    `gdbi.BaseTraveler`, `DataElement`, `DataElementID`, `Aggregate` as regenerated from
    gdbi/interface.go on this run (a new, renamed, `json:"-"`-tagged or removed field breaks this). -/
theorem traveler_json_matches_source :
    objKeys (marshal {}) = GripGen.C11Fields.traveler ∧
    objKeys (marshalElem {}) = GripGen.C11Fields.element ∧
    objKeys (marshalPathEl .empty) = GripGen.C11Fields.elementId ∧
    objKeys (marshalAgg default) = GripGen.C11Fields.aggregate := by decide

/-- **jobMatch_bound_matches_source.** `jobMatch` uses the bound of `JobMatch`'s final test as
    regenerated from jobstorage/query_checksum.go. -/
theorem jobMatch_bound_matches_source {κ : Type} [DecidableEq κ] (q j : List κ) :
    jobMatch q j = jobMatchN GripGen.C11Fields.jobMatchMoreThan q j := rfl

/-! ### the spool round trip -/

/-- **spool_roundtrip.** `json.Unmarshal(json.Marshal(t)) = t` for every JSON-representable
    traveler — whatever it carries: current element, marks, path, count, render value,
    selections, aggregation. -/
theorem spool_roundtrip (t : Traveler) (h : travRep t = true) : unmarshal (marshal t) = t :=
  Lemmas.traveler_roundtrip t h

/-- non-vacuity: travelers of every result type are representable -/
example : travRep { cur := some { gid := "v1", label := "A", data := .obj [("x", .num 1024)] },
                    marks := [("a", some { gid := "e1", to := "v2", frm := "v1" }), ("b", none)],
                    path := [.vertex "v1", .edge "e1", .empty] } = true := by decide
example : travRep { count := 7 } = true := by decide
example : travRep { render := .arr [.num 3, .str "x", .null] } = true := by decide
example : travRep { sel := some [("a", { gid := "v1", data := .null, loaded := false })] } = true := by decide
example : travRep { agg := some { name := "t", key := .str "A", value := 2048 } } = true := by decide
/-- and the hypothesis is needed: the model's spare path value is not a fixed point -/
example : unmarshal (marshal { path := [.vertex ""] }) ≠ { path := [.vertex ""] } := by decide

theorem map_roundtrip (ts : List Traveler) (h : ∀ t ∈ ts, travRep t = true) :
    (ts.map marshal).map unmarshal = ts := by
  induction ts with
  | nil => rfl
  | cons t rest ih =>
    simp only [List.map_cons, spool_roundtrip t (h t List.mem_cons_self),
      ih (fun x hx => h x (List.mem_cons_of_mem _ hx))]

/-- The pool of four serializer workers delivers the marshalled lines in traveler order
    (C13's round-robin identity at `n = 4`; the scheduling-independent statement is
    `Props.C13.marshal_stream_ok`). -/
theorem spool_stream_order (ts : List Traveler) :
    Grip.C13.Spec.collect ((ts.map marshal).length + 1) (Grip.C13.Spec.deal 4 (ts.map marshal))
      = ts.map marshal :=
  Grip.Props.C13.roundrobin_identity 4 (by decide) _

/-- What `Stream` returns for a job submitted under a fresh name. -/
theorem stream_submitted {κ : Type} (numOf : String → Option Int) (g : AGraph) (s s' : Store κ)
    (graph id : String) (sums : List κ) (stmts : List Stmt) (st : TState)
    (hty : typeCheck stmts = .ok st)
    (hsub : submit numOf g s graph id sums stmts = .ok s')
    (hm : s.lookup graph id = none) (hd : s.dir graph id = none)
    (hrep : ∀ t ∈ travelersOf numOf g stmts, travRep t = true) :
    s'.stream graph id = some (travelersOf numOf g stmts, st) ∧
    s'.lookup graph id
      = some (Lemmas.recOf graph id sums st .complete (travelersOf numOf g stmts).length) := by
  unfold submit at hsub
  rw [hty] at hsub
  simp only [Except.ok.injEq] at hsub
  subst hsub
  obtain ⟨h1, h2⟩ := Lemmas.spool_result s graph id sums st ((travelersOf numOf g stmts).map marshal) hm hd
  rw [List.length_map] at h1 h2
  refine ⟨?_, h1⟩
  unfold Store.stream
  rw [h1, h2]
  simp [Lemmas.recOf, map_roundtrip _ hrep]

/-- **stored_eq_direct.** A submitted job, once complete, is readable and stores exactly the rows
    the direct traversal returns (same list, hence same multiset), and its status reports
    COMPLETE with that number of rows. -/
theorem stored_eq_direct {κ : Type} (numOf : String → Option Int) (g : AGraph) (s s' : Store κ)
    (graph id : String) (sums : List κ) (stmts : List Stmt)
    (hsub : submit numOf g s graph id sums stmts = .ok s')
    (hm : s.lookup graph id = none) (hd : s.dir graph id = none)
    (hrep : ∀ t ∈ travelersOf numOf g stmts, travRep t = true) :
    direct numOf g stmts = .ok (viewJob g s' graph id) ∧
    (s'.lookup graph id).map (fun j => (j.state, j.count))
      = some (JobState.complete, (viewJob g s' graph id).length) := by
  cases hty : typeCheck stmts with
  | error e => unfold submit at hsub; rw [hty] at hsub; cases hsub
  | ok st =>
    obtain ⟨h1, h2⟩ := stream_submitted numOf g s s' graph id sums stmts st hty hsub hm hd hrep
    unfold direct viewJob
    rw [hty, h1, h2]
    simp [Lemmas.recOf]

/-- a traversal that does not type-check is not submitted at all -/
theorem illtyped_not_submitted {κ : Type} (numOf : String → Option Int) (g : AGraph) (s : Store κ)
    (graph id : String) (sums : List κ) (stmts : List Stmt) (e : TypeErr)
    (h : typeCheck stmts = .error e) : submit numOf g s graph id sums stmts = .error e := by
  unfold submit; rw [h]

/-! ### resume -/

/-- **resume typing.** The extension options carry exactly the type state: compiling the extra
    steps from the stored `(DataType, MarkTypes)` accepts/rejects and types exactly as compiling
    the concatenation does — for a job whose result type is not `NoData`. -/
theorem resume_typing (a b : List Stmt) (st : TState) (h : typeCheck a = .ok st) (ha : a ≠ [])
    (hl : st.last ≠ .noData) : typeCheckFrom st b = typeCheck (a ++ b) :=
  Lemmas.typeCheckFrom_eq a b st h ha hl

/-- The carve-out is real: a job of type `NoData` (`select` of a mark that was never set) cannot be
    resumed with `limit`, although the concatenated traversal compiles.  (Recorded in
    docs/notes/C11.md; the harness never selects undefined marks.) -/
example : typeCheck ([.V [], .select ["zz"]] ++ [.limit 1]) = .ok { last := .noData, marks := [] }
    ∧ typeCheck [.V [], .select ["zz"]] = .ok { last := .noData, marks := [] }
    ∧ typeCheckFrom { last := .noData, marks := [] } [.limit 1] = .error .firstNotStart :=
  ⟨rfl, rfl, rfl⟩

/-- **resume_eq_concat.** Resuming a complete job (submitted under a fresh name, result type not
    `NoData`) with extra steps `b ≠ []` on the unchanged graph returns exactly what the
    concatenated traversal returns directly — rows or the compile error. -/
theorem resume_eq_concat {κ : Type} (numOf : String → Option Int) (g : AGraph) (s s' : Store κ)
    (graph id : String) (sums : List κ) (a b : List Stmt) (st : TState)
    (hty : typeCheck a = .ok st) (hl : st.last ≠ .noData) (ha : a ≠ []) (hb : b ≠ [])
    (hsub : submit numOf g s graph id sums a = .ok s')
    (hm : s.lookup graph id = none) (hd : s.dir graph id = none)
    (hrep : ∀ t ∈ travelersOf numOf g a, travRep t = true) :
    resumeJob numOf g s' graph id b
      = (match direct numOf g (a ++ b) with
         | .ok rows => .ok rows
         | .error e => .error (.compile e)) := by
  obtain ⟨h1, _⟩ := stream_submitted numOf g s s' graph id sums a st hty hsub hm hd hrep
  obtain ⟨_, hf⟩ := Lemmas.typeCheck_ok hty
  have hae : a.isEmpty = false := by cases a <;> simp_all
  have hbe : b.isEmpty = false := by cases b <;> simp_all
  have habe : (a ++ b).isEmpty = false := by cases a <;> simp_all
  unfold resumeJob direct
  rw [h1]
  simp only [resume_typing a b st hty ha hl]
  cases htc : typeCheck (a ++ b) with
  | error e => rfl
  | ok st' =>
    simp only [hbe, travelersOf, hae, habe, Bool.false_eq_true, if_false]
    rw [Lemmas.evalFrom_append numOf g a b {} st [Traveler.seed] hf]

/-! ### search -/

/-- `JobMatch` on checksum lists: the job is a prefix of the query and has at least two steps. -/
theorem jobMatch_prefix {κ : Type} [DecidableEq κ] (q j : List κ) :
    jobMatch q j = true ↔ (j <+: q ∧ 2 ≤ j.length) := by
  unfold jobMatch jobMatchN
  by_cases h : j.length > q.length
  · simp only [h, if_true]
    constructor
    · intro hf; cases hf
    · rintro ⟨hp, _⟩
      have := hp.length_le
      omega
  · simp only [h, if_false, Bool.and_eq_true, decide_eq_true_eq, Lemmas.matchLoop_iff]
    constructor
    · rintro ⟨h1, h2⟩; exact ⟨h2, by omega⟩
    · rintro ⟨h1, h2⟩; exact ⟨by omega, h1⟩

/-- **jobMatch_iff.** With injective step checksums, searching for traversal `q` matches a job
    with statements `j` exactly when `j` is a prefix of `q` of two or more steps.  (The
    injectivity of `hashstructure.Hash` on statements is the stated hypothesis.) -/
theorem jobMatch_iff {σ κ : Type} [DecidableEq κ] (h : σ → κ) (hinj : Function.Injective h)
    (q j : List σ) :
    jobMatch (q.map h) (j.map h) = true ↔ (j <+: q ∧ 2 ≤ j.length) := by
  rw [jobMatch_prefix, List.length_map]
  constructor
  · rintro ⟨hp, hl⟩
    exact ⟨Lemmas.prefix_of_map_prefix h hinj j q hp, hl⟩
  · rintro ⟨hp, hl⟩
    exact ⟨hp.map h, hl⟩

example : jobMatch ["V", "out", "count"] ["V", "out"] = true := by decide
example : jobMatch ["V", "out", "count"] ["V"] = false := by decide
example : jobMatch ["V", "out"] ["V", "out", "count"] = false := by decide
example : jobMatch ["V", "in", "count"] ["V", "out"] = false := by decide

/-- **search_iff.** `Search` returns exactly the jobs of that graph whose checksum list is a
    prefix of the query's and has two or more steps (with `jobMatch_iff`: whose statements are a
    prefix of the searched traversal). -/
theorem search_iff {κ : Type} [DecidableEq κ] (s : Store κ) (graph : String) (q : List κ) (id : String) :
    id ∈ s.search graph q ↔
      ∃ j ∈ s.mem, j.id = id ∧ j.graph = graph ∧ j.sums <+: q ∧ 2 ≤ j.sums.length := by
  unfold Store.search
  simp only [List.mem_map, List.mem_filter, Bool.and_eq_true, beq_iff_eq, jobMatch_prefix]
  constructor
  · rintro ⟨j, ⟨hj, hg, hp, hl⟩, hid⟩
    exact ⟨j, hj, hid, hg, hp, hl⟩
  · rintro ⟨j, hj, hid, hg, hp, hl⟩
    exact ⟨j, ⟨hj, hg, hp, hl⟩, hid⟩

/-! ### restart and delete -/

/-- **restart_keeps_complete.** A complete job whose status file is in its directory is found
    again by a new `FSJobStorage` on the same directory: same record (state, count, types,
    checksums), still listed, and `Stream` returns the same travelers — so it reads and resumes
    as before. -/
theorem restart_keeps_complete {κ : Type} (s : Store κ) (graph id : String) (j : JobRec κ) (d : JobDir κ)
    (hj : s.lookup graph id = some j) (hd : s.dir graph id = some d) (hs : d.status = some j)
    (hown : ∀ d' ∈ s.disk, ∀ r', d'.status = some r' → isJob graph id r' = true → isDir graph id d' = true) :
    s.restart.lookup graph id = some j ∧
    s.restart.stream graph id = s.stream graph id ∧
    id ∈ s.restart.list graph := by
  have hjob : isJob graph id j = true := by
    unfold Store.lookup at hj
    exact List.find?_some hj
  have h1 : s.restart.lookup graph id = some j :=
    Lemmas.find_filterMap_status graph id s.disk d j hd hs hjob hown
  refine ⟨h1, ?_, ?_⟩
  · unfold Store.stream
    rw [h1, hj]
    rfl
  · unfold Store.list
    have hmem : j ∈ s.restart.mem := List.mem_of_find?_eq_some h1
    simp only [isJob, Bool.and_eq_true, beq_iff_eq] at hjob
    exact List.mem_map.2 ⟨j, List.mem_filter.2 ⟨hmem, by simp [hjob.1]⟩, hjob.2⟩

/-- the hypotheses of `restart_keeps_complete` hold for a job just spooled under a fresh name -/
theorem restart_after_spool {κ : Type} (s : Store κ) (graph id : String) (sums : List κ) (st : TState)
    (lines : List JV) (hm : s.lookup graph id = none) (hd : s.dir graph id = none)
    (hown : ∀ d' ∈ (s.spool graph id sums st lines).disk, ∀ r', d'.status = some r' →
      isJob graph id r' = true → isDir graph id d' = true) :
    (s.spool graph id sums st lines).restart.stream graph id
      = (s.spool graph id sums st lines).stream graph id := by
  obtain ⟨h1, h2⟩ := Lemmas.spool_result s graph id sums st lines hm hd
  exact (restart_keeps_complete _ graph id _ _ h1 h2 rfl hown).2.1

/-- **delete_gone.** After `Delete` of a job that is not running, the job is not found by
    `Status`, not streamed (so `ViewJob` sends nothing and `ResumeJob` fails), not listed, not
    found by any search — and a restart does not bring it back. -/
theorem delete_gone {κ : Type} [DecidableEq κ] (g : AGraph) (s : Store κ) (graph id : String) (j : JobRec κ)
    (hj : s.lookup graph id = some j) (hr : j.state ≠ .running) (hq : j.state ≠ .queued)
    (hown : ∀ d' ∈ s.disk, ∀ r', d'.status = some r' → isJob graph id r' = true → isDir graph id d' = true) :
    let s' := s.delete graph id
    s'.lookup graph id = none ∧ s'.dir graph id = none ∧ s'.stream graph id = none ∧
    viewJob g s' graph id = [] ∧
    id ∉ s'.list graph ∧ (∀ q, id ∉ s'.search graph q) ∧
    s'.restart.lookup graph id = none := by
  have hstate : (j.state == JobState.running || j.state == JobState.queued) = false := by
    cases hst : j.state <;> simp_all
  have hdel : s.delete graph id = { mem := s.mem.filter (fun j => !isJob graph id j),
                                    disk := s.disk.filter (fun d => !isDir graph id d) } := by
    unfold Store.delete
    rw [hj]
    simp only [hstate, Bool.false_eq_true, if_false]
  intro s'
  have h1 : s'.lookup graph id = none := by
    show (s.delete graph id).lookup graph id = none
    rw [hdel]; exact Lemmas.find_filter_not _ _
  have h2 : s'.dir graph id = none := by
    show (s.delete graph id).dir graph id = none
    rw [hdel]; exact Lemmas.find_filter_not _ _
  have h3 : s'.stream graph id = none := by unfold Store.stream; rw [h1]
  have hall : ∀ j' ∈ s'.mem, isJob graph id j' = false := by
    intro j' hj'
    have := List.find?_eq_none.1 h1 j' hj'
    simpa using this
  refine ⟨h1, h2, h3, ?_, ?_, ?_, ?_⟩
  · unfold viewJob; rw [h3]
  · intro hin
    unfold Store.list at hin
    obtain ⟨j', hj', hid⟩ := List.mem_map.1 hin
    obtain ⟨hmem, hg⟩ := List.mem_filter.1 hj'
    have := hall j' hmem
    simp [isJob, hid] at this
    simp at hg
    exact this hg
  · intro q hin
    unfold Store.search at hin
    obtain ⟨j', hj', hid⟩ := List.mem_map.1 hin
    obtain ⟨hmem, hg⟩ := List.mem_filter.1 hj'
    have := hall j' hmem
    simp [isJob, hid] at this
    simp at hg
    exact this hg.1
  · show (s.delete graph id).restart.lookup graph id = none
    rw [hdel]
    apply Lemmas.find_filterMap_none
    intro d' hd' r' hr'
    obtain ⟨hmem, hnot⟩ := List.mem_filter.1 hd'
    cases hjr : isJob graph id r' with
    | false => rfl
    | true =>
      have := hown d' hmem r' hr' hjr
      simp [this] at hnot

end Grip.Props.C11
