/-
  Grip.Props.C11 — property theorems for C11 (jobs faithfully store, resume and find traversals).
-/
import Grip.Model.C11
import GripProofs.Lemmas.C11

namespace Grip.Props.C11
open Grip Grip.C11

/-- `JobMatch` on checksum lists is: the job is a prefix of the query and has at least two steps. -/
theorem jobMatch_prefix {κ : Type} [DecidableEq κ] (q j : List κ) :
    jobMatch q j = true ↔ (j <+: q ∧ 2 ≤ j.length) := by
  unfold jobMatch
  by_cases h : j.length > q.length
  · simp only [h, if_true]
    constructor
    · intro hf; cases hf
    · rintro ⟨hp, _⟩
      have := hp.length_le
      omega
  · simp only [h, if_false, Bool.and_eq_true, decide_eq_true_eq, Lemmas.matchLoop_iff]
    constructor
    · rintro ⟨h1, h2⟩; exact ⟨h2, by omega⟩
    · rintro ⟨h1, h2⟩; exact ⟨by omega, h1⟩

/-- **jobMatch_iff.** With injective step checksums, searching for traversal `q` matches a job
    with statements `j` exactly when `j` is a prefix of `q` of two or more steps.  (The
    injectivity of `hashstructure.Hash` on statements is the stated hypothesis.) -/
theorem jobMatch_iff {σ κ : Type} [DecidableEq κ] (h : σ → κ) (hinj : Function.Injective h)
    (q j : List σ) :
    jobMatch (q.map h) (j.map h) = true ↔ (j <+: q ∧ 2 ≤ j.length) := by
  rw [jobMatch_prefix, List.length_map]
  constructor
  · rintro ⟨hp, hl⟩
    exact ⟨Lemmas.prefix_of_map_prefix h hinj j q hp, hl⟩
  · rintro ⟨hp, hl⟩
    exact ⟨hp.map h, hl⟩

end Grip.Props.C11
