/-
  Grip.Proto — the line protocol shared by the Go harness and `gripdriver` (DESIGN.md App. B).

  One JSON object per line.  JSON *values under test* are tagged so that scaled numbers,
  strings and containers cannot be confused:
     ["z"] null · ["b",true] · ["n",512] (= 512/1024) · ["s","txt"] · ["a",[v,…]] · ["o",[["k",v],…]]
-/
import Lean.Data.Json
import Grip.Basic

namespace Grip
open Lean

namespace Proto

partial def toJV? : Json → Option JV
  | .arr #[.str "z"] => some .null
  | .arr #[.str "b", .bool b] => some (.bool b)
  | .arr #[.str "n", .num n] => if n.exponent == 0 then some (.num n.mantissa) else none
  | .arr #[.str "s", .str s] => some (.str s)
  | .arr #[.str "a", .arr xs] => do
      let ys ← xs.toList.mapM toJV?
      pure (.arr ys)
  | .arr #[.str "o", .arr kvs] => do
      let ys ← kvs.toList.mapM fun kv => match kv with
        | .arr #[.str k, v] => do let w ← toJV? v; pure (k, w)
        | _ => none
      pure (.obj ys)
  | _ => none

partial def ofJV : JV → Json
  | .null => .arr #[.str "z"]
  | .bool b => .arr #[.str "b", .bool b]
  | .num n => .arr #[.str "n", .num ⟨n, 0⟩]
  | .str s => .arr #[.str "s", .str s]
  | .arr xs => .arr #[.str "a", .arr (xs.map ofJV).toArray]
  | .obj kvs => .arr #[.str "o", .arr (kvs.map fun (k, v) => Json.arr #[.str k, ofJV v]).toArray]

/-- A plain JSON number as a scaled integer (n/1024), when it is exactly representable. -/
def scaledOfNum (n : JsonNumber) : Option Int :=
  let den : Nat := 10 ^ n.exponent
  let num := n.mantissa * 1024
  if num % (den : Int) == 0 then some (num / (den : Int)) else none

/-- Plain (untagged) JSON → JV, as protojson prints `google.protobuf.Value`/`Struct`.
    Object keys are sorted; `none` when a number is not a multiple of 1/1024. -/
partial def plainToJV? : Json → Option JV
  | .null => some .null
  | .bool b => some (.bool b)
  | .num n => (scaledOfNum n).map .num
  | .str s => some (.str s)
  | .arr xs => do pure (.arr (← xs.toList.mapM plainToJV?))
  | .obj kvs => do
      let ys ← kvs.toList.mapM fun (k, v) => do let w ← plainToJV? v; pure (k, w)
      pure (.obj (ys.mergeSort (fun a b => a.1 ≤ b.1)))

def str? (j : Json) (k : String) : Option String :=
  match j.getObjVal? k with
  | .ok (.str s) => some s
  | _ => none

def int? (j : Json) (k : String) : Option Int :=
  match j.getObjVal? k with
  | .ok (.num n) => if n.exponent == 0 then some n.mantissa else none
  | _ => none

def nat? (j : Json) (k : String) : Option Nat :=
  match int? j k with
  | some i => if i ≥ 0 then some i.toNat else none
  | none => none

def bool? (j : Json) (k : String) : Option Bool :=
  match j.getObjVal? k with
  | .ok (.bool b) => some b
  | _ => none

def val? (j : Json) (k : String) : Option Json :=
  match j.getObjVal? k with
  | .ok v => some v
  | _ => none

def arr? (j : Json) (k : String) : Option (List Json) :=
  match j.getObjVal? k with
  | .ok (.arr xs) => some xs.toList
  | _ => none

def strs? (j : Json) (k : String) : Option (List String) := do
  let xs ← arr? j k
  xs.mapM fun x => match x with | .str s => some s | _ => none

def jv? (j : Json) (k : String) : Option JV := do
  let v ← val? j k
  toJV? v

/-- Hex helpers: identifiers that may contain control bytes cross the protocol as hex. -/
def hexDigit (n : Nat) : Char :=
  if n < 10 then Char.ofNat (48 + n) else Char.ofNat (87 + n)

def toHex (bs : Bytes) : String :=
  String.ofList (bs.flatMap fun b => [hexDigit (b.toNat / 16), hexDigit (b.toNat % 16)])

def hexVal (c : Char) : Option Nat :=
  if '0' ≤ c ∧ c ≤ '9' then some (c.toNat - 48)
  else if 'a' ≤ c ∧ c ≤ 'f' then some (c.toNat - 87)
  else none

def ofHexList : List Char → Option Bytes
  | [] => some []
  | a :: b :: rest => do
      let x ← hexVal a
      let y ← hexVal b
      let r ← ofHexList rest
      pure (UInt8.ofNat (x * 16 + y) :: r)
  | _ => none

def ofHex (s : String) : Option Bytes := ofHexList s.toList

end Proto
end Grip
