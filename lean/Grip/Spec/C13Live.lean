/-
  Grip.Spec.C13Live — SPEC vocabulary for the liveness half of C13 ("the output IS closed, and
  exactly when the input is exhausted"), for the transition systems of Grip.Model.C13.

  A step `act a s = some s'` is IDLE when `s' = s` (a stutter: the batcher's `select` took the
  `default:` arm / the poll found nothing and no timeout flush fired — the only idle steps that
  exist in the five models, see `bat_idle_iff`).  Every other step is a NON-IDLE step.

    `Exec act s n k s'`   a finite execution from `s` to `s'` with `n` steps, `k` of them non-idle
    `Terminal act s`      no non-idle step is enabled in `s` (the execution is maximal there)
    `Dead act s`          no step at all is enabled in `s`
    `IsRun act run`       `run : Nat → σ` is an infinite execution
    `nonIdle run n`       number of non-idle steps among the first `n` steps of `run`
    `Progress act run`    the assumption made about idle steps in infinite executions: idle steps
                          do not go on forever while a non-idle step is enabled (whenever the
                          current state is not terminal, some later step is non-idle).  This is
                          weaker than weak fairness of any single goroutine.
-/
import Grip.Model.C13

namespace Grip.C13.Spec
open Grip.C13

/-- finite executions; the two counters are (all steps, non-idle steps) -/
inductive Exec {σ A : Type} (act : A → σ → Option σ) : σ → Nat → Nat → σ → Prop
  | nil (s : σ) : Exec act s 0 0 s
  | idle {s s' : σ} {n k : Nat} (a : A) : act a s = some s → Exec act s n k s' → Exec act s (n + 1) k s'
  | step {s t s' : σ} {n k : Nat} (a : A) : act a s = some t → t ≠ s → Exec act t n k s' →
      Exec act s (n + 1) (k + 1) s'

/-- no non-idle step is enabled -/
def Terminal {σ A : Type} (act : A → σ → Option σ) (s : σ) : Prop :=
  ∀ a s', act a s = some s' → s' = s

/-- no step is enabled -/
def Dead {σ A : Type} (act : A → σ → Option σ) (s : σ) : Prop :=
  ∀ a, act a s = none

/-- an infinite execution -/
def IsRun {σ A : Type} (act : A → σ → Option σ) (run : Nat → σ) : Prop :=
  ∀ n, ∃ a, act a (run n) = some (run (n + 1))

open Classical in
/-- the number of non-idle steps among the first `n` steps of an infinite execution -/
noncomputable def nonIdle {σ : Type} (run : Nat → σ) : Nat → Nat
  | 0 => 0
  | n + 1 => nonIdle run n + (if run (n + 1) = run n then 0 else 1)

/-- the assumption about idle steps: they do not go on forever while a non-idle step is enabled -/
def Progress {σ A : Type} (act : A → σ → Option σ) (run : Nat → σ) : Prop :=
  ∀ N, ¬ Terminal act (run N) → ∃ n, N ≤ n ∧ run (n + 1) ≠ run n

/-! ### the jump queue with goroutine B's busy-wait made explicit

  In `engine/queue.New` goroutine B does not block on an empty queue: it takes the mutex, finds
  `len(queue) == 0` and `closed == false`, releases the mutex and tries again.  `Grip.C13.qAct`
  leaves these iterations out (no action is enabled for B then).  `qSpinAct` adds them as an
  explicit IDLE action, so that the liveness statement for the queue can say what it assumes
  about them. -/

inductive QSpinAct where
  | act (a : QAct)
  | spin

def qSpinAct {α : Type} (c : QCfg) : QSpinAct → Q α → Option (Q α)
  | .act a, s => qAct c a s
  | .spin, s =>
    match s.queue with
    | [] => if s.running = true ∧ s.hold.isNone = true ∧ s.closed = false then some s else none
    | _ :: _ => none

end Grip.C13.Spec
