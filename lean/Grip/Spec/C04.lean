/-
  Grip.Spec.C04 — SPEC vocabulary of "reopen and crash consistency".

  * A clean reopen is invisible: the observations (everything `Grip.Drv.C03.graphObs` prints except
    the timestamp word) of a history with a reopen inserted anywhere equal those of the history
    without it.  `Obs` below is the timestamp-free observation as a function of the persisted map.
  * After a crash between two top-level writes the reopened graphs satisfy `WeakInv`:
      - every adjacency entry (by-source / by-destination key) of a listed graph refers to an
        existing edge record,
      - every existing edge of a listed graph is reachable through both adjacency indexes and
        through the edge-label index, every existing vertex through the vertex-label index,
      - every listed graph has its two label indexes registered (so elements written later are
        indexed as well),
      - a label-index lookup only returns existing elements carrying the label (`LookupSound`;
        kvgraph filters stale index entries on read, commit bfcbd50).
    "Listed graph" = a graph with a graph key (what ListGraphs returns): keys of a graph that is not
    listed are not observable through any call.
  * `Present`: every key holds either the value it had before the interrupted call or the value the
    completed call gives it — nothing an earlier (acknowledged) call wrote is lost or altered
    except by writes the interrupted call itself issues.
-/
import Grip.Model.C04

namespace Grip.C04.Spec
open Grip.C03 Grip.C04

/-- Timestamp-free observation of the persisted map: all reads of all listed graphs. -/
structure GObs where
  getV : String → Option VOut
  getE : String → Option EOut
  vlist : List VOut
  elist : List EOut
  outV : String → List String → List VOut
  inV : String → List String → List VOut
  outE : String → List String → List EOut
  inE : String → List String → List EOut
  hasLabel : String → List VOut
  labelsV : List String
  labelsE : List String

def obsGraph (m : KV) (g : String) : GObs :=
  { getV := getVertex m g, getE := getEdge m g, vlist := vertexList m g, elist := edgeList m g,
    outV := outV m g, inV := inV m g, outE := outE m g, inE := inE m g,
    hasLabel := verticesWithLabel m g, labelsV := listVertexLabels m g, labelsE := listEdgeLabels m g }

/-- Everything observable: the graph list and, per graph name, all reads. -/
def Obs (s : KState) : List String × (String → GObs) := (graphs s.kv, obsGraph s.kv)

/-- Histories with restarts. -/
inductive Ev where
  | op (o : Op)
  | reopen
  deriving Inhabited

def evStep (s : KState) : Ev → KState
  | .op o => (step s o).1
  | .reopen => reopen s

def runEv (s : KState) (h : List Ev) : KState := h.foldl evStep s

/-- Results (ok / error) of the calls of a history, restarts answer nothing. -/
def results : KState → List Ev → List Res
  | _, [] => []
  | s, .op o :: h => (step s o).2 :: results (step s o).1 h
  | s, .reopen :: h => results (reopen s) h

def Listed (m : KV) (g : String) : Prop := m.has (.graph g) = true

structure WeakInv (m : KV) : Prop where
  src_edge : ∀ g s d eid l, Listed m g → m.has (.src g s d eid l) = true → m.has (.edge g eid s d l) = true
  dst_edge : ∀ g s d eid l, Listed m g → m.has (.dst g d s eid l) = true → m.has (.edge g eid s d l) = true
  edge_adj : ∀ g s d eid l, Listed m g → m.has (.edge g eid s d l) = true →
    m.has (.src g s d eid l) = true ∧ m.has (.dst g d s eid l) = true
  edge_idx : ∀ g s d eid l, Listed m g → m.has (.edge g eid s d l) = true →
    m.has (.entry (labelField g "e") l eid) = true ∧ m.has (.term (labelField g "e") l) = true
  vert_idx : ∀ g id l data, Listed m g → m.get (.vertex g id) = some (.vert l data) →
    m.has (.entry (labelField g "v") l id) = true ∧ m.has (.term (labelField g "v") l) = true
  graph_fields : ∀ g, Listed m g →
    m.has (.field (labelField g "v")) = true ∧ m.has (.field (labelField g "e")) = true

/-- Label-index lookups return existing vertices that carry the label. -/
def LookupSound (m : KV) : Prop :=
  ∀ g l v, v ∈ verticesWithLabel m g l → getVertex m g v.gid = some v ∧ v.label = l

/-- Every key holds its value before the call or its value after the completed call. -/
def Present (before cut after : KV) : Prop :=
  ∀ k, cut.get k = before.get k ∨ cut.get k = after.get k

end Grip.C04.Spec
