/-
  Grip.Spec.C17 — SPEC for property C17, part (ii): what concurrent client sessions may leave behind.

  A session is a list of clients, each a list of edits (the C03 operations on the abstract graph
  `Grip.C03.Spec.AG`; every top-level write of the server is ONE atomic function on AG).
  "The stored graphs equal the result of applying the acknowledged edits in an order consistent with
  each client's own order" = the final state is `specRun init zs` for some interleaving `zs` of the
  clients' acknowledged edits.  `Merge`/`MergeN` define interleavings; `merges2`/`mergesN`
  enumerate them (proved complete and sound in GripProofs), `admissible` is the membership test the
  driver runs, and `written` is the readers' clause: an observed element is one some client wrote.
-/
import Grip.Spec.C03

namespace Grip.C17.Spec
open Grip.C03 Grip.C03.Spec

/-- `Merge xs ys zs`: zs interleaves xs and ys, keeping the order inside each. -/
inductive Merge {α : Type} : List α → List α → List α → Prop
  | nil : Merge [] [] []
  | left {x xs ys zs} : Merge xs ys zs → Merge (x :: xs) ys (x :: zs)
  | right {y xs ys zs} : Merge xs ys zs → Merge xs (y :: ys) (y :: zs)

/-- interleavings of any number of clients -/
inductive MergeN {α : Type} : List (List α) → List α → Prop
  | nil : MergeN [] []
  | cons {c cs rest zs} : MergeN cs rest → Merge c rest zs → MergeN (c :: cs) zs

def merges2 {α : Type} : List α → List α → List (List α)
  | [], ys => [ys]
  | x :: xs, [] => [x :: xs]
  | x :: xs, y :: ys =>
    (merges2 xs (y :: ys)).map (x :: ·) ++ (merges2 (x :: xs) ys).map (y :: ·)

def mergesN {α : Type} : List (List α) → List (List α)
  | [] => [[]]
  | c :: cs => (mergesN cs).flatMap (merges2 c)

/-- number of interleavings (so the driver can refuse sessions that are too large to enumerate) -/
def countMerges2 : Nat → Nat → Nat
  | 0, _ => 1
  | _ + 1, 0 => 1
  | m + 1, n + 1 => countMerges2 m (n + 1) + countMerges2 (m + 1) n

def countMergesN : List Nat → Nat × Nat
  | [] => (1, 0)
  | c :: cs => let (k, len) := countMergesN cs; (k * countMerges2 c len, c + len)

/-- what is compared: the elements of one graph, as sets (sorted by the driver) -/
structure Final where
  verts : List VOut
  edges : List EOut

def finalOf (a : AG) (g : String) : Final := ⟨vertexList a g, edgeList a g⟩

def sameSet {α : Type} [DecidableEq α] (xs ys : List α) : Bool :=
  xs.all (ys.contains ·) && ys.all (xs.contains ·) && xs.length == ys.length

def Final.same (x y : Final) : Bool := sameSet x.verts y.verts && sameSet x.edges y.edges

/-- final states of graph `g` over all serial orders consistent with each client's order -/
def serialFinals (init : AG) (clients : List (List Op)) (g : String) : List Final :=
  (mergesN clients).map fun zs => finalOf (specRun init zs) g

def admissible (init : AG) (clients : List (List Op)) (g : String) (obs : Final) : Bool :=
  (serialFinals init clients g).any (·.same obs)

/-- one fixed serial order (client after client); equals every other order when the clients'
    edits are pairwise independent (`GripProofs`: `independent_sessions_confluent`). -/
def serialFinal (init : AG) (clients : List (List Op)) (g : String) : Final :=
  finalOf (specRun init clients.flatten) g

/-! ### readers -/

def vertsWritten (g : String) : Op → List VOut
  | .addV g' vs => if g' = g then (vs.filter validVertex).map fun v => ⟨v.gid, v.label, v.data⟩ else []
  | .bulk g' xs => if g' = g then xs.filterMap fun
      | .v v => if validVertex v then some ⟨v.gid, v.label, v.data⟩ else none
      | .e _ => none else []
  | _ => []

def edgesWritten (g : String) : Op → List EOut
  | .addE g' es => if g' = g then (es.filter validEdge).map fun e => ⟨e.gid, e.label, e.frm, e.to, e.data⟩ else []
  | .bulk g' xs => if g' = g then xs.filterMap fun
      | .e e => if validEdge e then some ⟨e.gid, e.label, e.frm, e.to, e.data⟩ else none
      | .v _ => none else []
  | _ => []

/-- every observed element was written by some edit of the history (setup or any client) -/
def written (ops : List Op) (g : String) (obs : Final) : Bool :=
  obs.verts.all (fun v => ops.any fun o => (vertsWritten g o).contains v) &&
  obs.edges.all (fun e => ops.any fun o => (edgesWritten g o).contains e)

end Grip.C17.Spec
