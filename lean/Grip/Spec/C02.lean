/-
  Grip.Spec.C02 — SPEC vocabulary of C02: "the same rows" is multiset equality of result rows
  (`List.Perm`); the literal, fully loaded execution is C01's `Grip.run`.  Core Lean only.
-/
import Grip.Model.Eval
import Grip.Model.C02

namespace Grip.Spec.C02
open Grip Grip.C02

/-- Two executions return the same rows (as multisets), or both reject the traversal. -/
def SameRows : Except TypeErr (List Row) → Except TypeErr (List Row) → Prop
  | .ok a, .ok b => a.Perm b
  | .error _, .error _ => True
  | _, _ => False

/-- Statements whose result does not depend on the order of their input rows (everything but
    `limit/skip/range`, whose documented meaning picks "the first n" of an order the documentation
    does not fix, and `distinct`, which keeps one representative per key). -/
def orderFree : Stmt → Bool
  | .limit _ | .skip _ | .range _ _ | .distinct _ | .lookupVertsIndex _ => false
  | _ => true

/-- Name of an arm of `PipelineStepOutputs` as the translator prints it. -/
def armName : OutArm → String
  | .count => "count" | .select => "select" | .lookup => "lookup" | .hasLabel => "hasLabel"
  | .readsCur => "readsCur" | .none => "none"

end Grip.Spec.C02
