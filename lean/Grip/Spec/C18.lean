/-
  Grip.Spec.C18 — SPEC: what "bulk loading equals loading one by one" means.

  Every item of the stream gets a verdict that depends on that item alone (and on which graphs
  exist): it is *stored*, it is an *error*, or it carries nothing.  The state a bulk load must
  reach is the fold of single adds (`AddVertex` / `AddEdge` with one element: C03's
  `step s (.addV g [x])`, `step s (.addE g [x])`) over the stored items in stream order; the
  reported counts are the numbers of stored and of error items.
-/
import Grip.Model.C18

namespace Grip.C18.Spec
open Grip.C03 Grip.C18

inductive Verdict where
  | store (g : String) (x : ElemIn)
  | error
  | nothing
  deriving Repr, DecidableEq

/-- `ex g`: graph `g` exists (can be resolved). -/
def verdict (ex : String → Bool) (it : Item) : Verdict :=
  if isSchema it.g then .error          -- schema graphs are not written through this call
  else if !ex it.g then .error          -- unreachable graph: one error per element
  else match it.x with
    | none => .nothing
    | some x => if elemValid (fillId it.uuid x) then .store it.g (fillId it.uuid x) else .error

/-- the elements a stream stores, with their target graphs, in stream order -/
def accepted (ex : String → Bool) (stream : List Item) : List (String × ElemIn) :=
  stream.filterMap fun it => match verdict ex it with
    | .store g x => some (g, x)
    | _ => none

/-- the item is stored (verdict `store`) -/
def isStored (ex : String → Bool) (it : Item) : Bool :=
  match verdict ex it with
  | .store _ _ => true
  | _ => false

def errors (ex : String → Bool) (stream : List Item) : Nat :=
  stream.countP fun it => verdict ex it = .error

/-- adding one element through the single-element API -/
def addOne (s : KState) (p : String × ElemIn) : KState :=
  match p.2 with
  | .v x => (step s (.addV p.1 [x])).1
  | .e x => (step s (.addE p.1 [x])).1

def sequential (s : KState) (ps : List (String × ElemIn)) : KState := ps.foldl addOne s

/-- what a caller with write permission `allowed` must observe after streaming `stream` -/
structure Expected where
  st : KState
  insertCount : Nat
  errorCount : Nat

def expected (allowed : String → Bool) (s : KState) (stream : List Item) : Expected :=
  let str := stream.filter (fun it => allowed it.g)
  ⟨sequential s (accepted (hasGraph s) str), (accepted (hasGraph s) str).length, errors (hasGraph s) str⟩

/-- The part of a state that single adds and bulk adds must agree on exactly: the stored keys and
    the registered index fields.  (The timestamp is a clock value: a bulk load touches once per
    segment, single adds once per element; see `Touched`.) -/
def core (s : KState) : KV × List String := (s.kv, s.fields)

/-- graph `g` was touched between `s` and `s'` -/
def Touched (s s' : KState) (g : String) : Prop := ∃ n, s'.stamp g = some n ∧ s.clock < n

/-! ### StreamBatch: the vertices / edges of a channel that pass its validation, in order -/

def sbVertices (graph : String) (xs : List GElem) : List VertexIn :=
  xs.filterMap fun el => if el.g ≠ graph then none else
    match el.v with
    | some x => if validVertex x then some x else none
    | none => none

def sbEdges (graph : String) (xs : List GElem) : List EdgeIn :=
  xs.filterMap fun el => if el.g ≠ graph then none else
    match el.v, el.e with
    | none, some x =>
      let x := if x.gid = "" then { x with gid := el.uuid } else x
      if validDataElement x then some x else none
    | _, _ => none

end Grip.C18.Spec
