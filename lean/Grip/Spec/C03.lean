/-
  Grip.Spec.C03 — SPEC: the abstract graph store the property talks about.

  Per graph: `verts : id ↦ (label, data)`, `edges : id ↦ (from, to, label, data)`; last write to an
  id wins; deleting a vertex removes its incident edges; deleting an edge removes it from both
  endpoints (adjacency is *derived* from the edge map, so this is automatic); graphs are isolated;
  invalid elements are rejected and change nothing; deleting something absent changes nothing.
  The timestamp (a counter) changes exactly when a write was applied: a graph was created, at least
  one element of a batch was accepted, a vertex delete was issued on an existing graph, or an
  existing edge was deleted.
-/
import Grip.Model.C03

namespace Grip.C03.Spec
open Grip.C03

structure VRec where
  label : String
  data : JV
  deriving DecidableEq, Repr

structure ERec where
  frm : String
  to : String
  label : String
  data : JV
  deriving DecidableEq, Repr

/-- Abstract state: association lists keyed by (graph, id). -/
structure AG where
  graphs : List String := []
  verts : List ((String × String) × VRec) := []
  edges : List ((String × String) × ERec) := []
  stamps : List (String × Nat) := []
  clock : Nat := 0
  deriving Repr

def AG.getV (a : AG) (g id : String) : Option VRec := (a.verts.find? (fun p => p.1 = (g, id))).map (·.2)
def AG.getE (a : AG) (g id : String) : Option ERec := (a.edges.find? (fun p => p.1 = (g, id))).map (·.2)
def AG.putV (a : AG) (g id : String) (r : VRec) : AG :=
  { a with verts := ((g, id), r) :: a.verts.filter (fun p => ¬ p.1 = (g, id)) }
def AG.putE (a : AG) (g id : String) (r : ERec) : AG :=
  { a with edges := ((g, id), r) :: a.edges.filter (fun p => ¬ p.1 = (g, id)) }
def AG.touch (a : AG) (g : String) : AG :=
  { a with clock := a.clock + 1, stamps := (g, a.clock + 1) :: a.stamps.filter (fun p => p.1 ≠ g) }
def AG.stamp (a : AG) (g : String) : Option Nat := (a.stamps.find? (fun p => p.1 = g)).map (·.2)

def putElem (a : AG) (g : String) : ElemIn → AG × Bool
  | .v x => if validVertex x then (a.putV g x.gid ⟨x.label, x.data⟩, true) else (a, false)
  | .e x => if validEdge x then (a.putE g x.gid ⟨x.frm, x.to, x.label, x.data⟩, true) else (a, false)

def putAll (g : String) : AG → List ElemIn → AG × Bool × Bool
  | a, [] => (a, false, false)
  | a, x :: xs =>
    let (a1, ok) := putElem a g x
    let (a2, anyOk, anyErr) := putAll g a1 xs
    (a2, ok || anyOk, !ok || anyErr)

def addElems (a : AG) (g : String) (xs : List ElemIn) : AG × Res :=
  if !a.graphs.contains g then (a, .err) else
  let (a1, anyOk, anyErr) := putAll g a xs
  ((if anyOk then a1.touch g else a1), if anyErr then .err else .ok)

def specStep (a : AG) : Op → AG × Res
  | .addGraph g =>
    if !validName g then (a, .err) else
    ({ (a.touch g) with graphs := g :: a.graphs.filter (· ≠ g) }, .ok)
  | .delGraph g =>
    ({ (a.touch g) with graphs := a.graphs.filter (· ≠ g),
                        verts := a.verts.filter (fun p => p.1.1 ≠ g),
                        edges := a.edges.filter (fun p => p.1.1 ≠ g) }, .ok)
  | .addV g vs => addElems a g (vs.map .v)
  | .addE g es => addElems a g (es.map .e)
  | .bulk g xs => addElems a g xs
  | .delV g id =>
    if !a.graphs.contains g then (a, .err) else
    ({ (a.touch g) with verts := a.verts.filter (fun p => ¬ p.1 = (g, id)),
                        edges := a.edges.filter (fun p => ¬ (p.1.1 = g ∧ (p.2.frm = id ∨ p.2.to = id))) }, .ok)
  | .delE g eid =>
    if !a.graphs.contains g then (a, .err) else
    match a.getE g eid with
    | none => (a, .err)
    | some _ => ({ (a.touch g) with edges := a.edges.filter (fun p => ¬ p.1 = (g, eid)) }, .ok)

def specRun (a : AG) (ops : List Op) : AG := ops.foldl (fun a o => (specStep a o).1) a

/-! reads on the abstract graph -/

def getVertex (a : AG) (g id : String) : Option VOut := (a.getV g id).map fun r => ⟨id, r.label, r.data⟩
def getEdge (a : AG) (g id : String) : Option EOut := (a.getE g id).map fun r => ⟨id, r.label, r.frm, r.to, r.data⟩
def vertexList (a : AG) (g : String) : List VOut :=
  a.verts.filterMap fun p => if p.1.1 = g then some ⟨p.1.2, p.2.label, p.2.data⟩ else none
def edgeList (a : AG) (g : String) : List EOut :=
  a.edges.filterMap fun p => if p.1.1 = g then some ⟨p.1.2, p.2.label, p.2.frm, p.2.to, p.2.data⟩ else none
/-- neighbours over outgoing edges (one per edge; absent endpoints yield nothing) -/
def outV (a : AG) (g id : String) (labels : List String) : List VOut :=
  (edgeList a g).filterMap fun e => if e.frm = id ∧ labelOk labels e.label then getVertex a g e.to else none
def inV (a : AG) (g id : String) (labels : List String) : List VOut :=
  (edgeList a g).filterMap fun e => if e.to = id ∧ labelOk labels e.label then getVertex a g e.frm else none
def outE (a : AG) (g id : String) (labels : List String) : List EOut :=
  (edgeList a g).filter fun e => e.frm = id ∧ labelOk labels e.label
def inE (a : AG) (g id : String) (labels : List String) : List EOut :=
  (edgeList a g).filter fun e => e.to = id ∧ labelOk labels e.label
def verticesWithLabel (a : AG) (g label : String) : List VOut := (vertexList a g).filter (·.label = label)
def listVertexLabels (a : AG) (g : String) : List String := ((vertexList a g).map (·.label)).eraseDups
def listEdgeLabels (a : AG) (g : String) : List String := ((edgeList a g).map (·.label)).eraseDups

end Grip.C03.Spec
