/-
  Grip.Spec.C20 — SPEC vocabulary for "SQL backends treat client-supplied identifiers as data".

  A statement is a list of characters.  Its *token shape* is what a PostgreSQL-style scanner makes
  of it once the content of string literals and quoted identifiers has been erased: the sequence
  of token events (identifier characters, number characters, punctuation, "a string literal opens
  here", "a quoted identifier opens here") plus the scanner state at the end of the text
  (so an unterminated literal or comment is part of the shape).

  The scanner is a reading of PostgreSQL's lexical rules (scan.l, standard_conforming_strings = on):
    identifiers / key words   letter, `_`, `$`, any non-ASCII character, then those or digits
    numbers                   digits and `.`
    string literal            '…' with '' as the escaped quote; backslash is an ordinary character
    escape string literal     E'…' / e'…': backslash escapes the next character, '' also escapes
    quoted identifier         "…" with "" as the escaped quote
    comments                  -- to end of line;  /* … */ nested
    everything else           one punctuation event per character (`;` included)
  Not modelled: dollar quoting ($tag$…$tag$; `$` is an identifier character here — the safety check
  in the MODEL refuses templates that could open one), U&'…' UESCAPE, the "literals separated by a
  newline are concatenated" rule (it does not change where tokens begin).  This file is in the
  trusted base.  Core Lean only.
-/
namespace Grip.C20

/-- Scanner states. -/
inductive St where
  | dflt                      -- between tokens
  | ident (e : Bool)          -- inside an identifier; `e`: the identifier so far is exactly E / e
  | num                       -- inside a number
  | str                       -- inside '…'
  | strQ                      -- saw ' inside '…' (closing quote or first half of '')
  | estr                      -- inside E'…'
  | estrB                     -- inside E'…' just after a backslash
  | estrQ                     -- saw ' inside E'…'
  | qid                       -- inside "…"
  | qidQ                      -- saw " inside "…"
  | dash                      -- saw one '-'
  | lcom                      -- inside -- comment
  | slash                     -- saw one '/'
  | bcom (d : Nat)            -- inside /* … */ at nesting depth d+1
  | bcomStar (d : Nat)        -- … just after '*'
  | bcomSlash (d : Nat)       -- … just after '/'
  deriving DecidableEq, Repr, Inhabited

/-- Token events.  Nothing is emitted for characters inside literals, quoted identifiers, comments
    or for white space, so the event list does not depend on the *content* of a literal. -/
inductive Ev where
  | identStart (c : Char) | identCont (c : Char)
  | numStart (c : Char) | numCont (c : Char)
  | strOpen | estrOpen | qidOpen
  | punct (c : Char)
  deriving DecidableEq, Repr, Inhabited

def isSpace (c : Char) : Bool :=
  c == ' ' || c == '\t' || c == '\n' || c == '\r' || c.toNat == 12 || c.toNat == 11

def isIdentStart (c : Char) : Bool :=
  c.isAlpha || c == '_' || c == '$' || c.toNat ≥ 128

def isIdentCont (c : Char) : Bool := isIdentStart c || c.isDigit

/-- One character seen between tokens. -/
def fromDflt (c : Char) : St × List Ev :=
  if c == '\'' then (.str, [.strOpen])
  else if c == '"' then (.qid, [.qidOpen])
  else if c == '-' then (.dash, [])
  else if c == '/' then (.slash, [])
  else if isSpace c then (.dflt, [])
  else if isIdentStart c then (.ident (c == 'E' || c == 'e'), [.identStart c])
  else if c.isDigit then (.num, [.numStart c])
  else (.dflt, [.punct c])

/-- The scanner's transition function. -/
def step (s : St) (c : Char) : St × List Ev :=
  match s with
  | .dflt => fromDflt c
  | .ident e =>
      if isIdentCont c then (.ident false, [.identCont c])
      else if c == '\'' && e then (.estr, [.estrOpen])
      else fromDflt c
  | .num => if c.isDigit || c == '.' then (.num, [.numCont c]) else fromDflt c
  | .str => if c == '\'' then (.strQ, []) else (.str, [])
  | .strQ => if c == '\'' then (.str, []) else fromDflt c
  | .estr => if c == '\\' then (.estrB, []) else if c == '\'' then (.estrQ, []) else (.estr, [])
  | .estrB => (.estr, [])
  | .estrQ => if c == '\'' then (.estr, []) else fromDflt c
  | .qid => if c == '"' then (.qidQ, []) else (.qid, [])
  | .qidQ => if c == '"' then (.qid, []) else fromDflt c
  | .dash =>
      if c == '-' then (.lcom, [])
      else let (s', ev) := fromDflt c; (s', .punct '-' :: ev)
  | .lcom => if c == '\n' then (.dflt, []) else (.lcom, [])
  | .slash =>
      if c == '*' then (.bcom 0, [])
      else let (s', ev) := fromDflt c; (s', .punct '/' :: ev)
  | .bcom d => if c == '*' then (.bcomStar d, []) else if c == '/' then (.bcomSlash d, []) else (.bcom d, [])
  | .bcomStar d =>
      if c == '/' then (match d with | 0 => (.dflt, []) | d' + 1 => (.bcom d', []))
      else if c == '*' then (.bcomStar d, []) else (.bcom d, [])
  | .bcomSlash d =>
      if c == '*' then (.bcom (d + 1), []) else if c == '/' then (.bcomSlash d, []) else (.bcom d, [])

/-- Run the scanner over a text from a state: final state and the events in order. -/
def run (s : St) : List Char → St × List Ev
  | [] => (s, [])
  | c :: cs =>
      let (s1, e1) := step s c
      let (s2, e2) := run s1 cs
      (s2, e1 ++ e2)

/-- The token shape of a statement. -/
def shape (text : List Char) : St × List Ev := run .dflt text

/-- SPEC: two statements are structurally the same. -/
def SameShape (a b : List Char) : Prop := shape a = shape b

instance (a b : List Char) : Decidable (SameShape a b) := by unfold SameShape; infer_instance

/-- A quoting function for literals "doubles quotes": the body of the literal. -/
def dbl (q : Char) : List Char → List Char
  | [] => []
  | c :: cs => if c == q then q :: q :: dbl q cs else c :: dbl q cs

/-- `'…'` with embedded quotes doubled (what a correct literal-quoting helper produces). -/
def quoteLit (x : List Char) : List Char := '\'' :: (dbl '\'' x ++ ['\''])

/-- `"…"` with embedded double quotes doubled (what a correct identifier-quoting helper produces). -/
def quoteIdent (x : List Char) : List Char := '"' :: (dbl '"' x ++ ['"'])

end Grip.C20
