/-
  Grip.Spec.C19 — SPEC: what the property says an aggregation result is, in terms of the list of
  field values `vals` (one per input row; `.null` = missing) — no loops, no maps, no channels.

  Where the documentation is silent the code's reading is adopted and said so:
  * a *numeric value* is a JSON number, a boolean (1/0) or numeric text — the reading of
    `cast.ToFloat64E`; null/missing values, lists, objects and other text are not numeric;
  * the *type* of a missing/null/list/object value is `UNKNOWN` (gripql.GetFieldType);
  * which of several equally frequent terms survive `size` is not determined.
  Core Lean only.
-/
import Grip.Basic

namespace Grip.C19.Spec

/-- count: the number of input rows. -/
def CountIs {α : Type} (ts : List α) (c : Nat) : Prop := c = ts.length

/-- scalar values: booleans, numbers, text. -/
def scalar : JV → Bool
  | .bool _ => true
  | .num _ => true
  | .str _ => true
  | _ => false

/-- A bucket list is *exact* for a list of items: every item that occurs is listed once, with
    its frequency, and nothing else is listed. -/
def Exact {α : Type} [DecidableEq α] (items : List α) (m : List (α × Nat)) : Prop :=
  (m.map (·.1)).Nodup ∧ ∀ k c, (k, c) ∈ m ↔ (c = items.count k ∧ 0 < c)

/-- term buckets: each distinct scalar value with its exact frequency. -/
def TermExact (vals : List JV) (m : List (JV × Nat)) : Prop :=
  Exact (vals.filter scalar) m

/-- "limited to the most frequent `size` buckets when a size is given": `out` consists of
    `min size #exact` of the exact buckets, and no bucket left out is more frequent than one kept.
    `size = 0` (no size given): all of them. -/
def ValidTop {α : Type} (size : Nat) (exact out : List (α × Nat)) : Prop :=
  if size = 0 then out.Perm exact
  else ∃ rest, (out ++ rest).Perm exact ∧ out.length = min size exact.length ∧
        ∀ a ∈ out, ∀ b ∈ rest, b.2 ≤ a.2

/-- numeric reading of a value (`numOf` = strconv.ParseFloat on the exactly representable fragment). -/
def numericOf (numOf : String → Option Int) : JV → Option Int
  | .num n => some n
  | .bool b => some (if b then 1024 else 0)
  | .str s => numOf s
  | _ => none

/-- the numeric values among the field values (in input order). -/
def numerics (numOf : String → Option Int) (vals : List JV) : List Int :=
  vals.filterMap (numericOf numOf)

/-- `v` lies in the bucket that starts at `b`. -/
def InBucket (I b v : Int) : Prop := b ≤ v ∧ v < b + I

instance (I b v : Int) : Decidable (InBucket I b v) := by unfold InBucket; infer_instance

/-- histogram buckets (start, count) over numeric values `nums` with interval `I`. -/
structure Hist (I : Int) (nums : List Int) (bs : List (Int × Nat)) : Prop where
  aligned : ∀ p ∈ bs, I ∣ p.1
  distinct : (bs.map (·.1)).Nodup
  counts : ∀ p ∈ bs, p.2 = nums.countP (fun v => decide (InBucket I p.1 v))
  partition : ∀ v ∈ nums, ∃ b, (b ∈ bs.map (·.1) ∧ InBucket I b v) ∧
                ∀ b', (b' ∈ bs.map (·.1) ∧ InBucket I b' v) → b' = b
  sum : (bs.map (·.2)).sum = nums.length

/-- keys of an object value. -/
def keysOf : JV → List String
  | .obj kvs => kvs.map (·.1)
  | _ => []

/-- field aggregation: each key present in some object value, with the number of its occurrences. -/
def FieldExact (vals : List JV) (m : List (String × Nat)) : Prop :=
  Exact (vals.flatMap keysOf) m

def typeOf : JV → String
  | .str _ => "STRING"
  | .num _ => "NUMERIC"
  | .bool _ => "BOOL"
  | _ => "UNKNOWN"

/-- type aggregation: each value type present, with the number of rows having it. -/
def TypeExact (vals : List JV) (m : List (String × Nat)) : Prop :=
  Exact (vals.map typeOf) m

/-- the percentile clause, for estimates `(p, q)` with `q` in units of 1/unit-th of a scaled
    number: non-decreasing in p and between the minimum and the maximum of the numeric values. -/
def PctOk (unit : Int) (nums : List Int) (rows : List (Int × Int)) : Prop :=
  (∀ a ∈ rows, ∀ b ∈ rows, a.1 ≤ b.1 → a.2 ≤ b.2) ∧
  (∀ a ∈ rows, ∀ v ∈ nums, (∀ w ∈ nums, v ≤ w) → v * unit ≤ a.2) ∧
  (∀ a ∈ rows, ∀ v ∈ nums, (∀ w ∈ nums, w ≤ v) → a.2 ≤ v * unit)

end Grip.C19.Spec
