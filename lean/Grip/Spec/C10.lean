/-
  Grip.Spec.C10 — SPEC vocabulary of property C10: what "behaves as one ordered byte-string map"
  means, stated without reference to how the model computes it.  Core Lean only.
-/
import Grip.Model.SMap

namespace Grip.Spec.C10
open Grip Grip.Bytes

/-- The abstract content of a store: a finite partial function from keys to values. -/
abbrev Content := Bytes → Option Bytes

/-- `kv` is the entry of `m` with the least key ≥ `k` (what `Seek(k)` must land on). -/
def IsLeastGE (m : List KV) (k : Bytes) (kv : KV) : Prop :=
  kv ∈ m ∧ ble k kv.1 = true ∧ ∀ kv' ∈ m, ble k kv'.1 = true → ble kv.1 kv'.1 = true

/-- `kv` is the entry of `m` with the greatest key ≤ `k` (what `SeekReverse(k)` must land on). -/
def IsGreatestLE (m : List KV) (k : Bytes) (kv : KV) : Prop :=
  kv ∈ m ∧ ble kv.1 k = true ∧ ∀ kv' ∈ m, ble kv'.1 k = true → ble kv'.1 kv.1 = true

/-- `kv` is the entry with the least key strictly above `k` (forward `Next()`). -/
def IsSucc (m : List KV) (k : Bytes) (kv : KV) : Prop :=
  kv ∈ m ∧ blt k kv.1 = true ∧ ∀ kv' ∈ m, blt k kv'.1 = true → ble kv.1 kv'.1 = true

/-- `kv` is the entry with the greatest key strictly below `k` (backward `Next()`). -/
def IsPred (m : List KV) (k : Bytes) (kv : KV) : Prop :=
  kv ∈ m ∧ blt kv.1 k = true ∧ ∀ kv' ∈ m, blt kv'.1 k = true → ble kv'.1 kv.1 = true

/-- What a prefix scan must enumerate: the entries whose key starts with `p`, in key order. -/
def prefixEntries (m : List KV) (p : Bytes) : List KV := m.filter (fun kv => hasPrefix kv.1 p)

end Grip.Spec.C10
