/-
  Grip.Spec.C12 — SPEC of a mark/jump loop: the *iterative definition*.

  A loop program over travelers `T` is
      mark(L) . body . jump(L, cond, emit)
  where `body : T → List T` is the (order-preserving, per-traveler) composition of the steps
  between the mark and the jump, `cond` the jump condition and `emit` the emit flag.

  Pass k applies the body to the travelers that satisfied the jump condition in pass k-1
  (pass 0: the travelers that reach the mark from upstream).  With `emit`, every traveler that
  reaches the jump in a pass is copied downstream once in that pass; without it nothing leaves
  the loop (engine/logic/jump.go: `if s.Emit { out <- t.Copy() }`).

  Core Lean only.
-/
namespace Grip.C12

/-- A loop program (mark . body . jump(cond, emit)). -/
structure Loop (T : Type) where
  body : T → List T
  cond : T → Bool
  emit : Bool

variable {T : Type}

/-- What the jump copies downstream from the travelers reaching it in one pass. -/
def Loop.emitOf (L : Loop T) (ts : List T) : List T := if L.emit then ts else []

/-- The iterative definition: rows of the first `n` passes started with `ts` at the mark. -/
def iterate (L : Loop T) : Nat → List T → List T
  | 0, _ => []
  | n + 1, ts =>
    let B := ts.flatMap L.body
    L.emitOf B ++ iterate L n (B.filter L.cond)

/-- Travelers that would enter pass `n` (empty from the loop's depth bound on). -/
def frontier (L : Loop T) : Nat → List T → List T
  | 0, ts => ts
  | n + 1, ts => frontier L n ((ts.flatMap L.body).filter L.cond)

/-- The same rows, unrolled per traveler (depth first): the rows one traveler entering the mark
    contributes within `n` passes. -/
def rows (L : Loop T) : Nat → T → List T
  | 0, _ => []
  | n + 1, t =>
    let B := L.body t
    L.emitOf B ++ (B.filter L.cond).flatMap (rows L n)

/-- `μ` bounds the iteration depth: every traveler that jumps back has a smaller measure
    (the counter pattern: `μ t = K - count t`). -/
def Bounded (L : Loop T) (μ : T → Nat) : Prop :=
  ∀ t t', t' ∈ L.body t → L.cond t' = true → μ t' < μ t

end Grip.C12
