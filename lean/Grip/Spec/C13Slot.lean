/-
  Grip.Spec.C13Slot — SPEC vocabulary for the one-in-one-out dependence of the round-robin pool
  (Grip.Model.C13Slot): the closed form of what ONE skipped record does to the records behind it.

  With `w` workers, if the record at input position `p` produces no output, the worker that held
  it (`p mod w`) runs one item AHEAD of the others from then on: in every pass the merger takes
  from it the record that belonged to the NEXT pass.  Counting blocks of `w` records from
  position `p + 1`, the LAST record of every full block is emitted FIRST (`rotBlocks`); a final
  block of fewer than `w` records is left as it is.
-/
namespace Grip.C13.Spec

/-- last element to the front: `rotR [a, b, c, d] = [d, a, b, c]` -/
def rotR {α : Type} (l : List α) : List α :=
  match l.getLast? with
  | some z => z :: l.dropLast
  | none => []

/-- `rotR` on every full block of `w`; the last, shorter block unchanged -/
def rotBlocks {α : Type} (w : Nat) (ys : List α) : List α :=
  if 0 < w ∧ w ≤ ys.length then rotR (ys.take w) ++ rotBlocks w (ys.drop w) else ys
termination_by ys.length
decreasing_by simp [List.length_drop]; omega

/-- all elements equal -/
def Const {α : Type} (l : List α) : Prop := ∀ a ∈ l, ∀ b ∈ l, a = b

/-- every full block of `w` is constant -/
def BlocksConst {α : Type} (w : Nat) (ys : List α) : Prop :=
  if 0 < w ∧ w ≤ ys.length then Const (ys.take w) ∧ BlocksConst w (ys.drop w) else True
termination_by ys.length
decreasing_by simp [List.length_drop]; omega

end Grip.C13.Spec
