/-
  Grip.Spec.C05 — SPEC of property C05 in the property's own words.

  "A call to any exposed method runs its handler only if the caller's credentials validate and
   the policy grants that user the method's operation class on the graph named in the request;
   otherwise it fails with an authentication/permission error and has no effect.  Streamed bulk
   writes are filtered element by element by the same rule."
-/
import Grip.Model.C05

namespace Grip.C05.Spec

/-- The operation class of every exposed method: the classification the property refers to.
    Pinned here (it is accounts.MethodMap as documented, with the two names the map misses or
    misspells, DeleteIndex and ListPlugins, classified like their siblings AddIndex and
    ListDrivers, and ListTables like ListGraphs), so that weakening an entry of the map is a
    difference between code and SPEC. -/
def opTable : List (String × Op) := [
  ("/gripql.Query/Traversal", .query),
  ("/gripql.Query/GetVertex", .read),
  ("/gripql.Query/GetEdge", .read),
  ("/gripql.Query/GetTimestamp", .read),
  ("/gripql.Query/GetSchema", .read),
  ("/gripql.Query/GetMapping", .read),
  ("/gripql.Query/ListGraphs", .read),
  ("/gripql.Query/ListIndices", .read),
  ("/gripql.Query/ListLabels", .read),
  ("/gripql.Query/ListTables", .read),
  ("/gripql.Job/Submit", .exec),
  ("/gripql.Job/ListJobs", .read),
  ("/gripql.Job/SearchJobs", .read),
  ("/gripql.Job/DeleteJob", .write),
  ("/gripql.Job/GetJob", .read),
  ("/gripql.Job/ViewJob", .read),
  ("/gripql.Job/ResumeJob", .exec),
  ("/gripql.Edit/AddVertex", .write),
  ("/gripql.Edit/AddEdge", .write),
  ("/gripql.Edit/BulkAdd", .write),
  ("/gripql.Edit/AddGraph", .write),
  ("/gripql.Edit/DeleteGraph", .write),
  ("/gripql.Edit/DeleteVertex", .write),
  ("/gripql.Edit/DeleteEdge", .write),
  ("/gripql.Edit/AddIndex", .write),
  ("/gripql.Edit/DeleteIndex", .write),
  ("/gripql.Edit/AddSchema", .write),
  ("/gripql.Edit/AddMapping", .write),
  ("/gripql.Edit/SampleSchema", .write),
  ("/gripql.Configure/StartPlugin", .admin),
  ("/gripql.Configure/ListPlugins", .admin),
  ("/gripql.Configure/ListDrivers", .admin)
]

def opOf (full : String) : Option Op := opTable.lookup full

/-- The graph named in a request: its `graph` field; a request type without one concerns the
    whole server, which policies address as "*". -/
def graphOf (r : Req) : Graph := r.graph.getD "*"

/-- "credentials validate and the policy grants that user `op` on `g`" -/
def Granted (p : Caller) (g : Graph) (op : Op) : Prop :=
  ∃ u, p.validate p.md = some u ∧ p.enforce u g op = true

/-- What the property allows a call to do (decision only; the Enforce log is not part of it). -/
structure Decision where
  err : Err
  handled : Option (List Req)
  deriving DecidableEq, Repr, Inhabited

/-- The decision the property prescribes for a method of operation class `op` and kind `k`. -/
def decision (p : Caller) (op : Op) (k : Kind) : Decision :=
  match p.validate p.md with
  | none => ⟨.unauthenticated, none⟩
  | some u =>
    match k with
    | .clientStream => ⟨.ok, some (p.elems.filter (fun e => p.enforce u (graphOf e) op))⟩
    | _ => if p.enforce u (graphOf p.req) op then ⟨.ok, some [p.req]⟩ else ⟨.denied, none⟩

def ofResult (r : Result) : Decision := ⟨r.err, r.handled⟩

end Grip.C05.Spec
