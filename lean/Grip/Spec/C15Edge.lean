/-
  Grip.Spec.C15Edge — SPEC vocabulary for the edge lookup by id of C15 (`GetEdge`, the `E(ids)`
  start of a traversal).  Short, declarative, decidable.  Core Lean only.

  An edge id is `from-prefix ++ from-value ++ "-" ++ label ++ "-" ++ to-prefix ++ to-value`
  (EdgeSource.GenID); `ParseEdge` takes it apart again at *every* `-`.  The hypotheses below say
  where no `-` may occur for that to be exact.
-/
import Grip.Model.C15
import Grip.Spec.C15

namespace Grip.Spec.C15
open Grip Grip.C15

/-- The string holds no `-`. -/
def noDash (s : String) : Bool := s.toList.all (· != '-')

/-- The number of `-` in the string. -/
def dashCount (s : String) : Nat := s.toList.count '-'

/-- The hypothesis as the task words it: no `-` in any vertex prefix, in any row id of a vertex
    table, or in any edge label. -/
def DashFreeIds (t : Tables) (m : Mapping) : Prop :=
  (∀ v ∈ m.verts, noDash v.pfx = true ∧ ∀ r ∈ t.rows v.table, noDash r.id = true) ∧
  (∀ e ∈ m.edges, noDash e.label = true)

instance (t : Tables) (m : Mapping) : Decidable (DashFreeIds t m) := by
  unfold DashFreeIds; infer_instance

/-- A link row that is an edge (both link fields non-empty strings) has no `-` in either link
    value.  (The edge id is built from the *link values*, not from the vertex tables' row ids.) -/
def linkDashFree (e : EType) (r : TRow) : Bool :=
  match fieldString r.data e.fromField, fieldString r.data e.toField with
  | some f, some d => f == "" || d == "" || (noDash f && noDash d)
  | _, _ => true

def LinksDashFree (t : Tables) (m : Mapping) : Prop :=
  ∀ e ∈ m.edges, ∀ r ∈ t.rows e.table, linkDashFree e r = true

instance (t : Tables) (m : Mapping) : Decidable (LinksDashFree t m) := by
  unfold LinksDashFree; infer_instance

/-- `DashFree`: no `-` in any vertex prefix, vertex-table row id, edge label, or link value of a
    link row that is an edge. -/
def DashFree (t : Tables) (m : Mapping) : Prop := DashFreeIds t m ∧ LinksDashFree t m

instance (t : Tables) (m : Mapping) : Decidable (DashFree t m) := by
  unfold DashFree; infer_instance

/-- What the lookup proof actually uses (weaker than `DashFree`: says nothing about vertex tables):
    per edge type, no `-` in the two end prefixes, the label, and the link values of its edges. -/
def DashFreeEdges (t : Tables) (m : Mapping) : Prop :=
  ∀ e ∈ m.edges, noDash e.frm = true ∧ noDash e.to = true ∧ noDash e.label = true ∧
    ∀ r ∈ t.rows e.table, linkDashFree e r = true

instance (t : Tables) (m : Mapping) : Decidable (DashFreeEdges t m) := by
  unfold DashFreeEdges; infer_instance

/-- The exact condition: every materialised edge has dash-free ends and label (its id then is
    `frm-label-to` with exactly two `-`). -/
def EdgePartsDashFree (t : Tables) (m : Mapping) : Prop :=
  ∀ x ∈ (materialise t m).edges, noDash x.frm = true ∧ noDash x.label = true ∧ noDash x.to = true

instance (t : Tables) (m : Mapping) : Decidable (EdgePartsDashFree t m) := by
  unfold EdgePartsDashFree; infer_instance

/-- Referential integrity: both ends of every materialised edge are vertices of the graph. -/
def NoDangling (t : Tables) (m : Mapping) : Prop :=
  ∀ x ∈ (materialise t m).edges,
    ((materialise t m).getVertex x.frm).isSome = true ∧ ((materialise t m).getVertex x.to).isSome = true

instance (t : Tables) (m : Mapping) : Decidable (NoDangling t m) := by
  unfold NoDangling; infer_instance

/-- Materialised edges that share an id are the same edge (in particular: edge ids are unique, or
    the only repeated link rows are identical ones). -/
def SharedIdsAgree (t : Tables) (m : Mapping) : Prop :=
  ∀ x ∈ (materialise t m).edges, ∀ y ∈ (materialise t m).edges, x.gid = y.gid → x = y

instance (t : Tables) (m : Mapping) : Decidable (SharedIdsAgree t m) := by
  unfold SharedIdsAgree; infer_instance

/-- The edge ids a traversal looks up. -/
def lookedUp : List Stmt → List String
  | [] => []
  | .E ids :: rest => ids ++ lookedUp rest
  | _ :: rest => lookedUp rest

end Grip.Spec.C15
