/-
  Grip.Spec.C13 — SPEC: what C13 asks of an internal fan-out/fan-in stage.

  A stage is given a finite input stream `xs` and applies a per-item function (`json.Marshal`,
  a pipeline's answer, a deserializer …).  `expected` is the image of the input, in input order.
  At every moment of every execution the items emitted so far are a prefix of `expected`
  (nothing wrong, nothing out of order, nothing twice), and the output is closed only when all
  of `expected` has been emitted and the input is exhausted.
-/
namespace Grip.C13.Spec

/-- the observation of a stage at one moment: items emitted so far, output closed?, input exhausted? -/
def StageOK {β : Type} (expected out : List β) (outClosed inputExhausted : Bool) : Prop :=
  out <+: expected ∧ (outClosed = true → out = expected ∧ inputExhausted = true)

/-- the batcher: batches are non-empty, at most `bs` long, and concatenate to the input -/
def BatchesOK {α : Type} (bs : Nat) (xs : List α) (batches : List (List α)) : Prop :=
  batches.flatten = xs ∧ ∀ b ∈ batches, b ≠ [] ∧ b.length ≤ bs

/-! Round robin as plain list functions (the textbook statement): worker `i` of `n` receives
    the items at positions `i, i+n, i+2n, …`; collecting takes one item from each worker in turn,
    round after round, until a round yields nothing. -/

def everyNth {α : Type} (n : Nat) : List α → List α
  | [] => []
  | y :: ys => y :: everyNth n (ys.drop (n - 1))
termination_by l => l.length
decreasing_by simp [List.length_drop]; omega

/-- what each of the `n` workers is dealt -/
def deal {α : Type} (n : Nat) (xs : List α) : List (List α) :=
  (List.range n).map (fun i => everyNth n (xs.drop i))

/-- round-robin collection, `fuel` rounds at most -/
def collect {α : Type} : Nat → List (List α) → List α
  | 0, _ => []
  | fuel + 1, ws =>
    let heads := ws.filterMap List.head?
    if heads.isEmpty then [] else heads ++ collect fuel (ws.map List.tail)

end Grip.C13.Spec
