/-
  Grip.Spec.C15 — SPEC vocabulary of C15 (short, declarative).  Core Lean only.

  "The graph the mapping describes": one vertex per row of each vertex type (id = prefix + row
  id, the mapped label, the row as properties), one edge per link row of each edge type whose two
  link fields are non-empty strings (from/to = the endpoint types' prefixes + the field values).
  A traversal over the mapped graph means C01's `run` on this abstract graph.
-/
import Grip.Model.C15

namespace Grip.Spec.C15
open Grip Grip.C15

/-- The vertex a table row stands for. -/
def specVertex (v : VType) (r : TRow) : Elem :=
  { gid := v.pfx ++ r.id, label := v.label, data := r.data }

/-- The edge a link row stands for (`none`: a link field is missing, not a string, or empty). -/
def specEdge (e : EType) (r : TRow) : Option Elem :=
  match fieldString r.data e.fromField, fieldString r.data e.toField with
  | some f, some to =>
    if f != "" && to != "" then
      some { gid := e.frm ++ f ++ "-" ++ e.label ++ "-" ++ e.to ++ to, frm := e.frm ++ f, to := e.to ++ to,
             label := e.label, data := r.data }
    else none
  | _, _ => none

/-- The mapped graph, materialised. -/
def materialise (t : Tables) (m : Mapping) : AGraph :=
  { verts := m.verts.flatMap (fun v => (t.rows v.table).map (specVertex v)),
    edges := m.edges.flatMap (fun e => (t.rows e.table).filterMap (specEdge e)) }

/-- No vertex prefix is a prefix of another one (in particular they are pairwise different). -/
def PrefixFree (m : Mapping) : Prop :=
  m.verts.Pairwise (fun a b => hasPfx a.pfx b.pfx = false ∧ hasPfx b.pfx a.pfx = false)

instance (m : Mapping) : Decidable (PrefixFree m) := by unfold PrefixFree; infer_instance

/-- Every edge type starts and ends at a declared vertex type (NewTabularGraph checks it). -/
def EndsDeclared (m : Mapping) : Prop :=
  ∀ e ∈ m.edges, e.frm ∈ m.verts.map (·.pfx) ∧ e.to ∈ m.verts.map (·.pfx)

/-- Statements whose result (as a multiset) does not depend on the order of their input:
    everything except `limit/skip/range/distinct` (whose SPEC is "a sub-multiset of the given
    size", C01). -/
def orderFree : Stmt → Bool
  | .limit _ | .skip _ | .range _ _ | .distinct _ => false
  | _ => true

/-- The statement looks no edge up by id (`E(ids)` with ids). -/
def noEdgeLookup : Stmt → Bool
  | .E (_ :: _) => false
  | _ => true

/-- Region of the open finding C15-edge-id-dash: the traversal looks up an edge id with more than
    two `-` (the decidable hypothesis `traversal_eq_partial` carves out is the larger `noEdgeLookup`). -/
def dashLookup : List Stmt → Bool
  | [] => false
  | .E ids :: rest => ids.any (fun id => (splitDash id.toList).length > 3) || dashLookup rest
  | _ :: rest => dashLookup rest

/-- The fragment `traversal_eq_partial` covers. -/
def plainStmt (s : Stmt) : Bool := orderFree s && noEdgeLookup s

/-- Two outcomes agree: the same error, or the same rows as multisets. -/
def SameRows : Except TypeErr (List Row) → Except TypeErr (List Row) → Prop
  | .ok a, .ok b => a.Perm b
  | .error e, .error e' => e = e'
  | _, _ => False

end Grip.Spec.C15
