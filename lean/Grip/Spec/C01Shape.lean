/-
  Grip.Spec.C01Shape — SPEC vocabulary for type soundness of traversals over TRAVELERS
  (progress / preservation), complementing `Row.hasShape` of Grip.Spec.C01.  Core Lean only.

  * `WellShaped ty marks t` — traveler `t` has the shape the static type `ty` and the static
    mark-type environment `marks` announce (preservation is stated with it);
  * `evalStepStrict` — the per-step semantics again, but PARTIAL: every place where the model
    `evalStepT` has a branch that exists only to keep the definition total (a `getD` default, the
    nil element's dictionary, the `else` arm of a dispatch on the data type, the catch-all arm of
    `evalStepT`) is `none` here.  Progress is `evalStepStrict … = some (evalStepT …)`.
-/
import Grip.Model.Eval
import Grip.Spec.C01

namespace Grip.Spec.C01
open Grip

/-! ### element kinds -/

/-- An element that is a vertex: no endpoints (what `vertexElem` builds). -/
def IsVertexElem (e : Elem) : Prop := e.frm = "" ∧ e.to = ""

/-- What is demanded of the `to` field of an element of static kind `edge`.
    `strictTo`: the run-time discriminator of gdbi (`To != ""` in `AddCurrent`, `pathElOf` here);
    `laxTo`: nothing (the element only has to be present). -/
abbrev ToPred := String → Prop
def strictTo : ToPred := fun s => s ≠ ""
def laxTo : ToPred := fun _ => True

/-- An element that is an edge in the sense of the run-time discriminator. -/
def IsEdgeElem (e : Elem) : Prop := strictTo e.to

/-- The (possibly nil) element `o` is what static type `ty` promises: a vertex, an edge, some
    element (a `path` traveler keeps its current element), and NO element for the types whose
    travelers carry a payload instead (`count`, `render`, `selection`, `aggregation`) or nothing
    (`noData`: the seed traveler, an undefined mark). -/
def ElemOfKind (E : ToPred) : DataType → Option Elem → Prop
  | .vertex, o => ∃ e, o = some e ∧ IsVertexElem e
  | .edge, o => ∃ e, o = some e ∧ E e.to
  | .path, o => ∃ e, o = some e
  | _, o => o = none

/-- The payload the static type promises: a selection traveler carries selections whose elements
    have the kinds recorded for their marks; an aggregation traveler carries an aggregate.
    (`count`, `render`, `path` payloads are total fields of `Traveler`: nothing to demand.) -/
def PayloadShaped (E : ToPred) : DataType → MarkTypes → Traveler → Prop
  | .selection, marks, t => ∃ s, t.sel = some s ∧
      ∀ kv ∈ s, (marks.get kv.1 = .vertex → IsVertexElem kv.2) ∧ (marks.get kv.1 = .edge → E kv.2.to)
  | .aggregation, _, t => ∃ a, t.agg = some a
  | _, _, _ => True

/-- Data types whose travelers still carry the marks (`count`, `render`, several-mark `select` and
    `aggregate` emit a fresh traveler without marks — and no statement leads from those types back
    to an element type, so the marks are never read again). -/
def carriesMarks : DataType → Bool
  | .noData | .vertex | .edge | .path => true
  | _ => false

/-- Data types whose travelers have a current element. -/
def hasCurrent : DataType → Bool
  | .vertex | .edge | .path => true
  | _ => false

/-- Every mark is held with the kind the static environment records for it (an unrecorded mark —
    static type `NoData` — is nil or absent). -/
def MarksShaped (E : ToPred) (marks : MarkTypes) (t : Traveler) : Prop :=
  ∀ m, ElemOfKind E (marks.get m) (t.getMark m)

/-- Well-shapedness with the demand on edges as a parameter. -/
def WellShapedG (E : ToPred) (ty : DataType) (marks : MarkTypes) (t : Traveler) : Prop :=
  ElemOfKind E ty t.cur ∧ PayloadShaped E ty marks t ∧ (carriesMarks ty = true → MarksShaped E marks t)

/-- THE predicate: current element / payload / marks as promised, edges recognisable as edges. -/
def WellShaped (ty : DataType) (marks : MarkTypes) (t : Traveler) : Prop :=
  WellShapedG strictTo ty marks t

/-- The weaker shape that needs no assumption on the graph or on `fields`: as `WellShaped`, except
    that an element of static kind `edge` only has to be present. -/
def PresentShaped (ty : DataType) (marks : MarkTypes) (t : Traveler) : Prop :=
  WellShapedG laxTo ty marks t

/-- Well-formedness of the static state: from a type that carries marks, every recorded mark type
    carries marks too (a mark is recorded with the type in front of `as`).  Holds initially and is
    preserved by `typeStep` on the modelled statements. -/
def MarkEnvOK (st : TState) : Prop :=
  carriesMarks st.last = true → ∀ m, carriesMarks (st.marks.get m) = true

/-- Statements for which the model's step function is meant to produce travelers of the new static
    type.  Excluded: the statements the model gives NO meaning (identity) although their typing
    rule changes the data type — the `*Null` moves, `aggregate`, and the two Go-only statements. -/
def shapeModelled : Stmt → Bool
  | .inNull _ | .outNull _ | .inENull _ | .outENull _ | .aggregate _
  | .lookupVertsIndex _ | .engineCustom _ _ => false
  | _ => true

/-- Edge validation of the server (`gripql.Edge.Validate`: "'to' cannot be blank"). -/
def EdgesHaveTo (g : AGraph) : Prop := ∀ e ∈ g.edges, e.to ≠ ""

/-- `fields` does not exclude the `_to` field (which `excludeFields` would blank). -/
def keepsTo : Stmt → Prop
  | .fields ks => ["to"] ∉ (fieldKeys ks).2
  | _ => True

/-- Shape of result rows, refining `Row.hasShape`: the element is present and of the right kind,
    an aggregation row is never `nil`. -/
def Row.wellShaped (E : ToPred) : DataType → Row → Prop
  | .vertex, .vertex (some e) => IsVertexElem e
  | .edge, .edge (some e) => E e.to
  | .count, .count _ => True
  | .render, .render _ => True
  | .path, .path _ => True
  | .selection, .sel s => ∀ x ∈ s, (x.2.1 = .vertex ∧ IsVertexElem x.2.2) ∨ (x.2.1 = .edge ∧ E x.2.2.to)
  | .aggregation, .agg _ => True
  | .noData, .nil => True
  | _, _ => False

/-! ### the partial ("strict") semantics -/

/-- All results defined, or `none`. -/
def allDefined {α β} (f : α → Option β) : List α → Option (List β)
  | [] => some []
  | a :: as => match f a, allDefined f as with
    | some b, some bs => some (b :: bs)
    | _, _ => none

/-- The element a field reference addresses (`none`: a nil element — `GetDoc` then uses the
    dictionary of an empty element). -/
def refElem (t : Traveler) (path : String) : Option Elem :=
  match Path.namespaceOf path with
  | none => t.cur
  | some ns => if ns == currentNamespace then t.cur else t.getMark ns

/-- `TravelerPathLookup` on an element that exists (a missing FIELD is still null: that is the
    documented result of a lookup, not a wrong-type case). -/
def elemValue (e : Elem) (path : String) : JV :=
  match Path.lookupDoc (Path.toDict e) path with
  | some v => v
  | none => .null

def elemFieldExists (e : Elem) (path : String) : Bool :=
  if (Path.jsonPathOf path).isEmpty then false else (Path.lookupDoc (Path.toDict e) path).isSome

def valueS (t : Traveler) (path : String) : Option JV := (refElem t path).map (elemValue · path)
def fieldExistsS (t : Traveler) (path : String) : Option Bool := (refElem t path).map (elemFieldExists · path)

mutual
  def evalHasS (numOf : String → Option Int) (look : String → Option JV) : C08.HasE → Option Bool
    | .cond k c a => (look k).map (fun v => C08.matchesCond numOf v c a)
    | .and es => (evalHasListS numOf look es).map C08.allTrue
    | .or es => (evalHasListS numOf look es).map C08.anyTrue
    | .not x => (evalHasS numOf look x).map (fun b => !b)
    | .none => some false
  def evalHasListS (numOf : String → Option Int) (look : String → Option JV) :
      List C08.HasE → Option (List Bool)
    | [] => some []
    | x :: xs => match evalHasS numOf look x, evalHasListS numOf look xs with
      | some b, some bs => some (b :: bs)
      | _, _ => none
end

/-- `RenderTraveler`, partial in the field references. -/
def renderS (t : Traveler) : JV → Option JV
  | .str s => valueS t s
  | .obj kvs => (renderObjS t kvs).map .obj
  | .arr xs => (renderArrS t xs).map .arr
  | _ => some .null
where
  renderObjS (t : Traveler) : List (String × JV) → Option (List (String × JV))
    | [] => some []
    | (k, v) :: rest => match renderS t v, renderObjS t rest with
      | some v', some rest' => some ((k, v') :: rest')
      | _, _ => none
  renderArrS (t : Traveler) : List JV → Option (List JV)
    | [] => some []
    | v :: rest => match renderS t v, renderArrS t rest with
      | some v', some rest' => some (v' :: rest')
      | _, _ => none

/-- a move to vertices: from a vertex over its adjacency, from an edge to its endpoint -/
def stepOutS (g : AGraph) (from_ : DataType) (labels : List String) (t : Traveler) :
    Option (List Traveler) :=
  match from_, t.cur with
  | .vertex, some c => some ((g.outVerts c.gid labels).map (fun v => t.addCurrent (some (vertexElem v))))
  | .edge, some c => some (((g.getVertex c.to).toList).map (fun v => t.addCurrent (some (vertexElem v))))
  | _, _ => none

def stepInS (g : AGraph) (from_ : DataType) (labels : List String) (t : Traveler) :
    Option (List Traveler) :=
  match from_, t.cur with
  | .vertex, some c => some ((g.inVerts c.gid labels).map (fun v => t.addCurrent (some (vertexElem v))))
  | .edge, some c => some (((g.getVertex c.frm).toList).map (fun v => t.addCurrent (some (vertexElem v))))
  | _, _ => none

def stepOutES (g : AGraph) (from_ : DataType) (labels : List String) (t : Traveler) :
    Option (List Traveler) :=
  match from_, t.cur with
  | .vertex, some c => some ((g.outEdges c.gid labels).map (fun e => t.addCurrent (some (edgeElem e))))
  | _, _ => none

def stepInES (g : AGraph) (from_ : DataType) (labels : List String) (t : Traveler) :
    Option (List Traveler) :=
  match from_, t.cur with
  | .vertex, some c => some ((g.inEdges c.gid labels).map (fun e => t.addCurrent (some (edgeElem e))))
  | _, _ => none

/-- the current element of a traveler standing on an element type -/
def curS (from_ : DataType) (t : Traveler) : Option Elem :=
  if from_.isElement then t.cur else none

def stepSelectS (marks : List String) (t : Traveler) : Option Traveler :=
  match marks with
  | [m] => (t.getMark m).map (fun e => t.addCurrent (some e))
  | ms => (allDefined (fun m => (t.getMark m).map (fun e => (m, e))) ms.eraseDups).map
            (fun s => ({ sel := some s } : Traveler))

/-- `stepFields` on a present element (the body of `stepFields` with `cur` for `t.cur.getD {}`). -/
def fieldsElem (keys : List String) (cur : Elem) : Elem :=
  let (incl, excl) := fieldKeys keys
  let cde := if excl.isEmpty then cur else excludeFields cur excl
  let data0 : JV := if excl.isEmpty then .obj [] else cde.data
  let ode : Elem := { gid := cde.gid, label := cde.label, frm := cde.frm, to := cde.to, data := data0 }
  if incl.isEmpty then ode else { ode with data := includeFields cde incl }

def stepFieldsS (from_ : DataType) (keys : List String) (t : Traveler) : Option Traveler :=
  (curS from_ t).map (fun cur =>
    ({ cur := some (fieldsElem keys cur), marks := t.marks, path := [PathEl.vertex ""] } : Traveler))

def stepUnwindS (field : String) (t : Traveler) : Option (List Traveler) :=
  match t.cur, valueS t field with
  | some cur, some v =>
    let items := match v with
      | .arr (x :: xs) => x :: xs
      | _ => [.null]
    some (items.map (fun i => t.addCurrent (some (setField { cur with loaded := true } field i))))
  | _, _ => none

def distinctKeyS (fields : List String) (t : Traveler) : Option (Option (List JV)) :=
  match allDefined (fieldExistsS t) fields, allDefined (valueS t) fields with
  | some ex, some vs => some (if ex.all id then some vs else none)
  | _, _ => none

def distinctGoS (fields : List String) (seen : List (List JV)) : List Traveler → Option (List Traveler)
  | [] => some []
  | t :: ts => match distinctKeyS fields t with
    | none => none
    | some none => distinctGoS fields seen ts
    | some (some k) =>
      if seen.contains k then distinctGoS fields seen ts
      else (distinctGoS fields (k :: seen) ts).map (t :: ·)

/-- keep the travelers for which the (partial) test says `true`; undefined if a test is -/
def filterS (p : Traveler → Option Bool) (ts : List Traveler) : Option (List Traveler) :=
  (allDefined (fun t => (p t).map (fun b => (t, b))) ts).map
    (fun l => (l.filter (·.2)).map (·.1))

def flatS (f : Traveler → Option (List Traveler)) (ts : List Traveler) : Option (List Traveler) :=
  (allDefined f ts).map List.flatten

def both2 (a b : Option (List Traveler)) : Option (List Traveler) :=
  match a, b with
  | some x, some y => some (x ++ y)
  | _, _ => none

/-- One statement on a stream, PARTIAL: `none` whenever the model `evalStepT` would use a branch
    that exists only to make it total. -/
def evalStepStrict (numOf : String → Option Int) (g : AGraph) (from_ : DataType) (s : Stmt)
    (ts : List Traveler) : Option (List Traveler) :=
  match s with
  | .V ids => some (ts.flatMap (stepV g ids))
  | .E ids => some (ts.flatMap (stepE g ids))
  | .out ls => flatS (stepOutS g from_ ls) ts
  | .in_ ls => flatS (stepInS g from_ ls) ts
  | .outE ls => flatS (stepOutES g from_ ls) ts
  | .inE ls => flatS (stepInES g from_ ls) ts
  | .both ls => both2 (flatS (stepInS g from_ ls) ts) (flatS (stepOutS g from_ ls) ts)
  | .bothE ls => both2 (flatS (stepInES g from_ ls) ts) (flatS (stepOutES g from_ ls) ts)
  | .has x => filterS (fun t => evalHasS numOf (valueS t) x) ts
  | .hasLabel ls => filterS (fun t => (curS from_ t).map (fun c => ls.contains c.label)) ts
  | .hasId ids => filterS (fun t => (curS from_ t).map (fun c => ids.contains c.gid)) ts
  | .hasKey ks => filterS (fun t => (allDefined (fieldExistsS t) ks).map (fun l => l.all id)) ts
  | .as_ n => some (ts.map (stepAs n))
  | .select ms => allDefined (stepSelectS ms) ts
  | .fields ks => allDefined (stepFieldsS from_ ks) ts
  | .render tpl => allDefined (fun t => (renderS t tpl).map (fun v => ({ render := v } : Traveler))) ts
  | .path _ => some ts
  | .unwind f => flatS (stepUnwindS f) ts
  | .distinct fs => distinctGoS (if fs.isEmpty then ["_gid"] else fs) [] ts
  | .count => some [{ count := ts.length }]
  | .limit n => some (ts.take n)
  | .skip n => some (ts.drop n)
  | .range a b => some (stepRange a b ts)
  | _ => none

/-! ### what typing does NOT check and progress therefore has to assume -/

mutual
  /-- the field references of a `has` expression -/
  def hasKeys : C08.HasE → List String
    | .cond k _ _ => [k]
    | .and es => hasKeysList es
    | .or es => hasKeysList es
    | .not x => hasKeys x
    | .none => []
  def hasKeysList : List C08.HasE → List String
    | [] => []
    | x :: xs => hasKeys x ++ hasKeysList xs
end

/-- the field references of a render template -/
def tplKeys : JV → List String
  | .str s => [s]
  | .obj kvs => objKeys kvs
  | .arr xs => arrKeys xs
  | _ => []
where
  objKeys : List (String × JV) → List String
    | [] => []
    | (_, v) :: rest => tplKeys v ++ objKeys rest
  arrKeys : List JV → List String
    | [] => []
    | v :: rest => tplKeys v ++ arrKeys rest

/-- Every field reference a statement evaluates. -/
def stmtRefs : Stmt → List String
  | .has x => hasKeys x
  | .hasKey ks => ks
  | .render tpl => tplKeys tpl
  | .unwind f => [f]
  | .distinct fs => if fs.isEmpty then ["_gid"] else fs
  | _ => []

/-- Every mark a statement reads by name. -/
def stmtMarks : Stmt → List String
  | .select ms => ms
  | _ => []

/-- A reference names the current element or a mark recorded with an element type.
    (The compiler does not check this: `has`, `select`, … on an undefined mark are accepted.) -/
def refRecorded (marks : MarkTypes) (path : String) : Prop :=
  match Path.namespaceOf path with
  | none => True
  | some ns => ns = currentNamespace ∨ (marks.get ns).isElement = true

/-- The side conditions of progress for one statement in static state `st`. -/
structure StaticOK (st : TState) (s : Stmt) : Prop where
  documented : s.kind.documented = true
  refs : ∀ p ∈ stmtRefs s, refRecorded st.marks p
  marks : ∀ m ∈ stmtMarks s, (st.marks.get m).isElement = true
  /-- typing admits `unwind` after every type; it needs a current element -/
  unwind : s.kind = .unwind → hasCurrent st.last = true

/-- The intermediate traveler lists of `evalFrom`, each with the static state in front of it. -/
def evalTrace (numOf : String → Option Int) (g : AGraph) (st : TState) (ts : List Traveler) :
    List Stmt → List (TState × List Traveler)
  | [] => [(st, ts)]
  | s :: rest => (st, ts) :: (match typeStep st s with
    | .ok st' => evalTrace numOf g st' (evalStepT numOf g st.last s ts) rest
    | .error _ => [])

/-- `evalFrom` with the partial step function. -/
def evalFromStrict (numOf : String → Option Int) (g : AGraph) (st : TState) (ts : List Traveler) :
    List Stmt → Option (List Traveler)
  | [] => some ts
  | s :: rest => match typeStep st s with
    | .ok st' => (match evalStepStrict numOf g st.last s ts with
      | some ts' => evalFromStrict numOf g st' ts' rest
      | none => none)
    | .error _ => none

/-- A property of every statement with the static state in front of it. -/
def alongTyping (P : TState → Stmt → Prop) (st : TState) : List Stmt → Prop
  | [] => True
  | s :: rest => P st s ∧ (match typeStep st s with
    | .ok st' => alongTyping P st' rest
    | .error _ => True)

end Grip.Spec.C01
