/-
  Grip.Spec.C17Indep — SPEC, C17 part (ii): when do two edits (C03 operations) of different clients
  have disjoint footprints on graph `g`?  Computable (the driver may use it to decide that a session
  has exactly ONE admissible result, `serialFinal`), and stated on the operations themselves.

  Footprint of an operation on graph `g`:
    * `vPuts`  — ids of the VALID vertices it adds (invalid ones are rejected and change nothing);
    * `ePuts`  — (edge id, from, to) of the VALID edges it adds (endpoints are NOT checked by the
                 store, but a vertex delete removes the edges incident to the vertex, so the
                 endpoints belong to the footprint);
    * `vDels`  — the vertex id it deletes;
    * `eDels`  — the edge id it deletes.
  Operations addressed to another graph have an empty footprint on `g` (graphs are isolated).

  `opIndep g x y`: the vertex ids written by one are neither written nor deleted by the other; the
  same for edge ids; no edge written by one has an endpoint that the other deletes.  Two deletes
  never conflict (deleting is idempotent and deletes commute).
  `keepsGraph g o`: `o` is not `delGraph g` (the one operation that is not an edit of elements of
  `g`: after it every edit of `g` is refused).
-/
import Grip.Spec.C17

namespace Grip.C17.Spec
open Grip.C03 Grip.C03.Spec

/-- the batch elements an operation sends to graph `g` -/
def elems (g : String) : Op → List ElemIn
  | .addV g' vs => if g' = g then vs.map .v else []
  | .addE g' es => if g' = g then es.map .e else []
  | .bulk g' xs => if g' = g then xs else []
  | _ => []

def vDels (g : String) : Op → List String
  | .delV g' id => if g' = g then [id] else []
  | _ => []

def eDels (g : String) : Op → List String
  | .delE g' id => if g' = g then [id] else []
  | _ => []

def vPutOf : ElemIn → Option String
  | .v x => if validVertex x then some x.gid else none
  | .e _ => none

def ePutOf : ElemIn → Option (String × String × String)
  | .e x => if validEdge x then some (x.gid, x.frm, x.to) else none
  | .v _ => none

def vPuts (g : String) (o : Op) : List String := (elems g o).filterMap vPutOf
def ePuts (g : String) (o : Op) : List (String × String × String) := (elems g o).filterMap ePutOf

/-- no element of `xs` occurs in `ys` -/
def disj (xs ys : List String) : Bool := xs.all fun x => !ys.contains x

/-- no edge of `es` has an endpoint in `ds` -/
def endsAvoid (es : List (String × String × String)) (ds : List String) : Bool :=
  es.all fun e => !ds.contains e.2.1 && !ds.contains e.2.2

def opIndep (g : String) (x y : Op) : Bool :=
  disj (vPuts g x) (vPuts g y) && disj (vPuts g x) (vDels g y) && disj (vPuts g y) (vDels g x) &&
  disj ((ePuts g x).map (·.1)) ((ePuts g y).map (·.1)) &&
  disj ((ePuts g x).map (·.1)) (eDels g y) && disj ((ePuts g y).map (·.1)) (eDels g x) &&
  endsAvoid (ePuts g x) (vDels g y) && endsAvoid (ePuts g y) (vDels g x)

/-- every edit of session `xs` is independent of every edit of session `ys` -/
def sessionsIndep (g : String) (xs ys : List Op) : Bool :=
  xs.all fun x => ys.all fun y => opIndep g x y

/-- all clients pairwise -/
def clientsIndep (g : String) : List (List Op) → Bool
  | [] => true
  | c :: cs => cs.all (sessionsIndep g c) && clientsIndep g cs

def keepsGraph (g : String) : Op → Bool
  | .delGraph g' => g' ≠ g
  | _ => true

end Grip.C17.Spec
