/-
  Grip.Spec.C02Full — SPEC vocabulary for planning in front of order-sensitive statements.
  `limit/skip/range` pick "the first n" of an order the documentation does not fix and `distinct`
  keeps one representative per key, so behind them the planned and the literal execution are
  compared as C01 compares them: by the NUMBER of rows and by "a sub-multiset of the rows in front
  of the cut".  Core Lean only.
-/
import Grip.Model.Eval
import Grip.Model.C02
import Grip.Spec.C01
import Grip.Spec.C02

namespace Grip.Spec.C02
open Grip Grip.C02 Grip.Spec.C01

/-- `limit`, `skip`, `range`: the truncations. -/
def isTruncStmt : Stmt → Bool
  | .limit _ | .skip _ | .range _ _ => true
  | _ => false

/-- The statements that return a sub-multiset of their input chosen by its order. -/
def isCut : Stmt → Bool
  | .limit _ | .skip _ | .range _ _ | .distinct _ => true
  | _ => false

/-- Statements whose number of output rows is a function of the number of input rows: the
    truncations, `count`, and the one-row-per-row steps. -/
def lenDet : Stmt → Bool
  | .limit _ | .skip _ | .range _ _ | .count | .as_ _ | .select _ | .fields _ | .render _
  | .path _ => true
  | _ => false

/-- A tail behind which the row COUNT cannot depend on the order of the rows in front of it: at
    most one `distinct` (whose count is the number of keys), then length-determined statements.
    (A second `distinct`, a filter or a move behind a cut sees WHICH rows were kept.) -/
def countTail : List Stmt → Bool
  | .distinct _ :: r => r.all lenDet
  | r => r.all lenDet

/-- Number of rows after a list of truncations applied to `n` rows (C01's count arithmetic). -/
def truncSize : List Stmt → Nat → Nat
  | [], n => n
  | .limit k :: r, n => truncSize r (limitCount k n)
  | .skip k :: r, n => truncSize r (skipCount k n)
  | .range a b :: r, n => truncSize r (rangeCount a b n)
  | _ :: r, n => truncSize r n

/-- `a` is a sub-multiset of `b`: a subsequence of some reordering of `b`. -/
def SubMultiset {α : Type} (a b : List α) : Prop := ∃ l, l.Perm b ∧ a.Sublist l

end Grip.Spec.C02
