/-
  Grip.Spec.C09 — SPEC: the live documents and a brute-force scan over them.

  A live document is what the index was given for it: its id and, for every field that was
  registered when the document was inserted, the term found under that field's path (a string,
  or a finite number identified by its binary64 bit pattern).  Removing a field forgets that
  field in every live document.  (kvindex stores no documents, so a field registered *after* a
  document was inserted cannot be filled in for it: kvgraph/index.go says "TODO kick off
  background process to reindex existing data".  The property is judged on what the index was
  shown.)  Numbers are compared by their value: `skey` is the sign/magnitude reading of the bit
  pattern, an order embedding of the finite doubles.
  Conventions the documentation does not fix and that are taken from the code: minimum/maximum of
  no numbers is 0; a range is [min, max) (the histogram aggregation calls it with
  [bucket, bucket+interval)) and empty when min > max; a rejected insertion (value that is neither
  string nor number under a registered field) changes nothing.
-/
import Grip.Basic
import Grip.Model.C09

namespace Grip.C09.Spec
open Grip.C09

structure Live where
  fields : List String := []
  docs : List (String × List (String × Term)) := []
  deriving Repr, Inhabited

/-- What the index is shown of a document: one (field, term) per registered field that has a
    value; `none` when some registered field holds a value that is neither string nor number. -/
def project (doc : JV) : List String → Option (List (String × Term))
  | [] => some []
  | f :: fs =>
    match mapDig doc (f.splitOn ".") with
    | none => project doc fs
    | some v => match termOf v, project doc fs with
      | some t, some r => some ((f, t) :: r)
      | _, _ => none

def addField (s : Live) (f : String) : Live :=
  { s with fields := if f ∈ s.fields then s.fields else f :: s.fields }

def removeField (s : Live) (f : String) : Live :=
  { fields := s.fields.filter (fun g => g ≠ f)
    docs := s.docs.map fun p => (p.1, p.2.filter (fun q => q.1 ≠ f)) }

def removeDoc (s : Live) (d : String) : Live :=
  { s with docs := s.docs.filter (fun p => p.1 ≠ d) }

/-- Insertion or replacement. -/
def addDoc (s : Live) (d : String) (doc : JV) : Live :=
  match project doc s.fields with
  | none => s
  | some pr => { s with docs := (d, pr) :: (removeDoc s d).docs }

/-! ### the brute-force scan -/

/-- Every (field, term, document) fact of the live documents. -/
def facts (s : Live) : List EKey :=
  s.docs.flatMap fun p => p.2.map fun q => ⟨q.1, q.2, p.1⟩

/-- ids of the documents whose field `f` holds `t`. -/
def termMatch (s : Live) (f : String) (t : Term) : List String :=
  ((facts s).filter (fun e => e.f = f ∧ e.t = t)).map (·.d)

/-- the terms of field `f` (with repetitions; compare as a set). -/
def fieldTerms (s : Live) (f : String) : List Term :=
  ((facts s).filter (fun e => e.f = f)).map (·.t)

/-- number of documents whose field `f` holds `t`. -/
def termCount (s : Live) (f : String) (t : Term) : Nat :=
  ((facts s).filter (fun e => e.f = f ∧ e.t = t)).length

/-- the number values (bit patterns) of field `f`, one per document that has one. -/
def numbers (s : Live) (f : String) : List Nat :=
  (facts s).filterMap fun e => if e.f = f then match e.t with | .num w => some w | .str _ => none else none

/-- `m` is a least / greatest element of `ws` by value. -/
def IsMin (ws : List Nat) (m : Nat) : Prop := m ∈ ws ∧ ∀ w ∈ ws, skey m ≤ skey w
def IsMax (ws : List Nat) (m : Nat) : Prop := m ∈ ws ∧ ∀ w ∈ ws, skey w ≤ skey m

/-- number of documents whose field `f` holds the number `w`, for `lo ≤ w < hi`. -/
def inRange (lo hi w : Nat) : Bool := skey lo ≤ skey w && skey w < skey hi

/-- Finite doubles other than -0 (the universe of the property; -0 cannot cross the protocol). -/
def Finite (w : Nat) : Prop := w < posInfBits ∨ (negZeroBits < w ∧ w < negInfBits)

instance (w : Nat) : Decidable (Finite w) := by unfold Finite; exact inferInstance

/-! ### executable forms of the scan, used by the driver to compute the SPEC observation -/

def insertSorted (le : Nat → Nat → Bool) := insertBy le

def numbersAsc (s : Live) (f : String) : List Nat :=
  sortBy (fun a b => skey a ≤ skey b) (numbers s f)

def minOf (s : Live) (f : String) : Nat := (numbersAsc s f).head?.getD 0
def maxOf (s : Live) (f : String) : Nat := (numbersAsc s f).getLast?.getD 0

def rangeCounts (s : Live) (f : String) (lo hi : Nat) : List (Nat × Nat) :=
  groupCounts ((numbersAsc s f).filter (inRange lo hi))

end Grip.C09.Spec
