/-
  Grip.Spec.C01 — SPEC vocabulary of C01 (short, declarative).  Core Lean only.

  "The rows returned are exactly the multiset obtained by applying each step's documented meaning
  to the rows produced by the previous step": a traversal denotes the left fold of per-step
  meanings over the seed row; per-row steps are given *per row* (`flatMap`), so the denotation of a
  stream is the multiset union of the denotations of its rows; `limit/skip/range` denote "a
  sub-multiset of the given size", `distinct` "one row per key".
-/
import Grip.Model.Eval

namespace Grip.Spec.C01
open Grip

/-- Documented meaning of `both(labels)` for ONE row: its in-neighbours and its out-neighbours. -/
def bothRow (g : AGraph) (from_ : DataType) (labels : List String) (t : Traveler) : List Traveler :=
  stepIn g from_ labels t ++ stepOut g from_ labels t

def bothERow (g : AGraph) (labels : List String) (t : Traveler) : List Traveler :=
  stepInE g labels t ++ stepOutE g labels t

/-- Size of `limit(n)` on `len` rows. -/
def limitCount (n len : Nat) : Nat := min n len
/-- Size of `skip(n)` on `len` rows (truncated subtraction). -/
def skipCount (n len : Nat) : Nat := len - n
/-- Size of `range(start, stop)` on `len` rows: indices `i` with `start ≤ i` and (`i < stop` or
    `stop = -1`); a negative `start` counts as 0, a `stop < -1` admits nothing. -/
def rangeCount (start stop : Int) (len : Nat) : Nat :=
  if stop = -1 then len - start.toNat else min stop.toNat len - start.toNat

/-- What a truncation step may return: a sub-multiset (here even: a subsequence) of the given size. -/
structure TruncOk (input output : List Traveler) (size : Nat) : Prop where
  sub : output.Sublist input
  len : output.length = size

/-- A row has the shape the traversal's result type announces. -/
def Row.hasShape : DataType → Row → Prop
  | .vertex, .vertex _ => True
  | .edge, .edge _ => True
  | .count, .count _ => True
  | .render, .render _ => True
  | .path, .path _ => True
  | .selection, .sel _ => True
  | .aggregation, .agg _ => True
  | .aggregation, .nil => True
  | .noData, .nil => True
  | _, _ => False

/-- Steps whose documented meaning is given row by row. -/
def perRow : Stmt → Bool
  | .both _ | .bothE _ | .distinct _ | .count | .limit _ | .skip _ | .range _ _ => false
  | _ => true

end Grip.Spec.C01
