/-
  Grip.Spec.C08 — SPEC: what the documentation says has() keeps
  (website/content/docs/queries/operations.md, gripql/has_operators.go doc comments).

  * eq/neq: the value equals / does not equal the argument.
  * gt/gte/lt/lte: both operands are numbers (or numeric text) and the comparison holds.
  * inside(l,u): l < v < u;  between(l,u): l ≤ v < u;  outside(l,u): v < l ∨ v > u.
  * within(xs): v is one of xs;  without(xs): v is none of xs;  contains(x): v is a list holding x.
  * and/or/not: ordinary Boolean algebra.
  A missing field reads as null (the code's choice where the documentation is silent).
-/
import Grip.Basic
import Grip.Model.Path
import Grip.Model.C08

namespace Grip.C08.Spec
open Grip.C08

/-- A number, or text that parses as one.  Nothing else is a number. -/
def isNum (numOf : String → Option Int) : JV → Option Int
  | .num n => some n
  | .str s => numOf s
  | _ => none

def isOrdering : Cond → Bool
  | .gt | .gte | .lt | .lte | .inside | .outside | .between => true
  | _ => false

/-- The documented comparison, as a proposition. -/
def DocHolds (numOf : String → Option Int) (v : JV) (c : Cond) (arg : JV) : Prop :=
  match c with
  | .eq => v = arg
  | .neq => v ≠ arg
  | .gt => ∃ a b, isNum numOf v = some a ∧ isNum numOf arg = some b ∧ a > b
  | .gte => ∃ a b, isNum numOf v = some a ∧ isNum numOf arg = some b ∧ a ≥ b
  | .lt => ∃ a b, isNum numOf v = some a ∧ isNum numOf arg = some b ∧ a < b
  | .lte => ∃ a b, isNum numOf v = some a ∧ isNum numOf arg = some b ∧ a ≤ b
  | .inside => ∃ l u x lo hi, arg = .arr [l, u] ∧ isNum numOf l = some lo ∧ isNum numOf u = some hi ∧
      isNum numOf v = some x ∧ lo < x ∧ x < hi
  | .outside => ∃ l u x lo hi, arg = .arr [l, u] ∧ isNum numOf l = some lo ∧ isNum numOf u = some hi ∧
      isNum numOf v = some x ∧ (x < lo ∨ x > hi)
  | .between => ∃ l u x lo hi, arg = .arr [l, u] ∧ isNum numOf l = some lo ∧ isNum numOf u = some hi ∧
      isNum numOf v = some x ∧ lo ≤ x ∧ x < hi
  | .within => ∃ xs, arg = .arr xs ∧ v ∈ xs
  | .without => ¬ ∃ xs, arg = .arr xs ∧ v ∈ xs
  | .contains => ∃ xs, v = .arr xs ∧ arg ∈ xs
  | .unset => False

/- Boolean algebra over the documented leaf meaning: `and` = all operands hold, `or` = some
   operand holds, `not` = the operand does not hold. -/
mutual
  def Holds (numOf : String → Option Int) (e : Elem) : HasE → Prop
    | .cond k c a => DocHolds numOf (lookup e k) c a
    | .and es => HoldsAll numOf e es
    | .or es => HoldsAny numOf e es
    | .not x => ¬ Holds numOf e x
    | .none => False
  def HoldsAll (numOf : String → Option Int) (e : Elem) : List HasE → Prop
    | [] => True
    | x :: xs => Holds numOf e x ∧ HoldsAll numOf e xs
  def HoldsAny (numOf : String → Option Int) (e : Elem) : List HasE → Prop
    | [] => False
    | x :: xs => Holds numOf e x ∨ HoldsAny numOf e xs
end

end Grip.C08.Spec
