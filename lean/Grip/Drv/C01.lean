/-
  Grip.Drv.C01 — line-protocol driver for C01.
    {"op":"reset","graph":{"vertices":[…protojson…],"edges":[…]}}        → {"ok":true}
    {"op":"query","q":[…protojson statements…],"cmp":"rows"|"nsub"|"sub"}
        → {"err":"compile"}                          ill-typed: rejected, no row
        | {"t":<type>,"rows":[…sorted canonical rows…]}          cmp = rows
        | {"t":<type>,"n":<row count>,"sub":true}                cmp = nsub  (limit/skip/range tail)
        | {"t":<type>,"sub":true}                                cmp = sub   (truncation mid-way)
    {"op":"build","pre":[…],"e1":[…],"e2":[…]}  → {"a": pre++e1, "b": pre++e2, "p": pre}   (gripql.Query builder)
  For `nsub`/`sub` the harness compares the real rows with the rows of the traversal without its
  truncation steps; the MODEL's answer `sub = true` is what `Props.C01.trunc_tail_sub` proves, and
  `n` is order-independent by `Props.C01.trunc_tail_count`.
-/
import Grip.Drv.Common
import Grip.Drv.StmtJson
import Grip.Model.Eval
import Grip.Model.EvalN

namespace Grip.Drv.C01
open Lean Grip Grip.Proto Grip.Drv.StmtJson

def canonRowN : EvalN.RowN → Json
  | .plain r => canonRow r
  | .sel s => Json.mkObj [("sel", Json.mkObj (s.map fun (k, ty, e) =>
      (k, if ty == DataType.edge then Json.mkObj [("e", canonEdge e)]
          else Json.mkObj [("v", canonVertex e)])))]

def canonRowsN (rows : List EvalN.RowN) : Json :=
  let js := rows.map fun r => let j := canonRowN r; (Json.compress j, j)
  .arr ((js.mergeSort (fun a b => a.1 ≤ b.1)).map (·.2)).toArray

def step (g : AGraph) (j : Json) : AGraph × Json :=
  match str? j "op" with
  | some "reset" =>
    match (val? j "graph").bind graphOf with
    | some g' => (g', Json.mkObj [("ok", .bool true)])
    | none => (g, Json.mkObj [("skip", .bool true)])
  | some "query" =>
    match (arr? j "q").bind stmtsOf with
    | none => (g, Json.mkObj [("skip", .bool true)])
    | some stmts =>
      -- traversals with *Null moves are answered by the refined plan semantics (kvgraph's notion of
      -- "the adjacency channel found nothing"), which equals `run` on every other traversal
      let answer (st : TState) (n : Nat) (rows : Json) : AGraph × Json :=
        let t := ("t", Json.str st.last.toString)
        match str? j "cmp" with
        | some "nsub" => (g, Json.mkObj [t, ("n", .num ⟨n, 0⟩), ("sub", .bool true)])
        | some "sub" => (g, Json.mkObj [t, ("sub", .bool true)])
        | _ => (g, Json.mkObj [t, ("rows", rows)])
      if stmts.any C02.isNullMove then
        -- traversals with *Null moves: the semantics of Grip.EvalN (kvgraph's notion of "the
        -- adjacency channel found nothing"; placeholder marks; Convert's reload of selections)
        match typeCheck stmts, EvalN.runN Drv.numOf g stmts with
        | .ok st, .ok rows => answer st rows.length (canonRowsN rows)
        | _, _ => (g, Json.mkObj [("err", .str "compile")])
      else
      match typeCheck stmts, run Drv.numOf g stmts with
      | .ok st, .ok rows => answer st rows.length (canonRows rows)
      | _, _ => (g, Json.mkObj [("err", .str "compile")])
  | some "build" =>
    -- the client-side query builder is persistent: a query derived from a prefix is the prefix's
    -- statements followed by its own, whatever else is derived from the same prefix
    match arr? j "pre", arr? j "e1", arr? j "e2" with
    | some pre, some e1, some e2 =>
      (g, Json.mkObj [("a", .arr (pre ++ e1).toArray), ("b", .arr (pre ++ e2).toArray), ("p", .arr pre.toArray)])
    | _, _, _ => (g, Drv.bad "build: pre/e1/e2")
  | _ => (g, Drv.bad "unknown op")

def main : IO Unit := Drv.runLoop AGraph.empty step

end Grip.Drv.C01
