/-
  Grip.Drv.C04 — driver for reopen / crash consistency.  Ops: those of C03 (reset, addGraph, …,
  observe) plus
    {"op":"reopen"}                       clean close + reopen
    {"op":"crash","k":K,"inner":<op>}     the mutating call `inner` dies after K top-level writes;
                                          the directory is reopened; prints the surviving key dump
  The SPEC side of an observation is the same read on a shadow state that never restarted
  (reopen_transparent); the SPEC side of a crash line is `"weak": true`.
-/
import Grip.Drv.Common
import Grip.Drv.C03
import Grip.Model.C04
import Grip.Spec.C04

namespace Grip.Drv.C04
open Lean Grip Grip.C03 Grip.C04 Grip.Proto
open Grip.Drv.C03 (opOf? graphObs modelReads tsWord resJson strsJson)

def sep : String := "|"
def joinK (xs : List String) : String := sep.intercalate xs

def one : Json := Json.num 1

/-- One entry of the key dump: structured key as a string ↦ the part of the value under test. -/
def dumpEntry (p : SKey × Val) : String × Json :=
  match p with
  | (.vertex g id, .vert l d) => (joinK ["v", g, id], Json.mkObj [("label", l), ("data", ofJV d)])
  | (.vertex g id, _) => (joinK ["v", g, id], Json.null)
  | (.edge g eid s d l, .edge data) => (joinK ["e", g, eid, s, d, l], Json.mkObj [("data", ofJV data)])
  | (.edge g eid s d l, _) => (joinK ["e", g, eid, s, d, l], Json.null)
  | (.src g s d eid l, _) => (joinK ["s", g, s, d, eid, l], one)
  | (.dst g d s eid l, _) => (joinK ["d", g, d, s, eid, l], one)
  | (.graph g, _) => (joinK ["g", g], one)
  | (.field f, _) => (joinK ["f", f], one)
  | (.term f t, _) => (joinK ["t", f, t], one)
  | (.entry f t doc, _) => (joinK ["i", f, t, doc], one)
  | (.doc d, _) => (joinK ["D", d], one)

def dumpJson (m : KV) : Json := Json.mkObj (m.map dumpEntry)

structure St where
  m : KState := {}
  shadow : KState := {}               -- the server that never stopped (same ops, no reopen)
  seenM : List (String × Nat) := []

def obsOf (kv : KV) (seen : List (String × Nat)) (stamp : String → Option Nat) (ids eids labels : List String) : Json :=
  let gs := (graphs kv).mergeSort (· ≤ ·)
  Json.mkObj [("graphs", strsJson gs),
    ("g", Json.mkObj (gs.map fun g => (g, graphObs (modelReads kv g) ids eids labels (tsWord seen g (stamp g)))))]

/-- Graph names for which the string fact used by the theorems (first dot-component of a label
    field is the graph name) does not hold: none are expected. -/
def splitBad (g : String) : Bool :=
  validName g && (fieldGraph (labelField g "v") != g || fieldGraph (labelField g "e") != g)

def step (st : St) (j : Json) : St × Json :=
  match str? j "op" with
  | some "reset" => ({}, Json.mkObj [("r", "reset")])
  | some "reopen" => ({ st with m := reopen st.m }, Json.mkObj [("r", "reopen")])
  | some "observe" =>
    match strs? j "ids", strs? j "eids", strs? j "labels" with
    | some ids, some eids, some labels =>
      -- timestamps are excluded from the SPEC comparison: both sides print the model's words
      let obsM := obsOf st.m.kv st.seenM st.m.stamp ids eids labels
      let obsS := obsOf st.shadow.kv st.seenM st.m.stamp ids eids labels
      let gsM := (graphs st.m.kv).mergeSort (· ≤ ·)
      let st' := { st with seenM := gsM.filterMap (fun g => (st.m.stamp g).map (g, ·)) }
      if obsM.compress == obsS.compress then (st', Json.mkObj [("obs", obsM)])
      else (st', Json.mkObj [("obs", obsM), ("spec", Json.mkObj [("obs", obsS)]), ("kf", "C04-reopen-not-transparent")])
    | _, _, _ => (st, Drv.bad "observe: ids/eids/labels")
  | some "weak" =>
    -- the weak invariant on the CURRENT state (asked after the calls that follow a crash: what a
    -- killed call left behind must not become visible later, e.g. by re-creating a graph)
    let weak := weakInvB st.m.kv
    if weak then (st, Json.mkObj [("weak", Json.bool true)])
    else (st, Json.mkObj [("weak", Json.bool false), ("spec", Json.mkObj [("weak", Json.bool true)]),
                          ("kf", "C04-weakinv-after-crash")])
  | some "crash" =>
    match val? j "inner", nat? j "k" with
    | some inner, some k =>
      match opOf? inner with
      | some op =>
        let ws := writes st.m op
        let s' := crashAt st.m op k
        let weak := weakInvB s'.kv
        let base : List (String × Json) := [("aborted", Json.bool (decide (k < ws.length))), ("dump", dumpJson s'.kv)]
        let st' := { st with m := s', shadow := s' }
        if weak then (st', Json.mkObj (base ++ [("weak", Json.bool true)]))
        else (st', Json.mkObj (base ++ [("weak", Json.bool false),
                ("spec", Json.mkObj (base ++ [("weak", Json.bool true)])), ("kf", "C04-crash-weakinv")]))
      | none => (st, Drv.bad "crash: cannot decode inner op")
    | _, _ => (st, Drv.bad "crash: inner/k")
  | some _ =>
    match opOf? j with
    | some op =>
      let bad := match op with | .addGraph g => splitBad g | _ => false
      if bad then (st, Drv.bad "graph name violates the splitOn fact assumed by the theorems") else
      let (m', r) := Grip.C03.step st.m op
      let (sh', _) := Grip.C03.step st.shadow op
      ({ st with m := m', shadow := sh' }, Json.mkObj [("r", resJson r)])
    | none => (st, Drv.bad "cannot decode op")
  | none => (st, Drv.bad "no op")

def main : IO Unit := Drv.runLoop ({} : St) step

end Grip.Drv.C04
