import Grip.Drv.Common
import Grip.Model.C09
import Grip.Spec.C09

/-!
  Line-protocol driver for C09.  State = (MODEL state, SPEC state).  Mutating ops answer
  `{"ok":true}` / `{"err":true}`; `q` asks every public query of the index over the listed
  fields / terms / ranges and dumps the whole key-value state.  When the SPEC's scan of the live
  documents answers differently from the MODEL the observation carries `"spec"` and `"kf"`.
-/
namespace Grip.Drv.C09
open Lean Grip Grip.C09 Grip.Proto

structure S where
  m : St := {}
  s : Spec.Live := {}
  /-- set once `AddDocTx` (bulk path) was applied to a document id that was live -/
  tainted : Bool := false

def hexW (w : Nat) : String := toHex (be8 w)
def hexTerm (t : C09.Term) : String := toHex (t.tyByte :: t.bytes)

def jstrs (xs : List String) : Json := Json.arr (xs.map Json.str).toArray
def jarr (xs : List Json) : Json := Json.arr xs.toArray

def strLe (a b : String) : Bool := a ≤ b

def dedup {α} [DecidableEq α] : List α → List α
  | [] => []
  | x :: xs => if x ∈ xs then dedup xs else x :: dedup xs

def countsJson (cs : List (String × Nat)) : Json :=
  jarr ((sortBy (fun a b => strLe a.1 b.1) cs).map fun p => jarr [Json.str p.1, Json.num ⟨p.2, 0⟩])

def rangeJson (cs : List (Nat × Nat)) : Json :=
  countsJson (cs.map fun p => (hexW p.1, p.2))

structure Q where
  fields : List String
  terms : List (Option C09.Term)   -- `none`: a value of unknown term type (matches nothing)
  ranges : List (Nat × Nat)
  k : Nat
  counts : Bool

/-- MODEL answers (threads the state: FieldTermCounts writes recounted values back). -/
def modelAnswers (st : St) (q : Q) : St × List (String × Json) :=
  let mtch := jarr (q.fields.map fun f => jarr (q.terms.map fun t => jstrs (match t with | some t => getTermMatch st f t 0 | none => [])))
  let mtchk := jarr (q.fields.map fun f => jarr (q.terms.map fun t => jstrs (match t with | some t => getTermMatch st f t q.k | none => [])))
  let terms := jarr (q.fields.map fun f => jstrs (sortBy strLe ((fieldTerms st f).map hexTerm)))
  let (st1, cnts) := if q.counts then
      q.fields.foldl (fun (acc : St × List Json) f =>
        let (s', out) := fieldTermCounts acc.1 f
        (s', acc.2 ++ [countsJson (out.map fun p => (hexTerm p.1, p.2))])) (st, [])
    else (st, [])
  let mn := jstrs (q.fields.map fun f => hexW (fieldMin st1 f))
  let mx := jstrs (q.fields.map fun f => hexW (fieldMax st1 f))
  let nums := jarr (q.fields.map fun f => jstrs ((fieldNumbers st1 f).map hexW))
  let rng := jarr (q.fields.map fun f => jarr (q.ranges.map fun r => rangeJson (fieldRange st1 f r.1 r.2)))
  (st1, [("match", mtch), ("matchk", mtchk), ("terms", terms), ("counts", jarr cnts),
         ("min", mn), ("max", mx), ("numbers", nums), ("range", rng)])

/-- SPEC answers: brute-force scan of the live documents. -/
def specAnswers (s : Spec.Live) (q : Q) : List (String × Json) :=
  let m (k : Nat) := jarr (q.fields.map fun f => jarr (q.terms.map fun t =>
      let ds := match t with | some t => sortBy docLe (Spec.termMatch s f t) | none => []
      jstrs (if k > 0 then ds.take k else ds)))
  let terms := jarr (q.fields.map fun f => jstrs (sortBy strLe (dedup ((Spec.fieldTerms s f).map hexTerm))))
  let cnts := if q.counts then q.fields.map fun f =>
      countsJson ((dedup (Spec.fieldTerms s f)).map fun t => (hexTerm t, Spec.termCount s f t))
    else []
  let mn := jstrs (q.fields.map fun f => hexW (Spec.minOf s f))
  let mx := jstrs (q.fields.map fun f => hexW (Spec.maxOf s f))
  let nums := jarr (q.fields.map fun f => jstrs ((Spec.numbersAsc s f).map hexW))
  let rng := jarr (q.fields.map fun f => jarr (q.ranges.map fun r => rangeJson (Spec.rangeCounts s f r.1 r.2)))
  [("match", m 0), ("matchk", m q.k), ("terms", terms), ("counts", jarr cnts),
   ("min", mn), ("max", mx), ("numbers", nums), ("range", rng)]

/-- Every key of the store with its value, sorted by key (hex order = byte order). -/
def dump (st : St) : Json :=
  let fs := st.fields.map fun f => (toHex (fieldKey f), Json.str "")
  let ts := st.terms.map fun p => (toHex (termKey p.1), Json.num ⟨p.2, 0⟩)
  let es := st.entries.map fun e => (toHex (entryKey e), Json.str "")
  let ds := st.docs.map fun p => (toHex (docKey p.1), jstrs (sortBy strLe (p.2.map fun e => toHex (entryKey e))))
  jarr ((sortBy (fun a b => strLe a.1 b.1) (fs ++ ts ++ es ++ ds)).map fun p => jarr [Json.str p.1, p.2])

def termOfJson (j : Json) : Option (Option C09.Term) := (toJV? j).map termOf

def ok : Json := Json.mkObj [("ok", Json.bool true)]
def err : Json := Json.mkObj [("err", Json.bool true)]

def step (σ : S) (j : Json) : S × Json :=
  match str? j "op" with
  | some "reset" => ({}, ok)
  | some "addField" =>
    match str? j "f" with
    | some f => ({ σ with m := addField σ.m f, s := Spec.addField σ.s f }, ok)
    | none => (σ, Drv.bad "addField")
  | some "removeField" =>
    match str? j "f" with
    | some f => ({ σ with m := removeField σ.m f, s := Spec.removeField σ.s f }, ok)
    | none => (σ, Drv.bad "removeField")
  | some "removeDoc" =>
    match str? j "d" with
    | some d =>
      match removeDoc σ.m d with
      | some m' => ({ σ with m := m', s := Spec.removeDoc σ.s d }, ok)
      | none => (σ, err)
    | none => (σ, Drv.bad "removeDoc")
  | some "addDoc" =>
    match str? j "d", jv? j "doc" with
    | some d, some doc =>
      match addDoc σ.m d doc with
      | some m' => ({ σ with m := m', s := Spec.addDoc σ.s d doc }, ok)
      | none => (σ, err)
    | _, _ => (σ, Drv.bad "addDoc")
  | some "addDocBulk" =>
    match str? j "d", jv? j "doc" with
    | some d, some doc =>
      match addDocTx σ.m d doc with
      | some m' =>
        let live := σ.s.docs.any (fun p => p.1 == d)
        ({ σ with m := m', s := Spec.addDoc σ.s d doc, tainted := σ.tainted || live }, ok)
      | none => (σ, err)
    | _, _ => (σ, Drv.bad "addDocBulk")
  | some "q" =>
    match strs? j "fields", arr? j "terms", arr? j "ranges" with
    | some fields, some tjs, some rjs =>
      match tjs.mapM termOfJson, rjs.mapM (fun r => match r with
          | .arr #[.num a, .num b] => some (bitsOfScaled a.mantissa, bitsOfScaled b.mantissa)
          | _ => none) with
      | some terms, some ranges =>
        let q : Q := { fields := fields, terms := terms, ranges := ranges,
                       k := (nat? j "k").getD 0, counts := (bool? j "counts").getD false }
        let (m', ma) := modelAnswers σ.m q
        let sa := specAnswers σ.s q
        let enc := jstrs (terms.map fun t => match t with | some t => hexTerm t | none => "00")
        let base := ma ++ [("enc", enc), ("dump", dump m')]
        let differ := Json.compress (Json.mkObj ma) != Json.compress (Json.mkObj sa)
        let obs := if differ then
            base ++ [("spec", Json.mkObj (sa ++ [("enc", enc), ("dump", dump m')])),
                     ("kf", Json.str (if σ.tainted then "C09-bulk-replace" else "C09-none"))]
          else base
        ({ σ with m := m' }, Json.mkObj obs)
      | _, _ => (σ, Drv.bad "q: terms/ranges")
    | _, _, _ => (σ, Drv.bad "q")
  | _ => (σ, Drv.bad "unknown op")

def main : IO Unit := Drv.runLoop ({} : S) step

end Grip.Drv.C09
