import Grip.Drv.Common
import Grip.Model.C10

namespace Grip.Drv.C10
open Lean Grip Grip.C10 Grip.Proto Grip.SMap

def hexOf (j : Json) : Option Bytes :=
  match j with
  | .str s => ofHex s
  | _ => none

def hex? (j : Json) (k : String) : Option Bytes := (val? j k).bind hexOf

def kvOf (j : Json) : Option KV :=
  match j with
  | .arr #[a, b] => do pure ((← hexOf a), (← hexOf b))
  | _ => none

def itStepOf (j : Json) : Option ItStep :=
  match j with
  | .arr #[.str "seek", a] => (hexOf a).map .seek
  | .arr #[.str "rseek", a] => (hexOf a).map .rseek
  | .arr #[.str "next"] => some .next
  | .arr #[.str "get", a] => (hexOf a).map .get
  | .arr #[.str "scan", a] => (hexOf a).map .scan
  | .arr #[.str "rscan", a, b] => do pure (.rscan (← hexOf a) (← hexOf b))
  | _ => none

def txStepOf (j : Json) : Option TxStep :=
  match j with
  | .arr #[.str "set", a, b] => do pure (.set (← hexOf a) (← hexOf b))
  | .arr #[.str "del", a] => (hexOf a).map .del
  | .arr #[.str "get", a] => (hexOf a).map .get
  | .arr #[.str "has", a] => (hexOf a).map .has
  | .arr #[.str "view", .arr xs] => do pure (.view (← xs.toList.mapM itStepOf))
  | _ => none

def opOf (j : Json) : Option Op :=
  match str? j "op" with
  | some "set" => do pure (.set (← hex? j "k") (← hex? j "v"))
  | some "get" => (hex? j "k").map .get
  | some "has" => (hex? j "k").map .has
  | some "del" => (hex? j "k").map .del
  | some "delp" => (hex? j "p").map .delPrefix
  | some "dump" => some .dump
  | some "view" => do pure (.view (← (← arr? j "steps").mapM itStepOf))
  | some "update" => do pure (.update (← (← arr? j "steps").mapM txStepOf) ((bool? j "fail").getD false))
  | some "bulk" => do pure (.bulk (← (← arr? j "sets").mapM kvOf) ((bool? j "fail").getD false))
  | some "sync" => do pure (.sync (← (← arr? j "kvs").mapM kvOf))
  | _ => none

def jHex (b : Bytes) : Json := .str (toHex b)
def jKV (kv : KV) : Json := .arr #[jHex kv.1, jHex kv.2]
def jKVs (l : List KV) : Json := .arr (l.map jKV).toArray

def jGot : Option Bytes → Json
  | some v => Json.mkObj [("v", jHex v)]
  | none => Json.mkObj [("nf", .bool true)]

def jItObs : ItObs → Json
  | .pos none => Json.mkObj [("valid", .bool false)]
  | .pos (some kv) => Json.mkObj [("valid", .bool true), ("k", jHex kv.1), ("v", jHex kv.2)]
  | .got v => jGot v
  | .kvs l => Json.mkObj [("kvs", jKVs l)]

def jTxObs : TxObs → Json
  | .err b => Json.mkObj [("err", .bool b)]
  | .got v => jGot v
  | .has b => Json.mkObj [("b", .bool b)]
  | .view l => Json.mkObj [("r", .arr (l.map jItObs).toArray)]

def jObs : Obs → Json
  | .err b => Json.mkObj [("err", .bool b)]
  | .got v => jGot v
  | .has b => Json.mkObj [("b", .bool b)]
  | .kvs l => Json.mkObj [("kvs", jKVs l)]
  | .view l => Json.mkObj [("r", .arr (l.map jItObs).toArray)]
  | .update l e => Json.mkObj [("r", .arr (l.map jTxObs).toArray), ("err", .bool e)]
  | .bulk e => Json.mkObj [("seterrs", .num 0), ("err", .bool e)]
  | .ok => Json.mkObj [("ok", .bool true)]

/-- 5 ASCII decimal digits of `i` (zero padded). -/
def fillSuffix (i : Nat) : Bytes :=
  [i / 10000 % 10, i / 1000 % 10, i / 100 % 10, i / 10 % 10, i % 10].map fun d => UInt8.ofNat (48 + d)

/-- The model is the same for every driver: the driver name in `reset` is not consulted. -/
def step (m : List KV) (j : Json) : List KV × Json :=
  match str? j "op" with
  | some "reset" => ([], Json.mkObj [("ok", .bool true)])
  | _ =>
    match str? j "op", hex? j "p", nat? j "n" with
    | some "fill", some p, some n =>
      -- n keys p ++ 5-digit decimal index, written by one bulk write (volume case: prefix deletes
      -- work in blocks of 10000 keys on some drivers)
      let sets : List KV := (List.range n).map fun i => (p ++ fillSuffix i, [120])
      let r := Grip.C10.step m (.bulk sets ((bool? j "fail").getD false)); (r.1, jObs r.2)
    | some "count", some p, _ =>
      let l := SMap.withPrefix m p
      (m, Json.mkObj [("n", .num ⟨l.length, 0⟩),
                      ("first", match l.head? with | some kv => jHex kv.1 | none => .null),
                      ("last", match l.getLast? with | some kv => jHex kv.1 | none => .null)])
    | _, _, _ =>
    match opOf j with
    | none => (m, Drv.bad "C10: cannot decode op")
    | some (.sync kvs) =>
      if isSorted kvs then (kvs, jObs .ok) else (kvs, Drv.bad "C10: sync with an unsorted dump")
    | some op => let r := Grip.C10.step m op; (r.1, jObs r.2)

def main : IO Unit := Drv.runLoop ([] : List KV) step

end Grip.Drv.C10
