import Grip.Drv.Common
import Grip.Model.C05
import Grip.Spec.C05
import Grip.Model.C05Check
import Grip.Drv.C05Access
import GripGen.AuthTables

/-
  Driver for C05.  One op per line:
    {"op":"call","tr":"grpc"|"gateway","cfg":"acct"|"null","m":"/gripql.Query/GetVertex",
     "token":"t1"|null,"users":[["t1","alice"],…],"allow":[["alice","g1","read"],…],
     "req":{"ty":"ElementID","graph":"g1"|null,"tag":"r0"},"elems":[{…},…]}
  validate md  := the user registered for the first value of header "authorization"
  enforce u g o := (u, g, o) ∈ allow          (cfg "null": NullAuth / NullAccess)
  Answer: {"err":…, "handled": null | [[ty,graph|null,tag],…], "log":[[user,graph,op],…]}
  plus "spec"/"kf" when the SPEC's decision differs from the MODEL's.
  Every other op (mode "access": the repository's own Casbin / BasicAuth / ProxyAuth) is answered
  by Grip.Drv.C05Access.step.
-/
namespace Grip.Drv.C05
open Lean Grip Grip.C05 Grip.Proto

def T : Tables := GripGen.AuthTables.tables

def reqOf (j : Json) : Option Req := do
  let ty ← str? j "ty"
  let tag := (str? j "tag").getD ""
  pure { ty := ty, graph := str? j "graph", tag := tag }

def pairsOf (j : Json) (k : String) : List (List String) :=
  match arr? j k with
  | some xs => xs.map (fun x => match x with
      | .arr ys => ys.toList.filterMap (fun y => match y with | .str s => some s | _ => none)
      | _ => [])
  | none => []

def errJson : Err → Json
  | .ok => "ok" | .unauthenticated => "unauthenticated" | .denied => "denied"
  | .unknown => "unknown" | .hang => "hang" | .other _ => "other"

def reqJson (r : Req) : Json :=
  Json.arr #[Json.str r.ty, (match r.graph with | some g => Json.str g | none => Json.null), Json.str r.tag]

def handledJson : Option (List Req) → Json
  | none => Json.null
  | some rs => Json.arr (rs.map reqJson).toArray

def logJson (l : List (User × Graph × Op)) : Json :=
  Json.arr (l.map (fun (u, g, o) => Json.arr #[Json.str u, Json.str g, Json.str o.wire])).toArray

def step (_ : Unit) (j : Json) : Unit × Json :=
  match str? j "op" with
  | some "call" =>
    match str? j "m", (val? j "req").bind reqOf with
    | some full, some req =>
      let elems := match arr? j "elems" with
        | some xs => xs.filterMap reqOf
        | none => []
      let isNull := str? j "cfg" == some "null"
      let users := pairsOf j "users"
      let allow := pairsOf j "allow"
      let md : MD := match str? j "token" with
        | some t => [("authorization", [t])]
        | none => []
      let validate : MD → Option User := if isNull then nullValidate else fun md =>
        match md.lookup "authorization" with
        | some (t :: _) => (users.find? (fun p => p.head? == some t)).bind (fun p => p[1]?)
        | _ => none
      let enforce : User → Graph → Op → Bool := if isNull then nullEnforce else fun u g o =>
        allow.contains [u, g, o.wire]
      let p : Caller := { validate := validate, enforce := enforce, md := md, req := req, elems := elems }
      let tr := if str? j "tr" == some "gateway" then Transport.gateway else Transport.grpc
      match T.methods.find? (fun m => m.full == full) with
      | none => ((), Json.mkObj [("err", "no-such-method"), ("handled", Json.null), ("log", Json.arr #[])])
      | some m =>
        let r := intercept T tr m p
        let log := if isNull then [] else r.log
        let obs : List (String × Json) := [("err", errJson r.err), ("handled", handledJson r.handled), ("log", logJson log)]
        match Spec.opOf full with
        | none => ((), Json.mkObj obs)
        | some op =>
          let d := Spec.decision p op m.kind
          if errJson d.err == errJson r.err && d.handled == r.handled then ((), Json.mkObj obs)
          else
            let tag := if r.err == .hang then "C05-gateway-bulk-hang"
              else if r.handled.isSome then "C05-unmediated" else "C05-uncallable"
            ((), Json.mkObj (obs ++ [
              ("spec", Json.mkObj [("err", errJson d.err), ("handled", handledJson d.handled), ("log", logJson log)]),
              ("kf", Json.str tag)]))
    | _, _ => ((), Drv.bad "call: cannot decode")
  | some "serve" =>
    -- the real server.Serve probed over HTTP; the MODEL answers from the regenerated Serve table
    let plugins := (val? j "plugins") == some (Json.bool true)
    let probes := (arr? j "probes").getD []
    let rows := probes.map fun p =>
      let svc := (str? p "svc").getD ""
      let kind := (str? p "kind").getD ""
      let hd := [Json.str svc, Json.str kind, Json.str ((str? p "verb").getD ""), Json.str ((str? p "path").getD "")]
      let d := if gatewayRefuses T.serve plugins svc (kind != "unary") then "denied" else "open"
      (hd ++ [Json.str d, Json.str d, Json.str "open"], hd ++ [Json.str "denied", Json.str "denied", Json.str "open"])
    let model := Json.mkObj [("probes", Json.arr (rows.map (fun r => Json.arr r.1.toArray)).toArray)]
    let spec := Json.mkObj [("probes", Json.arr (rows.map (fun r => Json.arr r.2.toArray)).toArray)]
    if Json.compress model == Json.compress spec then ((), model)
    else ((), model.setObjVal! "spec" spec |>.setObjVal! "kf" (Json.str "C05-unmediated"))
  | _ => ((), Grip.Drv.C05Access.step T j)   -- ops of mode "access": casbin / basic / proxy / e2e

def main : IO Unit := Drv.runLoop () step

end Grip.Drv.C05
