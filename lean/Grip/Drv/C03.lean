import Grip.Drv.Common
import Grip.Model.C03
import Grip.Spec.C03

namespace Grip.Drv.C03
open Lean Grip Grip.C03 Grip.Proto

def vertexIn? (j : Json) : Option VertexIn := do
  pure { gid := (← str? j "gid"), label := (← str? j "label"), data := (← jv? j "data") }

def edgeIn? (j : Json) : Option EdgeIn := do
  pure { gid := (← str? j "gid"), label := (← str? j "label"), frm := (← str? j "from"),
         to := (← str? j "to"), data := (← jv? j "data") }

def elemIn? (j : Json) : Option ElemIn :=
  match val? j "v" with
  | some v => (vertexIn? v).map .v
  | none => match val? j "e" with
    | some e => (edgeIn? e).map .e
    | none => none

def opOf? (j : Json) : Option Op := do
  let op ← str? j "op"
  let g ← str? j "g"
  match op with
  | "addGraph" => pure (.addGraph g)
  | "delGraph" => pure (.delGraph g)
  | "addV" => do pure (.addV g (← (← arr? j "vs").mapM vertexIn?))
  | "addE" => do pure (.addE g (← (← arr? j "es").mapM edgeIn?))
  | "bulk" => do pure (.bulk g (← (← arr? j "xs").mapM elemIn?))
  | "delV" => do pure (.delV g (← str? j "id"))
  | "delE" => do pure (.delE g (← str? j "id"))
  | _ => none

def vJson (v : VOut) : Json :=
  Json.mkObj [("gid", v.gid), ("label", v.label), ("data", ofJV v.data)]
def eJson (e : EOut) : Json :=
  Json.mkObj [("gid", e.gid), ("label", e.label), ("from", e.frm), ("to", e.to), ("data", ofJV e.data)]

def keyV (v : VOut) : String := v.gid ++ "\x01" ++ v.label
def keyE (e : EOut) : String := e.gid ++ "\x01" ++ e.label ++ "\x01" ++ e.frm ++ "\x01" ++ e.to
def sortV (vs : List VOut) : List VOut := vs.mergeSort (fun a b => keyV a ≤ keyV b)
def sortE (es : List EOut) : List EOut := es.mergeSort (fun a b => keyE a ≤ keyE b)
def vsJson (vs : List VOut) : Json := Json.arr ((sortV vs).map vJson).toArray
def esJson (es : List EOut) : Json := Json.arr ((sortE es).map eJson).toArray
def optV : Option VOut → Json | some v => vJson v | none => Json.null
def optE : Option EOut → Json | some e => eJson e | none => Json.null
def strsJson (xs : List String) : Json := Json.arr ((xs.mergeSort (· ≤ ·)).map Json.str).toArray

/-- Reads of one graph, as functions, so that MODEL and SPEC print through the same code. -/
structure Reads where
  getV : String → Option VOut
  getE : String → Option EOut
  vlist : List VOut
  elist : List EOut
  outV : String → List String → List VOut
  inV : String → List String → List VOut
  outE : String → List String → List EOut
  inE : String → List String → List EOut
  hasLabel : String → List VOut
  labelsV : List String
  labelsE : List String

def modelReads (m : KV) (g : String) : Reads :=
  { getV := getVertex m g, getE := getEdge m g, vlist := vertexList m g, elist := edgeList m g,
    outV := outV m g, inV := inV m g, outE := outE m g, inE := inE m g,
    hasLabel := verticesWithLabel m g, labelsV := listVertexLabels m g, labelsE := listEdgeLabels m g }

def specReads (a : Spec.AG) (g : String) : Reads :=
  { getV := Spec.getVertex a g, getE := Spec.getEdge a g, vlist := Spec.vertexList a g, elist := Spec.edgeList a g,
    outV := Spec.outV a g, inV := Spec.inV a g, outE := Spec.outE a g, inE := Spec.inE a g,
    hasLabel := Spec.verticesWithLabel a g, labelsV := Spec.listVertexLabels a g, labelsE := Spec.listEdgeLabels a g }

def graphObs (r : Reads) (ids eids labels : List String) (ts : String) : Json :=
  let filters : List (String × List String) := ("*", []) :: labels.map (fun l => (l, [l]))
  let per (f : String → List String → Json) : Json :=
    Json.mkObj (ids.map fun id => (id, Json.mkObj (filters.map fun (n, ls) => (n, f id ls))))
  Json.mkObj [
    ("V", vsJson r.vlist), ("E", esJson r.elist),
    ("get", Json.mkObj (ids.map fun id => (id, optV (r.getV id)))),
    ("getE", Json.mkObj (eids.map fun id => (id, optE (r.getE id)))),
    ("out", per fun id ls => vsJson (r.outV id ls)),
    ("in", per fun id ls => vsJson (r.inV id ls)),
    ("outE", per fun id ls => esJson (r.outE id ls)),
    ("inE", per fun id ls => esJson (r.inE id ls)),
    ("hasLabel", Json.mkObj (labels.map fun l => (l, vsJson (r.hasLabel l)))),
    ("labelsV", strsJson r.labelsV), ("labelsE", strsJson r.labelsE),
    ("ts", ts)]

structure St where
  m : KState := {}
  a : Spec.AG := {}
  seenM : List (String × Nat) := []   -- stamps at the previous observation (model)
  seenA : List (String × Nat) := []
  region : Bool := false               -- history has re-added an edge id with other endpoints/label

def tsWord (prev : List (String × Nat)) (g : String) (now : Option Nat) : String :=
  match (prev.find? (fun p => p.1 = g)).map (·.2), now with
  | some a, some b => if a = b then "same" else "changed"
  | none, some _ => "new"
  | _, none => "none"

/-- Does this op re-add a live edge id with different endpoints or label (region of C03-edge-readd)? -/
def entersRegion (a : Spec.AG) : Op → Bool
  | .addE g es => chk g (es.map .e)
  | .bulk g xs => chk g xs
  | _ => false
where
  chk (g : String) (xs : List ElemIn) : Bool :=
    -- conservative: compares with the state before the batch and within the batch
    let es := xs.filterMap fun x => match x with | .e e => if validEdge e then some e else none | _ => none
    es.any (fun e => (match a.getE g e.gid with
        | some r => r.frm ≠ e.frm ∨ r.to ≠ e.to ∨ r.label ≠ e.label
        | none => false) ||
      es.any (fun e' => e'.gid = e.gid ∧ (e'.frm ≠ e.frm ∨ e'.to ≠ e.to ∨ e'.label ≠ e.label)))

def resJson : Res → Json | .ok => "ok" | .err => "err"

def step (st : St) (j : Json) : St × Json :=
  match str? j "op" with
  | some "reset" => ({}, Json.mkObj [("r", "reset")])
  | some "observe" =>
    match strs? j "ids", strs? j "eids", strs? j "labels" with
    | some ids, some eids, some labels =>
      let gsM := (graphs st.m.kv).mergeSort (· ≤ ·)
      let gsA := st.a.graphs.mergeSort (· ≤ ·)
      let obsM := Json.mkObj [("graphs", strsJson gsM),
        ("g", Json.mkObj (gsM.map fun g => (g, graphObs (modelReads st.m.kv g) ids eids labels (tsWord st.seenM g (st.m.stamp g)))))]
      let obsA := Json.mkObj [("graphs", strsJson gsA),
        ("g", Json.mkObj (gsA.map fun g => (g, graphObs (specReads st.a g) ids eids labels (tsWord st.seenA g (st.a.stamp g)))))]
      let st' := { st with seenM := gsM.filterMap (fun g => (st.m.stamp g).map (g, ·)),
                           seenA := gsA.filterMap (fun g => (st.a.stamp g).map (g, ·)) }
      if obsM.compress == obsA.compress then (st', Json.mkObj [("obs", obsM)])
      else (st', Json.mkObj [("obs", obsM), ("spec", Json.mkObj [("obs", obsA)]),
                             ("kf", if st.region then "C03-edge-readd" else "C03-model-spec-gap")])
    | _, _, _ => (st, Drv.bad "observe: ids/eids/labels")
  | some _ =>
    match opOf? j with
    | some op =>
      let (m', r) := Grip.C03.step st.m op
      let (a', r') := Spec.specStep st.a op
      let st' := { st with m := m', a := a', region := st.region || entersRegion st.a op }
      if r = r' then (st', Json.mkObj [("r", resJson r)])
      else (st', Json.mkObj [("r", resJson r), ("spec", Json.mkObj [("r", resJson r')]),
                             ("kf", if st'.region then "C03-edge-readd" else "C03-model-spec-gap")])
    | none => (st, Drv.bad "cannot decode op")
  | none => (st, Drv.bad "no op")

def main : IO Unit := Drv.runLoop ({} : St) step

end Grip.Drv.C03
