import Grip.Drv.Common
import Grip.Model.C16

/-!
  Driver for C16.  Identifiers (graph names, ids, labels) cross the protocol hex-encoded.

  ops:  reset · addGraph/delGraph {g} · addV {g, vs} · addE {g, es} · bulk {g, xs} · delV/delE {g, id}
        observe {ids, eids, adj, labels, tids, tadj}   — every graph: listings, lookups, adjacency, label index,
                                            and the same through traversals
        keys {g,id,eid,s,d,l,f,t,doc}      — bytes of every key / prefix function and what the Go
                                            *KeyParse functions return on those keys
        valbits {g,id,bits}                — float64 bit patterns through the Struct round trip (identity)
-/
namespace Grip.Drv.C16
open Lean Grip Grip.C03 Grip.C16 Grip.Proto

def hx (s : String) : String := toHex (utf8 s)
def hxb (b : Bytes) : Json := Json.str (toHex b)
def unhex (s : String) : Option String := (ofHex s).bind strOf?
def hstr? (j : Json) (k : String) : Option String := (str? j k).bind unhex
def hstrs? (j : Json) (k : String) : Option (List String) := (strs? j k).bind (·.mapM unhex)

def vertexIn? (j : Json) : Option VertexIn := do
  pure { gid := (← hstr? j "gid"), label := (← hstr? j "label"), data := (← jv? j "data") }

def edgeIn? (j : Json) : Option EdgeIn := do
  pure { gid := (← hstr? j "gid"), label := (← hstr? j "label"), frm := (← hstr? j "from"),
         to := (← hstr? j "to"), data := (← jv? j "data") }

def elemIn? (j : Json) : Option ElemIn :=
  match val? j "v" with
  | some v => (vertexIn? v).map .v
  | none => match val? j "e" with
    | some e => (edgeIn? e).map .e
    | none => none

def opOf? (j : Json) : Option Op := do
  let op ← str? j "op"
  let g ← hstr? j "g"
  match op with
  | "addGraph" => pure (.addGraph g)
  | "delGraph" => pure (.delGraph g)
  | "addV" => do pure (.addV g (← (← arr? j "vs").mapM vertexIn?))
  | "addE" => do pure (.addE g (← (← arr? j "es").mapM edgeIn?))
  | "bulk" => do pure (.bulk g (← (← arr? j "xs").mapM elemIn?))
  | "delV" => do pure (.delV g (← hstr? j "id"))
  | "delE" => do pure (.delE g (← hstr? j "id"))
  | _ => none

def vJson (v : VOut) : Json :=
  Json.mkObj [("gid", hx v.gid), ("label", hx v.label), ("data", ofJV (storedData v.data))]
def eJson (e : EOut) : Json :=
  Json.mkObj [("gid", hx e.gid), ("label", hx e.label), ("from", hx e.frm), ("to", hx e.to),
              ("data", ofJV (storedData e.data))]

def keyV (v : VOut) : String := hx v.gid ++ "/" ++ hx v.label
def keyE (e : EOut) : String := hx e.gid ++ "/" ++ hx e.label ++ "/" ++ hx e.frm ++ "/" ++ hx e.to
def vsJson (vs : List VOut) : Json := Json.arr ((vs.mergeSort (fun a b => keyV a ≤ keyV b)).map vJson).toArray
def esJson (es : List EOut) : Json := Json.arr ((es.mergeSort (fun a b => keyE a ≤ keyE b)).map eJson).toArray
def optV : Option VOut → Json | some v => vJson v | none => Json.null
def optE : Option EOut → Json | some e => eJson e | none => Json.null
def hexSorted (xs : List String) : Json := Json.arr (((xs.map hx).mergeSort (· ≤ ·)).map Json.str).toArray
def listJ (xs : List Json) : Json := Json.arr xs.toArray

def graphObs (m : KV) (g : String) (ids eids adj labels tids tadj : List String) : Json :=
  Json.mkObj [
    ("name", hx g),
    ("V", vsJson (vertexList m g)), ("E", esJson (edgeList m g)),
    ("get", listJ (ids.map fun id => optV (getVertex m g id))),
    ("getE", listJ (eids.map fun id => optE (getEdge m g id))),
    ("out", listJ (adj.map fun id => vsJson (outV m g id []))),
    ("in", listJ (adj.map fun id => vsJson (inV m g id []))),
    ("outE", listJ (adj.map fun id => esJson (outE m g id []))),
    ("inE", listJ (adj.map fun id => esJson (inE m g id []))),
    ("outL", listJ (adj.map fun id => listJ (labels.map fun l => vsJson (outV m g id [l])))),
    ("hasLabel", listJ (labels.map fun l => vsJson (verticesWithLabel m g l))),
    ("labelsV", hexSorted (listVertexLabels m g)), ("labelsE", hexSorted (listEdgeLabels m g)),
    -- the same through the traversal engine: V(), E(), V(id), V(id).out(), V().hasLabel(l)
    ("tV", vsJson (vertexList m g)), ("tE", esJson (edgeList m g)),
    ("tGet", listJ (tids.map fun id => vsJson ((getVertex m g id).toList))),
    -- V(id).out(): nothing when the start vertex does not exist
    ("tOut", listJ (tadj.map fun id => vsJson (if (getVertex m g id).isSome then outV m g id [] else []))),
    ("tHasLabel", listJ (labels.map fun l => vsJson (verticesWithLabel m g l)))]

/-- float64 bit pattern (16 hex digits) with all exponent bits set: NaN or an infinity. -/
def nonFiniteHex (b : String) : Bool :=
  match ofHex b with
  | some (b0 :: b1 :: _) => (b0.toNat * 256 + b1.toNat) / 16 % 2048 == 2047
  | _ => false

def resJson : Res → Json | .ok => "ok" | .err => "err"

/-- keys op: bytes of all key and prefix functions, and the parse of each key. -/
def keysObs (g id eid s d l f t doc : String) : Json :=
  let kV := encode (.vertex g id)
  let kE := encode (.edge g eid s d l)
  let kS := encode (.src g s d eid l)
  let kD := encode (.dst g d s eid l)
  let kG := encode (.graph g)
  let kF := encode (.field f)
  let kT := encode (.term f t)
  let kI := encode (.entry f t doc)
  let kDoc := encode (.doc doc)
  let six (r : Option (String × String × String × String × String × UInt8)) : Json :=
    match r with
    | some (a, b, c, d', e, ty) => listJ [hx a, hx b, hx c, hx d', hx e, Json.num ty.toNat]
    | none => "panic"
  Json.mkObj [
    ("k", Json.mkObj [("vertex", hxb kV), ("edge", hxb kE), ("src", hxb kS), ("dst", hxb kD), ("graph", hxb kG),
                      ("field", hxb kF), ("term", hxb kT), ("entry", hxb kI), ("doc", hxb kDoc)]),
    ("p", Json.mkObj [("graph", hxb graphPrefix), ("field", hxb fieldPrefix),
                      ("vlist", hxb (vertexListPrefix g)), ("elist", hxb (edgeListPrefix g)),
                      ("ekey", hxb (edgeKeyPrefix g eid)), ("slist", hxb (srcEdgeListPrefix g)),
                      ("dlist", hxb (dstEdgeListPrefix g)), ("sedge", hxb (srcEdgePrefix g id)),
                      ("dedge", hxb (dstEdgePrefix g id)), ("skey", hxb (srcEdgeKeyPrefix g s d eid)),
                      ("dkey", hxb (dstEdgeKeyPrefix g s d eid)), ("term", hxb (termPrefix f)),
                      ("termtype", hxb (termTypePrefix f)), ("entry", hxb (entryPrefix f)),
                      ("entrytype", hxb (entryTypePrefix f)), ("entryval", hxb (entryValuePrefix f t))]),
    ("parse", Json.mkObj [
      ("vertex", match vertexKeyParse kV with | some (a, b) => listJ [hx a, hx b] | none => "panic"),
      ("edge", six (edgeKeyParse kE)), ("src", six (srcEdgeKeyParse kS)), ("dst", six (dstEdgeKeyParse kD)),
      ("graph", match graphKeyParse kG with | some a => Json.str (hx a) | none => "panic"),
      ("field", match fieldKeyParse kF with | some a => Json.str (hx a) | none => "panic"),
      ("term", match termKeyParse kT with | some (a, ty, b) => listJ [hx a, Json.num ty.toNat, hxb b] | none => "panic"),
      ("entry", match entryKeyParse kI with
        | some (a, ty, b, c) => listJ [hx a, Json.num ty.toNat, hxb b, hx c] | none => "panic")]),
    -- does the structured view survive the bytes?  (parse ∘ encode = id on every family)
    ("rt", Json.bool ([SKey.vertex g id, .edge g eid s d l, .src g s d eid l, .dst g d s eid l, .graph g, .field f,
                       .term f t, .entry f t doc, .doc doc].all fun k => parse (encode k) == some k))]

def step (st : KState) (j : Json) : KState × Json :=
  match str? j "op" with
  | some "reset" => ({}, Json.mkObj [("r", "reset")])
  | some "observe" =>
    match hstrs? j "ids", hstrs? j "eids", hstrs? j "adj", hstrs? j "labels", hstrs? j "tids", hstrs? j "tadj" with
    | some ids, some eids, some adj, some labels, some tids, some tadj =>
      let gs := (graphs st.kv).mergeSort (fun a b => hx a ≤ hx b)
      (st, Json.mkObj [("obs", Json.mkObj [("graphs", listJ (gs.map fun g => Json.str (hx g))),
                                           ("g", listJ (gs.map fun g => graphObs st.kv g ids eids adj labels tids tadj))])])
    | _, _, _, _, _, _ => (st, Drv.bad "observe: ids/eids/adj/labels/tids/tadj")
  | some "keys" =>
    match hstr? j "g", hstr? j "id", hstr? j "eid", hstr? j "s", hstr? j "d", hstr? j "l", hstr? j "f", hstr? j "t", hstr? j "doc" with
    | some g, some id, some eid, some s, some d, some l, some f, some t, some doc =>
      (st, keysObs g id eid s d l f t doc)
    | _, _, _, _, _, _, _, _, _ => (st, Drv.bad "keys: fields")
  | some "valbits" =>
    match hstr? j "g", hstr? j "id", strs? j "bits" with
    | some g, some id, some bits =>
      if hasGraph st g && noNul id && id != "" && !(bits.any nonFiniteHex) then
        -- the Struct round trip is the identity on finite float64 bit patterns (three read paths);
        -- NaN and the infinities are refused by Validate (after `fix: Validate rejects NaN and
        -- infinite property values`): stored verbatim or rejected
        let row := listJ (bits.map Json.str)
        (st, Json.mkObj [("r", "ok"), ("get", row), ("list", row), ("trav", row)])
      else (st, Json.mkObj [("r", "err")])
    | _, _, _ => (st, Drv.bad "valbits: fields")
  | some _ =>
    match opOf? j with
    | some op =>
      let (m', r) := step16 st op
      (m', Json.mkObj [("r", resJson r)])
    | none => (st, Drv.bad "cannot decode op")
  | none => (st, Drv.bad "no op")

def main : IO Unit := Drv.runLoop ({} : KState) step

end Grip.Drv.C16
