import Grip.Drv.Common
import Grip.Model.C07

namespace Grip.Drv.C07
open Lean Grip Grip.C07 Grip.Proto

def famOf : String → Option Fam
  | "ring" => some .ring | "star" => some .star | "iso" => some .iso | "huge" => some .huge | "mixed" => some .mixed | _ => none

def stepOf (s : String) : Option StepK :=
  match s.splitOn ":" with
  | ["V"] => some .V | ["E"] => some .E | ["out"] => some .out | ["in"] => some .in_
  | ["both"] => some .both | ["outE"] => some .outE | ["inE"] => some .inE | ["bothE"] => some .bothE
  | ["as"] => some .as_ | ["select"] => some .select | ["count"] => some .count
  | ["distinct"] => some .distinct | ["aggcount"] => some .aggcount | ["aggterm"] => some .aggterm
  | ["agg2"] => some .agg2
  | ["aggpct"] => some .aggpct
  | ["aggnone"] => some .aggnone
  | ["loopout"] => some .loopOut
  | ["limit", k] => k.toNat?.map .limit
  | ["skip", k] => k.toNat?.map .skip
  | ["agghist", k] => k.toNat?.map .agghist
  | ["range", a, b] => do pure (.range (← a.toNat?) (← b.toNat?))
  | _ => none

def natJ (n : Nat) : Json := Json.num ⟨n, 0⟩

/-- a start from explicit ids (`Vids:k`, `Vhasid:k`, family iso only) is the step `V` on k vertices -/
def idStart (ss : List String) : Option (Option Nat × List StepK) :=
  match ss with
  | s :: rest =>
    match s.splitOn ":" with
    | ["Vids", k] | ["Vhasid", k] => do pure (some (← k.toNat?), .V :: (← rest.mapM stepOf))
    | _ => do pure (none, ← ss.mapM stepOf)
  | [] => some (none, [])

def doneObs (rows : Nat) : Json :=
  Json.mkObj [("done", Json.bool true), ("rows", natJ rows), ("leak", Json.bool false), ("tmp", natJ 0)]

def cancelObs : Json :=
  Json.mkObj [("done", Json.bool true), ("within", Json.bool true), ("leak", Json.bool false), ("tmp", natJ 0)]

def obsOf (cancel : Int) : Outcome → Json
  | .done r => if cancel < 0 then doneObs r else cancelObs
  | .timeout => Json.mkObj [("timeout", Json.bool true)]
  | .err => Json.mkObj [("err", Json.bool true)]
  | .skip => Json.mkObj [("skip", Json.bool true)]

def hasHist (steps : List StepK) : Bool := steps.any (fun s => match s with | .agghist _ => true | _ => false)

def step (_ : Unit) (j : Json) : Unit × Json :=
  match str? j "op" with
  | some "caps" =>
    let ab := GripGen.BuffersC07.lookups.map (fun l => (l.1, natJ (Gen.branchAbsorb l.1)))
    ((), Json.mkObj [("run", natJ GripGen.BuffersC07.runBufsize), ("res", natJ GripGen.BuffersC07.runResultChan),
      ("bothIn", natJ GripGen.BuffersC07.bothChanIn), ("bothOut", natJ GripGen.BuffersC07.bothChanOut),
      ("agg", natJ GripGen.BuffersC07.aggBuffer), ("absorb", Json.mkObj ab),
      ("bothConcurrent", Json.bool Gen.bothConcurrent), ("histGuard", Json.bool GripGen.BuffersC07.histogramAdvanceGuard)])
  | some "slack" =>
    match (strs? j "steps").bind (fun ss => ss.mapM stepOf) with
    | some steps =>
      match pathSlack steps with
      | some k => ((), Json.mkObj [("slack", natJ k)])
      | none => ((), Drv.bad "slack: not a linear chain")
    | none => ((), Drv.bad "slack: cannot decode")
  | some "run" =>
    match (str? j "fam").bind famOf, nat? j "n", (strs? j "steps").bind idStart, int? j "cancel", int? j "slack" with
    | some fam, some n0, some (lim, steps), some cancel, some slack =>
      -- V(k ids) / V().hasId(k ids) on isolated vertices v0 … v(n-1): the rows of V() on the
      -- first min k n of them (vertices without edges are independent of each other)
      let n := match lim with | some k => (if fam == .iso then min k n0 else n0) | none => n0
      let model := runModel Gen.bothConcurrent GripGen.BuffersC07.histogramAdvanceGuard fam n steps
      let spec := runModel true true fam n steps
      if cancel ≥ 0 && slack ≥ 0 && pathSlack steps != some slack.toNat then
        ((), Drv.bad "run: slack differs from the model's in-flight capacity")
      else if cancel ≥ 0 && model == .timeout then
        -- a hanging traversal that is also cancelled: outcome depends on timing, not compared
        ((), Json.mkObj [("skip", Json.bool true)])
      else if model == spec then ((), obsOf cancel model)
      else
        let kf := if hasHist steps then "C07-hist-float-stall" else "C07-both-deadlock"
        ((), (obsOf cancel model).mergeObj (Json.mkObj [("spec", obsOf cancel spec), ("kf", Json.str kf)]))
    | _, _, _, _, _ => ((), Drv.bad "run: cannot decode")
  | _ => ((), Drv.bad "unknown op")

def main : IO Unit := Drv.runLoop () step

end Grip.Drv.C07
