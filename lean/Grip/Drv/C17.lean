import Grip.Drv.Common
import Grip.Drv.C03
import Grip.Model.C17
import Grip.Model.C04
import Grip.Spec.C17
import Grip.Model.C17Read

namespace Grip.Drv.C17
open Lean Grip Grip.C03 Grip.C03.Spec Grip.Proto Grip.C17 Grip.C17.Spec

structure St where
  init : AG := {}
  setup : List Op := []
  clients : List (List Op) := []
  acked : List (List Op) := []

def vOut? (j : Json) : Option VOut := do
  pure ⟨(← str? j "gid"), (← str? j "label"), (← jv? j "data")⟩
def eOut? (j : Json) : Option EOut := do
  pure ⟨(← str? j "gid"), (← str? j "label"), (← str? j "from"), (← str? j "to"), (← jv? j "data")⟩

def final? (j : Json) : Option Final := do
  pure ⟨(← (← arr? j "verts").mapM vOut?), (← (← arr? j "edges").mapM eOut?)⟩

def opsOf? (js : List Json) : Option (List Op) := js.mapM Grip.Drv.C03.opOf?

def clients? (j : Json) (k : String) : Option (List (List Op)) := do
  (← arr? j k).mapM fun c => match c with
    | .arr xs => opsOf? xs.toList
    | _ => none

def acks? (j : Json) : Option (List (List Bool)) := do
  (← arr? j "acks").mapM fun c => match c with
    | .arr xs => xs.toList.mapM fun b => match b with | .bool v => some v | _ => none
    | _ => none

def keepAcked (ops : List Op) (acks : List Bool) : List Op :=
  (ops.zip acks).filterMap fun p => if p.2 then some p.1 else none

/-- strip "#goN" -/
def fnOnly (s : String) : String := (s.splitOn "#").headD s

/-- open finding (if any) that covers a race between functions f and g -/
def findingFor (f g : String) : Option String :=
  (findingPairs GripGen.SharedAccess.accesses).findSome? fun (a, b, id) =>
    let fa := fnOnly (threadName a)
    let fb := fnOnly (threadName b)
    if (fa == f && fb == g) || (fa == g && fb == f) then some id else none

def maxInterleavings : Nat := 40000

/-! ### op `readpath`: one read path of kvgraph against complete writer calls (Grip.C17Read) -/

def callOf? (j : Json) : Option Grip.C17Read.Call := do
  match (← str? j "c") with
  | "open" => pure .open
  | "drain" => pure .drain
  | "add" => do pure (.add (← (← arr? j "xs").mapM Grip.Drv.C03.elemIn?))
  | "delE" => do pure (.delEdge (← str? j "id"))
  | "delV" => do pure (.delVertex (← str? j "id"))
  | _ => none

def driverOf? : String → Option Grip.C17Read.Driver
  | "bolt" => some Grip.C17Read.bolt
  | "badger" => some Grip.C17Read.badger
  | "level" => some Grip.C17Read.level
  | "pebble" => some Grip.C17Read.pebble
  | _ => none

def strs? (j : Json) (k : String) : Option (List String) := do
  (← arr? j k).mapM fun x => match x with | .str s => some s | _ => none

def outKey : Grip.C17Read.Out → String
  | .vertex id l d => "v\x01" ++ id ++ "\x01" ++ l ++ "\x01\x01\x01" ++ (ofJV d).compress
  | .edge id l f t d => "e\x01" ++ id ++ "\x01" ++ l ++ "\x01" ++ f ++ "\x01" ++ t ++ "\x01" ++ (ofJV d).compress
  | .labelled id => "l\x01" ++ id

def outJson : Grip.C17Read.Out → Json
  | .vertex id l d => Json.mkObj [("v", Grip.Drv.C03.vJson ⟨id, l, d⟩)]
  | .edge id l f t d => Json.mkObj [("e", Grip.Drv.C03.eJson ⟨id, l, f, t, d⟩)]
  | .labelled id => Json.mkObj [("id", Json.str id)]

def readpath (j : Json) : Json :=
  match (str? j "drv").bind driverOf?, str? j "path", strs? j "reqs", strs? j "labels",
        (arr? j "init").bind (·.mapM Grip.Drv.C03.elemIn?), (arr? j "calls").bind (·.mapM callOf?) with
  | some dr, some path, some reqs, some labels, some init, some calls =>
    let fields := [labelField "g" "v", labelField "g" "e"]
    let out := Grip.C17Read.runScenario dr fields "g" path reqs labels init calls
    let sorted := out.mergeSort (fun a b => outKey a ≤ outKey b)
    Json.mkObj [("out", Json.arr (sorted.map outJson).toArray)]
  | _, _, _, _, _, _ => Drv.bad "readpath: cannot decode"

def step (st : St) (j : Json) : St × Json :=
  match str? j "op" with
  | some "reset" => ({}, Json.mkObj [("r", "ok")])
  | some "units" =>
    -- number of top-level store writes of one edit on the state reached by `hist` (C04's write
    -- lists); `atomic_ops_serializable` treats every session edit as one atomic step
    match (arr? j "hist").bind opsOf?, (val? j "call").bind Grip.Drv.C03.opOf? with
    | some hist, some call =>
      let s := Grip.C03.run {} hist
      (st, Json.mkObj [("units", Json.num ⟨(Grip.C04.writes s call).length, 0⟩)])
    | _, _ => (st, Drv.bad "units: hist/call")
  | some "readpath" => (st, readpath j)
  | some "lockset" =>
    (st, Json.mkObj [("unexplained", Json.arr (badPairNames.map Json.str).toArray),
                     ("stale", Json.num ⟨staleEntries.length, 0⟩)])
  | some "session" =>
    match (arr? j "setup").bind opsOf?, clients? j "clients", acks? j with
    | some setup, some clients, some acks =>
      if clients.length != acks.length then (st, Drv.bad "session: acks shape") else
      let acked := (clients.zip acks).map fun p => keepAcked p.1 p.2
      ({ init := specRun {} setup, setup := setup, clients := clients, acked := acked },
       Json.mkObj [("alive", Json.bool true)])
    | _, _, _ => (st, Drv.bad "session: cannot decode")
  | some "race" =>
    match str? j "f", str? j "g" with
    | some f, some g =>
      match findingFor f g with
      | some id => (st, Json.mkObj [("race", Json.bool true), ("spec", Json.mkObj [("race", Json.bool false)]), ("kf", Json.str id)])
      | none => (st, Json.mkObj [("race", Json.bool false)])
    | _, _ => (st, Drv.bad "race: cannot decode")
  | some "final" =>
    match str? j "g", final? j with
    | some g, some obs =>
      if (str? j "mode") == some "disjoint" then
        -- pairwise independent clients: every serial order gives the same graph; two orders are
        -- computed to catch a generator that is not disjoint after all
        let f1 := serialFinal st.init st.acked g
        let f2 := serialFinal st.init st.acked.reverse g
        if !f1.same f2 then (st, Drv.bad "final: session declared disjoint but two serial orders differ")
        else (st, Json.mkObj [("admissible", Json.bool (f1.same obs))])
      else
        let n := (countMergesN (st.acked.map List.length)).1
        if n > maxInterleavings then (st, Json.mkObj [("skip", Json.bool true)])
        else (st, Json.mkObj [("admissible", Json.bool (admissible st.init st.acked g obs))])
    | _, _ => (st, Drv.bad "final: cannot decode")
  | some "observed" =>
    match str? j "g", final? j with
    | some g, some obs =>
      (st, Json.mkObj [("written", Json.bool (written (st.setup ++ st.clients.flatten) g obs))])
    | _, _ => (st, Drv.bad "observed: cannot decode")
  | _ => (st, Drv.bad "unknown op")

def main : IO Unit := Drv.runLoop ({} : St) step

end Grip.Drv.C17
