import Grip.Drv.Common
import Grip.Drv.C03
import Grip.Model.C17
import Grip.Model.C04
import Grip.Spec.C17

namespace Grip.Drv.C17
open Lean Grip Grip.C03 Grip.C03.Spec Grip.Proto Grip.C17 Grip.C17.Spec

structure St where
  init : AG := {}
  setup : List Op := []
  clients : List (List Op) := []
  acked : List (List Op) := []

def vOut? (j : Json) : Option VOut := do
  pure ⟨(← str? j "gid"), (← str? j "label"), (← jv? j "data")⟩
def eOut? (j : Json) : Option EOut := do
  pure ⟨(← str? j "gid"), (← str? j "label"), (← str? j "from"), (← str? j "to"), (← jv? j "data")⟩

def final? (j : Json) : Option Final := do
  pure ⟨(← (← arr? j "verts").mapM vOut?), (← (← arr? j "edges").mapM eOut?)⟩

def opsOf? (js : List Json) : Option (List Op) := js.mapM Grip.Drv.C03.opOf?

def clients? (j : Json) (k : String) : Option (List (List Op)) := do
  (← arr? j k).mapM fun c => match c with
    | .arr xs => opsOf? xs.toList
    | _ => none

def acks? (j : Json) : Option (List (List Bool)) := do
  (← arr? j "acks").mapM fun c => match c with
    | .arr xs => xs.toList.mapM fun b => match b with | .bool v => some v | _ => none
    | _ => none

def keepAcked (ops : List Op) (acks : List Bool) : List Op :=
  (ops.zip acks).filterMap fun p => if p.2 then some p.1 else none

/-- strip "#goN" -/
def fnOnly (s : String) : String := (s.splitOn "#").headD s

/-- open finding (if any) that covers a race between functions f and g -/
def findingFor (f g : String) : Option String :=
  (findingPairs GripGen.SharedAccess.accesses).findSome? fun (a, b, id) =>
    let fa := fnOnly (threadName a)
    let fb := fnOnly (threadName b)
    if (fa == f && fb == g) || (fa == g && fb == f) then some id else none

def maxInterleavings : Nat := 40000

def step (st : St) (j : Json) : St × Json :=
  match str? j "op" with
  | some "reset" => ({}, Json.mkObj [("r", "ok")])
  | some "units" =>
    -- number of top-level store writes of one edit on the state reached by `hist` (C04's write
    -- lists); `atomic_ops_serializable` treats every session edit as one atomic step
    match (arr? j "hist").bind opsOf?, (val? j "call").bind Grip.Drv.C03.opOf? with
    | some hist, some call =>
      let s := Grip.C03.run {} hist
      (st, Json.mkObj [("units", Json.num ⟨(Grip.C04.writes s call).length, 0⟩)])
    | _, _ => (st, Drv.bad "units: hist/call")
  | some "lockset" =>
    (st, Json.mkObj [("unexplained", Json.arr (badPairNames.map Json.str).toArray),
                     ("stale", Json.num ⟨staleEntries.length, 0⟩)])
  | some "session" =>
    match (arr? j "setup").bind opsOf?, clients? j "clients", acks? j with
    | some setup, some clients, some acks =>
      if clients.length != acks.length then (st, Drv.bad "session: acks shape") else
      let acked := (clients.zip acks).map fun p => keepAcked p.1 p.2
      ({ init := specRun {} setup, setup := setup, clients := clients, acked := acked },
       Json.mkObj [("alive", Json.bool true)])
    | _, _, _ => (st, Drv.bad "session: cannot decode")
  | some "race" =>
    match str? j "f", str? j "g" with
    | some f, some g =>
      match findingFor f g with
      | some id => (st, Json.mkObj [("race", Json.bool true), ("spec", Json.mkObj [("race", Json.bool false)]), ("kf", Json.str id)])
      | none => (st, Json.mkObj [("race", Json.bool false)])
    | _, _ => (st, Drv.bad "race: cannot decode")
  | some "final" =>
    match str? j "g", final? j with
    | some g, some obs =>
      if (str? j "mode") == some "disjoint" then
        -- pairwise independent clients: every serial order gives the same graph; two orders are
        -- computed to catch a generator that is not disjoint after all
        let f1 := serialFinal st.init st.acked g
        let f2 := serialFinal st.init st.acked.reverse g
        if !f1.same f2 then (st, Drv.bad "final: session declared disjoint but two serial orders differ")
        else (st, Json.mkObj [("admissible", Json.bool (f1.same obs))])
      else
        let n := (countMergesN (st.acked.map List.length)).1
        if n > maxInterleavings then (st, Json.mkObj [("skip", Json.bool true)])
        else (st, Json.mkObj [("admissible", Json.bool (admissible st.init st.acked g obs))])
    | _, _ => (st, Drv.bad "final: cannot decode")
  | some "observed" =>
    match str? j "g", final? j with
    | some g, some obs =>
      (st, Json.mkObj [("written", Json.bool (written (st.setup ++ st.clients.flatten) g obs))])
    | _, _ => (st, Drv.bad "observed: cannot decode")
  | _ => (st, Drv.bad "unknown op")

def main : IO Unit := Drv.runLoop ({} : St) step

end Grip.Drv.C17
