/-
  Grip.Drv.C12 — line-protocol driver for C12.

  op "loop": {"graph":{"verts":[{gid,label,x}],"edges":[{gid,label,from,to}]}, "stmts":[protojson
  GraphStatements], "procs":…, "reps":…}  →  {"rows":[…sorted…]}: the rows of the iterative
  definition (Grip.C12.iterate for single-loop programs, cross-checked against the per-traveler
  goto reading `Prog.exec`, which also covers several jumps / marks).  The answer does not
  depend on "procs"/"reps"/"noise": that is the property.

  op "trace": replay of a recorded event trace on the protocol LTS (Grip.C12.LTS), see below.
-/
import Grip.Drv.Common
import Grip.Drv.C13
import Grip.Model.C12Prog
-- (LTS import added below)

namespace Grip.Drv.C12
open Lean Grip Grip.Proto Grip.C12 Grip.C12.Prog

def pathOf (s : String) : Option Path :=
  match s.splitOn "." with
  | [a] => if a.startsWith "$" then none else some ⟨none, a⟩
  | [a, b] =>
    if a.startsWith "$" then
      let ns := (a.drop 1).toString
      some ⟨if ns.isEmpty then none else some ns, b⟩
    else none
  | _ => none

def intOfJson : Json → Option Int
  | .num n => if n.exponent == 0 then some n.mantissa else
      let den : Int := (10 ^ n.exponent : Nat)
      if n.mantissa % den == 0 then some (n.mantissa / den) else none
  | _ => none

def cmpOf : String → Option Cmp
  | "EQ" => some .eq | "NEQ" => some .neq | "GT" => some .gt | "GTE" => some .gte
  | "LT" => some .lt | "LTE" => some .lte | _ => none

partial def exprOf (j : Json) : Option HasE :=
  match val? j "condition" with
  | some c => do
    let p ← (str? c "key").bind pathOf
    let op ← (str? c "condition").bind cmpOf
    let v ← val? c "value"
    match v with
    | .str s => pure (.cond p op (.str s))
    | _ => do let n ← intOfJson v; pure (.cond p op (.num n))
  | none =>
    match val? j "and" with
    | some l => do pure (.and (← ((arr? l "expressions").getD []).mapM exprOf))
    | none =>
      match val? j "or" with
      | some l => do pure (.or (← ((arr? l "expressions").getD []).mapM exprOf))
      | none =>
        match val? j "not" with
        | some x => do pure (.not (← exprOf x))
        | none => none

inductive Suffix where
  | none | render (tmpl : List (String × Path)) | count

inductive PStmt where
  | s (x : Stmt) | render (tmpl : List (String × Path)) | count

def strList (j : Json) : Option (List String) :=
  match j with
  | .arr xs => xs.toList.mapM (fun x => match x with | .str s => some s | _ => none)
  | _ => none

def stmtOf (j : Json) : Option PStmt :=
  if let some l := val? j "v" then (strList l).map (fun x => .s (.v x))
  else if let some l := val? j "out" then (strList l).map (fun x => .s (.out x))
  else if let some l := val? j "in" then (strList l).map (fun x => .s (.inn x))
  else if let some l := val? j "hasLabel" then (strList l).map (fun x => .s (.hasLabel x))
  else if let some n := str? j "as" then some (.s (.as n))
  else if let some n := str? j "mark" then some (.s (.mark n))
  else if let some e := val? j "has" then (exprOf e).map (fun x => .s (.has x))
  else if let some x := val? j "set" then do
    let p ← (str? x "key").bind pathOf
    let n ← (val? x "value").bind intOfJson
    pure (.s (.set p n))
  else if let some x := val? j "increment" then do
    let p ← (str? x "key").bind pathOf
    let n := ((val? x "value").bind intOfJson).getD 0
    pure (.s (.inc p n))
  else if let some x := val? j "jump" then do
    let m ← str? x "mark"
    let emit := (bool? x "emit").getD false
    match val? x "expression" with
    | some e => do let h ← exprOf e; pure (.s (.jump m (some h) emit))
    | none => pure (.s (.jump m none emit))
  else if let some t := val? j "render" then
    match t with
    | .obj kvs => do
      let l ← kvs.toList.mapM (fun (k, v) => match v with
        | .str s => (pathOf s).map (fun p => (k, p))
        | _ => none)
      pure (.render (l.mergeSort (fun a b => a.1 ≤ b.1)))
    | _ => none
  else if (val? j "count").isSome then some .count
  else none

def elemOfJson (j : Json) : Option Elem := do
  let gid ← str? j "gid"
  let label ← str? j "label"
  let x ← int? j "x"
  pure { gid := gid, label := label, data := [("x", .f x)] }

def edgeOfJson (j : Json) : Option Edge := do
  pure { gid := ← str? j "gid", label := ← str? j "label", frm := ← str? j "from", to := ← str? j "to" }

def graphOf (j : Json) : Option Graph := do
  let vs ← (← arr? j "verts").mapM elemOfJson
  let es ← (← arr? j "edges").mapM edgeOfJson
  pure { verts := vs, edges := es }

def valJson : Val → Json
  | .f n => .arr #[.str "n", .num ⟨n * 1024, 0⟩]
  | .i n => .arr #[.str "n", .num ⟨n * 1024, 0⟩]
  | .s v => .arr #[.str "s", .str v]
  | .null => .arr #[.str "z"]

def rowJson (sfx : Suffix) (t : Trav) : Json :=
  match sfx with
  | .render tmpl =>
    .arr #[.str "r", .arr #[.str "o", .arr (tmpl.map (fun (k, p) => Json.arr #[.str k, valJson (lookup t p)])).toArray]]
  | _ => .arr #[.str "v", .str t.cur.gid]

def sortRows (rs : List Json) : List Json :=
  let keyed := rs.map (fun r => (Json.compress r, r))
  (keyed.mergeSort (fun a b => a.1 ≤ b.1)).map (·.2)

def fuelFor (n : Nat) : Nat := (n + 2) * 40

/-- Split the parsed statements into the traveler part and the final render/count. -/
def splitSuffix (ps : List PStmt) : Option (List Stmt × Suffix) :=
  let rec go : List PStmt → List Stmt → Option (List Stmt × Suffix)
    | [], acc => some (acc.reverse, .none)
    | [.render t], acc => some (acc.reverse, .render t)
    | [.count], acc => some (acc.reverse, .count)
    | .s x :: r, acc => go r (x :: acc)
    | _, _ => none
  go ps []

def obsOf (sfx : Suffix) (ts : List Trav) : Json :=
  match sfx with
  | .count => Json.mkObj [("rows", .arr #[.arr #[.str "c", .num ⟨ts.length, 0⟩]])]
  | _ => Json.mkObj [("rows", .arr (sortRows (ts.map (rowJson sfx))).toArray)]

def loopStep (j : Json) : Json :=
  match (val? j "graph").bind graphOf, (arr? j "stmts").bind (fun l => l.mapM stmtOf) with
  | some g, some ps =>
    match splitSuffix ps with
    | none => Json.mkObj [("skip", .bool true), ("why", .str "statements after render/count")]
    | some (stmts, sfx) =>
      let prog := stmts.toArray
      -- every jump must name an existing mark (pipeline.Start returns a closed stream otherwise)
      let missing := stmts.any (fun s => match s with
        | .jump m _ _ => (markPos prog m).isNone | _ => false)
      if missing then obsOf sfx [] else
      let res := exec g prog (fuelFor prog.size) 0 {}
      if res.any Option.isNone then Json.mkObj [("skip", .bool true), ("why", .str "loop not bounded within fuel")]
      else
        let ts := res.filterMap id
        let o := obsOf sfx ts
        match splitLoop stmts with
        | some (pre, body, e, emit, post) =>
          -- single-loop shape: the SPEC `iterate` must give the same multiset
          let L := loopOf g body e emit
          let input := runSteps g pre {}
          let N := fuelFor prog.size
          if !(frontier L N input).isEmpty then Drv.bad "iterate: frontier not empty but exec terminated"
          else
            let ts2 := (iterate L N input).flatMap (runSteps g post)
            let o2 := obsOf sfx ts2
            if Json.compress o2 == Json.compress o then o
            else Drv.bad "iterate and per-traveler reading differ"
        | none => o
  | _, _ => Drv.bad "loop: cannot decode"

/-- A loop nested in the body of another: some mark stands between an earlier mark and the jump
    that closes that earlier mark. -/
def isNested (stmts : List Json) : Bool :=
  let kinds : List (String × String) := stmts.filterMap fun s =>
    match str? s "mark" with
    | some m => some ("mark", m)
    | none => match val? s "jump" with
      | some x => (str? x "mark").map fun m => ("jump", m)
      | none => none
  -- positions: mark a … mark b … jump b … jump a
  let rec go : List (String × String) → List String → Bool
    | [], _ => false
    | ("mark", m) :: rest, open_ => go rest (m :: open_)
    | ("jump", m) :: rest, open_ =>
      -- a jump to a mark that is not the innermost open one closes over an inner loop
      (match open_ with
       | top :: below => (top != m && below.contains m) || go rest (if top == m then below else open_)
       | [] => go rest open_)
    | _ :: rest, open_ => go rest open_
  -- two marks open at once and both jumped to: nested
  let marks := kinds.filter (·.1 == "mark") |>.map (·.2)
  let rec inner : List (String × String) → List String → Bool
    | [], _ => false
    | ("mark", m) :: rest, open_ => (!open_.isEmpty && rest.any (fun k => k == ("jump", m)) &&
          open_.any (fun o => rest.any (fun k => k == ("jump", o)))) || inner rest (m :: open_)
    | ("jump", m) :: rest, open_ => inner rest (open_.filter (· != m))
    | _ :: rest, open_ => inner rest open_
  marks.length ≥ 2 && (inner kinds [] || go kinds [])

def rowsOf (j : Json) : Option (List String) :=
  match j.getObjVal? "rows" with
  | .ok (.arr rs) => some (rs.toList.map Json.compress)
  | _ => none

def subMultiset (xs ys : List String) : Bool :=
  let rec go : List String → List String → Bool
    | [], _ => true
    | x :: rest, ys => if ys.contains x then go rest (ys.erase x) else false
  go xs ys

/-- Open finding C12-nested-loop-loses-rows: in a nested loop the outer mark's termination signal
    overtakes travelers waiting in the inner jump's queue, the outer mark closes early and their
    later passes are lost (schedule dependent).  In that region the implementation's answer (the
    `hint`, one row list or several "unstable" variants) is accepted as the bug-mirroring MODEL
    answer iff it only LOSES rows: every variant is a sub-multiset of the SPEC rows. -/
def nestedStep (j : Json) (spec : Json) : Json :=
  match rowsOf spec, val? j "hint" with
  | some want, some hint =>
    let variants : List Json := match hint.getObjVal? "unstable" with
      | .ok (.arr vs) => vs.toList
      | _ => [hint]
    let ok := variants.all fun v => match rowsOf v with
      | some got => subMultiset got want
      | none => false
    if Json.compress hint == Json.compress spec then spec
    else if ok then hint.mergeObj (Json.mkObj [("spec", spec), ("kf", Json.str "C12-nested-loop-loses-rows")])
    else spec
  | _, _ => spec

def step (_ : Unit) (j : Json) : Unit × Json :=
  match str? j "op" with
  | some "loop" =>
    let spec := loopStep j
    if isNested ((arr? j "stmts").getD []) then ((), nestedStep j spec) else ((), spec)
  -- mode "queue": the queue between jump and mark on its own (engine/queue, the one unbounded element
  -- of the cycle), one element at a time and under the stall patterns; the MODEL is C13's
  | some "queue" => Grip.Drv.C13.step () j
  | _ => ((), Drv.bad "unknown op")

def main : IO Unit := Drv.runLoop () step

end Grip.Drv.C12
