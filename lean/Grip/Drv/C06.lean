/-
  Grip.Drv.C06 — line-protocol driver for C06 (see go/harness/hx/c06.go for the ops).
    {"op":"reset","graph":{…}}                    → {"ok":true}
    {"op":"query","g":name,"q":[…]}               → {"o":"ok"|"err"|"panic"}
    {"op":"bulk","els":[…GraphElement…]}          → {"o":…}
    {"op":"addV"|"addE","el":{…}}                 → {"o":…}
    {"op":"delV"|"delE"|"getV"|"getE","g":…,"id":…} → {"o":…}
  The harness loads every graph under the name "g"; no other graph exists.
-/
import Grip.Drv.Common
import Grip.Drv.StmtJson
import Grip.Model.C06

namespace Grip.Drv.C06
open Lean Grip Grip.Proto Grip.Drv.StmtJson Grip.C06

def obs : Outcome → Json
  | .rows => Json.mkObj [("o", .str "ok")]
  | .error => Json.mkObj [("o", .str "err")]
  | .panic => Json.mkObj [("o", .str "panic")]

def keysOk (j : Json) : Bool :=
  match val? j "data" with
  | some (.obj kvs) => kvs.toList.all (fun kv => validFieldName kv.1)
  | _ => true

def gelemOf (j : Json) : GElem :=
  let s (x : Json) (k : String) : String := (str? x k).getD ""
  { graph := s j "graph"
    vertex := (val? j "vertex").map (fun v => { gid := s v "gid", label := s v "label", keysOk := keysOk v })
    edge := (val? j "edge").map (fun e =>
      { gid := s e "gid", label := s e "label", frm := s e "from", to := s e "to", keysOk := keysOk e }) }

def step (srv : Server) (j : Json) : Server × Json :=
  let h (r : Req) : Server × Json := (srv, obs (handle Drv.numOf srv r))
  match str? j "op" with
  | some "reset" =>
    match (val? j "graph").bind graphOf with
    | some g => ({ graphs := ["g"], g := g }, Json.mkObj [("ok", .bool true)])
    | none => (srv, Json.mkObj [("skip", .bool true)])
  | some "query" =>
    match (arr? j "q").bind stmtsOf with
    | none => (srv, Json.mkObj [("skip", .bool true)])
    | some stmts => h (.traversal ((str? j "g").getD "") stmts)
  | some "bulk" => h (.bulkAdd (((arr? j "els").getD []).map gelemOf))
  | some "addV" => h (.addVertex (gelemOf ((val? j "el").getD .null)))
  | some "addE" => h (.addEdge (gelemOf ((val? j "el").getD .null)))
  | some "getV" =>
    h (.lookup ((str? j "g").getD "") ((srv.g.getVertex ((str? j "id").getD "")).isSome))
  -- kvgraph.DelVertex does not look the vertex up: deleting an absent id succeeds
  | some "delV" => h (.lookup ((str? j "g").getD "") true)
  | some "getE" | some "delE" =>
    h (.lookup ((str? j "g").getD "") ((srv.g.getEdge ((str? j "id").getD "")).isSome))
  | _ => (srv, Drv.bad "unknown op")

def main : IO Unit := Drv.runLoop ({ graphs := ["g"] } : Server) step

end Grip.Drv.C06
