/-
  Grip.Drv.C15 — line-protocol driver for C15 (ops: see go/harness/hx/c15.go).
    reset  → {"err":"config"} | {"ok":true,"verts":[…],"edges":[…]}   (MODEL listing, sorted;
             "spec": the SPEC listing when it differs)
    query  → as the C01 driver, computed by the MODEL `runT`, plus "kv": true (what
             Props.C15.traversal_eq says about the materialised graph); "spec": SPEC rows when the
             multisets differ
    write  → {"err":true,"unchanged":true}
-/
import Grip.Drv.Common
import Grip.Drv.StmtJson
import Grip.Model.C15
import Grip.Spec.C15

namespace Grip.Drv.C15
open Lean Grip Grip.Proto Grip.Drv.StmtJson Grip.C15 Grip.Spec.C15

structure St where
  tables : Tables := []
  mapping : Mapping := {}
  ok : Bool := false
  deriving Inhabited

def rowOf (j : Json) : Option TRow := do
  let d ← match val? j "data" with
    | some d => plainToJV? d
    | none => some (.obj [])
  pure { id := (str? j "id").getD "", data := d }

def tableOf (j : Json) : Option Table := do
  let rs ← ((arr? j "rows").getD []).mapM rowOf
  pure { name := (str? j "name").getD "", rows := rs }

def s (j : Json) (k : String) : String := (str? j k).getD ""

def mappingOf (j : Json) : Mapping :=
  let vs := ((arr? j "vertices").getD []).map fun v =>
    ({ pfx := s v "prefix", label := s v "label", table := s v "table" } : VType)
  let es := ((arr? j "edges").getD []).map fun e =>
    ({ name := s e "name", frm := s e "from", to := s e "to", label := s e "label", table := s e "table",
       fromField := s e "fromField", toField := s e "toField" } : EType)
  -- vertexSourceOrder is sorted
  { verts := vs.mergeSort (fun a b => a.pfx ≤ b.pfx), edges := es }

def sortJs (xs : List Json) : Json :=
  let js := xs.map fun j => (Json.compress j, j)
  .arr ((js.mergeSort (fun a b => a.1 ≤ b.1)).map (·.2)).toArray

def canonV (e : Elem) : Json := canonVertex (some e)
def canonE (e : Elem) : Json := canonEdge (some e)

def step (st : St) (j : Json) : St × Json :=
  match str? j "op" with
  | some "reset" =>
    match ((arr? j "tables").getD []).mapM tableOf with
    | none => ({ st with ok := false }, Json.mkObj [("skip", .bool true)])
    | some ts =>
      let m := mappingOf ((val? j "mapping").getD (Json.mkObj []))
      if !configOk ts m then ({ tables := ts, mapping := m, ok := false }, Json.mkObj [("err", .str "config")])
      else
        let st' : St := { tables := ts, mapping := m, ok := true }
        let vs := sortJs ((tgVertexList ts m).map canonV)
        let es := sortJs ((tgEdgeList ts m).map canonE)
        let g := materialise ts m
        let svs := sortJs (g.verts.map canonV)
        let ses := sortJs (g.edges.map canonE)
        let base := [("ok", Json.bool true), ("verts", vs), ("edges", es)]
        if Json.compress vs == Json.compress svs && Json.compress es == Json.compress ses then
          (st', Json.mkObj base)
        else (st', Json.mkObj (base ++ [("spec", Json.mkObj [("ok", .bool true), ("verts", svs), ("edges", ses)])]))
  | some "query" =>
    if !st.ok then (st, Json.mkObj [("skip", .bool true)]) else
    match (arr? j "q").bind stmtsOf with
    | none => (st, Json.mkObj [("skip", .bool true)])
    | some stmts =>
      let cmp := (str? j "cmp").getD "rows"
      if cmp == "skip" then (st, Json.mkObj [("skip", .bool true)]) else
      let render (kvb : Bool) (r : Except TypeErr (List Row)) (ty : Option TState) : Json :=
        let kv := ("kv", Json.bool kvb)
        match r, ty with
        | .ok rows, some ts =>
          let t := ("t", Json.str ts.last.toString)
          if cmp == "nsub" then Json.mkObj [t, ("n", .num ⟨rows.length, 0⟩), ("sub", .bool true), kv]
          else if cmp == "sub" then Json.mkObj [t, ("sub", .bool true), kv]
          else Json.mkObj [t, ("rows", canonRows rows), kv]
        | _, _ => Json.mkObj [("err", .str "compile"), kv]
      -- the final type: of the optimized plan (equal to the literal one, Props.C15)
      let ty : Option TState := match typeCheck stmts with
        | .ok ts => some ts
        | .error _ => none
      let g := materialise st.tables st.mapping
      let mr := runT Drv.numOf st.tables st.mapping stmts
      let sr := run Drv.numOf g stmts
      let model := render true mr ty
      let spec := render true sr ty
      if Json.compress model == Json.compress spec then (st, model)
      else
        -- the embedded store holds the SPEC graph (when it can: unique gids), so the harness's
        -- in-process comparison with it must come out as the MODEL-vs-SPEC comparison does
        let uniq (xs : List String) : Bool := xs.eraseDups.length == xs.length
        let kvOK := uniq (g.verts.map (·.gid)) && uniq (g.edges.map (·.gid))
        let model' := render (!kvOK) mr ty
        if dashLookup stmts then
          (st, (model'.setObjVal! "spec" spec).setObjVal! "kf" (Json.str "C15-edge-id-dash"))
        else (st, model'.setObjVal! "spec" spec)
  | some "write" =>
    if !st.ok then (st, Json.mkObj [("skip", .bool true)]) else
    let (refused, s') := tgWrite (st.tables, st.mapping) .addVertex
    ({ st with tables := s'.1, mapping := s'.2 },
      Json.mkObj [("err", .bool refused), ("unchanged", .bool true)])
  | _ => (st, Drv.bad "unknown op")

def main : IO Unit := Drv.runLoop ({} : St) step

end Grip.Drv.C15
