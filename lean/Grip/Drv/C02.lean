/-
  Grip.Drv.C02 — line-protocol driver for C02.
    {"op":"reset","graph":{…}}                 → {"ok":true}
    {"op":"selftest"}                          → {"ok":true}   (string facts the theorems take as
                                                  hypotheses: "_gid" ↦ $.gid, "_label" ↦ $.label, …)
    {"op":"opt","q":[…]}                       → {"plan":[canonical statements]} | {"panic":true}
    {"op":"query","q":[…],"cmp":…}             → {"err":"compile","prod":true,"strip":true}
        | {"t":type,"rows":[literal rows],"prod":P,"strip":S}
        | {"t":type,"n":n,"sub":true,"prod":P,"strip":S}   (cmp = nsub)   | {"t":type,"sub":true,…}
      P / S: the MODEL's own production execution (`runProd`: optimizer, load flags, elided
      lookups, reload at output) on a backend honouring the hint for edges only / everywhere gives
      the literal rows (`true`) — what Props.C02 proves; `false` would show up as a mismatch.
-/
import Grip.Drv.Common
import Grip.Drv.StmtJson
import Grip.Model.Eval
import Grip.Model.C02

namespace Grip.Drv.C02
open Lean Grip Grip.Proto Grip.Drv.StmtJson Grip.C02

def condName : C08.Cond → String
  | .eq => "EQ" | .neq => "NEQ" | .gt => "GT" | .gte => "GTE" | .lt => "LT" | .lte => "LTE"
  | .inside => "INSIDE" | .outside => "OUTSIDE" | .between => "BETWEEN"
  | .within => "WITHIN" | .without => "WITHOUT" | .contains => "CONTAINS"
  | .unset => "UNKNOWN_CONDITION"

partial def canonHas : C08.HasE → Json
  | .cond k c a => .arr #[.str "c", .str k, .str (condName c), tagged a]
  | .and es => .arr #[.str "and", .arr (es.map canonHas).toArray]
  | .or es => .arr #[.str "or", .arr (es.map canonHas).toArray]
  | .not x => .arr #[.str "not", canonHas x]
  | .none => .arr #[.str "none"]

def strs (xs : List String) : Json := .arr (xs.map Json.str).toArray

/-- hx.c02CanonStmt. -/
def canonStmt : Stmt → Json
  | .V l => .arr #[.str "v", strs l] | .E l => .arr #[.str "e", strs l]
  | .in_ l => .arr #[.str "in", strs l] | .out l => .arr #[.str "out", strs l]
  | .inE l => .arr #[.str "inE", strs l] | .outE l => .arr #[.str "outE", strs l]
  | .both l => .arr #[.str "both", strs l] | .bothE l => .arr #[.str "bothE", strs l]
  | .hasLabel l => .arr #[.str "hasLabel", strs l] | .hasKey l => .arr #[.str "hasKey", strs l]
  | .hasId l => .arr #[.str "hasId", strs l] | .distinct l => .arr #[.str "distinct", strs l]
  | .fields l => .arr #[.str "fields", strs l]
  | .as_ n => .arr #[.str "as", .str n]
  | .select ms => .arr #[.str "select", strs ms]
  | .limit n => .arr #[.str "limit", .num ⟨n, 0⟩]
  | .skip n => .arr #[.str "skip", .num ⟨n, 0⟩]
  | .range a b => .arr #[.str "range", .num ⟨a, 0⟩, .num ⟨b, 0⟩]
  | .has x => .arr #[.str "has", canonHas x]
  | .unwind f => .arr #[.str "unwind", .str f]
  | .count => .arr #[.str "count"]
  | .render t => .arr #[.str "render", tagged t]
  | .path _ => .arr #[.str "path"]
  | .lookupVertsIndex l => .arr #[.str "lookupVertsIndex", strs l]
  | _ => .arr #[.str "other"]

/-- Statements the C01/C02 models give a meaning to. -/
def modelled (s : Stmt) : Bool := s.kind.documented

def selftest : Bool :=
  Path.jsonPathOf "_gid" == ["gid"] && Path.jsonPathOf "_label" == ["label"]
  && Path.jsonPathOf "$._gid" == ["gid"] && Path.jsonPathOf "$._label" == ["label"]
  && Path.jsonPathOf "$a._gid" == ["gid"]
  && keyIsCurrent "_gid" && keyIsCurrent "_label" && keyIsCurrent "$._gid" && keyIsCurrent "name"
  && !keyIsCurrent "$a._gid" && !keyIsCurrent "$a.x" && nsName "$a.x" == "a"
  && Path.jsonPathOf "label" == ["data", "label"]

def sameRows (a b : List Row) : Bool := Json.compress (canonRows a) == Json.compress (canonRows b)

def step (g : AGraph) (j : Json) : AGraph × Json :=
  match str? j "op" with
  | some "reset" =>
    match (val? j "graph").bind graphOf with
    | some g' => (g', Json.mkObj [("ok", .bool true)])
    | none => (g, Json.mkObj [("skip", .bool true)])
  | some "selftest" => (g, Json.mkObj [("ok", .bool selftest)])
  | some "opt" =>
    match (arr? j "q").bind stmtsOf with
    | none => (g, Json.mkObj [("skip", .bool true)])
    | some stmts =>
      match indexStartOptimize stmts with
      | none => (g, Json.mkObj [("panic", .bool true)])
      | some plan => (g, Json.mkObj [("plan", .arr (plan.map canonStmt).toArray),
          -- a differing plan is a broken correspondence (the theorems speak about THIS plan), not yet
          -- a wrong answer: the check goes on looking for rows that differ
          ("corr", .str "core.IndexStartOptimize = Grip.indexStartOptimize (the plan the theorems planning_preserves* are about)")])
  | some "query" =>
    match (arr? j "q").bind stmtsOf with
    | none => (g, Json.mkObj [("skip", .bool true)])
    | some stmts =>
      if !(stmts.all modelled) then (g, Json.mkObj [("skip", .bool true)]) else
      match indexStartOptimize stmts with
      | none => (g, Json.mkObj [("skip", .bool true)])
      | some plan =>
        let lit := run Drv.numOf g stmts
        let prod := runProd Drv.numOf (honEdges plan) g stmts
        let strip := runProd Drv.numOf (fun _ => true) g stmts
        match typeCheck stmts, lit with
        | .ok st, .ok rows =>
          let t := ("t", Json.str st.last.toString)
          let cmp := (str? j "cmp").getD "rows"
          let agree (r : Option (Except TypeErr (List Row))) : Json :=
            match r with
            | some (.ok rows') =>
              if cmp == "rows" then .bool (sameRows rows' rows)
              else if cmp == "nsub" then .bool (rows'.length == rows.length)
              else .bool true
            | _ => .bool false
          let tail := [("prod", agree prod), ("strip", agree strip)]
          match cmp with
          | "nsub" => (g, Json.mkObj ([t, ("n", .num ⟨rows.length, 0⟩), ("sub", .bool true)] ++ tail))
          | "sub" => (g, Json.mkObj ([t, ("sub", .bool true)] ++ tail))
          | _ => (g, Json.mkObj ([t, ("rows", canonRows rows)] ++ tail))
        | _, _ =>
          let isErr (r : Option (Except TypeErr (List Row))) : Json :=
            match r with | some (.error _) => .bool true | _ => .bool false
          (g, Json.mkObj [("err", .str "compile"), ("prod", isErr prod), ("strip", isErr strip)])
  | _ => (g, Drv.bad "unknown op")

def main : IO Unit := Drv.runLoop AGraph.empty step

end Grip.Drv.C02
