import Grip.Drv.Common
import Grip.Drv.C08
import Grip.Model.C14

namespace Grip.Drv.C14
open Lean Grip Grip.C08 Grip.C14 Grip.Proto

def opJson : MOp → Json
  | .eq a => Json.mkObj [("$eq", ofJV a)]
  | .ne a => Json.mkObj [("$ne", ofJV a)]
  | .gt a => Json.mkObj [("$gt", ofJV a)]
  | .gte a => Json.mkObj [("$gte", ofJV a)]
  | .lt a => Json.mkObj [("$lt", ofJV a)]
  | .lte a => Json.mkObj [("$lte", ofJV a)]
  | .in_ a => Json.mkObj [("$in", ofJV a)]
  | .not o => Json.mkObj [("$not", opJson o)]
  | .empty => Json.mkObj []

partial def docJson : MDoc → Json
  | .field k o => Json.mkObj [("f", Json.str (mpath k)), ("o", opJson o)]
  | .and xs => Json.mkObj [("$and", Json.arr (xs.map docJson).toArray)]
  | .or xs => Json.mkObj [("$or", Json.arr (xs.map docJson).toArray)]
  | .all => Json.mkObj []
  | .crash => Json.str "panic"

def stepHas (j : Json) : Json :=
  match (val? j "elem").bind Drv.C08.elemOf, (val? j "expr").bind Drv.C08.exprOf with
  | some d, some e =>
    let neg := (bool? j "neg").getD false
    let inexact := (Drv.C08.strsOfJV d.data ++ Drv.C08.strsOfExpr e).any (fun s => Drv.parseNumText s == .inexact)
    if inexact then Json.mkObj [("skip", Json.bool true)] else
    let doc := convert e neg
    let dj := if hasCrash doc then Json.str "panic" else docJson doc
    let core := (eval Drv.numOf d e) != neg
    let obs := [("doc", dj), ("core", Json.bool core)]
    let ws := whys Drv.numOf d e
    let inScope := !(ws.contains "nonscalar") && !(ws.contains "malformed")
    if inScope && mEval d doc != some core then
      let kf := match ws.find? (fun w => w.startsWith "C14-") with
        | some w => w
        | none => "C14-unclassified"
      Json.mkObj (obs ++ [("spec", Json.mkObj [("doc", Json.str "a filter selecting exactly the documents the core engine keeps"),
                                              ("core", Json.bool core)]),
                          ("kf", Json.str kf)])
    else Json.mkObj obs
  | _, _ => Drv.bad "has: cannot decode"

def step (_ : Unit) (j : Json) : Unit × Json :=
  match str? j "op" with
  | some "has" => ((), stepHas j)
  | _ => ((), Drv.bad "unknown op")

def main : IO Unit := Drv.runLoop () step

end Grip.Drv.C14
