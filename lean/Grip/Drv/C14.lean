import Grip.Drv.Common
import Grip.Drv.C08
import Grip.Model.C14
import Grip.Model.C14T
import GripGen.MongoTyping
import GripGen.CoreTypingC14

namespace Grip.Drv.C14
open Lean Grip Grip.C08 Grip.C14 Grip.Proto

def opJson : MOp → Json
  | .eq a => Json.mkObj [("$eq", ofJV a)]
  | .ne a => Json.mkObj [("$ne", ofJV a)]
  | .gt a => Json.mkObj [("$gt", ofJV a)]
  | .gte a => Json.mkObj [("$gte", ofJV a)]
  | .lt a => Json.mkObj [("$lt", ofJV a)]
  | .lte a => Json.mkObj [("$lte", ofJV a)]
  | .in_ a => Json.mkObj [("$in", ofJV a)]
  | .elemMatchEq a => Json.mkObj [("$elemMatch", Json.mkObj [("$eq", ofJV a)])]
  | .not o => Json.mkObj [("$not", opJson o)]
  | .empty => Json.mkObj []

partial def docJson : MDoc → Json
  | .field k o => Json.mkObj [("f", Json.str (mpath k)), ("o", opJson o)]
  | .and xs => Json.mkObj [("$and", Json.arr (xs.map docJson).toArray)]
  | .or xs => Json.mkObj [("$or", Json.arr (xs.map docJson).toArray)]
  | .all => Json.mkObj []
  | .nothing => Json.mkObj [("f", Json.str "_id"), ("o", Json.mkObj [("$exists", Json.bool false)])]
  | .crash => Json.str "panic"

/-- `"marks": [[name, elem], …]` (optional): the marks the traveler carries. -/
def marksOf (j : Json) : Option (List (String × Elem)) :=
  match arr? j "marks" with
  | none => some []
  | some xs => xs.mapM fun p => match p with
    | Json.arr #[Json.str n, e] => (Drv.C08.elemOf e).map fun d => (n, d)
    | _ => none

def stepHas (j : Json) : Json :=
  match (val? j "elem").bind Drv.C08.elemOf, (val? j "expr").bind Drv.C08.exprOf, marksOf j with
  | some cur, some e, some marks =>
    let t : Trav := { cur := cur, marks := marks }
    let neg := (bool? j "neg").getD false
    let inexact := ((cur :: marks.map (·.2)).flatMap (fun d => Drv.C08.strsOfJV d.data) ++ Drv.C08.strsOfExpr e).any
      (fun s => Drv.parseNumText s == .inexact)
    if inexact then Json.mkObj [("skip", Json.bool true)] else
    let doc := convert e neg
    let dj := if hasCrash doc then Json.str "panic" else docJson doc
    -- the core engine's verdict: has keys resolved by TravelerPathLookup (namespace → mark)
    let core := (evalBy Drv.numOf (coreRes t) e) != neg
    let obs := [("doc", dj), ("core", Json.bool core)]
    let ws := whys Drv.numOf (coreRes t) e
    -- scope of the property: scalar field values, marks defined before use, keys that address a field
    let inScope := !(ws.contains "nonscalar") && !(ws.contains "malformed") && marksDefined t e && keysAddressFields e
    -- MongoDB's verdict: the emitted field names resolved on the pipeline document
    if inScope && mEval (mongoRes t) doc != some core then
      let kf := match ws.find? (fun w => w.startsWith "C14-") with
        | some w => w
        | none => "C14-unclassified"
      Json.mkObj (obs ++ [("spec", Json.mkObj [("doc", Json.str "a filter selecting exactly the documents the core engine keeps"),
                                              ("core", Json.bool core)]),
                          ("kf", Json.str kf)])
    else Json.mkObj obs
  | _, _, _ => Drv.bad "has: cannot decode"

/-! typing -/
open Grip.C14T in
def kindOf : String → Option Kind
  | "v" => some .v | "e" => some .e | "in" => some .in_ | "inNull" => some .inNull
  | "out" => some .out | "outNull" => some .outNull | "both" => some .both
  | "inE" => some .inE | "inENull" => some .inENull | "outE" => some .outE
  | "outENull" => some .outENull | "bothE" => some .bothE | "has" => some .has
  | "hasLabel" => some .hasLabel | "hasKey" => some .hasKey | "hasId" => some .hasId
  | "limit" => some .limit | "skip" => some .skip | "range" => some .range
  | "count" => some .count | "distinct" => some .distinct | "as" => some .as_
  | "select" => some .select | "render" => some .render | "path" => some .path
  | "unwind" => some .unwind | "fields" => some .fields | "aggregate" => some .aggregate
  | _ => none

open Grip.C14T in
def dtName : DT → String
  | .noData => "noData" | .vertex => "vertex" | .edge => "edge" | .count => "count"
  | .aggregation => "aggregation" | .selection => "selection" | .render => "render" | .path => "path"

/-- gripql.ValidateFieldName fails (reserved field, forbidden character, leading `_` or `-`). -/
def badFieldName (s : String) : Bool :=
  Path.reserved.contains s ||
  s.toList.any (fun c => "!@#$%^&*()+={}[] :;\"',.<>?/\\|~".toList.contains c) ||
  s.startsWith "_" || s.startsWith "-"

def names : Grip.C14T.Names := { bad := badFieldName, reserved := fun s => s == "__current__" }

open Grip.C14T in
def stmtOf (j : Json) : Option TStmt := do
  let k ← (str? j "k").bind kindOf
  pure { kind := k, list := (strs? j "l").getD [], name := (str? j "n").getD "", unk := (bool? j "u").getD false }

open Grip.C14T in
def resJson : Option St → Json
  | none => Json.mkObj [("ok", Json.bool false)]
  | some st =>
    -- a Go map: the newest binding of a name wins; printed sorted by name
    let rec dedup : List (String × DT) → List String → List (String × DT)
      | [], _ => []
      | p :: ps, seen => if seen.contains p.1 then dedup ps seen else p :: dedup ps (p.1 :: seen)
    let ms := (dedup st.marks []).mergeSort (fun a b => a.1 ≤ b.1)
    Json.mkObj [("ok", Json.bool true), ("t", Json.str (dtName st.t)),
      ("marks", Json.arr (ms.map fun p => Json.arr #[Json.str p.1, Json.str (dtName p.2)]).toArray)]

open Grip.C14T in
def stepType (j : Json) : Json :=
  match (arr? j "stmts").bind (fun xs => xs.mapM stmtOf) with
  | none => Drv.bad "type: cannot decode"
  | some ss =>
    let m := typeOf GripGen.MongoTyping.table names ss
    let c := typeOf GripGen.CoreTypingC14.table names ss
    let obs := [("mongo", resJson m), ("core", resJson c)]
    if definedFrom [] ss && aggsTyped ss && resJson m != resJson c then
      Json.mkObj (obs ++ [("spec", Json.mkObj [("mongo", resJson c), ("core", resJson c)]),
                          ("kf", Json.str "C14-typing-disagree")])
    else Json.mkObj obs

def step (_ : Unit) (j : Json) : Unit × Json :=
  match str? j "op" with
  | some "has" => ((), stepHas j)
  | some "type" => ((), stepType j)
  | _ => ((), Drv.bad "unknown op")

def main : IO Unit := Drv.runLoop () step

end Grip.Drv.C14
