import Grip.Drv.Common
import Grip.Model.C05
import Grip.Model.C05Access
import GripGen.AuthTables

/-
  Driver part for C05 mode "access" (ops other than "call"; dispatched from Grip.Drv.C05):
    {"op":"casbin","policy":[[sub,obj,act],…],"reqs":[[user,graph,op],…]}   → {"dec":[bool,…]}   Access.casbinRun
    {"op":"basic","creds":[[user,pw],…],"mds":[[[key,[v,…]],…],…]}         → {"res":[user|null,…]} Access.basicRun
    {"op":"proxy","field":F,"mds":[…]}                                      → {"res":[user|null,…]} Access.proxyValidate
    {"op":"e2e","policy":…,"creds":…,"calls":[{"tr","m","hdr","req","elems"},…]} → {"res":[{"err","handled"},…]}
        Grip.C05.intercept with validate := basicValidate creds, enforce := casbinEnforce policy
-/
namespace Grip.Drv.C05Access
open Lean Grip Grip.C05 Grip.C05.Access Grip.Proto

def strList (j : Json) : List String :=
  match j with
  | .arr ys => ys.toList.filterMap (fun y => match y with | .str s => some s | _ => none)
  | _ => []

def triples (j : Json) (k : String) : Option (List (String × String × String)) :=
  match arr? j k with
  | none => none
  | some xs => xs.mapM (fun x => match strList x with
      | [a, b, c] => some (a, b, c)
      | _ => none)

def pairs (j : Json) (k : String) : Option (List (String × String)) :=
  match arr? j k with
  | none => none
  | some xs => xs.mapM (fun x => match strList x with
      | [a, b] => some (a, b)
      | _ => none)

/-- metadata: [[key,[values…]],…]; the first entry of a key counts (the harness drops later ones) -/
def mdOf (j : Json) : MD :=
  match j with
  | .arr kvs => kvs.toList.filterMap (fun kv => match kv with
      | .arr #[.str k, vs] => some (k, strList vs)
      | _ => none)
  | _ => []

def userJson : Option String → Json
  | some u => Json.str u
  | none => Json.null

def errJson : Err → Json
  | .ok => "ok" | .unauthenticated => "unauthenticated" | .denied => "denied"
  | .unknown => "unknown" | .hang => "hang" | .other _ => "other"

def reqOf (j : Json) : Option Req := do
  let ty ← str? j "ty"
  let tag := (str? j "tag").getD ""
  pure { ty := ty, graph := str? j "graph", tag := tag }

def reqJson (r : Req) : Json :=
  Json.arr #[Json.str r.ty, (match r.graph with | some g => Json.str g | none => Json.null), Json.str r.tag]

def handledJson : Option (List Req) → Json
  | none => Json.null
  | some rs => Json.arr (rs.map reqJson).toArray

def e2eCall (T : Tables) (policy : List Row) (creds : List (String × String)) (c : Json) (denyAll : Bool := false) : Json :=
  match str? c "m", (val? c "req").bind reqOf with
  | some full, some req =>
    let elems := match arr? c "elems" with
      | some xs => xs.filterMap reqOf
      | none => []
    let md : MD := match str? c "hdr" with
      | some h => [("authorization", [h])]
      | none => []
    -- denyAll: the enforcer could not be built (policy or model unreadable): `Enforce` fails for
    -- every subject, "root" included (the root bypass lives in the model file's matcher)
    let p : Caller := { validate := basicValidate creds, enforce := (if denyAll then (fun _ _ _ => false) else casbinEnforce policy),
                        md := md, req := req, elems := elems }
    let tr := if str? c "tr" == some "gateway" then Transport.gateway else Transport.grpc
    match T.methods.find? (fun m => m.full == full) with
    | none => Json.mkObj [("err", "no-such-method"), ("handled", Json.null)]
    | some m =>
      let r := intercept T tr m p
      Json.mkObj [("err", errJson r.err), ("handled", handledJson r.handled)]
  | _, _ => Json.mkObj [("err", "undecodable"), ("handled", Json.null)]

def step (T : Tables) (j : Json) : Json :=
  match str? j "op" with
  | some "casbin" =>
    match triples j "policy", triples j "reqs" with
    | some pol, some reqs => Json.mkObj [("dec", Json.arr ((casbinRun pol reqs).map Json.bool).toArray)]
    | _, _ => Drv.bad "casbin: cannot decode"
  | some "basic" =>
    match pairs j "creds", arr? j "mds" with
    | some creds, some mds => Json.mkObj [("res", Json.arr ((basicRun creds (mds.map mdOf)).map userJson).toArray)]
    | _, _ => Drv.bad "basic: cannot decode"
  | some "proxy" =>
    match str? j "field", arr? j "mds" with
    | some f, some mds => Json.mkObj [("res", Json.arr ((mds.map (fun m => proxyValidate f (mdOf m))).map userJson).toArray)]
    | _, _ => Drv.bad "proxy: cannot decode"
  | some "e2e" =>
    match triples j "policy", pairs j "creds", arr? j "calls" with
    | some pol, some creds, some calls =>
      -- "fault": the policy could not be loaded; no enforcer, no grant (not: no check)
      let fault := (str? j "fault").isSome
      Json.mkObj [("res", Json.arr ((calls.map (fun c => e2eCall T pol creds c fault))).toArray)]
    | _, _, _ => Drv.bad "e2e: cannot decode"
  | _ => Drv.bad "unknown op"

end Grip.Drv.C05Access
