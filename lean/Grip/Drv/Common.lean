/-
  Grip.Drv.Common — driver plumbing shared by all properties: read one JSON op per line on stdin,
  thread a state, print one JSON observation per line on stdout.
-/
import Lean.Data.Json
import Grip.Basic
import Grip.Proto

namespace Grip.Drv
open Lean

partial def loop {σ : Type} (h : IO.FS.Stream) (out : IO.FS.Stream) (s : σ)
    (step : σ → Json → σ × Json) : IO Unit := do
  let line ← h.getLine
  if line.isEmpty then return ()
  let t := line.trimAscii.toString
  if t.isEmpty then loop h out s step else
  match Json.parse t with
  | .error e =>
    out.putStrLn (Json.compress (Json.mkObj [("bad", Json.str e)]))
    loop h out s step
  | .ok j =>
    let (s', o) := step s j
    out.putStrLn (Json.compress o)
    loop h out s' step

def runLoop {σ : Type} (init : σ) (step : σ → Json → σ × Json) : IO Unit := do
  let i ← IO.getStdin
  let o ← IO.getStdout
  loop i o init step
  o.flush

def bad (msg : String) : Json := Json.mkObj [("bad", Json.str msg)]

/-- Numeric text as strconv.ParseFloat reads it, on the exactly-representable fragment.
    `exact n`: the text denotes n/1024.  `notNum`: ParseFloat fails.  `inexact`: the text is
    numeric but not a multiple of 1/1024 (or uses a form this parser does not read):
    the driver answers "skip" and the harness must not generate it. -/
inductive NumText where
  | exact (n : Int) | notNum | inexact
  deriving Repr, DecidableEq

def digitsVal (cs : List Char) : Option Nat :=
  if cs.isEmpty then none else
  cs.foldlM (fun acc c => if c.isDigit then some (acc * 10 + (c.toNat - 48)) else none) 0

def parseNumText (s : String) : NumText :=
  let cs := s.toList
  let (neg, cs) := match cs with
    | '-' :: r => (true, r)
    | '+' :: r => (false, r)
    | r => (false, r)
  if !(cs.all (fun c => c.isDigit || c == '.')) then
    -- not plain decimal: forms ParseFloat may still accept (inf, nan, hex floats, exponents,
    -- underscores) are outside the fragment → `inexact` (skipped); everything else is not numeric.
    let low := cs.map Char.toLower
    let lows := String.ofList low
    if lows == "inf" || lows == "infinity" || lows == "nan" || lows.startsWith "0x"
        || (low.any Char.isDigit && low.any (fun c => c == 'e' || c == '_' || c == 'p')) then .inexact
    else .notNum
  else
  let (ip, fp) := match cs.span (· != '.') with
    | (a, '.' :: b) => (a, some b)
    | (a, _) => (a, none)
  let fpl := fp.getD []
  if ip.isEmpty && fpl.isEmpty then .notNum else
  match (if ip.isEmpty then some 0 else digitsVal ip), (if fpl.isEmpty then some 0 else digitsVal fpl) with
  | some i, some f =>
    let den := 10 ^ fpl.length
    let num := (i * den + f) * 1024
    if num % den == 0 then
      let v : Int := Int.ofNat (num / den)
      .exact (if neg then -v else v)
    else .inexact
  | _, _ => .notNum

/-- The `numOf` the driver instantiates the models with. -/
def numOf (s : String) : Option Int :=
  match parseNumText s with
  | .exact n => some n
  | _ => none

end Grip.Drv
