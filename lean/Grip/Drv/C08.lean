import Grip.Drv.Common
import Grip.Model.C08

namespace Grip.Drv.C08
open Lean Grip Grip.C08 Grip.Proto

def condOf : String → Cond
  | "eq" => .eq | "neq" => .neq | "gt" => .gt | "gte" => .gte | "lt" => .lt | "lte" => .lte
  | "inside" => .inside | "outside" => .outside | "between" => .between
  | "within" => .within | "without" => .without | "contains" => .contains
  | _ => .unset

partial def exprOf (j : Json) : Option HasE :=
  match str? j "c" with
  | some c => do
      let k ← str? j "k"
      let v ← jv? j "v"
      pure (.cond k (condOf c) v)
  | none =>
    match arr? j "and" with
    | some xs => do pure (.and (← xs.mapM exprOf))
    | none =>
      match arr? j "or" with
      | some xs => do pure (.or (← xs.mapM exprOf))
      | none =>
        match val? j "not" with
        | some x => do pure (.not (← exprOf x))
        | none => if (bool? j "none").isSome then some .none else none

def elemOf (j : Json) : Option Elem := do
  let gid ← str? j "gid"
  let label ← str? j "label"
  let data ← jv? j "data"
  pure { gid := gid, label := label, frm := (str? j "from").getD "", to := (str? j "to").getD "", data := data }

/-- Strings that occur anywhere in a value (to detect numeric text the parser cannot read exactly). -/
partial def strsOfJV : JV → List String
  | .str s => [s]
  | .arr xs => xs.flatMap strsOfJV
  | .obj kvs => kvs.flatMap (fun kv => strsOfJV kv.2)
  | _ => []

partial def strsOfExpr : HasE → List String
  | .cond _ _ a => strsOfJV a
  | .and es => es.flatMap strsOfExpr
  | .or es => es.flatMap strsOfExpr
  | .not x => strsOfExpr x
  | .none => []

def step (_ : Unit) (j : Json) : Unit × Json :=
  match str? j "op" with
  | some "match" =>
    match (val? j "elem").bind elemOf, (val? j "expr").bind exprOf with
    | some e, some x =>
      let inexact := (strsOfJV e.data ++ strsOfExpr x).any (fun s => Drv.parseNumText s == .inexact)
      if inexact then ((), Json.mkObj [("skip", Json.bool true)])
      else ((), Json.mkObj [("m", Json.bool (eval Drv.numOf e x))])
    | _, _ => ((), Drv.bad "match: cannot decode")
  | some "pipe" =>
    -- V().has(expr) on a stored graph: the gids `hasFilter` keeps (Props.C08.has_filter), sorted
    match (arr? j "elems").bind (·.mapM elemOf), (val? j "expr").bind exprOf with
    | some es, some x =>
      let inexact := (es.flatMap (fun e => strsOfJV e.data) ++ strsOfExpr x).any (fun s => Drv.parseNumText s == .inexact)
      if inexact then ((), Json.mkObj [("skip", Json.bool true)])
      else
        let kept := ((hasFilter Drv.numOf x es).map (·.gid)).mergeSort (fun a b => a ≤ b)
        ((), Json.mkObj [("kept", Json.arr (kept.map Json.str).toArray)])
    | _, _ => ((), Drv.bad "pipe: cannot decode")
  | some "numtext" =>
    match str? j "s" with
    | some s => match Drv.parseNumText s with
      | .exact n => ((), Json.mkObj [("num", Json.num ⟨n, 0⟩)])
      | .notNum => ((), Json.mkObj [("notnum", Json.bool true)])
      | .inexact => ((), Json.mkObj [("skip", Json.bool true)])
    | none => ((), Drv.bad "numtext")
  | _ => ((), Drv.bad "unknown op")

def main : IO Unit := Drv.runLoop () step

end Grip.Drv.C08
