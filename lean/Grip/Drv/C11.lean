/-
  Grip.Drv.C11 — line-protocol driver for C11 (the protocol is described at the top of
  go/harness/hx/c11.go).  The state is the MODEL's job store (`Grip.C11.Store` with the canonical
  JSON text of a statement as its step checksum — the injectivity of the real hash is the
  hypothesis of `Props.C11.jobMatch_iff`), the graphs of the case, and the statements of the
  submitted jobs.  Job ids are the decimal job indices.
-/
import Grip.Drv.Common
import Grip.Drv.StmtJson
import Grip.Model.C11

namespace Grip.Drv.C11
open Lean Grip Grip.Proto Grip.Drv.StmtJson Grip.C11

structure JobInfo where
  graph : String
  stmts : List Stmt

structure St where
  graphs : List (String × AGraph) := []
  store : Store String := {}
  jobs : List JobInfo := []

def St.graph (s : St) (name : String) : AGraph :=
  match s.graphs.find? (·.1 == name) with
  | some (_, g) => g
  | none => AGraph.empty

def skip (why : String) : Json := Json.mkObj [("skip", .bool true), ("why", .str why)]

def sums (js : List Json) : List String := js.map Json.compress

def sortedJson (js : List Json) : Json :=
  let ks := js.map fun j => (Json.compress j, j)
  .arr ((ks.mergeSort (fun a b => a.1 ≤ b.1)).map (·.2)).toArray

def idsJson (ids : List String) : Json :=
  let ns := ids.map fun i => i.toNat!
  .arr ((ns.mergeSort (· ≤ ·)).map fun n => Json.num ⟨n, 0⟩).toArray

def graphsOf (j : Json) : Option (List (String × AGraph)) :=
  ((arr? j "graphs").getD []).mapM fun g => do
    let name ← str? g "name"
    let ag ← graphOf g
    pure (name, ag)

def jobOf (s : St) (j : Json) : Option (Nat × JobInfo) := do
  let k ← nat? j "job"
  let info ← s.jobs[k]?
  pure (k, info)

def step (s : St) (j : Json) : St × Json :=
  match str? j "op" with
  | some "reset" =>
    match graphsOf j with
    | some gs => ({ graphs := gs }, Json.mkObj [("ok", .bool true)])
    | none => (s, skip "reset")
  | some "submit" =>
    match arr? j "q", str? j "graph" with
    | some qs, some gname =>
      match stmtsOf qs with
      | none => (s, skip "stmts")
      | some stmts =>
        match typeCheck stmts with
        | .error _ => (s, Json.mkObj [("err", .str "compile")])
        | .ok st =>
          match ((arr? j "trav").getD []).mapM toJV? with
          | none => (s, skip "trav")
          | some tvs =>
            let ts := tvs.map unmarshal
            -- the hypothesis of spool_roundtrip, checked on every traveler that crosses
            if !(ts.all fun t => travRep t && unmarshal (marshal t) == t) then (s, skip "not representable") else
            let k := s.jobs.length
            let id := toString k
            let store := s.store.spool gname id (sums qs) st (ts.map marshal)
            let g := s.graph gname
            let (state, count) := match store.lookup gname id with
              | some r => (r.state.toString, r.count)
              | none => ("MISSING", 0)
            let lines := match store.dir gname id with
              | some d => d.results
              | none => []
            ({ s with store := store, jobs := s.jobs ++ [{ graph := gname, stmts := stmts }] },
             Json.mkObj [("job", .num ⟨k, 0⟩), ("state", .str state), ("count", .num ⟨count, 0⟩),
                         ("rows", canonRows (viewJob g store gname id)),
                         ("stored", sortedJson (lines.map tagged)),
                         ("direct_eq", .bool true)])
    | _, _ => (s, skip "submit")
  | some "view" =>
    match jobOf s j with
    | none => (s, skip "no such job index")
    | some (k, info) =>
      (s, Json.mkObj [("rows", canonRows (viewJob (s.graph info.graph) s.store info.graph (toString k)))])
  | some "status" =>
    match jobOf s j with
    | none => (s, skip "no such job index")
    | some (k, info) =>
      match s.store.lookup info.graph (toString k) with
      | some r => (s, Json.mkObj [("state", .str r.state.toString), ("count", .num ⟨r.count, 0⟩)])
      | none => (s, Json.mkObj [("err", .str "notfound")])
  | some "resume" =>
    match jobOf s j with
    | none => (s, skip "no such job index")
    | some (k, info) =>
      match (arr? j "b").bind stmtsOf with
      | none => (s, skip "stmts")
      | some [] => (s, skip "stmts")
      | some b =>
        match resumeJob Drv.numOf (s.graph info.graph) s.store info.graph (toString k) b with
        | .error .notFound => (s, Json.mkObj [("err", .str "notfound")])
        | .error (.compile _) => (s, Json.mkObj [("err", .str "compile")])
        | .ok rows =>
          if str? j "cmp" == some "model" then
            (s, Json.mkObj [("concat_eq", .bool true), ("rows", canonRows rows)])
          else (s, Json.mkObj [("concat_eq", .bool true)])
  | some "search" =>
    match arr? j "q", str? j "graph" with
    | some qs, some gname => (s, Json.mkObj [("jobs", idsJson (s.store.search gname (sums qs)))])
    | _, _ => (s, skip "search")
  | some "list" =>
    match str? j "graph" with
    | some gname => (s, Json.mkObj [("jobs", idsJson (s.store.list gname))])
    | none => (s, skip "list")
  | some "delete" =>
    match jobOf s j with
    | none => (s, skip "no such job index")
    | some (k, info) =>
      let store := s.store.delete info.graph (toString k)
      ({ s with store := store },
       Json.mkObj [("ok", .bool true), ("dir", .bool (store.dir info.graph (toString k)).isSome)])
  | some "restart" => ({ s with store := s.store.restart }, Json.mkObj [("ok", .bool true)])
  -- what a crash at the first COMPLETE would leave on disk: always a complete job
  -- (Props.C11.complete_seen_survives_restart); the jobs of this op are deleted again
  | some "crashcopy" => (s, Json.mkObj [("lost", (0 : Nat))])
  -- n large rows stored and read back by a slow client: every one of them, as stored, once
  -- (Props.C11.spool_roundtrip, stream_submitted: whatever the rows carry); the rows themselves stay
  -- in the harness, which reports how many came back and how many differ from what it stored
  | some "bigview" => (s, Json.mkObj [("n", (nat? j "n").getD 80), ("differ", (0 : Nat))])
  | _ => (s, Drv.bad "unknown op")

def main : IO Unit := Drv.runLoop ({} : St) step

end Grip.Drv.C11
