import Grip.Drv.Common
import Grip.Model.C19
import Grip.Model.C19Digest

/-
  Driver for C19.  One op = one aggregate step:
    {"op":"agg","rows":[elem…],"aggs":[{"name","kind","field","size"|"interval"|"percents"}…],
     "hint":{"term":{name:[[key,value]…]},"pct":{name:[[p,qlo,qhi,nan]…]}}}
  Output: {"rows":{name:{keystr:[value…]}},"pct":{name:[[p,qlo,qhi,nan]…] | {"violates":why}}}.
  The hint is the implementation's own answer for the two parts the property leaves open; it is
  echoed only when it satisfies the SPEC (validTopB / the percentile clause), otherwise the
  model's own rows (resp. a `violates` marker) are printed, which shows up as a mismatch.
-/
namespace Grip.Drv.C19
open Lean Grip Grip.C19 Grip.Proto

def elemOf (j : Json) : Option Elem := do
  let gid ← str? j "gid"
  let label ← str? j "label"
  let data ← jv? j "data"
  pure { gid := gid, label := label, frm := (str? j "from").getD "", to := (str? j "to").getD "", data := data }

def aggOf (j : Json) : Option Named := do
  let name ← str? j "name"
  let kind ← str? j "kind"
  let f := (str? j "field").getD ""
  match kind with
  | "term" => do pure ⟨name, .term f (← nat? j "size")⟩
  | "histogram" => do pure ⟨name, .histogram f (← nat? j "interval")⟩
  | "percentile" => do
      let ps ← arr? j "percents"
      let ps ← ps.mapM fun p => match p with
        | .num n => if n.exponent == 0 then some n.mantissa else none
        | _ => none
      pure ⟨name, .percentile f ps⟩
  | "field" => pure ⟨name, .field f⟩
  | "type" => pure ⟨name, .type f⟩
  | "count" => pure ⟨name, .count⟩
  | _ => none

def keyStr : JV → String
  | .null => "z"
  | .bool b => "b:" ++ toString b
  | .num n => "n:" ++ toString n
  | .str s => "s:" ++ s
  | _ => "?"

def intJ (n : Int) : Json := Json.num ⟨n, 0⟩

def int1? : Json → Option Int
  | .num n => if n.exponent == 0 then some n.mantissa else none
  | _ => none

/-- group (key, value) rows: keystr ↦ sorted list of values. -/
def groupRows (rows : List (JV × Int)) : Json :=
  let keys := (rows.map (fun r => keyStr r.1)).eraseDups
  Json.mkObj (keys.map fun k =>
    let vs := (rows.filter (fun r => keyStr r.1 == k)).map (·.2)
    (k, Json.arr ((vs.mergeSort (fun a b => decide (a ≤ b))).map (fun v => intJ (v * 1024))).toArray))

/-- decode a term hint `[[key,value]…]` (value scaled by 1024). -/
def termHint (j : Json) : Option (List (JV × Nat)) :=
  match j with
  | .arr xs => xs.toList.mapM fun x => match x with
    | .arr #[k, v] => do
        let k ← toJV? k
        let v ← int1? v
        if v % 1024 == 0 && v ≥ 0 then pure (k, (v / 1024).toNat) else none
    | _ => none
  | _ => none

structure Cell where
  p : Int
  qlo : Int
  qhi : Int
  nan : Bool

def pctHint (j : Json) : Option (List Cell) :=
  match j with
  | .arr xs => xs.toList.mapM fun x => match x with
    | .arr #[p, lo, hi, .bool nan] => do pure ⟨← int1? p, ← int1? lo, ← int1? hi, nan⟩
    | _ => none
  | _ => none

/-- The percentile clause on the implementation's estimates (units: 2^-30 for q, 2^-10 for the
    values): checked here on the real answers only — correspondence, not a theorem. -/
def pctCheck (feed : List Int) (percents : List Int) (cells : List Cell) : Option String :=
  let le := fun (a b : Int) => decide (a ≤ b)
  if (cells.map (·.p)).mergeSort le != percents.mergeSort le then some "keys"
  else match feed with
  | [] => if cells.all (·.nan) then none else some "value-without-input"
  | x :: xs =>
    let mn := minOf x xs * 1048576
    let mx := maxOf x xs * 1048576
    if cells.any (·.nan) then some "nan"
    else if !(cells.all fun c => decide (mn ≤ c.qlo) && decide (c.qhi ≤ mx)) then some "outside-min-max"
    else if !(cells.all fun a => cells.all fun b => !(decide (a.p ≤ b.p)) || decide (a.qlo ≤ b.qhi)) then some "decreasing"
    else none

/-- strings reaching the numeric cast that the driver's decimal parser cannot read exactly. -/
def inexactVals (vals : List JV) : Bool :=
  vals.any fun v => match v with
    | .str s => Drv.parseNumText s == .inexact
    | _ => false

/-! ### op "digest": the real t-digest against `Grip.C19.Digest.quantile` -/

open Grip.C19.Digest in
/-- "<mantissa>p<exp>" = mantissa·2^exp, exactly. -/
def ratOfText (s : String) : Option Rat :=
  match s.splitOn "p" with
  | [m, e] => do
      let m ← m.toInt?
      let e ← e.toInt?
      if e ≥ 0 then pure ((m * (2 : Int) ^ e.toNat : Int) : Rat)
      else pure (mkRat m (2 ^ (-e).toNat))
  | _ => none

def ratJ? : Json → Option Rat
  | .str s => ratOfText s
  | _ => none

def ansJ? : Json → Option (Option Rat)
  | .str "nan" => some none
  | .str s => (ratOfText s).map some
  | _ => none

def centroidJ? : Json → Option Digest.Centroid
  | .arr #[m, w] => do pure ⟨← ratJ? m, ← ratJ? w⟩
  | _ => none

def ratAbs (x : Rat) : Rat := if x < 0 then -x else x

/-- the check of one dumped digest; `none` = everything agrees. -/
def digestCheck (vals : List Rat) (d : Digest.Digest) (probes : List (Rat × Option Rat)) : Option String :=
  if !Digest.wf d then some "not-wf"
  else if Digest.total d.cs != (vals.length : Rat) then some "weight-sum"
  else
  let tolOf := fun (scale : Rat) => scale / 1000000000
  match vals with
  | [] =>
    if !d.cs.isEmpty then some "centroids-without-values"
    else if probes.all (fun p => p.2.isNone && (Digest.quantile d p.1).isNone) then none else some "value-without-input"
  | v :: vs =>
    let mn := vs.foldl min v
    let mx := vs.foldl max v
    if d.min != mn || d.max != mx then some "min-max"
    else
    -- Σ mean·weight = Σ values (up to float rounding of the running means)
    let mass := d.cs.foldl (fun a c => a + c.mean * c.weight) 0
    let sum := vals.foldl (· + ·) 0
    let sabs := vals.foldl (fun a x => a + ratAbs x) 0
    if ratAbs (mass - sum) > tolOf (sabs + 1) then some "mass"
    else
    let tol := tolOf ((mx - mn) + ratAbs mx)
    let delta : Rat := mkRat 1 (2 ^ 48)
    let bad := probes.findSome? fun (q, a) =>
      match Digest.quantile d q, a with
      | none, none => none
      | none, some _ => some "value-where-model-nan"
      | some _, none => some "nan-where-model-value"
      | some _, some a =>
        -- `index := q*processedWeight` is rounded in the real code: widen q by 2^-48 both ways;
        -- the model is monotone in q (Props.C19.quantile_mono), so the real answer must lie between
        let lo := (Digest.quantile d (max 0 (q - delta))).getD mn
        let hi := (Digest.quantile d (min 1 (q + delta))).getD mx
        if a < lo - tol || hi + tol < a then some "quantile-differs"
        else if a < mn || mx < a then some "outside-min-max"
        else none
    match bad with
    | some w => some w
    | none =>
      -- the clause on the real answers: non-decreasing in q
      let defined := probes.filterMap fun (q, a) => a.map fun a => (q, a)
      if defined.all fun (q1, a1) => defined.all fun (q2, a2) => !(decide (q1 ≤ q2)) || decide (a1 ≤ a2 + tol)
      then none else some "decreasing"

def digestStep (j : Json) : Json :=
  match (arr? j "vals").bind (·.mapM ratJ?), (arr? j "qs").bind (·.mapM ratJ?),
        (arr? j "cs").bind (·.mapM centroidJ?), (val? j "min").bind ratJ?, (val? j "max").bind ratJ?,
        (arr? j "ans").bind (·.mapM ansJ?) with
  | some vals, some qs, some cs, some mn, some mx, some ans =>
    if qs.length != ans.length then Drv.bad "digest: probes and answers differ in number" else
    let verdict := match digestCheck vals ⟨cs, mn, mx⟩ (qs.zip ans) with
      | none => "ok"
      | some w => w
    Json.mkObj [("digest", Json.str verdict), ("count", intJ vals.length)]
  | _, _, _, _, _, _ => Drv.bad "digest: cannot decode"

def step (_ : Unit) (j : Json) : Unit × Json :=
  match str? j "op" with
  | some "digest" => ((), digestStep j)
  | some "agg" =>
    match (arr? j "rows").bind (·.mapM elemOf), (arr? j "aggs").bind (·.mapM aggOf) with
    | some ts, some aggs =>
      if rejected aggs then ((), Json.mkObj [("err", "compile")]) else
      let needsNum := aggs.any fun a => match a.agg with
        | .histogram f _ => inexactVals (ts.map (lookup · f))
        | .percentile f _ => inexactVals (ts.map (lookup · f))
        | _ => false
      if needsNum then ((), Json.mkObj [("skip", Json.bool true), ("why", "inexact-numeric-text")]) else
      let hint := (val? j "hint").getD (Json.mkObj [])
      let hTerm := (val? hint "term").getD (Json.mkObj [])
      let hPct := (val? hint "pct").getD (Json.mkObj [])
      -- the model's answer; the digest parameter is irrelevant for the non-percentile rows
      let out := run (fun _ _ => 0) Drv.numOf aggs ts
      let rowsJ := aggs.filterMap fun a =>
        match a.agg with
        | .percentile _ _ => none
        | .term f size =>
          let vals := ts.map (lookup · f)
          let exact := termCounts vals
          let own := termRows size vals
          let chosen := if size = 0 then own else
            match (val? hTerm a.name).bind termHint with
            | some h => if validTopB size exact h then h else own
            | none => own
          if chosen.isEmpty then none
          else some (a.name, groupRows (chosen.map fun (k, c) => (k, (c : Int))))
        | _ =>
          let rs := rowsOf a.name out
          if rs.isEmpty then none else some (a.name, groupRows (rs.map fun r => (r.key, r.value)))
      let pctJ := aggs.filterMap fun a =>
        match a.agg with
        | .percentile f ps =>
          if ps.isEmpty then none else
          let feed := numericFeed Drv.numOf (ts.map (lookup · f))
          match (val? hPct a.name).bind pctHint with
          | none => some (a.name, Json.mkObj [("violates", "no-rows")])
          | some cells =>
            match pctCheck feed ps cells with
            | some why => some (a.name, Json.mkObj [("violates", Json.str why)])
            | none => some (a.name, Json.arr (cells.map fun c =>
                Json.arr #[intJ c.p, intJ c.qlo, intJ c.qhi, Json.bool c.nan]).toArray)
        | _ => none
      ((), Json.mkObj [("rows", Json.mkObj rowsJ), ("pct", Json.mkObj pctJ)])
    | _, _ => ((), Drv.bad "agg: cannot decode")
  | _ => ((), Drv.bad "unknown op")

def main : IO Unit := Drv.runLoop () step

end Grip.Drv.C19
