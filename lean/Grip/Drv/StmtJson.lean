/-
  Grip.Drv.StmtJson — decode the protojson encoding of gripql.GraphStatement (what
  hx.StmtsToJSON / protojson.Marshal print), of gripql.Vertex / gripql.Edge, into the Lean types
  of Grip.Model.Stmt / Grip.Model.Graph, and print result rows in the canonical protocol form of
  hx.CanonRow.  Core Lean only.  Shared by every traversal driver (C01, C02, C06, C11, C15, C19).
-/
import Lean.Data.Json
import Grip.Proto
import Grip.Model.Graph
import Grip.Model.Stmt
import Grip.Model.Eval

namespace Grip.Drv.StmtJson
open Lean Grip Grip.Proto

/-- `protoutil.AsStringList` on a ListValue: non-strings read as "". -/
def strList (j : Json) : Option (List String) :=
  match j with
  | .arr xs => some (xs.toList.map fun x => match x with | .str s => s | _ => "")
  | .null => some []
  | _ => none

def condOfName : String → C08.Cond
  | "EQ" => .eq | "NEQ" => .neq | "GT" => .gt | "GTE" => .gte | "LT" => .lt | "LTE" => .lte
  | "INSIDE" => .inside | "OUTSIDE" => .outside | "BETWEEN" => .between
  | "WITHIN" => .within | "WITHOUT" => .without | "CONTAINS" => .contains
  | _ => .unset

/-- gripql.HasExpression in protojson form. -/
partial def hasOf (j : Json) : Option C08.HasE :=
  match val? j "condition" with
  | some c => do
      let k := (str? c "key").getD ""
      let v ← match val? c "value" with
        | some x => plainToJV? x
        | none => some JV.null
      let cn := (str? c "condition").getD ""
      pure (.cond k (condOfName cn) v)
  | none =>
    match val? j "and" with
    | some l => do pure (.and (← ((arr? l "expressions").getD []).mapM hasOf))
    | none =>
      match val? j "or" with
      | some l => do pure (.or (← ((arr? l "expressions").getD []).mapM hasOf))
      | none =>
        match val? j "not" with
        | some x => do pure (.not (← hasOf x))
        | none => some .none

def natOf (j : Json) : Option Nat :=
  match j with
  | .num n => if n.exponent == 0 && n.mantissa ≥ 0 then some n.mantissa.toNat else none
  | _ => none

def intField (j : Json) (k : String) : Int := (int? j k).getD 0

def aggOf (j : Json) : Agg :=
  let name := (str? j "name").getD ""
  let f (k : String) : Option Json := val? j k
  let fld (x : Json) : String := (str? x "field").getD ""
  let kind : AggKind :=
    match f "term", f "histogram", f "percentile", f "field", f "type", f "count" with
    | some x, _, _, _, _, _ => .term (fld x) (intField x "size")
    | _, some x, _, _, _, _ => .histogram (fld x) (intField x "interval")
    | _, _, some x, _, _, _ => .percentile (fld x) []
    | _, _, _, some x, _, _ => .field (fld x)
    | _, _, _, _, some x, _ => .type (fld x)
    | _, _, _, _, _, some _ => .count
    | _, _, _, _, _, _ => .unset
  { name := name, kind := kind }

/-- One GraphStatement: an object with (at most) one key. -/
def stmtOf (j : Json) : Option Stmt :=
  match j with
  | .obj kvs =>
    match kvs.toList with
    | [] => some .unknown
    | [(k, v)] =>
      let sl (f : List String → Stmt) : Option Stmt := (strList v).map f
      match k with
      | "v" => sl .V | "e" => sl .E | "in" => sl .in_ | "out" => sl .out | "both" => sl .both
      | "inE" => sl .inE | "outE" => sl .outE | "bothE" => sl .bothE
      | "inNull" => sl .inNull | "outNull" => sl .outNull
      | "inENull" => sl .inENull | "outENull" => sl .outENull
      | "hasLabel" => sl .hasLabel | "hasKey" => sl .hasKey | "hasId" => sl .hasId
      | "distinct" => sl .distinct | "fields" => sl .fields
      | "as" => (match v with | .str s => some (.as_ s) | _ => none)
      | "select" => some (.select ((strs? v "marks").getD []))
      | "limit" => (natOf v).map .limit
      | "skip" => (natOf v).map .skip
      | "range" => some (.range (intField v "start") (intField v "stop"))
      | "has" => (hasOf v).map .has
      | "unwind" => (match v with | .str s => some (.unwind s) | _ => none)
      | "count" => some .count
      | "aggregate" => some (.aggregate (((arr? v "aggregations").getD []).map aggOf))
      | "render" => (plainToJV? v).map .render
      | "path" => (match v with
          | .arr xs => (xs.toList.mapM plainToJV?).map .path
          | _ => some (.path []))
      | "mark" => (match v with | .str s => some (.mark s) | _ => none)
      | "jump" => do
          let c ← match val? v "expression" with
            | some x => (hasOf x).map some
            | none => some none
          pure (.jump ((str? v "mark").getD "") c ((bool? v "emit").getD false))
      | "set" => do
          let x ← match val? v "value" with
            | some x => plainToJV? x
            | none => some JV.null
          pure (.set ((str? v "key").getD "") x)
      | "increment" => some (.increment ((str? v "key").getD "") (intField v "value"))
      | _ => none
    | _ => none
  | _ => none

def stmtsOf (js : List Json) : Option (List Stmt) := js.mapM stmtOf

def dataOf (j : Json) : Option JV :=
  match val? j "data" with
  | some d => plainToJV? d
  | none => some (.obj [])

/-- gripql.Vertex / gripql.Edge in protojson form (empty fields are omitted by protojson). -/
def vertexOf (j : Json) : Option Elem := do
  let d ← dataOf j
  pure { gid := (str? j "gid").getD "", label := (str? j "label").getD "", data := d }

def edgeOf (j : Json) : Option Elem := do
  let d ← dataOf j
  pure { gid := (str? j "gid").getD "", label := (str? j "label").getD "",
         frm := (str? j "from").getD "", to := (str? j "to").getD "", data := d }

def graphOf (j : Json) : Option AGraph := do
  let vs ← ((arr? j "vertices").getD []).mapM vertexOf
  let es ← ((arr? j "edges").getD []).mapM edgeOf
  pure { verts := vs, edges := es }

/-! ### canonical rows (hx.CanonRow) -/

/-- Sort object keys recursively (Go maps are printed with sorted keys by hx.Tag). -/
partial def normJV : JV → JV
  | .arr xs => .arr (xs.map normJV)
  | .obj kvs => .obj ((kvs.map fun (k, v) => (k, normJV v)).mergeSort (fun a b => a.1 ≤ b.1))
  | v => v

def tagged (v : JV) : Json := ofJV (normJV v)

def canonVertex : Option Elem → Json
  | none => .null
  | some e => Json.mkObj [("gid", .str e.gid), ("label", .str e.label), ("data", tagged e.data)]

def canonEdge : Option Elem → Json
  | none => .null
  | some e => Json.mkObj [("gid", .str e.gid), ("label", .str e.label), ("from", .str e.frm),
                          ("to", .str e.to), ("data", tagged e.data)]

/-- Convert's rendering of one path entry: `{"vertex":id}`, `{"edge":id}` or `{}`. -/
def pathElJV : PathEl → JV
  | .vertex id => if id != "" then .obj [("vertex", .str id)] else .obj []
  | .edge id => if id != "" then .obj [("edge", .str id)] else .obj []
  | .empty => .obj []

def canonRow : Row → Json
  | .vertex e => Json.mkObj [("v", canonVertex e)]
  | .edge e => Json.mkObj [("e", canonEdge e)]
  | .count n => Json.mkObj [("count", .num ⟨n, 0⟩)]
  | .render v => Json.mkObj [("render", tagged v)]
  | .path p => Json.mkObj [("path", .arr (p.map fun x => tagged (pathElJV x)).toArray)]
  | .sel s => Json.mkObj [("sel", Json.mkObj (s.map fun (k, ty, e) =>
      (k, if ty == DataType.edge then Json.mkObj [("e", canonEdge (some e))]
          else Json.mkObj [("v", canonVertex (some e))])))]
  | .agg a => Json.mkObj [("agg", Json.mkObj [("name", .str a.name), ("key", tagged a.key),
                                              ("value", .num ⟨a.value, 0⟩)])]
  | .nil => Json.mkObj [("nil", .bool true)]

/-- Rows as a multiset: sorted by their serialisation (hx.CanonRows with sorted=true). -/
def canonRows (rows : List Row) : Json :=
  let js := rows.map fun r => let j := canonRow r; (Json.compress j, j)
  .arr ((js.mergeSort (fun a b => a.1 ≤ b.1)).map (·.2)).toArray

end Grip.Drv.StmtJson
