/-
  Grip.Drv.C13 — line-protocol driver for the stream combinators.

  Every op line is one complete case (combinator, parameters, input).  The MODEL observation is
  obtained by RUNNING the transition systems of Grip.Model.C13 under a pseudo-random scheduler
  seeded from the op (short inputs), or by the array version of the same loops (long inputs:
  lists of closures are too slow there).  The configuration constants (wrap test, merge start,
  index expression, final flush, pop end) come from the table regenerated from the Go source
  (GripGen.C13Buffers).  The SPEC observation is "output = input, once each, in order, closed,
  not closed early"; when the MODEL differs from it the line carries "spec"/"kf".
-/
import Grip.Drv.Common
import Grip.Model.C13
import GripGen.C13Buffers

namespace Grip.Drv.C13
open Lean Grip Grip.C13 Grip.Proto

def jn (n : Nat) : Json := Json.num ⟨Int.ofNat n, 0⟩

def natOf? : Json → Option Nat
  | .num n => if n.exponent == 0 && n.mantissa ≥ 0 then some n.mantissa.toNat else none
  | _ => none

def nats? (j : Json) (k : String) : Option (List Nat) := do
  let xs ← arr? j k
  xs.mapM natOf?

/-- segments [[start,count],…] → list -/
def unsegs? (j : Json) (k : String) : Option (Array Nat) := do
  let xs ← arr? j k
  let mut out : Array Nat := #[]
  for x in xs do
    match x with
    | .arr #[a, b] =>
      let s ← natOf? a
      let c ← natOf? b
      for i in [0:c] do out := out.push (s + i)
    | _ => none
  pure out

/-- list → canonical greedy run-length segments -/
def segs (xs : Array Nat) : Json := Id.run do
  let mut out : Array Json := #[]
  let mut start := 0
  let mut cnt := 0
  for x in xs do
    if cnt > 0 && x == start + cnt then cnt := cnt + 1
    else
      if cnt > 0 then out := out.push (Json.arr #[jn start, jn cnt])
      start := x; cnt := 1
  if cnt > 0 then out := out.push (Json.arr #[jn start, jn cnt])
  return Json.arr out

def smallLimit : Nat := 60

def obsStream (out : Array Nat) (closed early : Bool) : Json :=
  Json.mkObj [("out", segs out), ("closed", Json.bool closed), ("early", Json.bool early)]

def timeoutObs : Json := Json.mkObj [("timeout", Json.bool true)]
def panicObs : Json := Json.mkObj [("panic", Json.bool true)]

/-- attach the SPEC observation when the MODEL deviates from it -/
def withSpec (model spec : Json) : Json :=
  if model.compress == spec.compress then model
  else model.mergeObj (Json.mkObj [("spec", spec), ("kf", Json.str "C13-model-deviates-from-spec")])

/-! ### RR -/

def marshalCfg (w : Nat) : RRCfg :=
  { n := w, ge := GripGen.C13Buffers.marshalResetGe, mstart := GripGen.C13Buffers.marshalMergeStart }
def unmarshalCfg (w : Nat) : RRCfg :=
  { n := w, ge := GripGen.C13Buffers.unmarshalResetGe, mstart := GripGen.C13Buffers.unmarshalMergeStart }

/-- array version of the distributor loop + merge loop.  `none` = index out of range (Go panics). -/
def rrFast (c : RRCfg) (xs : Array Nat) : Option (Array Nat) := Id.run do
  let mut ws : Array (Array Nat) := Array.replicate c.n #[]
  let mut k := 0
  for x in xs do
    if k < c.n then ws := ws.modify k (·.push x) else return none
    k := wrapNext c k
  let mut ptr : Array Nat := Array.replicate c.n 0
  let mut out : Array Nat := #[]
  let mut found := true
  for _ in [0:xs.size + 2] do
    if found then
      found := false
      for i in [c.mstart:c.n] do
        let p := ptr[i]!
        if p < ws[i]!.size then
          out := out.push ws[i]![p]!
          ptr := ptr.set! i (p + 1)
          found := true
  return some out

def rrObs (c : RRCfg) (seed : Nat) (xs : Array Nat) : Json :=
  if xs.size ≤ smallLimit then
    let s := rrRun c seed xs.toList
    -- a worker index ≥ n in the model = an index-out-of-range panic in Go
    if s.nd > c.n || (s.nd == c.n && c.n > 0 && !s.inp.isEmpty) then panicObs
    else if (List.range (xs.size + c.n + 2)).any (fun i => i ≥ c.n && !(s.toW i).isEmpty) then panicObs
    else if s.outClosed then obsStream s.out.toArray true (!s.inp.isEmpty) else timeoutObs
  else
    match rrFast c xs with
    | some out => obsStream out true false
    | none => panicObs

/-! ### Mux -/

def muxCfg : MuxCfg := { idxIsOrder := GripGen.C13Buffers.muxOutputIndexIsOrder }

def muxObsOf (out : Array (Nat × Nat)) (closed early : Bool) : Json :=
  Json.mkObj [("pipes", Json.arr (out.map (fun p => jn p.1))), ("vals", segs (out.map (·.2))),
              ("closed", Json.bool closed), ("early", Json.bool early)]

/-- sequential schedule (all puts, every pipeline drains, then runMux) on arrays -/
def muxFast (c : MuxCfg) (k : Nat) (puts : Array (Nat × Nat)) : Option (Array (Nat × Nat)) := Id.run do
  let mut qs : Array (Array (Nat × Nat)) := Array.replicate (k + 1) #[]
  for p in puts do
    qs := qs.modify p.1 (·.push p)
  let mut ptr : Array Nat := Array.replicate (k + 1) 0
  let mut out : Array (Nat × Nat) := #[]
  for p in puts do
    let j := if c.idxIsOrder then p.1 else 0
    let q := ptr[j]!
    if q < qs[j]!.size then
      out := out.push qs[j]![q]!
      ptr := ptr.set! j (q + 1)
    else return none
  return some out

def muxObs (c : MuxCfg) (k seed : Nat) (puts : Array (Nat × Nat)) : Json :=
  if puts.size ≤ smallLimit then
    let s := muxRun c k seed puts.toList
    if s.outClosed then muxObsOf s.out.toArray true (!(s.puts.isEmpty && s.half.isNone)) else timeoutObs
  else
    match muxFast c k puts with
    | some out => muxObsOf out true false
    | none => timeoutObs

/-! ### Batcher -/

def batObsOf (s : Bat Nat) : Json :=
  Json.mkObj [("sizes", Json.arr (s.out.map (fun b => jn b.length)).toArray),
              ("out", segs s.out.flatten.toArray), ("closed", Json.bool s.outClosed),
              ("early", Json.bool (s.outClosed && !s.inp.isEmpty))]

def batObs (bs : Nat) (flush : Bool) (timed : Bool) (sizes : List Nat) (xs : Array Nat) : Json :=
  let c : BatCfg := { bs := bs, finalFlush := flush }
  let evs := if timed then batEventsOfSizes sizes xs.size else List.replicate (xs.size + 1) (.recv false)
  batObsOf (batRun c evs xs.toList)

/-! ### Dual -/

structure Req where
  v : Nat
  sig : Bool
  k : Nat

def dualRun (seed : Nat) (rs : List Req) : Dual Req Nat :=
  runSched (dualAct (·.sig) (fun r => List.range r.k) (fun r d => { r with v := r.v * 8 + d })) dualCands
    (12 * (rs.length + (rs.map (·.k)).sum) + 50) seed (dualInit rs)

def dualEnc (r : Req) : Nat := if r.sig then r.v * 8 + 7 else r.v

def dualObs (seed : Nat) (rs : Array Req) : Json :=
  if rs.size ≤ smallLimit then
    let s := dualRun seed rs.toList
    if s.outClosed then obsStream (s.out.map dualEnc).toArray true (!s.inp.isEmpty) else timeoutObs
  else
    let out := rs.flatMap (fun r => if r.sig then #[r.v * 8 + 7] else (Array.range r.k).map (fun d => r.v * 8 + d))
    obsStream out true false

def dualSpec (rs : Array Req) : Json :=
  obsStream (rs.flatMap (fun r => if r.sig then #[r.v * 8 + 7] else (Array.range r.k).map (fun d => r.v * 8 + d))) true false

/-! ### Queue -/

def qCfg : QCfg := { popsHead := GripGen.C13Buffers.queuePopsHead }

def qRun (seed : Nat) (xs : List Nat) : Q Nat :=
  runSched (qAct qCfg) qCands (12 * xs.length + 50) seed (qInit xs)

def qObs (seed : Nat) (xs : Array Nat) : Json :=
  if xs.size ≤ smallLimit then
    let s := qRun seed xs.toList
    if s.outClosed then obsStream s.out.toArray true (!(s.inp.isEmpty && s.inClosed)) else timeoutObs
  else
    obsStream (if qCfg.popsHead then xs else xs.reverse) true false

/-! ### dispatch -/

def chunkSizes (bs n : Nat) : List Nat :=
  let b := if bs == 0 then 1 else bs
  List.replicate (n / b) b ++ (if n % b == 0 then [] else [n % b])

def step (_ : Unit) (j : Json) : Unit × Json :=
  let seed := (nat? j "ls").getD 1
  match str? j "op" with
  | some "marshal" | some "unmarshal" =>
    match nat? j "w", unsegs? j "in" with
    | some w, some xs =>
      let c := if str? j "op" == some "marshal" then marshalCfg w else unmarshalCfg w
      ((), withSpec (rrObs c seed xs) (obsStream xs true false))
    | _, _ => ((), Drv.bad "marshal: cannot decode")
  | some "mux" =>
    match nat? j "k", nat? j "base", nats? j "pipes" with
    | some k, some base, some pipes =>
      let puts := (pipes.toArray.zipIdx).map (fun (p, i) => (p, base + i))
      ((), withSpec (muxObs muxCfg k seed puts) (muxObsOf puts true false))
    | _, _, _ => ((), Drv.bad "mux: cannot decode")
  | some "batcher" =>
    match nat? j "bs", unsegs? j "in", str? j "mode" with
    | some bs, some xs, some mode =>
      let sizes := (nats? j "sizes").getD []
      let timed := mode == "timed"
      -- SPEC = the batcher with the final flush in place, on the same select/timeout outcomes
      let spec := batObs bs true timed sizes xs
      ((), withSpec (batObs bs GripGen.C13Buffers.batcherFinalFlush timed sizes xs) spec)
    | _, _, _ => ((), Drv.bad "batcher: cannot decode")
  | some "dual" =>
    match unsegs? j "in" with
    | some xs =>
      let ks := ((nats? j "ks").getD []).toArray
      let sig := (nats? j "sig").getD []
      let marks : Array Bool := sig.foldl (fun m i => m.setIfInBounds i true) (Array.replicate xs.size false)
      let rs := xs.zipIdx.map (fun (v, i) => ({ v := v, sig := marks[i]?.getD false, k := (ks[i]?).getD 1 } : Req))
      ((), withSpec (dualObs seed rs) (dualSpec rs))
    | none => ((), Drv.bad "dual: cannot decode")
  | some "queue" =>
    match unsegs? j "in" with
    | some xs => ((), withSpec (qObs seed xs) (obsStream xs true false))
    | none => ((), Drv.bad "queue: cannot decode")
  | _ => ((), Drv.bad "unknown op")

def main : IO Unit := Drv.runLoop () step

end Grip.Drv.C13
