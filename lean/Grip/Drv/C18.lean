import Grip.Drv.Common
import Grip.Model.C18
import Grip.Spec.C18

/-
  Driver for C18.  A case is  reset · send* · close  (server.BulkAdd) or  reset · batch
  (util.StreamBatch).  On `close` the MODEL (`bulkAddAuth`) and the SPEC (`Spec.expected`: fold
  of single adds, declarative counts) are both evaluated and printed through the same code.
-/
namespace Grip.Drv.C18
open Lean Grip Grip.C03 Grip.C18 Grip.Proto

def vertexIn? (j : Json) : Option VertexIn := do
  pure { gid := (← str? j "gid"), label := (← str? j "label"), data := (← jv? j "data") }

def edgeIn? (j : Json) : Option EdgeIn := do
  pure { gid := (← str? j "gid"), label := (← str? j "label"), frm := (← str? j "from"),
         to := (← str? j "to"), data := (← jv? j "data") }

def preOp? (j : Json) : Option Op := do
  let op ← str? j "op"
  let g ← str? j "g"
  match op with
  | "addGraph" => pure (.addGraph g)
  | "delGraph" => pure (.delGraph g)
  | "addV" => do pure (.addV g (← (← arr? j "vs").mapM vertexIn?))
  | "addE" => do pure (.addE g (← (← arr? j "es").mapM edgeIn?))
  | "delV" => do pure (.delV g (← str? j "id"))
  | "delE" => do pure (.delE g (← str? j "id"))
  | _ => none

/-- ids drawn by the server are printed as one token -/
def uuidPrefix : String := "<uuid>"
def showId (s : String) : String := if s.startsWith uuidPrefix then uuidPrefix else s

def vJson (v : VOut) : Json :=
  Json.mkObj [("gid", showId v.gid), ("label", v.label), ("data", ofJV v.data)]
def eJson (e : EOut) : Json :=
  Json.mkObj [("gid", showId e.gid), ("label", e.label), ("from", e.frm), ("to", e.to), ("data", ofJV e.data)]

def keyV (v : VOut) : String := showId v.gid ++ "\x01" ++ v.label
def keyE (e : EOut) : String := showId e.gid ++ "\x01" ++ e.label ++ "\x01" ++ e.frm ++ "\x01" ++ e.to
def vsJson (vs : List VOut) : Json := Json.arr ((vs.mergeSort (fun a b => keyV a ≤ keyV b)).map vJson).toArray
def esJson (es : List EOut) : Json := Json.arr ((es.mergeSort (fun a b => keyE a ≤ keyE b)).map eJson).toArray
def optV : Option VOut → Json | some v => vJson v | none => Json.null
def optE : Option EOut → Json | some e => eJson e | none => Json.null
def strsJson (xs : List String) : Json := Json.arr ((xs.mergeSort (· ≤ ·)).map Json.str).toArray

def graphObs (m : KV) (g : String) (ids eids labels : List String) (ts : String) : Json :=
  let filters : List (String × List String) := ("*", []) :: labels.map (fun l => (l, [l]))
  let per (f : String → List String → Json) : Json :=
    Json.mkObj (ids.map fun id => (id, Json.mkObj (filters.map fun (n, ls) => (n, f id ls))))
  Json.mkObj [
    ("V", vsJson (vertexList m g)), ("E", esJson (edgeList m g)),
    ("get", Json.mkObj (ids.map fun id => (id, optV (getVertex m g id)))),
    ("getE", Json.mkObj (eids.map fun id => (id, optE (getEdge m g id)))),
    ("out", per fun id ls => vsJson (outV m g id ls)),
    ("in", per fun id ls => vsJson (inV m g id ls)),
    ("outE", per fun id ls => esJson (outE m g id ls)),
    ("inE", per fun id ls => esJson (inE m g id ls)),
    ("hasLabel", Json.mkObj (labels.map fun l => (l, vsJson (verticesWithLabel m g l)))),
    ("labelsV", strsJson (listVertexLabels m g)), ("labelsE", strsJson (listEdgeLabels m g)),
    ("ts", ts)]

def tsWord (before : KState) (g : String) (now : Option Nat) : String :=
  match before.stamp g, now with
  | some a, some b => if a = b then "same" else "changed"
  | none, some _ => "new"
  | _, none => "none"

def obsOf (s0 s : KState) (ids eids labels : List String) : Json :=
  let gs := (graphs s.kv).mergeSort (· ≤ ·)
  Json.mkObj [("graphs", strsJson gs),
    ("g", Json.mkObj (gs.map fun g => (g, graphObs s.kv g ids eids labels (tsWord s0 g (s.stamp g)))))]

structure St where
  s0 : KState := {}
  deny : List String := []
  auth : Bool := false
  items : List Item := []     -- reversed

def itemOf? (j : Json) (i : Nat) : Option Item := do
  let g ← str? j "g"
  let uuid := uuidPrefix ++ toString i
  match val? j "v" with
  | some v => do pure { g := g, x := some (.v (← vertexIn? v)), uuid := uuid }
  | none => match val? j "e" with
    | some e => do pure { g := g, x := some (.e (← edgeIn? e)), uuid := uuid }
    | none => pure { g := g, x := none, uuid := uuid }

def gelemOf? (j : Json) (i : Nat) : Option GElem := do
  let g ← str? j "g"
  let v ← match val? j "v" with
    | some v => (vertexIn? v).map some
    | none => some none
  let e ← match val? j "e" with
    | some e => (edgeIn? e).map some
    | none => some none
  pure { g := g, v := v, e := e, uuid := uuidPrefix ++ toString i }

def idsJson (xs : List String) : Json := Json.arr (xs.map (fun s => Json.str (showId s))).toArray

def resJson (ins err : Nat) : Json := Json.mkObj [("ins", ins), ("err", err)]

def step (st : St) (j : Json) : St × Json :=
  match str? j "op" with
  | some "reset" =>
    let gs := (strs? j "graphs").getD []
    let pre := ((arr? j "pre").getD []).filterMap preOp?
    let s0 := run (run {} (gs.map .addGraph)) pre
    ({ s0 := s0, deny := (strs? j "deny").getD [], auth := (bool? j "auth").getD false }, Json.mkObj [("r", "reset")])
  | some "send" =>
    -- an element that carries a vertex AND an edge is the vertex followed by the edge (since fix
    -- f8b5d8f the server forwards the two separately; before, both were counted, the vertex was
    -- written twice and the edge dropped)
    match val? j "v", val? j "e" with
    | some v, some e =>
      let jv := Json.mkObj [("g", (val? j "g").getD Json.null), ("v", v)]
      let je := Json.mkObj [("g", (val? j "g").getD Json.null), ("e", e)]
      match itemOf? jv st.items.length, itemOf? je st.items.length with
      | some iv, some ie => ({ st with items := ie :: iv :: st.items }, Json.mkObj [("r", "queued")])
      | _, _ => (st, Drv.bad "send: cannot decode element")
    | _, _ =>
    match itemOf? j st.items.length with
    | some it => ({ st with items := it :: st.items }, Json.mkObj [("r", "queued")])
    | none => (st, Drv.bad "send: cannot decode element")
  | some "close" =>
    match strs? j "ids", strs? j "eids", strs? j "labels" with
    | some ids, some eids, some labels =>
      let stream := st.items.reverse
      let allowed : String → Bool := fun g => !st.auth || !st.deny.contains g
      let m := bulkAddAuth allowed st.s0 stream
      let e := Spec.expected allowed st.s0 stream
      let om := Json.mkObj [("res", resJson m.insertCount m.errorCount), ("obs", obsOf st.s0 m.st ids eids labels)]
      let os := Json.mkObj [("res", resJson e.insertCount e.errorCount), ("obs", obsOf st.s0 e.st ids eids labels)]
      let st' := { st with items := [] }
      if om.compress == os.compress then (st', om)
      else (st', om.setObjVal! "spec" os |>.setObjVal! "kf" "C18-model-spec-gap")
    | _, _, _ => (st, Drv.bad "close: ids/eids/labels")
  | some "bulkidx" =>
    -- kvgraph with a user index (label, field): a vertex of that label whose field holds a value that
    -- is no index term (not a string, not a number) is refused, by the bulk load and by the single
    -- add alike; every other vertex is stored (sampled correspondence: user indexes are outside the
    -- proved model)
    match strs? j "index", arr? j "verts" with
    | some [lab, fld], some vs =>
      let storable (v : Json) : Bool :=
        match str? v "label", jv? v "data" with
        | some l, some d =>
          if l != lab then true else
          match d.getKey? fld with
          | none => true
          | some (.str _) => true
          | some (.num _) => true
          | some .null => true
          | some _ => false
        | _, _ => false
      let ids := (vs.filter storable).filterMap (fun v => str? v "gid")
      let sorted := (ids.eraseDups).mergeSort (fun a b => a ≤ b)
      let l := Json.arr (sorted.map Json.str).toArray
      (st, Json.mkObj [("bulk", l), ("single", l)])
    | _, _ => (st, Drv.bad "bulkidx: index/verts")
  | some "batch" =>
    match nat? j "k", str? j "graph", arr? j "xs" with
    | some k, some graph, some xs =>
      match (xs.zipIdx.mapM fun (x, i) => gelemOf? x i) with
      | some els =>
        let r := sbRun k graph els
        let vc := vertexCalls k graph els
        let ec := edgeCalls k graph els
        (st, Json.mkObj [
          ("vcalls", Json.arr (vc.map (fun b => idsJson (b.map (·.gid)))).toArray),
          ("ecalls", Json.arr (ec.map (fun b => idsJson (b.map (·.gid)))).toArray),
          ("err", r.nerr != 0)])
      | none => (st, Drv.bad "batch: cannot decode element")
    | _, _, _ => (st, Drv.bad "batch: k/graph/xs")
  | _ => (st, Drv.bad "unknown op")

def main : IO Unit := Drv.runLoop ({} : St) step

end Grip.Drv.C18
