/-
  Driver for C20.  Ops (written by go/harness/hx/c20.go):

    {"op":"table"}                                    → the unsafe sites of the regenerated table that are not listed
    {"op":"reject","params":{"graph":x}}              → does gripql.ValidateGraphName refuse x (model: `validateName`)
    {"op":"count", …}                                 → benign and hostile call must send equally many statements
    {"op":"stmt","drv","fn","params","lists","bparams","blists","hint","bhint"}
        hint/bhint are the texts the real code sent for the hostile/benign arguments.  They are used
        only to *select* the site (first site of the entry point whose template explains the hint)
        and to infer the server values of the template; the observation is the MODEL's own
        `render` of that site for both argument vectors, whether the two token shapes agree, and
        the number of bound parameters.  For an unsafe site whose shape changed the line carries
        "spec" (same = true) and "kf" = "C20-<site id>".
-/
import Grip.Drv.Common
import Grip.Model.C20
import Grip.Model.C20Known
import GripGen.SqlSites

namespace Grip.Drv.C20
open Lean Grip Grip.C20 Grip.Proto

def objStrs (j : Json) (k : String) : List (String × String) :=
  match j.getObjVal? k with
  | .ok (.obj kvs) => kvs.foldl (fun acc k v => match v with | .str s => acc ++ [(k, s)] | _ => acc) []
  | _ => []

def objLists (j : Json) (k : String) : List (String × List String) :=
  match j.getObjVal? k with
  | .ok (.obj kvs) => kvs.foldl (fun acc k v => match v with
      | .arr xs => acc ++ [(k, xs.toList.filterMap fun x => match x with | .str s => some s | _ => none)]
      | _ => acc) []
  | _ => []

def stripPrefix (p t : List Char) : Option (List Char) :=
  if p.isPrefixOf t then some (t.drop p.length) else none

def srvChar (c : Char) : Bool := c.isAlphanum || c == '_'

/-- Is the client expression computable (no opaque part, parameters present)? -/
def atomComputable (a : Args) (cur : Option (List Char)) : Atom → Bool
  | .cli _ _ e => (evalExpr a cur e).isSome
  | _ => true

/-- Match atoms against a text, binding unknown server values (identifier-like, longest first). -/
partial def matchAtoms (a : Args) (cur : Option (List Char)) : List Atom → List Char → Env → Option (List Char × Env)
  | [], t, env => some (t, env)
  | x :: xs, t, env =>
    match x with
    | .srv n =>
      match lookup env n with
      | some v => (stripPrefix v.toList t).bind fun r => matchAtoms a cur xs r env
      | none =>
        let run := t.takeWhile srvChar
        let rec tryLen (k : Nat) : Option (List Char × Env) :=
          let v := run.take k
          match matchAtoms a cur xs (t.drop k) (env ++ [(n, String.ofList v)]) with
          | some r => some r
          | none => if k == 0 then none else tryLen (k - 1)
        tryLen run.length
    | _ =>
      if !atomComputable a cur x then none else
      (stripPrefix (renderAtom env a cur x) t).bind fun r => matchAtoms a cur xs r env

partial def matchList (a : Args) (sep : List Char) (elem : List Atom) : List String → List Char → Env → Option (List Char × Env)
  | [], t, env => some (t, env)
  | [x], t, env => matchAtoms a (some x.toList) elem t env
  | x :: y :: r, t, env =>
    (matchAtoms a (some x.toList) elem t env).bind fun (t1, env1) =>
      (stripPrefix sep t1).bind fun t2 => matchList a sep elem (y :: r) t2 env1

/-- The pieces as one atom list is not possible because of lists; match piece by piece.  Server
    values directly followed by more pieces need backtracking across pieces, so atoms are grouped. -/
partial def matchPieces (a : Args) : List Piece → List Char → Env → Option Env
  | [], t, env => if t.isEmpty then some env else none
  | ps, t, env =>
    -- take the maximal run of atoms, then (optionally) one list, and continue
    let atoms := (ps.takeWhile fun p => match p with | .atom _ => true | _ => false).filterMap
      fun p => match p with | .atom x => some x | _ => none
    let rest := ps.dropWhile fun p => match p with | .atom _ => true | _ => false
    match rest with
    | [] =>
      -- the run must consume the whole text: try bindings until it does
      matchAtomsEnd a atoms t env
    | .list _ name sep elem :: more =>
      -- bind server values of the run greedily but require the remainder to match too
      matchAtomsThen a atoms t env fun t1 env1 =>
        (matchList a sep.toList elem ((lookup a.lists name).getD []) t1 env1).bind fun (t2, env2) =>
          matchPieces a more t2 env2
    | _ => none
where
  matchAtomsEnd (a : Args) (atoms : List Atom) (t : List Char) (env : Env) : Option Env :=
    matchAtomsThen a atoms t env fun t1 env1 => if t1.isEmpty then some env1 else none
  matchAtomsThen (a : Args) : List Atom → List Char → Env → (List Char → Env → Option Env) → Option Env
    | [], t, env, k => k t env
    | x :: xs, t, env, k =>
      match x with
      | .srv n =>
        match lookup env n with
        | some v => (stripPrefix v.toList t).bind fun r => matchAtomsThen a xs r env k
        | none =>
          let run := t.takeWhile srvChar
          let rec tryLen (j : Nat) : Option Env :=
            match matchAtomsThen a xs (t.drop j) (env ++ [(n, String.ofList (run.take j))]) k with
            | some r => some r
            | none => if j == 0 then none else tryLen (j - 1)
          tryLen run.length
      | _ =>
        if !atomComputable a none x then none else
        (stripPrefix (renderAtom env a none x) t).bind fun r => matchAtomsThen a xs r env k

def argsOf (j : Json) (pk lk : String) : Args := { params := objStrs j pk, lists := objLists j lk }

def hexOrStr (s : String) : Json := Json.str s

def siteLabel (s : Site) : String :=
  s!"C20-{s.id} {s.file} {s.fn}{if s.via.isEmpty then "" else " > " ++ s.via}: {s.tmpl}"

def unlisted : List String :=
  (GripGen.SqlSites.sites.filter fun s =>
    !(s.safeOn s.identEnv (s.argsWith benignStr)) && !(knownUnsafe.contains s.num)).map siteLabel

def validName (x : String) : Bool :=
  validateName GripGen.SqlSites.validateBlacklist.toList (GripGen.SqlSites.validatePrefixes.map String.toList) x.toList

def stmtObs (j : Json) : Json :=
  match str? j "drv", str? j "fn", str? j "hint", str? j "bhint" with
  | some drv, some fn, some hint, some bhint =>
    let h := argsOf j "params" "lists"
    let b := argsOf j "bparams" "blists"
    let cands := GripGen.SqlSites.sites.filter fun s => s.drv == drv && s.fn == fn
    let found := cands.findSome? fun s =>
      match matchPieces h s.pieces hint.toList [], matchPieces b s.pieces bhint.toList [] with
      | some envH, some envB => some (s, envH, envB)
      | _, _ => none
    match found with
    | none =>
      Json.mkObj [("q", Json.str "<no extracted site of this entry point explains the statement>"),
                  ("qb", Json.str ""), ("same", Json.bool true), ("n", Json.num 0)]
    | some (s, envH, envB) =>
      let q := render envH h s
      let qb := render envB b s
      let safe := s.safeOn envB b && s.safeOn envH h && ArgsOK b s && ArgsOK h s && sameLens b h s
      let same := if safe then true else decide (SameShape q qb)
      let n : Nat := s.bound.length
      let base := [("q", Json.str (String.ofList q)), ("qb", Json.str (String.ofList qb)),
                   ("same", Json.bool same), ("n", Json.num (Int.ofNat n))]
      if !safe && !same then
        Json.mkObj (base ++ [("kf", Json.str ("C20-" ++ s.id)),
          ("spec", Json.mkObj [("q", Json.str (String.ofList q)), ("qb", Json.str (String.ofList qb)),
                               ("same", Json.bool true), ("n", Json.num (Int.ofNat n))])])
      else Json.mkObj base
  | _, _, _, _ => Drv.bad "stmt: cannot decode"

def step (_ : Unit) (j : Json) : Unit × Json :=
  match str? j "op" with
  | some "table" =>
    ((), Json.mkObj [("unlisted", Json.arr (unlisted.map Json.str).toArray),
                     ("extraction_failed", Json.bool GripGen.SqlSites.extractionFailed)])
  | some "reject" =>
    match lookup (objStrs j "params") "graph" with
    | some g => ((), Json.mkObj [("rejected", Json.bool (!validName g))])
    | none => ((), Drv.bad "reject: no graph")
  | some "count" => ((), Json.mkObj [("eq", Json.bool true)])
  | some "stmt" => ((), stmtObs j)
  | _ => ((), Drv.bad "unknown op")

def main : IO Unit := Drv.runLoop () step

end Grip.Drv.C20
