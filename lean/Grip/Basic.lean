/-
  Grip.Basic — value domains shared by every model (DESIGN.md §4.2).  Core Lean only.

  JSON values `JV`.  Numbers are integers scaled by 2^10 (dyadic fixed point): every number
  that crosses the line protocol is `n / 1024` with |n| < 2^53, hence exactly representable in
  float64, and Go's `<`, `==` on them agree with integer arithmetic here.
-/
namespace Grip

inductive JV where
  | null
  | bool (b : Bool)
  | num (n : Int)
  | str (s : String)
  | arr (xs : List JV)
  | obj (kvs : List (String × JV))
  deriving Repr, Inhabited

namespace JV

mutual
  def beq : JV → JV → Bool
    | .null, .null => true
    | .bool a, .bool b => a == b
    | .num a, .num b => a == b
    | .str a, .str b => a == b
    | .arr xs, .arr ys => beqList xs ys
    | .obj xs, .obj ys => beqObj xs ys
    | _, _ => false
  def beqList : List JV → List JV → Bool
    | [], [] => true
    | x :: xs, y :: ys => beq x y && beqList xs ys
    | _, _ => false
  def beqObj : List (String × JV) → List (String × JV) → Bool
    | [], [] => true
    | (k, x) :: xs, (l, y) :: ys => k == l && beq x y && beqObj xs ys
    | _, _ => false
end

instance : BEq JV := ⟨beq⟩

mutual
  theorem beq_eq : ∀ (a b : JV), beq a b = true ↔ a = b
    | .null, b => by cases b <;> simp [beq]
    | .bool x, b => by cases b <;> simp [beq]
    | .num x, b => by cases b <;> simp [beq]
    | .str x, b => by cases b <;> simp [beq]
    | .arr xs, b => by
        cases b <;> simp [beq]
        exact beqList_eq xs _
    | .obj xs, b => by
        cases b <;> simp [beq]
        exact beqObj_eq xs _
  theorem beqList_eq : ∀ (a b : List JV), beqList a b = true ↔ a = b
    | [], b => by cases b <;> simp [beqList]
    | x :: xs, b => by
        cases b with
        | nil => simp [beqList]
        | cons y ys => simp [beqList, beq_eq x y, beqList_eq xs ys]
  theorem beqObj_eq : ∀ (a b : List (String × JV)), beqObj a b = true ↔ a = b
    | [], b => by cases b <;> simp [beqObj]
    | (k, x) :: xs, b => by
        cases b with
        | nil => simp [beqObj]
        | cons y ys =>
          obtain ⟨l, y⟩ := y
          simp [beqObj, beq_eq x y, beqObj_eq xs ys, and_assoc]
end

instance : LawfulBEq JV where
  eq_of_beq {a b} h := (beq_eq a b).1 h
  rfl {a} := (beq_eq a a).2 rfl

instance : DecidableEq JV := fun a b =>
  if h : beq a b = true then isTrue ((beq_eq a b).1 h)
  else isFalse (fun e => h ((beq_eq a b).2 e))

/-- Look a key up in an object (first match; protocol objects have unique sorted keys). -/
def getKey? : JV → String → Option JV
  | .obj kvs, k => (kvs.find? (·.1 == k)).map (·.2)
  | _, _ => none

mutual
  /-- One member step of bmeg/jsonpath (`$.a.b`): a member of an object; on a LIST the name is
      mapped over the elements — objects having the member contribute its value, lists contribute
      the list of what their elements contribute (possibly empty), everything else (scalars, objects
      without the member) is skipped; on a scalar, or an object without the member, the step fails. -/
  def member (k : String) : JV → Option JV
    | .obj kvs => (kvs.find? (·.1 == k)).map (·.2)
    | .arr xs => some (.arr (memberList k xs))
    | _ => none
  def memberList (k : String) : List JV → List JV
    | [] => []
    | x :: xs => match member k x with
      | some w => w :: memberList k xs
      | none => memberList k xs
end

/-- Follow a dotted path (object members; mapped over lists, see `member`). -/
def getPath? (v : JV) : List String → Option JV
  | [] => some v
  | k :: ks => match v.member k with
    | some w => w.getPath? ks
    | none => none

end JV

/-- Bytes as lists, for the storage models. -/
abbrev Bytes := List UInt8

end Grip
