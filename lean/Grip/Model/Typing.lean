/-
  Grip.Model.Typing — MODEL of the typing fold of engine/core/compile.go
  (`Validate` + the `switch` of `StatementProcessor` threading `ps.LastType` / `ps.MarkTypes`).
  Core Lean only.  Shared by C01, C02, C06, C11, C14.

  Two presentations that are proved equal (GripProofs/Lemmas/C01Typing.lean):
  * `typeStep`  — written by hand, one arm per `case` of the Go switch, in the Go order;
  * `typeStepT` — an interpreter over a *table* `TypingTable` (per statement kind and variant:
    the outcome for each of the eight `DataType`s, the argument checks that guard an error, and
    whether the arm records a mark type).  `handTable` is the hand-written table;
    `GripGen.CoreTyping.table` is regenerated from the Go source by tools/extract/c01_typing.go
    on every check run, and `Grip.Props.C01.typing_table_matches_source` proves the two equal —
    so a change to the Go switch breaks a theorem.
-/
import Grip.Model.Stmt

namespace Grip

inductive TypeErr where
  | firstNotStart      -- Validate: first statement is not V() or E()
  | startNotFirst      -- V/E after the beginning
  | badLastType        -- "… statement is only valid for … types"
  | emptyArgs          -- no labels / keys / ids / marks provided
  | badMarkName        -- empty, invalid or reserved mark name
  | unknownStatement
  | tableBroken        -- the regenerated table has no usable entry (interpreter only)
  deriving Repr, DecidableEq, Inhabited

abbrev MarkTypes := List (String × DataType)

/-- `ps.MarkTypes[name]` — Go's zero value `NoData` when the key is absent. -/
def MarkTypes.get (m : MarkTypes) (k : String) : DataType :=
  match m.find? (·.1 == k) with
  | some (_, t) => t
  | none => .noData

def MarkTypes.set (m : MarkTypes) (k : String) (t : DataType) : MarkTypes :=
  if m.any (·.1 == k) then m.map (fun kv => if kv.1 == k then (k, t) else kv) else m ++ [(k, t)]

/-- pipeline.State as far as typing is concerned. -/
structure TState where
  last : DataType := .noData
  marks : MarkTypes := []
  deriving Repr, Inhabited, DecidableEq

/-- gripql.ValidateFieldName (gripql/util.go): reserved names, forbidden characters, leading `_`/`-`. -/
def forbiddenChars : List Char := "!@#$%^&*()+={}[] :;\"',.<>?/\\|~".toList

def validFieldName (k : String) : Bool :=
  !(Path.reserved.contains k) && !(k.toList.any (forbiddenChars.contains ·))
    && !(k.startsWith "_") && !(k.startsWith "-")

/-- jsonpath.Current -/
def currentNamespace : String := "__current__"

/-! ### hand-written presentation (follows the Go switch arm by arm) -/

def moveToVertex (st : TState) : Except TypeErr TState :=
  if st.last == .vertex then .ok { st with last := .vertex }
  else if st.last == .edge then .ok { st with last := .vertex }
  else .error .badLastType

def moveToEdge (st : TState) : Except TypeErr TState :=
  if st.last != .vertex then .error .badLastType else .ok { st with last := .edge }

/-- first aggregation (in list order) that repeats an earlier name or has no type -/
def aggsBadFrom (seen : List String) : List Agg → Bool
  | [] => false
  | a :: rest =>
    if seen.contains a.name then true
    else (match a.kind with | .unset => true | _ => false) || aggsBadFrom (a.name :: seen) rest

def aggsBad (aggs : List Agg) : Bool := aggsBadFrom [] aggs

def needElement (st : TState) (k : Except TypeErr TState) : Except TypeErr TState :=
  if st.last != .vertex && st.last != .edge then .error .badLastType else k

def typeStep (st : TState) : Stmt → Except TypeErr TState
  | .V _ => if st.last != .noData then .error .startNotFirst else .ok { st with last := .vertex }
  | .E _ => if st.last != .noData then .error .startNotFirst else .ok { st with last := .edge }
  | .in_ _ => moveToVertex st
  | .inNull _ => moveToVertex st
  | .out _ => moveToVertex st
  | .outNull _ => moveToVertex st
  | .both _ => moveToVertex st
  | .inE _ => moveToEdge st
  | .inENull _ => moveToEdge st
  | .outE _ => moveToEdge st
  | .outENull _ => moveToEdge st
  | .bothE _ => moveToEdge st
  | .has _ => needElement st (.ok st)
  | .hasLabel ls => needElement st (if ls.isEmpty then .error .emptyArgs else .ok st)
  | .hasKey ks => needElement st (if ks.isEmpty then .error .emptyArgs else .ok st)
  | .hasId ids => needElement st (if ids.isEmpty then .error .emptyArgs else .ok st)
  | .limit _ => .ok st
  | .skip _ => .ok st
  | .range _ _ => .ok st
  | .count => .ok { st with last := .count }
  | .distinct _ => needElement st (.ok st)
  | .as_ name =>
      if st.last == .noData then .error .badLastType
      else if name == "" then .error .badMarkName
      else if !validFieldName name then .error .badMarkName
      else if name == currentNamespace then .error .badMarkName
      else .ok { st with marks := st.marks.set name st.last }
  | .set _ _ => .ok st
  | .increment _ _ => .ok st
  | .mark _ => .ok st
  | .jump _ _ _ => .ok st
  | .select ms => needElement st (match ms with
      | [] => .error .emptyArgs
      | [m] => .ok { st with last := st.marks.get m }
      | _ => .ok { st with last := .selection })
  | .render _ => needElement st (.ok { st with last := .render })
  | .path _ => needElement st (.ok { st with last := .path })
  | .unwind _ => .ok st
  | .fields _ => needElement st (.ok st)
  | .aggregate aggs =>
      -- the loop over the aggregations rejects a repeated name (the map of seen names is filled
      -- since `fix: the duplicate aggregation name check records the names it has seen`) and an
      -- aggregation without a type (`fix: the compiler rejects an aggregation without a type`)
      needElement st (if aggsBad aggs then .error .emptyArgs else .ok { st with last := .aggregation })
  | .lookupVertsIndex _ => .ok { st with last := .vertex }
  | .engineCustom _ t => .ok { st with last := t }
  | .unknown => .error .unknownStatement

/-- `Validate`: the first statement must be V() or E() (no pipeline extension: C11 owns that). -/
def validate : List Stmt → Except TypeErr Unit
  | [] => .ok ()
  | .V _ :: _ => .ok ()
  | .E _ :: _ => .ok ()
  | _ :: _ => .error .firstNotStart

/-- The fold of `Compile` over the statements. -/
def typeFold (st : TState) : List Stmt → Except TypeErr TState
  | [] => .ok st
  | s :: rest => match typeStep st s with
    | .error e => .error e
    | .ok st' => typeFold st' rest

/-- `Compile` as far as accept/reject and the final `(DataType, MarkTypes)` are concerned. -/
def typeCheck (stmts : List Stmt) : Except TypeErr TState :=
  match validate stmts with
  | .error e => .error e
  | .ok () => typeFold {} stmts

/-! ### table presentation -/

/-- Outcome of an arm for one concrete last type. -/
inductive Res where
  | err                 -- `return nil, fmt.Errorf(…)`
  | ty (t : DataType)   -- ps.LastType afterwards
  | markType            -- ps.LastType = ps.MarkTypes[<first selected mark>]
  | custom              -- ps.LastType = proc.GetType()
  deriving Repr, DecidableEq, Inhabited

/-- Conditions of the switch that do not mention the last type: each guards an error return. -/
inductive ArgCheck where
  | emptyList      -- len(labels|keys|ids) == 0
  | emptyName      -- stmt.As == ""
  | invalidName    -- gripql.ValidateFieldName(stmt.As) != nil
  | reservedName   -- stmt.As == jsonpath.Current
  | deadLoop       -- error return inside a `for … range` over a map that is never filled
  | aggNames       -- the loop over the aggregations: a repeated name or an aggregation without a type
  | unrecognised   -- a condition the interpreter has no meaning for (breaks the agreement theorem)
  deriving Repr, DecidableEq, Inhabited

/-- Variants of an arm: the `switch len(stmt.Select.Marks)` of `select`. -/
inductive Variant where
  | plain | len0 | len1 | lenMany
  deriving Repr, DecidableEq, Inhabited

def Variant.all : List Variant := [.plain, .len0, .len1, .lenMany]

structure TypingEntry where
  kind : Kind
  variant : Variant
  res : List Res            -- one per `DataType.all`, in that order
  checks : List ArgCheck
  setsMark : Bool
  deriving Repr, DecidableEq, Inhabited

abbrev TypingTable := List TypingEntry

def Kind.all : List Kind :=
  [.V, .E, .in_, .out, .inE, .outE, .both, .bothE, .inNull, .outNull, .inENull, .outENull,
   .as_, .select, .limit, .skip, .range, .has, .hasLabel, .hasKey, .hasId, .distinct, .fields,
   .unwind, .count, .aggregate, .render, .path, .mark, .jump, .set, .increment,
   .lookupVertsIndex, .engineCustom, .unknown]

theorem Kind.mem_all (k : Kind) : k ∈ Kind.all := by cases k <;> simp [Kind.all]

def DataType.idx : DataType → Nat
  | .noData => 0 | .vertex => 1 | .edge => 2 | .count => 3 | .aggregation => 4 | .selection => 5
  | .render => 6 | .path => 7

def Stmt.variant : Stmt → Variant
  | .select [] => .len0
  | .select [_] => .len1
  | .select _ => .lenMany
  | _ => .plain

def Stmt.checkFails (s : Stmt) : ArgCheck → Bool
  | .emptyList => match s with
    | .hasLabel l => l.isEmpty | .hasKey l => l.isEmpty | .hasId l => l.isEmpty | _ => false
  | .emptyName => match s with | .as_ n => n == "" | _ => false
  | .invalidName => match s with | .as_ n => !validFieldName n | _ => false
  | .reservedName => match s with | .as_ n => n == currentNamespace | _ => false
  | .deadLoop => false
  | .aggNames => match s with | .aggregate aggs => aggsBad aggs | _ => false
  | .unrecognised => true

def TypingTable.find (tbl : TypingTable) (k : Kind) (v : Variant) : Option TypingEntry :=
  tbl.find? (fun e => e.kind == k && e.variant == v)

def errOfKind (last : DataType) : Kind → Variant → TypeErr
  | .V, _ => .startNotFirst | .E, _ => .startNotFirst
  | .unknown, _ => .unknownStatement
  | .select, .len0 => if last.isElement then .emptyArgs else .badLastType
  | _, _ => .badLastType

def errOfCheck : ArgCheck → TypeErr
  | .emptyList => .emptyArgs
  | .aggNames => .emptyArgs
  | .emptyName => .badMarkName | .invalidName => .badMarkName | .reservedName => .badMarkName
  | _ => .tableBroken

/-- The typing step as an interpreter over a table. -/
def typeStepT (tbl : TypingTable) (st : TState) (s : Stmt) : Except TypeErr TState :=
  match tbl.find s.kind s.variant with
  | none => .error .tableBroken
  | some e =>
    match e.res[st.last.idx]? with
    | none => .error .tableBroken
    | some .err => .error (errOfKind st.last s.kind s.variant)
    | some r =>
      match e.checks.find? s.checkFails with
      | some c => .error (errOfCheck c)
      | none =>
        let marks := if e.setsMark then
            (match s with | .as_ n => st.marks.set n st.last | _ => st.marks) else st.marks
        match r with
        | .ty t => .ok { last := t, marks := marks }
        | .markType => (match s with
            | .select (m :: _) => .ok { last := st.marks.get m, marks := marks }
            | _ => .error .tableBroken)
        | .custom => (match s with
            | .engineCustom _ t => .ok { last := t, marks := marks }
            | _ => .error .tableBroken)
        | .err => .error .tableBroken

/-! ### the hand-written table -/

private def same : List Res := DataType.all.map .ty
private def const (t : DataType) : List Res := DataType.all.map (fun _ => .ty t)
private def elemOnly (f : DataType → Res) : List Res :=
  DataType.all.map (fun t => if t.isElement then f t else .err)
private def vertexOnly (r : Res) : List Res :=
  DataType.all.map (fun t => if t == .vertex then r else .err)
private def startOnly (t : DataType) : List Res :=
  DataType.all.map (fun l => if l == .noData then .ty t else .err)

def handTable : TypingTable :=
  let e (k : Kind) (res : List Res) (checks : List ArgCheck := []) (sm : Bool := false)
        (v : Variant := .plain) : TypingEntry :=
    { kind := k, variant := v, res := res, checks := checks, setsMark := sm }
  [ e .V (startOnly .vertex), e .E (startOnly .edge),
    e .in_ (elemOnly fun _ => .ty .vertex), e .inNull (elemOnly fun _ => .ty .vertex),
    e .out (elemOnly fun _ => .ty .vertex), e .outNull (elemOnly fun _ => .ty .vertex),
    e .both (elemOnly fun _ => .ty .vertex),
    e .inE (vertexOnly (.ty .edge)), e .inENull (vertexOnly (.ty .edge)),
    e .outE (vertexOnly (.ty .edge)), e .outENull (vertexOnly (.ty .edge)),
    e .bothE (vertexOnly (.ty .edge)),
    e .has (elemOnly .ty),
    e .hasLabel (elemOnly .ty) [.emptyList], e .hasKey (elemOnly .ty) [.emptyList],
    e .hasId (elemOnly .ty) [.emptyList],
    e .limit same, e .skip same, e .range same,
    e .count (const .count),
    e .distinct (elemOnly .ty),
    e .as_ (DataType.all.map fun t => if t == .noData then .err else .ty t)
      [.emptyName, .invalidName, .reservedName] true,
    e .set same, e .increment same, e .mark same, e .jump same,
    e .select (elemOnly fun _ => .err) [] false .len0,
    e .select (elemOnly fun _ => .markType) [] false .len1,
    e .select (elemOnly fun _ => .ty .selection) [] false .lenMany,
    e .render (elemOnly fun _ => .ty .render),
    e .path (elemOnly fun _ => .ty .path),
    e .unwind same,
    e .fields (elemOnly .ty),
    e .aggregate (elemOnly fun _ => .ty .aggregation) [.aggNames],
    e .lookupVertsIndex (const .vertex),
    e .engineCustom (DataType.all.map fun _ => .custom),
    e .unknown (DataType.all.map fun _ => .err) ]

end Grip
