/-
  Grip.Model.C06 — MODEL for "no request can crash the server": a panic-aware evaluation of the
  request handlers.  Core Lean only.

  `Option α` plays the role of "a Go computation that may panic": `none` = the goroutine panics
  (and, nothing in grip recovering, the process dies).  Every Go operation of the anchored packages
  that can panic is written with one of the PRIMITIVES below, under the guard the source puts in
  front of it (after the `fix:` commits listed in docs/notes/C06.md):

    * `deref`        x.f / x.m() through a possibly-nil pointer         (nil dereference)
    * `index`        xs[i]                                              (index out of range)
    * `assertList`, `assertStr`   v.(T) without comma-ok                (failed type assertion)
    * `closeChan`, `sendChan`     close(ch), ch <- v                    (double close, send on closed)

  Removing a guard in this file (to mirror a code change that removes it in Go) makes
  `Grip.Props.C06.no_panic` fail; the table `GripGen.PanicSites` (regenerated from the Go source on
  every run) is matched against `siteTable` below so that a NEW unguarded site in the source has no
  entry and breaks `sites_covered`.

  What is not modelled: row contents beyond what decides nil-ness (C01/C19 own them), the
  optimizer's rewriting (C02; only its panic sites are here), mark/jump loops (C12; `mark` is the
  identity and a `jump` finds no mark → the pipeline yields nothing), panics inside third-party
  libraries (reachable only by the correspondence run).
-/
import Grip.Model.Eval

namespace Grip.C06
open Grip

/-- What the server does with a request. -/
inductive Outcome where
  | rows    -- answered (possibly with no rows)
  | error   -- answered with an error
  | panic   -- process-terminating panic
  deriving Repr, DecidableEq, Inhabited

/-! ### primitives: the Go operations that can panic -/

/-- `p.f` through a pointer: panics when `p` is nil. -/
def deref {α : Type} (p : Option α) : Option α := p

/-- `xs[i]`: panics when `i` is out of range. -/
def index {α : Type} (xs : List α) (i : Nat) : Option α := xs[i]?

/-- `v.([]interface{})` without comma-ok. -/
def assertList : JV → Option (List JV)
  | .arr xs => some xs
  | _ => none

/-- `v.(string)` without comma-ok. -/
def assertStr : JV → Option String
  | .str s => some s
  | _ => none

def isList : JV → Bool | .arr _ => true | _ => false
def isStr : JV → Bool | .str _ => true | _ => false

inductive Chan where | opened | closed
  deriving Repr, DecidableEq, Inhabited

/-- `close(ch)`: panics on a closed channel. -/
def closeChan : Chan → Option Chan
  | .opened => some .closed
  | .closed => none

/-- `ch <- v`: panics on a closed channel; on a nil channel (`none`) it blocks for ever, which is
    not a panic (termination is C07's subject). -/
def sendChan : Option Chan → Option Unit
  | some .closed => none
  | _ => some ()

/-! ### engine/core/optimize.go — the panic sites of IndexStartOptimize / extractHasVals -/

/-- the loop `for _, x := range v { s, ok := x.(string); if !ok { return []string{} } … }` -/
def withinStrings (xs : List JV) : Option (List String) :=
  if xs.all isStr then xs.mapM assertStr else some []

/-- `extractHasVals` (after `fix: extractHasVals no longer type-asserts the WITHIN value`). -/
def extractHasVals : C08.HasE → Option (List String)
  | .cond _ .eq (.str s) => some [s]
  | .cond _ .within v =>
    if !(isList v) then some []           -- v, ok := val.([]interface{}); if !ok { return }
    else do
      let xs ← assertList v
      withinStrings xs
  | _ => some []

mutual
  /-- has(and(...)) is replaced by one has-statement per conjunct, recursively. -/
  def flatHas : C08.HasE → List C08.HasE
    | .and es => flatHasList es
    | e => [e]
  def flatHasList : List C08.HasE → List C08.HasE
    | [] => []
    | e :: es => flatHas e ++ flatHasList es
end

/-- The statements the scan looks at: after `V()` (no ids), the run of hasId/hasLabel/has
    statements, conjunctions flattened. -/
def scanPrefix : List Stmt → List Stmt
  | [] => []
  | .hasId ids :: rest => .hasId ids :: scanPrefix rest
  | .hasLabel ls :: rest => .hasLabel ls :: scanPrefix rest
  | .has e :: rest => (flatHas e).map Stmt.has ++ scanPrefix rest
  | _ => []

def isIdStmt : Stmt → Bool
  | .hasId _ => true
  | .has (.cond k _ _) => Path.jsonPathOf k == ["gid"]
  | _ => false

def isLabelStmt : Stmt → Bool
  | .hasLabel _ => true
  | .has (.cond k _ _) => Path.jsonPathOf k == ["label"]
  | _ => false

def idxWhere (p : Stmt → Bool) (pipe : List Stmt) : List Nat :=
  (List.range pipe.length).filter (fun i => match pipe[i]? with | some s => p s | none => false)

/-- `if len(idx) > 0 { i := idx[0]; s := pipe[i]; if has … extractHasVals(has) }` -/
def lookupSite (pipe : List Stmt) (idxs : List Nat) : Option Unit :=
  if idxs.length > 0 then do
    let i ← index idxs 0
    let s ← index pipe i
    match s with
    | .has e => do let _ ← extractHasVals e; pure ()
    | _ => pure ()
  else pure ()

/-- The panic sites of `IndexStartOptimize` on a traversal. -/
def optimizerP : List Stmt → Option Unit
  | .V [] :: rest => do
    let pipe := Stmt.V [] :: scanPrefix rest
    lookupSite pipe (idxWhere isIdStmt pipe)
    lookupSite pipe (idxWhere isLabelStmt pipe)
  | _ => pure ()

/-! ### engine/core/compile.go, engine/pipeline/state.go -/

/-- `inspect.PipelineSteps`: one entry per statement. -/
def pipelineSteps (stmts : List Stmt) : List Nat := stmts.map (fun _ => 0)

def aggNames : List Agg → List String := List.map (·.name)

/-- the `Aggregate` arm after `fix: the duplicate aggregation name check records the names`. -/
def dupCheck : Stmt → Except TypeErr Unit
  | .aggregate aggs => if (aggNames aggs).Nodup then .ok () else .error .emptyArgs
  | _ => .ok ()

/-- `StatementProcessor` as far as accept/reject goes: C01's typing step plus the duplicate check
    (which sits after the last-type test in the arm). -/
def typeStepC (st : TState) (s : Stmt) : Except TypeErr TState :=
  match typeStep st s with
  | .error e => .error e
  | .ok st' => match dupCheck s with
    | .error e => .error e
    | .ok () => .ok st'

/-- The loop of `Compile`: `ps.SetCurStatment(i)` indexes `ps.Steps`. -/
def compileLoop (steps : List Nat) (st : TState) : Nat → List Stmt → Option (Except TypeErr TState)
  | _, [] => some (.ok st)
  | i, s :: rest => do
    let _ ← index steps i
    match typeStepC st s with
    | .error e => some (.error e)
    | .ok st' => compileLoop steps st' (i + 1) rest

def compileP (stmts : List Stmt) : Option (Except TypeErr TState) :=
  match validate stmts with
  | .error e => some (.error e)
  | .ok () => compileLoop (pipelineSteps stmts) {} 0 stmts

/-! ### engine/core/processors.go, jsonpath/jsonpath.go, gdbi/traveler.go -/

/-- A processor body that reads a field of `t.GetCurrent()` behind an `IsNull()` guard. -/
def withCur (t : Traveler) (onNull : List Traveler) (k : Elem → List Traveler) :
    Option (List Traveler) :=
  if t.cur.isNone then some onNull              -- the guard
  else (deref t.cur).map k                      -- t.GetCurrent().X

/-- `GetCurrentID` (nil-safe since `fix: processors tolerate travelers without a current element`). -/
def getCurrentID (t : Traveler) : String :=
  if t.cur.isNone then "" else curId t

/-- outNull / inNull from a vertex: the matches, or the traveler with a null current. -/
def stepAdjNull (g : AGraph) (out : Bool) (labels : List String) (t : Traveler) : List Traveler :=
  let id := getCurrentID t
  let es := if out then g.outEdges id labels else g.inEdges id labels
  if es.isEmpty then [t.addCurrent none]
  else (es.filterMap (fun e => g.getVertex (if out then e.to else e.frm))).map
         (fun v => t.addCurrent (some (vertexElem v)))

/-- outENull / inENull. -/
def stepAdjENull (g : AGraph) (out : Bool) (labels : List String) (t : Traveler) : List Traveler :=
  let id := getCurrentID t
  let es := if out then g.outEdges id labels else g.inEdges id labels
  if es.isEmpty then [t.addCurrent none] else es.map (fun e => t.addCurrent (some (edgeElem e)))

/-- `LookupEdgeAdjOut/In`: `t.GetCurrent().To/From` behind `!t.IsNull()`. -/
def stepEdgeEnd (g : AGraph) (out : Bool) (t : Traveler) : Option (List Traveler) :=
  withCur t [] (fun e =>
    ((g.getVertex (if out then e.to else e.frm)).toList).map (fun v => t.addCurrent (some (vertexElem v))))

/-- `BaseTraveler.Copy`: every mark is dereferenced behind `if v == nil`. -/
def copyMarks : List (String × Option Elem) → Option (List (String × Option Elem))
  | [] => some []
  | (k, v) :: rest => do
    let v' ← (if v.isNone then some none else (deref v).map some)
    let rest' ← copyMarks rest
    pure ((k, v') :: rest')

def copyP (t : Traveler) : Option Traveler := do
  let ms ← copyMarks t.marks
  pure { cur := t.cur, marks := ms, path := t.path }

/-- the aggregate processor's channel discipline: one channel per NAME, closed once per
    aggregation of the list. `closed` = names whose channel is closed. -/
def closeAll (closed : List String) : List String → Option Unit
  | [] => some ()
  | n :: ns => do
    let _ ← closeChan (if closed.contains n then Chan.closed else Chan.opened)
    closeAll (n :: closed) ns

/-- histogram finaliser: `min := fieldValues[0]; max := fieldValues[len-1]` behind `len == 0`. -/
def histogramP (name : String) (vals : List Int) : Option (List Traveler) :=
  if vals.isEmpty then some []
  else do
    let mn ← index vals 0
    let mx ← index vals (vals.length - 1)
    pure [{ agg := some ⟨name, .num mn, 1⟩ }, { agg := some ⟨name, .num mx, 1⟩ }]

def numVals (field : String) (ts : List Traveler) : List Int :=
  ts.filterMap (fun t => match t.value field with | .num n => some n | _ => none)

/-- One aggregation's finaliser (row contents are C19's; the shape is what matters here). -/
def finaliseP (ts : List Traveler) (a : Agg) : Option (List Traveler) :=
  match a.kind with
  | .histogram f _ => histogramP a.name (numVals f ts)
  | .unset => some []
  | .count => some [{ agg := some ⟨a.name, .str "count", ts.length⟩ }]
  | _ => some (ts.map (fun _ => { agg := some ⟨a.name, .null, 1⟩ }))

def aggregateP (aggs : List Agg) (ts : List Traveler) : Option (List Traveler) := do
  closeAll [] (aggNames aggs)
  let outs ← aggs.mapM (finaliseP ts)
  pure outs.flatten

/-- One statement on the stream. `from_` = data type in front of it. -/
def stepP (numOf : String → Option Int) (g : AGraph) (from_ : DataType) (s : Stmt)
    (ts : List Traveler) : Option (List Traveler) :=
  match s with
  | .out _ | .in_ _ =>
    if from_ == .edge then
      (ts.mapM (stepEdgeEnd g (match s with | .out _ => true | _ => false))).map List.flatten
    else some (evalStepT numOf g from_ s ts)
  | .both ls =>
    if from_ == .edge then do
      let a ← ts.mapM (stepEdgeEnd g false)
      let b ← ts.mapM (stepEdgeEnd g true)
      pure (a.flatten ++ b.flatten)
    else some (evalStepT numOf g from_ (.both ls) ts)
  | .outNull ls =>
    if from_ == .edge then (ts.mapM (stepEdgeEnd g true)).map List.flatten
    else some (ts.flatMap (stepAdjNull g true ls))
  | .inNull ls =>
    if from_ == .edge then (ts.mapM (stepEdgeEnd g false)).map List.flatten
    else some (ts.flatMap (stepAdjNull g false ls))
  | .outENull ls => some (ts.flatMap (stepAdjENull g true ls))
  | .inENull ls => some (ts.flatMap (stepAdjENull g false ls))
  | .hasLabel ls =>
    (ts.mapM (fun t => withCur t [] (fun e => if ls.contains e.label then [t] else []))).map List.flatten
  | .fields ks =>
    (ts.mapM (fun t => withCur t [t] (fun _ => [stepFields ks t]))).map List.flatten
  | .unwind f =>
    (ts.mapM (fun t => withCur t [t] (fun _ => stepUnwind f t))).map List.flatten
  | .increment _ _ => ts.mapM copyP
  | .aggregate aggs => aggregateP aggs ts
  | .jump _ _ _ => some []      -- no such mark (loops are C12's): `Start` returns a closed channel
  | s => some (evalStepT numOf g from_ s ts)

/-- `pipeline.Convert`: the dereferences behind their guards. -/
def convertP (g : AGraph) (st : TState) (t : Traveler) : Option Row :=
  match st.last with
  | .aggregation =>
    if t.agg.isNone then some .nil          -- `if agg == nil`
    else (deref t.agg).map Row.agg          -- agg.Key, agg.Name, agg.Value
  | .vertex =>
    if t.cur.isNone then some (.vertex none)
    else (deref t.cur).map (fun e =>
      -- `if !ve.Loaded { ve = graph.GetVertex(ve.ID, true) }`; ToVertex is nil-safe
      .vertex (if e.loaded then some e else g.getVertex e.gid))
  | .edge =>
    if t.cur.isNone then some (.edge none)
    else (deref t.cur).map (fun e => .edge (if e.loaded then some e else g.getEdge e.gid))
  | _ => some (convert st t)

def evalP (numOf : String → Option Int) (g : AGraph) (st : TState) (ts : List Traveler) :
    List Stmt → Option (List Traveler)
  | [] => some ts
  | s :: rest =>
    match typeStepC st s with
    | .error _ => some []
    | .ok st' => do
      let ts' ← stepP numOf g st.last s ts
      evalP numOf g st' ts' rest

/-- `server.Traversal` on an existing graph. -/
def traversalP (numOf : String → Option Int) (g : AGraph) (stmts : List Stmt) : Outcome :=
  if stmts.isEmpty then .rows else
  match optimizerP stmts with
  | none => .panic
  | some () =>
    match compileP stmts with
    | none => .panic
    | some (.error _) => .error
    | some (.ok st) =>
      match evalP numOf g {} [Traveler.seed] stmts with
      | none => .panic
      | some ts =>
        match ts.mapM (convertP g st) with
        | none => .panic
        | some _ => .rows

/-! ### server/api.go -/

structure VSpec where
  gid : String
  label : String
  keysOk : Bool      -- every data key passes gripql.ValidateFieldName
  deriving Repr, Inhabited

structure ESpec where
  gid : String
  label : String
  frm : String
  to : String
  keysOk : Bool
  deriving Repr, Inhabited

/-- gripql.GraphElement. -/
structure GElem where
  graph : String
  vertex : Option VSpec := none
  edge : Option ESpec := none
  deriving Repr, Inhabited

def VSpec.valid (v : VSpec) : Bool := v.gid != "" && v.label != "" && v.keysOk
/-- `Edge.Validate` after the blank gid was replaced by a UUID. -/
def ESpec.valid (e : ESpec) : Bool := e.label != "" && e.frm != "" && e.to != "" && e.keysOk

def isSchema (name : String) : Bool := name.endsWith "__schema__"

/-- `addVertex`: `elem.Vertex.Validate()` behind `if vertex == nil`. -/
def addVertexP (graphs : List String) (el : GElem) : Outcome :=
  if isSchema el.graph then .error
  else if !(graphs.contains el.graph) then .error
  else if el.vertex.isNone then .error
  else match deref el.vertex with
    | none => .panic
    | some v => if v.valid then .rows else .error

def addEdgeP (graphs : List String) (el : GElem) : Outcome :=
  if isSchema el.graph then .error
  else if !(graphs.contains el.graph) then .error
  else if el.edge.isNone then .error
  else match deref el.edge with
    | none => .panic
    | some e => if e.valid then .rows else .error

/-- State of the receive loop of `BulkAdd`. `stream = none`: `elementStream == nil`. -/
structure BulkState where
  graphName : String := ""
  stream : Option Chan := none
  deriving Repr, Inhabited

/-- the two `elementStream <- gdbi.NewGraphElement(element)` sends of one element -/
def sendBoth (el : GElem) (stream : Option Chan) : Option Unit := do
  if (el.vertex.map VSpec.valid).getD false then sendChan stream
  if (el.edge.map ESpec.valid).getD false then sendChan stream

/-- `if elementStream != nil { close(elementStream) }` -/
def closeIfOpen : Option Chan → Option Unit
  | none => some ()
  | some c => (closeChan c).map (fun _ => ())

/-- One received element (after `fix: BulkAdd keeps no element stream open after a graph could
    not be resolved`). -/
def bulkStep (graphs : List String) (st : BulkState) (el : GElem) : Option BulkState :=
  if isSchema el.graph then some st
  else if st.stream.isNone || el.graph != st.graphName then
    match closeIfOpen st.stream with         -- …; elementStream = nil
    | none => none
    | some () =>
      if graphs.contains el.graph then
        match sendBoth el (some .opened) with  -- elementStream = make(chan …)
        | none => none
        | some () => some { graphName := el.graph, stream := some .opened }
      else some { st with stream := none }     -- errorCount++; continue
  else
    match sendBoth el st.stream with
    | none => none
    | some () => some st

def bulkLoop (graphs : List String) (st : BulkState) : List GElem → Option BulkState
  | [] => some st
  | el :: rest => do
    let st' ← bulkStep graphs st el
    bulkLoop graphs st' rest

/-- `BulkAdd`: the loop, then `if elementStream != nil { close(elementStream) }`. -/
def bulkAddP (graphs : List String) (els : List GElem) : Outcome :=
  match bulkLoop graphs {} els with
  | none => .panic
  | some st =>
    match closeIfOpen st.stream with
    | none => .panic
    | some () => .rows

/-! ### requests -/

structure Server where
  graphs : List String := []   -- names of the graphs that exist
  g : AGraph := {}             -- content of the graph the traversals run on
  deriving Inhabited

inductive Req where
  | traversal (graph : String) (stmts : List Stmt)
  | bulkAdd (els : List GElem)
  | addVertex (el : GElem)
  | addEdge (el : GElem)
  | lookup (graph : String) (found : Bool)   -- GetVertex/GetEdge/DeleteVertex/DeleteEdge
  deriving Inhabited

def handle (numOf : String → Option Int) (srv : Server) : Req → Outcome
  | .traversal graph stmts =>
    if srv.graphs.contains graph then traversalP numOf srv.g stmts else .error
  | .bulkAdd els => bulkAddP srv.graphs els
  | .addVertex el => addVertexP srv.graphs el
  | .addEdge el => addEdgeP srv.graphs el
  | .lookup graph found => if srv.graphs.contains graph && found then .rows else .error

/-! ### the site table: every panic site of the anchored sources ↦ model branch or discharge -/

/-- How a site of `GripGen.PanicSites` is accounted for. -/
inductive Cover where
  | model (branch : String)      -- an explicit primitive in this file (named definition)
  | discharged (reason : String) -- cannot fail: named reason
  deriving Repr, DecidableEq, Inhabited

end Grip.C06
