/-
  Grip.Model.C17 — MODEL for property C17, part (i): the lockset discipline over the regenerated
  table `GripGen.SharedAccess.accesses` (one row per syntactic access to a shared location, see
  tools/extract/c17_shared.go).

  * `concurrent a b`   — may the two accesses run at the same time on the same instance of the
                         location?  Fields of the long-lived shared structs: whenever both functions
                         are reachable from a concurrent entry point (handlers run concurrently with
                         each other and with themselves).  Captured locals of a goroutine-spawning
                         function (one instance per invocation): two different goroutines of that
                         invocation, or one `go` closure started in a loop with itself; the spawning
                         goroutine takes part only between its first `go` and the WaitGroup join.
  * `conflicting a b`  — same location, at least one write, concurrent.
  * `guarded a b`    — a common mutex, held exclusively by every writer of the pair, or both
                         accesses go through sync/atomic.  (sync.Map, channels, mutexes need no case:
                         operating on them only READS the variable that holds them; re-assigning such
                         a variable is a write and is checked like any other.)
  * `justified`        — pairs the syntactic lockset cannot credit but for which a happens-before
                         argument (stated next to each entry) or the property's quantifier (shutdown
                         path) applies.  Keyed by (location, side, side) with side = (function,
                         goroutine, write?, holds a mutex?) — stable names, no line numbers.
                         Anything NOT listed is a violation.
  * `openFindings`     — pairs that are genuine defects recorded in findings/C17.jsonl.

  The lockset table is a syntactic over-approximation of "no data race" in the Go memory-model
  sense: the Go memory model itself is not expressible here.
-/
import GripGen.SharedAccess

namespace Grip.C17
open GripGen.SharedAccess

def concurrent (a b : Access) : Bool :=
  if a.shared then a.conc && b.conc
  else
    a.fn == b.fn &&
    (if a.thread == b.thread then a.thread != 0 && a.multi
     else (a.thread != 0 || a.phase == 1) && (b.thread != 0 || b.phase == 1))

def conflicting (a b : Access) : Bool :=
  a.loc == b.loc && (a.write || b.write) && concurrent a b

def commonLock (a b : Access) : Bool :=
  a.locks.any fun la => b.locks.any fun lb =>
    la.1 == lb.1 && (la.2 || !a.write) && (lb.2 || !b.write)

def guarded (a b : Access) : Bool :=
  (a.atomic && b.atomic) || commonLock a b

/-- one side of a pair: function, goroutine, is it a write, does it hold any mutex -/
abbrev SideKey := Nat × Nat × Bool × Bool
/-- (location, side, side).  The key says WHICH accesses of the two goroutines are meant (a
    locked write against an unlocked read, …): taking a mutex away on either side changes the key,
    so the pair is no longer covered by an entry below. -/
abbrev PairKey := Nat × SideKey × SideKey

def sideOf (a : Access) : SideKey := (a.fn, a.thread, a.write, !a.locks.isEmpty)
def keyOf (a b : Access) : PairKey := (a.loc, sideOf a, sideOf b)

def keyMatches (k : PairKey) (a b : Access) : Bool :=
  keyOf a b == k || keyOf b a == k

/-- Pairs accepted on a happens-before argument or because they lie outside the property's
    quantifier.  Each entry: key, reason. -/
def justified : List (PairKey × String) := [
  -- queue.New: the output goroutine (#2) prints len(queue)/inCount WITHOUT the mutex, but only
  -- after it has seen closed=true under the mutex; the input goroutine (#1) writes queue/inCount
  -- under the mutex and sets closed under the same mutex after its last write, so every write of
  -- #1 happens before these reads.
  ((L.queue_New_queue, (F.queue_New, 1, true, true), (F.queue_New, 2, false, false)),
    "read after observing closed under the mutex; the locked writer is finished"),
  ((L.queue_New_inCount, (F.queue_New, 1, true, true), (F.queue_New, 2, false, false)),
    "read after observing closed under the mutex; the locked writer is finished"),
  -- Serve: grpcErr/httpErr are written when the listeners stop and read on the shutdown path;
  -- shutdown is outside "clients issue calls against a running server".
  ((L.server_GripServer_Serve_grpcErr, (F.server_GripServer_Serve, 0, false, false), (F.server_GripServer_Serve, 1, true, false)),
    "shutdown path, outside the property's quantifier"),
  ((L.server_GripServer_Serve_httpErr, (F.server_GripServer_Serve, 0, false, false), (F.server_GripServer_Serve, 2, true, false)),
    "shutdown path, outside the property's quantifier")
]

/-- Genuine unprotected pairs recorded as open findings (findings/C17.jsonl): key, finding id. -/
def openFindings : List (PairKey × String) := []

/-- Constructors: the object they fill in is not yet reachable by any other goroutine (it is
    returned to the caller afterwards), so their unlocked accesses to its fields cannot race with
    the accessors.  `kvindex.NewIndex` reloads `Fields` from the persisted field keys (C04's
    repair) before returning the index. -/
def constructors : List Nat := [F.kvindex_NewIndex]

def isJustified (a b : Access) : Bool :=
  (justified.any fun e => keyMatches e.1 a b) ||
  ((constructors.contains a.fn && a.thread == 0) || (constructors.contains b.fn && b.thread == 0))
def findingOf (a b : Access) : Option String :=
  (openFindings.find? fun e => keyMatches e.1 a b).map (·.2)
def isFinding (a b : Access) : Bool := (findingOf a b).isSome

def okPair (a b : Access) : Bool :=
  !conflicting a b || guarded a b || isJustified a b || isFinding a b

def strictPair (a b : Access) : Bool :=
  !conflicting a b || guarded a b || isJustified a b

/-- the whole-table check -/
def checkTable (t : List Access) : Bool := t.all fun a => t.all fun b => okPair a b
def checkTableStrict (t : List Access) : Bool := t.all fun a => t.all fun b => strictPair a b

/-- unexplained pairs, for diagnostics (driver) -/
def badPairs (t : List Access) : List (Access × Access) :=
  t.flatMap fun a => (t.filter fun b => !okPair a b).map fun b => (a, b)

def findingPairs (t : List Access) : List (Access × Access × String) :=
  t.flatMap fun a => t.filterMap fun b =>
    if conflicting a b && !guarded a b && !isJustified a b then (findingOf a b).map fun f => (a, b, f) else none

def nameOf (xs : List String) (i : Nat) : String := xs.getD i ("#" ++ toString i)

def threadName (a : Access) : String :=
  nameOf fnNames a.fn ++ (if a.thread == 0 then "" else "#go" ++ toString a.thread)

/-- stable display key: location|f|g with f ≤ g -/
def pairName (a b : Access) : String :=
  let f := threadName a
  let g := threadName b
  nameOf locNames a.loc ++ "|" ++ (if f ≤ g then f ++ "|" ++ g else g ++ "|" ++ f)

def dedup (xs : List String) : List String := (xs.mergeSort (· ≤ ·)).eraseDups

def badPairNames : List String := dedup ((badPairs accesses).map fun p => pairName p.1 p.2)

/-- names of the functions (with goroutine) that take part in some conflicting pair on `loc`,
    protected or not: used to map a race report onto the table. -/
def knownThreadsOf (loc : Nat) : List String :=
  dedup ((accesses.filter fun a => a.loc == loc).map threadName)

/-- every justified/finding entry must still denote a conflicting unprotected pair of the table:
    stale exceptions are reported (they would otherwise silently widen what is accepted). -/
def entryLive (k : PairKey) : Bool :=
  accesses.any fun a => accesses.any fun b => keyOf a b == k && conflicting a b && !guarded a b

def staleEntries : List PairKey :=
  (justified.map (·.1) ++ openFindings.map (·.1)).filter fun k => !entryLive k

end Grip.C17
