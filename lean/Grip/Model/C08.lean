/-
  Grip.Model.C08 — MODEL of engine/logic/match.go (MatchesCondition / MatchesHasExpression).
  Follows the structure of the Go code: `cast.ToFloat64E`-style coercion with early `return
  false` on every failed cast, the `found` flag loops, the and/or result slices.
-/
import Grip.Basic
import Grip.Model.Path

namespace Grip.C08

inductive Cond where
  | eq | neq | gt | gte | lt | lte | inside | outside | between | within | without | contains
  | unset   -- Condition_UNKNOWN_CONDITION (0) and any number the switch does not list
  deriving Repr, DecidableEq, Inhabited

inductive HasE where
  | cond (key : String) (c : Cond) (arg : JV)
  | and (es : List HasE)
  | or (es : List HasE)
  | not (e : HasE)
  | none    -- expression oneof not set
  deriving Repr, Inhabited

/-- `toNumber` of match.go: `cast.ToFloat64E` restricted to what decoded JSON can hold, with
    booleans refused (numbers and numeric text only). `numOf` stands for strconv.ParseFloat. -/
def toNum (numOf : String → Option Int) : JV → Option Int
  | .num n => some n
  | .str s => numOf s
  | _ => none

/-- `cast.ToSliceE` on decoded JSON. -/
def toSlice : JV → Option (List JV)
  | .arr xs => some xs
  | _ => none

/-- The `for … if DeepEqual { found = true }` loop. -/
def foundIn (v : JV) : List JV → Bool
  | [] => false
  | x :: xs => let r := foundIn v xs; if v == x then true else r

def cmp2 (numOf : String → Option Int) (v arg : JV) (f : Int → Int → Bool) : Bool :=
  match toNum numOf v with
  | none => false
  | some a => match toNum numOf arg with
    | none => false
    | some b => f a b

def range3 (numOf : String → Option Int) (v arg : JV) (f : Int → Int → Int → Bool) : Bool :=
  match toSlice arg with
  | none => false
  | some vals =>
    match vals with
    | [l, u] =>
      match toNum numOf l with
      | none => false
      | some lo => match toNum numOf u with
        | none => false
        | some hi => match toNum numOf v with
          | none => false
          | some x => f x lo hi
    | _ => false

/-- MatchesCondition; `v` is the result of TravelerPathLookup (missing ↦ nil ↦ `.null`). -/
def matchesCond (numOf : String → Option Int) (v : JV) (c : Cond) (arg : JV) : Bool :=
  match c with
  | .eq => v == arg
  | .neq => !(v == arg)
  | .gt => cmp2 numOf v arg (fun a b => a > b)
  | .gte => cmp2 numOf v arg (fun a b => a ≥ b)
  | .lt => cmp2 numOf v arg (fun a b => a < b)
  | .lte => cmp2 numOf v arg (fun a b => a ≤ b)
  | .inside => range3 numOf v arg (fun x lo hi => x > lo && x < hi)
  | .outside => range3 numOf v arg (fun x lo hi => x < lo || x > hi)
  | .between => range3 numOf v arg (fun x lo hi => x ≥ lo && x < hi)
  | .within => match arg with
    | .arr xs => foundIn v xs
    | _ => false
  | .without => match arg with
    | .arr xs => !(foundIn v xs)
    | _ => !false
  | .contains => match v with
    | .arr xs => foundIn arg xs
    | _ => false
  | .unset => false

/-- The value a key resolves to on an element (nil on lookup error). -/
def lookup (e : Elem) (key : String) : JV :=
  match Path.lookupDoc (Path.toDict e) key with
  | some v => v
  | none => .null

def allTrue : List Bool → Bool
  | [] => true
  | r :: rs => if !r then false else allTrue rs

def anyTrue : List Bool → Bool
  | [] => false
  | r :: rs => if r then true else anyTrue rs

mutual
  /-- MatchesHasExpression. -/
  def eval (numOf : String → Option Int) (e : Elem) : HasE → Bool
    | .cond k c a => matchesCond numOf (lookup e k) c a
    | .and es => allTrue (evalList numOf e es)
    | .or es => anyTrue (evalList numOf e es)
    | .not x => !(eval numOf e x)
    | .none => false
  def evalList (numOf : String → Option Int) (e : Elem) : List HasE → List Bool
    | [] => []
    | x :: xs => eval numOf e x :: evalList numOf e xs
end

/-- `Has` processor: keep exactly the matching rows, in order. -/
def hasFilter (numOf : String → Option Int) (x : HasE) (rows : List Elem) : List Elem :=
  rows.filter (fun e => eval numOf e x)

end Grip.C08
