/-
  Grip.Model.Eval — the step-by-step traversal semantics (DESIGN.md §4.4): every documented step
  as a function `List Traveler → List Traveler` over the abstract graph, following the processors
  of engine/core/processors.go one by one, and `run` = type check, fold, convert.
  Core Lean only.  Shared by C01, C02, C06, C11, C15, C19.

  Source of each meaning: website/content/docs/queries/*.md and conformance/tests/ot_*.py.
  Where those are silent the code's behaviour is adopted and marked  [code]  below:
    * `fields` include/exclude rules for nested paths (jsonpath.SelectTravelerFields),
    * `unwind` of a non-list / empty list (one copy with the field set to null),
    * `render` of a non-string template leaf (null), of a path that names no field (whole document),
    * `distinct` on a missing field (the row is dropped — conformance agrees),
    * `in/out/both` from an *edge* ignore the label list,
    * `select` of one undefined mark (null element typed NoData), of several marks (undefined ones
      are left out), what `as`, `select`, `fields` do to the path,
  Statements without a C01 meaning (aggregate, mark/jump, set/increment, *Null moves,
  lookupVertsIndex, engineCustom) are the identity here; the properties that own them refine
  `evalStep` on their fragment.
-/
import Grip.Model.Graph
import Grip.Model.Stmt
import Grip.Model.Typing

namespace Grip

/-! ### JSON object helpers (objects are association lists with unique keys) -/

namespace JV

def objSet (kvs : List (String × JV)) (k : String) (v : JV) : List (String × JV) :=
  if kvs.any (·.1 == k) then kvs.map (fun kv => if kv.1 == k then (k, v) else kv) else kvs ++ [(k, v)]

def objDel (kvs : List (String × JV)) (k : String) : List (String × JV) :=
  kvs.filter (fun kv => !(kv.1 == k))

def objHas (kvs : List (String × JV)) (k : String) : Bool := kvs.any (·.1 == k)

def fields : JV → List (String × JV)
  | .obj kvs => kvs
  | _ => []

/-- `jsonpath.JsonPathSet` on dotted object paths: the parent must exist and be an object. -/
def setPath (v : JV) : List String → JV → JV
  | [], _ => v
  | [k], x => match v with
    | .obj kvs => .obj (objSet kvs k x)
    | _ => v
  | k :: rest, x => match v with
    | .obj kvs => (match (kvs.find? (·.1 == k)) with
      | some (_, child) => .obj (objSet kvs k (setPath child rest x))
      | none => v)
    | _ => v

end JV

/-! ### field references on travelers (jsonpath/jsonpath.go) -/

def elemDict : Option Elem → JV
  | some e => Path.toDict e
  | none => Path.nilDict

/-- `GetDoc`. -/
def Traveler.doc (t : Traveler) (path : String) : JV :=
  match Path.namespaceOf path with
  | none => elemDict t.cur
  | some ns => if ns == currentNamespace then elemDict t.cur else elemDict (t.getMark ns)

/-- `TravelerPathLookup`: nil on a lookup error; the whole document when the path names no field. -/
def Traveler.value (t : Traveler) (path : String) : JV :=
  match Path.lookupDoc (t.doc path) path with
  | some v => v
  | none => .null

/-- `TravelerPathExists`. -/
def Traveler.fieldExists (t : Traveler) (path : String) : Bool :=
  if (Path.jsonPathOf path).isEmpty then false else (Path.lookupDoc (t.doc path) path).isSome

/-! ### has (engine/logic/match.go over a traveler; C08 owns the operators) -/

mutual
  /-- `MatchesHasExpression` with the field lookup abstracted (`look` = `TravelerPathLookup`). -/
  def evalHas (numOf : String → Option Int) (look : String → JV) : C08.HasE → Bool
    | .cond k c a => C08.matchesCond numOf (look k) c a
    | .and es => C08.allTrue (evalHasList numOf look es)
    | .or es => C08.anyTrue (evalHasList numOf look es)
    | .not x => !(evalHas numOf look x)
    | .none => false
  def evalHasList (numOf : String → Option Int) (look : String → JV) : List C08.HasE → List Bool
    | [] => []
    | x :: xs => evalHas numOf look x :: evalHasList numOf look xs
end

/-! ### per-traveler steps -/

def vertexElem (v : Elem) : Elem := { gid := v.gid, label := v.label, data := v.data }
def edgeElem (e : Elem) : Elem := { gid := e.gid, label := e.label, frm := e.frm, to := e.to, data := e.data }

def curId (t : Traveler) : String := (t.cur.map (·.gid)).getD ""
def curLabel (t : Traveler) : String := (t.cur.map (·.label)).getD ""
def curFrom (t : Traveler) : String := (t.cur.map (·.frm)).getD ""
def curTo (t : Traveler) : String := (t.cur.map (·.to)).getD ""

/-- LookupVerts. -/
def stepV (g : AGraph) (ids : List String) (t : Traveler) : List Traveler :=
  if ids.isEmpty then g.verts.map (fun v => t.addCurrent (some (vertexElem v)))
  else (ids.filterMap g.getVertex).map (fun v => t.addCurrent (some (vertexElem v)))

/-- LookupEdges. -/
def stepE (g : AGraph) (ids : List String) (t : Traveler) : List Traveler :=
  if ids.isEmpty then g.edges.map (fun e => t.addCurrent (some (edgeElem e)))
  else (ids.filterMap g.getEdge).map (fun e => t.addCurrent (some (edgeElem e)))

/-- out(): LookupVertexAdjOut from a vertex, LookupEdgeAdjOut from an edge ([code]: labels ignored). -/
def stepOut (g : AGraph) (from_ : DataType) (labels : List String) (t : Traveler) : List Traveler :=
  if from_ == .edge then ((g.getVertex (curTo t)).toList).map (fun v => t.addCurrent (some (vertexElem v)))
  else (g.outVerts (curId t) labels).map (fun v => t.addCurrent (some (vertexElem v)))

def stepIn (g : AGraph) (from_ : DataType) (labels : List String) (t : Traveler) : List Traveler :=
  if from_ == .edge then ((g.getVertex (curFrom t)).toList).map (fun v => t.addCurrent (some (vertexElem v)))
  else (g.inVerts (curId t) labels).map (fun v => t.addCurrent (some (vertexElem v)))

def stepOutE (g : AGraph) (labels : List String) (t : Traveler) : List Traveler :=
  (g.outEdges (curId t) labels).map (fun e => t.addCurrent (some (edgeElem e)))

def stepInE (g : AGraph) (labels : List String) (t : Traveler) : List Traveler :=
  (g.inEdges (curId t) labels).map (fun e => t.addCurrent (some (edgeElem e)))

def keepHas (numOf : String → Option Int) (x : C08.HasE) (t : Traveler) : Bool :=
  evalHas numOf t.value x

/-- HasLabel: `if !t.IsNull() && contains(labels, t.GetCurrent().Label)` — a row without a
    current element is dropped whatever the labels are (even the label ""). -/
def keepHasLabel (labels : List String) (t : Traveler) : Bool :=
  t.cur.isSome && labels.contains (curLabel t)
def keepHasId (ids : List String) (t : Traveler) : Bool := ids.contains (curId t)
/-- HasKey: every key must exist (`found` is cleared by any missing key). -/
def keepHasKey (keys : List String) (t : Traveler) : Bool := keys.all t.fieldExists

def stepAs (name : String) (t : Traveler) : Traveler := t.addMark name t.cur

/-- MarkSelect (one mark) / Selector (several). -/
def stepSelect (marks : List String) (t : Traveler) : Traveler :=
  match marks with
  | [m] => t.addCurrent (t.getMark m)
  | ms => { sel := some (ms.eraseDups.map (fun m => (m, (t.getMark m).getD {}))) }

/-- `RenderTraveler`. -/
def renderT (t : Traveler) : JV → JV
  | .str s => t.value s
  | .obj kvs => .obj (renderObj t kvs)
  | .arr xs => .arr (renderArr t xs)
  | _ => .null
where
  renderObj (t : Traveler) : List (String × JV) → List (String × JV)
    | [] => []
    | (k, v) :: rest => (k, renderT t v) :: renderObj t rest
  renderArr (t : Traveler) : List JV → List JV
    | [] => []
    | v :: rest => renderT t v :: renderArr t rest

def stepRender (tpl : JV) (t : Traveler) : Traveler := { render := renderT t tpl }

/-! #### fields  [code]  (jsonpath.SelectTravelerFields / includeFields / excludeFields) -/

structure ExclState where
  e : Elem
  data : List (String × JV)     -- the local `data` map of excludeFields
  cleared : Bool := false        -- result.Data was replaced by a fresh empty map
  deriving Inhabited

/-- the `default:` arm of excludeFields for one path. -/
def exclWalk (orig : List (String × JV)) (data : List (String × JV)) : List String → List (String × JV)
  | [] => data
  | p :: rest =>
    if p == "data" then exclWalk orig data rest
    else if rest.isEmpty then (if JV.objHas data p then JV.objDel data p else data)
    else match orig.find? (·.1 == p) with
      | some (_, .obj m) => exclWalk orig (JV.objSet data p (.obj m)) rest
      | _ => data

def exclOne (orig : Elem) (s : ExclState) (parts : List String) : ExclState :=
  match parts with
  | ["gid"] => { s with e := { s.e with gid := "" } }
  | ["label"] => { s with e := { s.e with label := "" } }
  | ["from"] => { s with e := { s.e with frm := "" } }
  | ["to"] => { s with e := { s.e with to := "" } }
  | ["data"] => { s with cleared := true }
  | ps => { s with data := exclWalk orig.data.fields s.data ps }

def excludeFields (elem : Elem) (paths : List (List String)) : Elem :=
  let s := paths.foldl (exclOne elem) { e := elem, data := elem.data.fields }
  { s.e with data := if s.cleared then .obj [] else .obj s.data }

/-- the `default:` arm of includeFields for one path: returns the updated newData. -/
def inclWalk (data : List (String × JV)) (nd : List (String × JV)) : List String → List (String × JV)
  | [] => nd
  | p :: rest =>
    if p == "data" then inclWalk data nd rest
    else if rest.isEmpty then
      (match data.find? (·.1 == p) with
       | some (_, v) => JV.objSet nd p v
       | none => nd)
    else match data.find? (·.1 == p) with
      | none => nd
      | some (_, v) =>
        let nd' := JV.objSet nd p (.obj [])
        match v with
        | .obj m => inclWalk m nd' rest
        | _ => nd'

def inclOne (old : Elem) (nd : List (String × JV)) (parts : List String) : List (String × JV) :=
  match parts with
  | ["gid"] => nd | ["label"] => nd | ["from"] => nd | ["to"] => nd
  | ["data"] => old.data.fields.foldl (fun acc kv => JV.objSet acc kv.1 kv.2) nd
  | ps => inclWalk old.data.fields nd ps

def includeFields (old : Elem) (paths : List (List String)) : JV :=
  .obj (paths.foldl (inclOne old) [])

/-- keys of the current namespace split into (include paths, exclude paths). -/
def fieldKeys (keys : List String) : List (List String) × List (List String) :=
  keys.foldl (fun (acc : List (List String) × List (List String)) key =>
    let excl := key.startsWith "-"
    let key := if excl then (key.drop 1).toString else key
    let cur := match Path.namespaceOf key with
      | none => true
      | some ns => ns == currentNamespace
    if !cur then acc
    else if excl then (acc.1, acc.2 ++ [Path.jsonPathOf key]) else (acc.1 ++ [Path.jsonPathOf key], acc.2)) ([], [])

def stepFields (keys : List String) (t : Traveler) : Traveler :=
  let (incl, excl) := fieldKeys keys
  -- `cde = t.GetCurrent(); if cde == nil { return t }`: nothing to select from (a *Null row)
  match t.cur with
  | none => t
  | some cur =>
  let cde := if excl.isEmpty then cur else excludeFields cur excl
  let data0 : JV := if excl.isEmpty then .obj [] else cde.data
  let ode : Elem := { gid := cde.gid, label := cde.label, frm := cde.frm, to := cde.to, data := data0 }
  let ode := if incl.isEmpty then ode else { ode with data := includeFields cde incl }
  -- a fresh traveler: the path restarts with the (still empty) new element
  { cur := some ode, marks := t.marks, path := [PathEl.vertex ""] }

/-! #### unwind  [code] -/

def setField (o : Elem) (field : String) (x : JV) : Elem :=
  let cur := match Path.namespaceOf field with
    | none => true
    | some ns => ns == currentNamespace
  if !cur then o   -- writes into a mark's shared map: outside the modelled fragment (never generated)
  else match Path.jsonPathOf field with
    | "data" :: k :: ks => { o with data := o.data.setPath (k :: ks) x }
    | _ => o

def stepUnwind (field : String) (t : Traveler) : List Traveler :=
  match t.cur with
  | none => [t]  -- `if t.IsNull() { out <- t; continue }`: nothing to replicate (after count, render, select, *Null)
  | some cur =>
    let items := match t.value field with
      | .arr (x :: xs) => x :: xs
      | _ => [.null]
    items.map (fun i => t.addCurrent (some (setField { cur with loaded := true } field i)))

/-! #### distinct -/

/-- The key `Distinct` builds (`%#v` of each looked-up value, NUL-joined): modelled as the list of
    values — `%#v` is injective on decoded JSON (trusted).  `none`: some field is missing. -/
def distinctKey (fields : List String) (t : Traveler) : Option (List JV) :=
  if fields.all t.fieldExists then some (fields.map t.value) else none

def distinctGo (fields : List String) (seen : List (List JV)) : List Traveler → List Traveler
  | [] => []
  | t :: ts => match distinctKey fields t with
    | none => distinctGo fields seen ts
    | some k => if seen.contains k then distinctGo fields seen ts
                else t :: distinctGo fields (k :: seen) ts

def stepDistinct (fields : List String) (ts : List Traveler) : List Traveler :=
  distinctGo (if fields.isEmpty then ["_gid"] else fields) [] ts

/-! #### limit / skip / range -/

/-- `Range`: emit index `i` iff `i ≥ start ∧ (i < stop ∨ stop = -1)`. -/
def rangeKeep (start stop : Int) (i : Nat) : Bool :=
  decide ((i : Int) ≥ start) && (decide ((i : Int) < stop) || stop == -1)

def rangeGo (start stop : Int) (i : Nat) : List Traveler → List Traveler
  | [] => []
  | t :: ts => if rangeKeep start stop i then t :: rangeGo start stop (i + 1) ts
               else rangeGo start stop (i + 1) ts

def stepRange (start stop : Int) (ts : List Traveler) : List Traveler := rangeGo start stop 0 ts

/-! ### one statement on a stream -/

/-- `from_` is the data type *before* the statement (the compiler chooses the processor by it). -/
def evalStepT (numOf : String → Option Int) (g : AGraph) (from_ : DataType) (s : Stmt)
    (ts : List Traveler) : List Traveler :=
  match s with
  | .V ids => ts.flatMap (stepV g ids)
  | .E ids => ts.flatMap (stepE g ids)
  | .out ls => ts.flatMap (stepOut g from_ ls)
  | .in_ ls => ts.flatMap (stepIn g from_ ls)
  | .outE ls => ts.flatMap (stepOutE g ls)
  | .inE ls => ts.flatMap (stepInE g ls)
  -- `both`: two sub-processors fed with every traveler; all in-results are emitted before all
  -- out-results (processors.go `both.Process`)
  | .both ls => ts.flatMap (stepIn g from_ ls) ++ ts.flatMap (stepOut g from_ ls)
  | .bothE ls => ts.flatMap (stepInE g ls) ++ ts.flatMap (stepOutE g ls)
  | .has x => ts.filter (keepHas numOf x)
  | .hasLabel ls => ts.filter (keepHasLabel ls)
  | .hasId ids => ts.filter (keepHasId ids)
  | .hasKey ks => ts.filter (keepHasKey ks)
  | .as_ n => ts.map (stepAs n)
  | .select ms => ts.map (stepSelect ms)
  | .fields ks => ts.map (stepFields ks)
  | .render tpl => ts.map (stepRender tpl)
  | .path _ => ts
  | .unwind f => ts.flatMap (stepUnwind f)
  | .distinct fs => stepDistinct fs ts
  | .count => [{ count := ts.length }]
  | .limit n => ts.take n
  | .skip n => ts.drop n
  | .range a b => stepRange a b ts
  -- no C01 meaning (owned by C02/C06/C12/C15/C19)
  | .inNull _ | .outNull _ | .inENull _ | .outENull _ | .aggregate _ | .mark _ | .jump _ _ _
  | .set _ _ | .increment _ _ | .lookupVertsIndex _ | .engineCustom _ _ | .unknown => ts

/-- `pipeline.Convert`. -/
def convert (st : TState) (t : Traveler) : Row :=
  match st.last with
  | .vertex => .vertex t.cur
  | .edge => .edge t.cur
  | .count => .count t.count
  | .selection =>
    .sel (((t.sel.getD []).filterMap (fun (kv : String × Elem) =>
      match st.marks.get kv.1 with
      | .vertex => some (kv.1, DataType.vertex, kv.2)
      | .edge => some (kv.1, DataType.edge, kv.2)
      | _ => none)))
  | .render => .render t.render
  | .path => .path t.path
  | .aggregation => match t.agg with
    | some a => .agg a
    | none => .nil
  | .noData => .nil

/-- Statements paired with the data type in front of them (the typing fold's trace). -/
def typedTrace (st : TState) : List Stmt → List (DataType × Stmt)
  | [] => []
  | s :: rest => (st.last, s) :: (match typeStep st s with
    | .ok st' => typedTrace st' rest
    | .error _ => [])

/-- The left fold of the step functions over the seed traveler. -/
def evalFrom (numOf : String → Option Int) (g : AGraph) (st : TState) (ts : List Traveler) :
    List Stmt → List Traveler
  | [] => ts
  | s :: rest => match typeStep st s with
    | .ok st' => evalFrom numOf g st' (evalStepT numOf g st.last s ts) rest
    | .error _ => []

/-- `Compile` + `pipeline.Run`: an ill-typed traversal is an error and no row; the empty statement
    list compiles to an empty pipeline that yields nothing. -/
def run (numOf : String → Option Int) (g : AGraph) (stmts : List Stmt) : Except TypeErr (List Row) :=
  match typeCheck stmts with
  | .error e => .error e
  | .ok st =>
    if stmts.isEmpty then .ok []
    else .ok ((evalFrom numOf g {} [Traveler.seed] stmts).map (convert st))

end Grip
