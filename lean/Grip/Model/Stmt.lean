/-
  Grip.Model.Stmt — the statement language, data types, travelers and result rows shared by all
  traversal properties (DESIGN.md §4.4).  Core Lean only.

  `Stmt` has one constructor per member of the protobuf oneof `gripql.GraphStatement.statement`
  (gripql/gripql.proto) plus the two Go-only statements the compiler knows
  (`LookupVertsIndex`, `EngineCustom`).  C01 gives semantics to the documented steps only
  (V/E, in/out/both[E], has*, as/select, fields, render, path, unwind, distinct, count,
  limit/skip/range); the other constructors exist so that C02/C06/C11/C12/C15/C19 can extend
  `evalStep` without changing the type.
-/
import Grip.Basic
import Grip.Model.Path
import Grip.Model.C08

namespace Grip

/-- gdbi.DataType (gdbi/interface.go), in declaration order. -/
inductive DataType where
  | noData | vertex | edge | count | aggregation | selection | render | path
  deriving Repr, DecidableEq, Inhabited

namespace DataType
def all : List DataType := [noData, vertex, edge, count, aggregation, selection, render, path]
theorem mem_all (t : DataType) : t ∈ all := by cases t <;> simp [all]
/-- The test that guards most cases of `StatementProcessor`. -/
def isElement : DataType → Bool
  | vertex => true | edge => true | _ => false
def toString : DataType → String
  | noData => "NoData" | vertex => "VertexData" | edge => "EdgeData" | count => "CountData"
  | aggregation => "AggregationData" | selection => "SelectionData" | render => "RenderData"
  | path => "PathData"
end DataType

/-- gripql.Aggregate (only the shape; C19 owns the meaning). -/
inductive AggKind where
  | term (field : String) (size : Int)
  | histogram (field : String) (interval : Int)
  | percentile (field : String) (percents : List Int)
  | field (field : String)
  | type (field : String)
  | count
  | unset
  deriving Repr, Inhabited

structure Agg where
  name : String
  kind : AggKind
  deriving Repr, Inhabited

/-- One constructor per GraphStatement (field numbers of gripql.proto in comments). -/
inductive Stmt where
  | V (ids : List String)                       -- v = 1
  | E (ids : List String)                       -- e = 2
  | in_ (labels : List String)                  -- in = 10
  | out (labels : List String)                  -- out = 11
  | inE (labels : List String)                  -- in_e = 12
  | outE (labels : List String)                 -- out_e = 13
  | both (labels : List String)                 -- both = 14
  | bothE (labels : List String)                -- both_e = 15
  | inNull (labels : List String)               -- in_null = 16
  | outNull (labels : List String)              -- out_null = 17
  | inENull (labels : List String)              -- in_e_null = 18
  | outENull (labels : List String)             -- out_e_null = 19
  | as_ (name : String)                         -- as = 20
  | select (marks : List String)                -- select = 21
  | limit (n : Nat)                             -- limit = 24 (uint32)
  | skip (n : Nat)                              -- skip = 25 (uint32)
  | range (start stop : Int)                    -- range = 26 (int32, int32)
  | has (e : C08.HasE)                          -- has = 30
  | hasLabel (labels : List String)             -- has_label = 31
  | hasKey (keys : List String)                 -- has_key = 32
  | hasId (ids : List String)                   -- has_id = 33
  | distinct (fields : List String)             -- distinct = 40
  | fields (keys : List String)                 -- fields = 50
  | unwind (field : String)                     -- unwind = 51
  | count                                       -- count = 60
  | aggregate (aggs : List Agg)                 -- aggregate = 61
  | render (template : JV)                      -- render = 62
  | path (template : List JV)                   -- path = 63
  | mark (name : String)                        -- mark = 70
  | jump (mark : String) (cond : Option C08.HasE) (emit : Bool)   -- jump = 71
  | set (key : String) (value : JV)             -- set = 72
  | increment (key : String) (value : Int)      -- increment = 73
  | lookupVertsIndex (labels : List String)     -- Go-only: written by IndexStartOptimize
  | engineCustom (desc : String) (type : DataType) -- Go-only: gripper / custom processors
  | unknown                                     -- oneof not set (compile error "unknown statement")
  deriving Repr, Inhabited

/-- Statement kinds: the `case` arms of the typing switch (regenerated table is keyed by these). -/
inductive Kind where
  | V | E | in_ | out | inE | outE | both | bothE | inNull | outNull | inENull | outENull
  | as_ | select | limit | skip | range | has | hasLabel | hasKey | hasId | distinct | fields
  | unwind | count | aggregate | render | path | mark | jump | set | increment
  | lookupVertsIndex | engineCustom | unknown
  deriving Repr, DecidableEq, Inhabited

def Stmt.kind : Stmt → Kind
  | .V _ => .V | .E _ => .E | .in_ _ => .in_ | .out _ => .out | .inE _ => .inE | .outE _ => .outE
  | .both _ => .both | .bothE _ => .bothE | .inNull _ => .inNull | .outNull _ => .outNull
  | .inENull _ => .inENull | .outENull _ => .outENull | .as_ _ => .as_ | .select _ => .select
  | .limit _ => .limit | .skip _ => .skip | .range _ _ => .range | .has _ => .has
  | .hasLabel _ => .hasLabel | .hasKey _ => .hasKey | .hasId _ => .hasId
  | .distinct _ => .distinct | .fields _ => .fields | .unwind _ => .unwind | .count => .count
  | .aggregate _ => .aggregate | .render _ => .render | .path _ => .path | .mark _ => .mark
  | .jump _ _ _ => .jump | .set _ _ => .set | .increment _ _ => .increment
  | .lookupVertsIndex _ => .lookupVertsIndex | .engineCustom _ _ => .engineCustom
  | .unknown => .unknown

/-- The statements C01's semantics covers (the documented steps of the property text). -/
def Kind.documented : Kind → Bool
  | .V | .E | .in_ | .out | .inE | .outE | .both | .bothE | .as_ | .select | .limit | .skip
  | .range | .has | .hasLabel | .hasKey | .hasId | .distinct | .fields | .unwind | .count
  | .render | .path => true
  | _ => false

/-- gdbi.DataElementID: one entry of a traveler's path. -/
inductive PathEl where
  | vertex (id : String) | edge (id : String) | empty
  deriving Repr, DecidableEq, Inhabited

/-- gdbi.Aggregate carried by a traveler. -/
structure AggVal where
  name : String
  key : JV
  value : Int
  deriving Repr, Inhabited, DecidableEq

/-- gdbi.BaseTraveler without the signal (signals only exist inside mark/jump loops, C12).
    `cur = none` is the Go nil `Current`; a mark may hold nil as well. -/
structure Traveler where
  cur : Option Elem := none
  marks : List (String × Option Elem) := []
  path : List PathEl := []
  count : Nat := 0
  render : JV := .null
  sel : Option (List (String × Elem)) := none
  agg : Option AggVal := none
  deriving Repr, Inhabited, DecidableEq

namespace Traveler

/-- `Marks[label]` (nil when absent or nil). -/
def getMark (t : Traveler) (m : String) : Option Elem :=
  match t.marks.find? (·.1 == m) with
  | some (_, e) => e
  | none => none

/-- Map assignment `Marks[label] = r`. -/
def setMark (ms : List (String × Option Elem)) (m : String) (r : Option Elem) :
    List (String × Option Elem) :=
  if ms.any (·.1 == m) then ms.map (fun kv => if kv.1 == m then (m, r) else kv) else ms ++ [(m, r)]

def pathElOf : Option Elem → PathEl
  | none => .empty
  | some r => if r.to != "" then .edge r.gid else .vertex r.gid

/-- `BaseTraveler.AddCurrent`: copies marks and path, appends to the path; count, render,
    selections and aggregation are *not* copied. -/
def addCurrent (t : Traveler) (r : Option Elem) : Traveler :=
  { cur := r, marks := t.marks, path := t.path ++ [pathElOf r] }

/-- `BaseTraveler.AddMark`: copies marks, path, current and the payload fields (count, render,
    selections, aggregation — since the `fix:` commit for finding C01-as-resets-payload). -/
def addMark (t : Traveler) (m : String) (r : Option Elem) : Traveler :=
  { t with marks := setMark t.marks m r }

end Traveler

/-- What `pipeline.Convert` makes of a traveler (gripql.QueryResult). `nil` is the Go nil result
    produced for a data type Convert does not list (`NoData`). -/
inductive Row where
  | vertex (e : Option Elem)
  | edge (e : Option Elem)
  | count (n : Nat)
  | render (v : JV)
  | path (p : List PathEl)
  | sel (s : List (String × DataType × Elem))   -- mark ↦ (vertex|edge, element), keys unique
  | agg (a : AggVal)
  | nil
  deriving Repr, Inhabited

/-- The seed traveler `pipeline.Start` writes into the first processor. -/
def Traveler.seed : Traveler := {}

end Grip
