/-
  Grip.Model.C13Slot — MODEL of the round-robin worker pool of jobstorage.MarshalStream /
  UnmarshalStream as a FUNCTION of the whole input, with the workers left abstract
  (core Lean only, executable).

  Why a function is an exact reading of the Go code here.  Each of the three kinds of goroutine
  is deterministic in WHAT it sends on each channel; the scheduler only decides WHEN:

    distributor:  n := 0; for i := range inPipe { toWorkers[n] <- i; n++; if n >= nworkers { n = 0 } }
                  for i … { close(toWorkers[i]) }
    worker j:     for t := range in { …; out <- … }; close(out)
    merger:       for found := true; found; { found = false
                    for i := 0; i < nworkers; i++ { if c, ok := <-fromWorkers[i]; ok { out <- c; found = true } } }
                  close(out)

  The merger's receive `<-fromWorkers[i]` BLOCKS until worker i has sent its next item or has
  closed its channel, so `ok` is false only when worker i has emitted everything it will ever
  emit.  Hence the merger's behaviour is a function of the COMPLETE stream of every worker, and
  the complete stream of worker j is a function of the complete list the distributor hands to j.
  (The transition-system model `Grip.C13.RR` in Grip/Model/C13.lean keeps the interleavings; it
  fixes the workers to one output per input.  This file varies exactly that.)

  The workers are a parameter `f : α → List β`: worker j sends the items of `f t`, in order, for
  each `t` it receives.  The real workers are `f t = [enc t]` (`b, _ := json.Marshal(t); out <- b`:
  the error is dropped, an unencodable traveler yields an empty record IN ITS PLACE), one output
  per input.  A worker that skipped such a traveler would be `f t = []` for it.

  `nworkers = 0` is outside the model: the Go distributor panics on `toWorkers[0]` at the first
  item; here `distribute 0 xs = []` and the pipeline returns `[]`.
-/
namespace Grip.C13.Slot

/-! ## distributor -/

/-- `n++; if n >= nworkers { n = 0 }` -/
def nextSlot (w n : Nat) : Nat := if n + 1 ≥ w then 0 else n + 1

/-- the distributor loop: `n` is its counter, `ws` what it has sent on each `toWorkers[j]` so far -/
def distLoop {α : Type} (w : Nat) : Nat → List (List α) → List α → List (List α)
  | _, ws, [] => ws
  | n, ws, x :: rest => distLoop w (nextSlot w n) (ws.modify n (· ++ [x])) rest

/-- everything the distributor sends to each of the `w` workers, for the input `xs` -/
def distribute {α : Type} (w : Nat) (xs : List α) : List (List α) :=
  distLoop w 0 (List.replicate w []) xs

/-! ## workers -/

/-- every worker sends `f t` for each `t` it receives -/
def work {α β : Type} (f : α → List β) (ws : List (List α)) : List (List β) :=
  ws.map (fun l => l.flatMap f)

/-- the complete stream of every worker (`fromWorkers[j]`, until it is closed) -/
def rrWorkers {α β : Type} (w : Nat) (f : α → List β) (xs : List α) : List (List β) :=
  work f (distribute w xs)

/-! ## merger -/

/-- one pass `for i := 0; i < nworkers; i++ { if c, ok := <-fromWorkers[i]; ok { out <- c; found = true } }`
    over the streams that remain: (what was sent to `out`, what remains of each stream, `found`).
    A drained stream (`[]`: closed and empty, `ok = false`) is skipped. -/
def mergePass {β : Type} : List (List β) → List β × List (List β) × Bool
  | [] => ([], [], false)
  | [] :: rest =>
    let r := mergePass rest
    (r.1, [] :: r.2.1, r.2.2)
  | (y :: q) :: rest =>
    let r := mergePass rest
    (y :: r.1, q :: r.2.1, true)

/-- what the merger has done when it stops (or when the fuel is used up) -/
structure MergeRun (β : Type) where
  out : List β             -- sent on `out`, in order
  passes : Nat             -- passes of the outer loop made
  closed : Bool            -- the outer loop ended (`found = false`) and `out` was closed
  left : List (List β)     -- what remains of each worker's stream

/-- `for found := true; found; { found = false; pass }; close(out)`, at most `fuel` passes -/
def mergerLoop {β : Type} : Nat → List (List β) → MergeRun β
  | 0, ws => { out := [], passes := 0, closed := false, left := ws }
  | fuel + 1, ws =>
    let r := mergePass ws
    if r.2.2 then
      let m := mergerLoop fuel r.2.1
      { out := r.1 ++ m.out, passes := m.passes + 1, closed := m.closed, left := m.left }
    else
      { out := r.1, passes := 1, closed := true, left := r.2.1 }

/-- number of items in all streams -/
def totalLen {β : Type} (ws : List (List β)) : Nat := (ws.map List.length).sum

/-- length of the longest stream -/
def maxLen {β : Type} : List (List β) → Nat
  | [] => 0
  | l :: ws => max l.length (maxLen ws)

/-- the merger run to its end (one pass per item is always enough, see `Props.C13.rr_close`
    for the exact number of passes) -/
def mergeRun {β : Type} (ws : List (List β)) : MergeRun β := mergerLoop (totalLen ws + 1) ws

/-! ## the pool -/

/-- the merger's complete run for the input `xs` -/
def rrMerge {α β : Type} (w : Nat) (f : α → List β) (xs : List α) : MergeRun β :=
  mergeRun (rrWorkers w f xs)

/-- everything that appears on the pool's output channel, in order -/
def rrPipeline {α β : Type} (w : Nat) (f : α → List β) (xs : List α) : List β :=
  (rrMerge w f xs).out

end Grip.C13.Slot
