/-
  Grip.Model.C12Prog — executable semantics of the traversal statements that occur in loop
  programs (engine/core/processors.go: LookupVerts, LookupVertexAdjOut/In, Has, HasLabel, Marker,
  ValueSet, ValueIncrement, Render, Count; engine/logic/jump.go: JumpMark, Jump), per traveler.

  Travelers are values: `set` updates the addressed element, `increment` works on a copy
  (gdbi.BaseTraveler.Copy deep-copies the marks), so for counters kept in marks — the documented
  pattern `$start.count` — no two travelers share mutable state and the functional reading below is
  the code's.  Counters kept on the *current* element are outside this fragment (Copy shares
  `Current`); the harness treats them as a search target, see docs/notes/C12.md.

  Core Lean only.
-/
import Grip.Spec.C12

namespace Grip.C12.Prog

/-- Values that occur in loop programs.  `f` is a float64 (data loaded from the store, `set`
    values), `i` a Go `int` (what `increment` writes: `cast.ToInt(v) + int(value)`); they order
    alike but `reflect.DeepEqual` tells them apart. -/
inductive Val where
  | f (n : Int) | i (n : Int) | s (v : String) | null
  deriving Repr, DecidableEq, Inhabited

structure Elem where
  gid : String := ""
  label : String := ""
  data : List (String × Val) := []
  deriving Repr, DecidableEq, Inhabited

structure Trav where
  cur : Elem := {}
  marks : List (String × Elem) := []
  deriving Repr, DecidableEq, Inhabited

structure Edge where
  gid : String
  label : String
  frm : String
  to : String
  deriving Repr, DecidableEq

structure Graph where
  verts : List Elem
  edges : List Edge
  deriving Repr

/-- `$ns.field` / `field` (jsonpath.GetNamespace / GetJSONPath, single-segment fields). -/
structure Path where
  ns : Option String
  field : String
  deriving Repr, DecidableEq

inductive Cmp where
  | eq | neq | gt | gte | lt | lte
  deriving Repr, DecidableEq

inductive CV where
  | num (n : Int) | str (s : String)
  deriving Repr, DecidableEq

inductive HasE where
  | cond (p : Path) (c : Cmp) (v : CV)
  | and (es : List HasE)
  | or (es : List HasE)
  | not (e : HasE)
  deriving Repr

inductive Stmt where
  | v (ids : List String)
  | set (p : Path) (n : Int)
  | as (name : String)
  | mark (name : String)
  | out (labels : List String)
  | inn (labels : List String)
  | has (e : HasE)
  | hasLabel (labels : List String)
  | inc (p : Path) (k : Int)
  | jump (mark : String) (e : Option HasE) (emit : Bool)
  deriving Repr

def lookupAssoc {α : Type} (k : String) : List (String × α) → Option α
  | [] => none
  | (k', v) :: r => if k == k' then some v else lookupAssoc k r

def setAssoc {α : Type} (k : String) (v : α) : List (String × α) → List (String × α)
  | [] => [(k, v)]
  | (k', v') :: r => if k == k' then (k, v) :: r else (k', v') :: setAssoc k v r

/-- jsonpath.GetDoc: a missing mark reads as the empty element. -/
def elemOf (t : Trav) : Option String → Elem
  | none => t.cur
  | some m => (lookupAssoc m t.marks).getD {}

/-- jsonpath.TravelerPathLookup. -/
def lookup (t : Trav) (p : Path) : Val :=
  let e := elemOf t p.ns
  if p.field == "_gid" then .s e.gid
  else if p.field == "_label" then .s e.label
  else (lookupAssoc p.field e.data).getD .null

/-- jsonpath.TravelerSetValue on a data field (writes on a missing mark are lost). -/
def setVal (t : Trav) (p : Path) (v : Val) : Trav :=
  match p.ns with
  | none => { t with cur := { t.cur with data := setAssoc p.field v t.cur.data } }
  | some m =>
    match lookupAssoc m t.marks with
    | none => t
    | some e => { t with marks := setAssoc m { e with data := setAssoc p.field v e.data } t.marks }

/-- logic.toNumber on the values of this fragment (`cast.ToFloat64E(nil) = 0`). -/
def toNum : Val → Option Int
  | .f n => some n
  | .i n => some n
  | .null => some 0
  | .s _ => none

/-- cast.ToInt. -/
def toInt : Val → Int
  | .f n => n
  | .i n => n
  | _ => 0

/-- reflect.DeepEqual(val, condVal) with condVal a float64 or a string. -/
def deepEq : Val → CV → Bool
  | .f n, .num m => n == m
  | .s a, .str b => a == b
  | _, _ => false

def ordCmp (c : Cmp) (a b : Int) : Bool :=
  match c with
  | .gt => a > b | .gte => a ≥ b | .lt => a < b | .lte => a ≤ b
  | _ => false

/-- logic.MatchesCondition. -/
def evalCond (t : Trav) (p : Path) (c : Cmp) (v : CV) : Bool :=
  let x := lookup t p
  match c with
  | .eq => deepEq x v
  | .neq => !deepEq x v
  | _ =>
    match toNum x, v with
    | some a, .num b => ordCmp c a b
    | _, _ => false

mutual
  /-- logic.MatchesHasExpression. -/
  def eval (t : Trav) : HasE → Bool
    | .cond p c v => evalCond t p c v
    | .and es => evalAll t es
    | .or es => evalAny t es
    | .not e => !eval t e
  def evalAll (t : Trav) : List HasE → Bool
    | [] => true
    | e :: r => eval t e && evalAll t r
  def evalAny (t : Trav) : List HasE → Bool
    | [] => false
    | e :: r => eval t e || evalAny t r
end

def vertexOf (g : Graph) (gid : String) : Option Elem := g.verts.find? (·.gid == gid)

def labelOk (labels : List String) (l : String) : Bool := labels.isEmpty || labels.contains l

/-- One non-control statement on one traveler (order preserving: the outputs of one input are
    contiguous, inputs are processed in order). -/
def stepFn (g : Graph) : Stmt → Trav → List Trav
  | .v ids, t =>
    if ids.isEmpty then g.verts.map (fun e => { t with cur := e })
    else ids.filterMap (fun i => (vertexOf g i).map (fun e => { t with cur := e }))
  | .set p n, t => [setVal t p (.f n)]
  | .as name, t => [{ t with marks := setAssoc name t.cur t.marks }]
  | .mark _, t => [t]
  | .out labels, t =>
    (g.edges.filter (fun e => e.frm == t.cur.gid && labelOk labels e.label)).filterMap
      (fun e => (vertexOf g e.to).map (fun v => { t with cur := v }))
  | .inn labels, t =>
    (g.edges.filter (fun e => e.to == t.cur.gid && labelOk labels e.label)).filterMap
      (fun e => (vertexOf g e.frm).map (fun v => { t with cur := v }))
  | .has e, t => if eval t e then [t] else []
  | .hasLabel labels, t => if labels.contains t.cur.label then [t] else []
  | .inc p k, t => [setVal t p (.i (toInt (lookup t p) + k))]
  | .jump _ _ _, t => [t]

/-- A list of non-control statements as one order-preserving function. -/
def runSteps (g : Graph) : List Stmt → Trav → List Trav
  | [], t => [t]
  | s :: r, t => (stepFn g s t).flatMap (runSteps g r)

def markPos (prog : Array Stmt) (name : String) : Option Nat :=
  prog.findIdx? (fun s => match s with | .mark n => n == name | _ => false)

/-- The per-traveler reading of a whole statement list with marks and jumps anywhere (goto
    machine).  `none` in the result: fuel ran out (the program is not counter-bounded). -/
def exec (g : Graph) (prog : Array Stmt) : Nat → Nat → Trav → List (Option Trav)
  | 0, _, _ => [none]
  | fuel + 1, pc, t =>
    if h : pc < prog.size then
      match prog[pc] with
      | .jump m e emit =>
        let matched := match e with | none => true | some x => eval t x
        (if matched then
          match markPos prog m with
          | some q => exec g prog fuel q t
          | none => []
         else []) ++
        (if emit then exec g prog fuel (pc + 1) t else [])
      | s => (stepFn g s t).flatMap (exec g prog fuel (pc + 1))
    else [some t]

/-- The loop read off a single-loop program `pre . mark L . body . jump(L, e, emit) . post`. -/
def loopOf (g : Graph) (body : List Stmt) (e : Option HasE) (emit : Bool) : Loop Trav :=
  { body := runSteps g body
    cond := fun t => match e with | none => true | some x => eval t x
    emit := emit }

def isControl : Stmt → Bool
  | .mark _ => true
  | .jump _ _ _ => true
  | _ => false

/-- Decompose `pre . mark L . body . jump(L, e, emit) . post` (no other mark/jump). -/
def splitLoop (prog : List Stmt) : Option (List Stmt × List Stmt × Option HasE × Bool × List Stmt) :=
  let pre := prog.takeWhile (fun s => !isControl s)
  match prog.dropWhile (fun s => !isControl s) with
  | .mark l :: rest =>
    let body := rest.takeWhile (fun s => !isControl s)
    match rest.dropWhile (fun s => !isControl s) with
    | .jump l' e emit :: post =>
      if l == l' && post.all (fun s => !isControl s) then some (pre, body, e, emit, post) else none
    | _ => none
  | _ => none

end Grip.C12.Prog
