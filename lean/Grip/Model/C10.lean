/-
  Grip.Model.C10 — MODEL of the common key-value interface (kvi/interface.go) as every embedded
  driver is meant to implement it: one `SMap` behind `KVInterface`, `KVIterator`,
  `KVTransaction` and `KVBulkWrite`.  The operations and observations are those of the
  correspondence harness go/harness/hx/c10.go.  Core Lean only.
-/
import Grip.Model.SMap

namespace Grip.C10
open Grip Grip.SMap

/-- One call on a `KVIterator` (or one of the two loop idioms the callers write). -/
inductive ItStep where
  | seek (k : Bytes)
  | rseek (k : Bytes)
  | next
  | get (k : Bytes)
  | scan (p : Bytes)
  | rscan (k p : Bytes)
  deriving Repr, DecidableEq

inductive ItObs where
  | pos (cur : Option KV)        -- Valid() and, when valid, Key()/Value()
  | got (v : Option Bytes)       -- iterator Get
  | kvs (l : List KV)            -- entries collected by a scan loop
  deriving Repr, DecidableEq

/-- One iterator call on snapshot `m`. -/
def itStep (m : List KV) (it : Iter) : ItStep → Iter × ItObs
  | .seek k => let it' := Iter.seek m it k; (it', .pos it'.cur)
  | .rseek k => let it' := Iter.seekReverse m it k; (it', .pos it'.cur)
  | .next => let it' := Iter.next m it; (it', .pos it'.cur)
  | .get k => (it, .got (SMap.get m k))
  | .scan p => let r := Iter.scan m it p; (r.2, .kvs r.1)
  | .rscan k p => let r := Iter.scanReverse m it k p; (r.2, .kvs r.1)

/-- One `View` callback: a fresh iterator, reused across the steps. -/
def itSteps (m : List KV) : Iter → List ItStep → List ItObs
  | _, [] => []
  | it, s :: rest => let r := itStep m it s; r.2 :: itSteps m r.1 rest

def viewObs (m : List KV) (steps : List ItStep) : List ItObs := itSteps m {} steps

/-- One call on a `KVTransaction`. -/
inductive TxStep where
  | set (k v : Bytes)
  | del (k : Bytes)
  | get (k : Bytes)
  | has (k : Bytes)
  | view (steps : List ItStep)
  deriving Repr

inductive TxObs where
  | err (b : Bool)
  | got (v : Option Bytes)
  | has (b : Bool)
  | view (l : List ItObs)
  deriving Repr

def txStep (t : Tx) : TxStep → Tx × TxObs
  | .set k v => (t.write (.set k v), .err false)
  | .del k => (t.write (.del k), .err false)
  | .get k => (t, .got (t.get k))
  | .has k => (t, .has (t.has k))
  | .view steps => (t, .view (viewObs t.view steps))

def txSteps : Tx → List TxStep → Tx × List TxObs
  | t, [] => (t, [])
  | t, s :: rest =>
    let r := txStep t s
    let q := txSteps r.1 rest
    (q.1, r.2 :: q.2)

/-- The writes a transaction callback issues, in program order. -/
def writesOf : List TxStep → List Write
  | [] => []
  | .set k v :: r => .set k v :: writesOf r
  | .del k :: r => .del k :: writesOf r
  | _ :: r => writesOf r

/-- One top-level call on `KVInterface`. -/
inductive Op where
  | set (k v : Bytes)
  | get (k : Bytes)
  | has (k : Bytes)
  | del (k : Bytes)
  | delPrefix (p : Bytes)
  | dump
  | view (steps : List ItStep)
  | update (steps : List TxStep) (fail : Bool)
  | bulk (sets : List KV) (fail : Bool)
  | sync (kvs : List KV)
  deriving Repr

inductive Obs where
  | err (b : Bool)
  | got (v : Option Bytes)
  | has (b : Bool)
  | kvs (l : List KV)
  | view (l : List ItObs)
  | update (l : List TxObs) (err : Bool)
  | bulk (err : Bool)
  | ok
  deriving Repr

/-- `Update(callback)`: the callback runs against a transaction; a callback that returns no error
    commits.  (A callback that returns an error: the interface does not say whether the writes
    stay — the store is re-read afterwards, `Op.sync`.) -/
def runUpdate (m : List KV) (steps : List TxStep) (fail : Bool) : List KV × List TxObs :=
  let r := txSteps { base := m } steps
  (if fail then m else r.1.commit, r.2)

/-- `BulkWrite(callback)`: a batch of sets, applied when the callback returns no error. -/
def runBulk (m : List KV) (sets : List KV) (fail : Bool) : List KV :=
  if fail then m else (Tx.writes { base := m } (sets.map fun kv => Write.set kv.1 kv.2)).commit

def step (m : List KV) : Op → List KV × Obs
  | .set k v => (SMap.set m k v, .err false)
  | .get k => (m, .got (SMap.get m k))
  | .has k => (m, .has (SMap.has m k))
  | .del k => (SMap.delete m k, .err false)
  | .delPrefix p => (SMap.deletePrefix m p, .err false)
  | .dump => (m, .kvs m)
  | .view steps => (m, .view (viewObs m steps))
  | .update steps fail => let r := runUpdate m steps fail; (r.1, .update r.2 fail)
  | .bulk sets fail => (runBulk m sets fail, .bulk fail)
  | .sync kvs => (kvs, .ok)

def run (m : List KV) (ops : List Op) : List KV := ops.foldl (fun s o => (step s o).1) m

end Grip.C10
