/-
  Grip.Model.C03Cache — timestamp RECORDERS run beside the histories of Grip.Model.C03.

  kvgraph keeps one `timestamp.Timestamp` (timestamp/timestamp.go) and calls `ts.Touch(graph)` at
  eight places (kvgraph/graphdb.go: AddGraph, DeleteGraph; kvgraph/graph.go: AddVertex, AddEdge,
  BulkAdd `if inserted`, DelVertex, DelEdge; kvgraph/new.go: once per listed graph on start).
  `Grip.C03.step` has the recorder built in (`KState.touch`: a global counter `clock`).

  Here the recorder is a parameter: `Recorder` = what `Touch` does, what DeleteGraph does to the
  entry of the graph (`drop`), and what `Get` reports.  `Recorder.stepK` runs a recorder beside
  `step`: every call site of `Touch` the operation reaches calls `R.touch`; DeleteGraph calls `R.drop`.

    `Global`    the recorder of the code: `drop = touch`, the stamp is the value of a global clock.
                (Agrees with `KState.stamp` on every history: `Props.C03.global_is_model`.)
    `PerName`   THE REGRESSION: a revision counter per graph name; DeleteGraph deletes the counter,
                the next Touch of the name starts again at 1.  Stamp of g = number of touches of g
                since it was last (re)created.
    `PerNameT`  the same regression with a tombstone: DeleteGraph counts as a touch of the old
                incarnation (and stamps a name that never existed), the next Touch of a deleted
                name starts again at 1.  (It changes its stamp at exactly the steps at which the
                code does, deletes of absent graphs included.)
-/
import Grip.Model.C03

namespace Grip.C03.Cache
open Grip.C03

/-- the graph an operation names -/
def opName : Op → String
  | .addGraph g => g
  | .delGraph g => g
  | .addV g _ => g
  | .addE g _ => g
  | .bulk g _ => g
  | .delV g _ => g
  | .delE g _ => g

/-- the operation reached a `ts.Touch` call of kvgraph (the model's clock ticks nowhere else) -/
def ticked (s : KState) (op : Op) : Bool := (step s op).1.clock != s.clock

/-! ### association lists keyed by graph name -/

def alookup {β : Type} (t : List (String × β)) (g : String) : Option β :=
  (t.find? (fun p => p.1 = g)).map (·.2)

def aset {β : Type} (t : List (String × β)) (g : String) (v : β) : List (String × β) :=
  (g, v) :: t.filter (fun p => p.1 ≠ g)

def adel {β : Type} (t : List (String × β)) (g : String) : List (String × β) :=
  t.filter (fun p => p.1 ≠ g)

/-! ### recorders -/

structure Recorder where
  σ : Type
  init : σ
  /-- timestamp.Touch -/
  touch : σ → String → σ
  /-- what DeleteGraph does to the entry of the graph -/
  drop : σ → String → σ
  /-- timestamp.Get (`none`: the empty string) -/
  stamp : σ → String → Option Nat

/-- One operation on the recorder, given whether the operation reached its `Touch`. -/
def Recorder.apply (R : Recorder) (t : R.σ) (op : Op) (tick : Bool) : R.σ :=
  match op with
  | .delGraph g => R.drop t g
  | .addGraph g => if tick then R.touch t g else t
  | .addV g _ => if tick then R.touch t g else t
  | .addE g _ => if tick then R.touch t g else t
  | .bulk g _ => if tick then R.touch t g else t
  | .delV g _ => if tick then R.touch t g else t
  | .delE g _ => if tick then R.touch t g else t

/-- the recorder beside one operation of kvgraph -/
def Recorder.stepK (R : Recorder) (s : KState) (t : R.σ) (op : Op) : R.σ :=
  R.apply t op (ticked s op)

/-- the recorder beside a history of kvgraph, from store `s` and recorder state `t` -/
def Recorder.runK (R : Recorder) : KState → R.σ → List Op → R.σ
  | _, t, [] => t
  | s, t, o :: os => R.runK (step s o).1 (R.stepK s t o) os

/-- what a client is told for graph `g` after the first `i` operations of the history -/
def Recorder.stampAt (R : Recorder) (ops : List Op) (i : Nat) (g : String) : Option Nat :=
  R.stamp (R.runK {} R.init (ops.take i)) g

/-- the recorder of the code: a global clock; DeleteGraph touches -/
def Global : Recorder where
  σ := List (String × Nat) × Nat
  init := ([], 0)
  touch t g := (aset t.1 g (t.2 + 1), t.2 + 1)
  drop t g := (aset t.1 g (t.2 + 1), t.2 + 1)
  stamp t g := alookup t.1 g

/-- THE REGRESSION: a revision counter per name, deleted with the graph, restarting at 1 -/
abbrev PNState := List (String × Nat)
def pnTouch (t : PNState) (g : String) : PNState := aset t g ((alookup t g).getD 0 + 1)
def pnDrop (t : PNState) (g : String) : PNState := adel t g
def pnStamp (t : PNState) (g : String) : Option Nat := alookup t g

def PerName : Recorder where
  σ := PNState
  init := []
  touch := pnTouch
  drop := pnDrop
  stamp := pnStamp

/-- the regression with a tombstone: entries are (live, counter) -/
abbrev PTState := List (String × Bool × Nat)

def ptTouch (t : PTState) (g : String) : PTState :=
  match alookup t g with
  | some (true, c) => aset t g (true, c + 1)
  | _ => aset t g (true, 1)

def ptDrop (t : PTState) (g : String) : PTState :=
  match alookup t g with
  | some (_, c) => aset t g (false, c + 1)
  | none => aset t g (false, 2)

def ptStamp (t : PTState) (g : String) : Option Nat := (alookup t g).map (·.2)

def PerNameT : Recorder where
  σ := PTState
  init := []
  touch := ptTouch
  drop := ptDrop
  stamp := ptStamp

/-! ### the witness history -/

def va : VertexIn := ⟨"a", "L", .obj []⟩
def vb : VertexIn := ⟨"b", "L", .obj []⟩

/-- AddGraph g, AddVertex a, DeleteGraph g, AddGraph g, AddVertex b -/
def witness : List Op :=
  [.addGraph "g", .addV "g" [va], .delGraph "g", .addGraph "g", .addV "g" [vb]]

end Grip.C03.Cache
