/-
  Grip.Model.C16 — byte level of the key encoding (layer 2 of DESIGN.md §4.3) and the repaired
  validation of the write path.

  * `utf8`, `comps`             : the component lists of `C03.encode` (kvgraph/keys.go, kvindex/keys.go:
                                  `bytes.Join(parts, {0})`) in kernel-reducible form
  * `splitNul`, `splitNulN`     : `bytes.Split(key, {0})`, `bytes.SplitN(key, {0}, n)`
  * `*KeyParse`                 : the Go `*KeyParse` functions (positional components, `none` = the Go
                                  code panics with an index out of range)
  * `*Prefix`                   : every prefix function the scans of kvgraph / kvindex use
  * `pat*`                      : the structured patterns C03's model filters with
  * `validName16` …             : gripql/util.go after the `fix:` commits (NUL bytes refused)
  * `step16`                    : C03's structured-key model run on the repaired validation
  * `PV`, `toPV`, `ofPV`        : protobuf `Struct` conversion of property values

  Core Lean only (linked into gripdriver).  C03's files are imported, never edited.
-/
import Grip.Model.C03

namespace Grip.C16
open Grip.C03

/-! ### bytes of a string -/

/-- `[]byte(s)`.  Kernel-reducible twin of `C03.bytesOf` (`bytesOf_eq_utf8` in the lemma file). -/
def utf8 (s : String) : Bytes := s.toByteArray.data.toList

/-- `string(bytes)` restricted to valid UTF-8 (a Go string may hold any bytes; a Lean `String`
    cannot — keys are only ever built from protobuf strings, which are valid UTF-8). -/
def strOf? (bs : Bytes) : Option String := String.fromUTF8? ⟨bs.toArray⟩

def hasNul (bs : Bytes) : Bool := bs.contains 0

/-! ### keys: the component lists handed to `bytes.Join(·, {0})` -/

/-- kvindex.TermString -/
def termString : UInt8 := 1
/-- kvgraph.edgeSingle -/
def edgeSingle : UInt8 := 1

def comps : SKey → List Bytes
  | .vertex g id => [[118], utf8 g, utf8 id]
  | .edge g eid s d l => [[101], utf8 g, utf8 eid, utf8 s, utf8 d, utf8 l, [edgeSingle]]
  | .src g s d eid l => [[115], utf8 g, utf8 s, utf8 d, utf8 eid, utf8 l, [edgeSingle]]
  | .dst g d s eid l => [[100], utf8 g, utf8 d, utf8 s, utf8 eid, utf8 l, [edgeSingle]]
  | .graph g => [[103], utf8 g]
  | .field f => [[102], utf8 f]
  | .term f t => [[116], utf8 f, [termString], utf8 t]
  | .entry f t doc => [[105], utf8 f, [termString], utf8 t, utf8 doc]
  | .doc d => [[68], utf8 d]

/- The key bytes themselves are `C03.encode` (VertexKey, EdgeKey, SrcEdgeKey, DstEdgeKey, GraphKey,
   FieldKey, TermKey, EntryKey, DocKey); `encode k = joinNul (comps k)` is lemma `encode_comps`. -/

/-- No component of the key contains the separator byte. -/
def nulFree (k : SKey) : Bool := (comps k).all (fun c => !hasNul c)
def NulFree (k : SKey) : Prop := ∀ c ∈ comps k, (0 : UInt8) ∉ c

/-! ### bytes.Split / bytes.SplitN on the separator {0} -/

def splitNul : Bytes → List Bytes
  | [] => [[]]
  | b :: bs =>
    if b = 0 then [] :: splitNul bs
    else match splitNul bs with
      | [] => [[b]]
      | c :: cs => (b :: c) :: cs

/-- `bytes.SplitN(key, {0}, n)` for n ≥ 1: at most n parts, the last one unsplit. -/
def splitNulN : Nat → Bytes → List Bytes
  | 0, _ => []
  | 1, bs => [bs]
  | _ + 2, [] => [[]]
  | n + 2, b :: bs =>
    if b = 0 then [] :: splitNulN (n + 1) bs
    else match splitNulN (n + 2) bs with
      | [] => [[b]]
      | c :: cs => (b :: c) :: cs

/-! ### the Go `*KeyParse` functions -/

def graphKeyParse (key : Bytes) : Option String :=
  match splitNul key with
  | _ :: g :: _ => strOf? g
  | _ => none

def fieldKeyParse (key : Bytes) : Option String :=
  match splitNul key with
  | _ :: f :: _ => strOf? f
  | _ => none

def vertexKeyParse (key : Bytes) : Option (String × String) :=
  match splitNul key with
  | _ :: g :: id :: _ => do pure ((← strOf? g), (← strOf? id))
  | _ => none

/-- graph, tmp[2], tmp[3], tmp[4], label, etype: shared shape of Edge/SrcEdge/DstEdgeKeyParse. -/
def sixParse (key : Bytes) : Option (String × String × String × String × String × UInt8) :=
  match splitNul key with
  | _ :: g :: a :: b :: c :: l :: (ty :: _) :: _ =>
    do pure ((← strOf? g), (← strOf? a), (← strOf? b), (← strOf? c), (← strOf? l), ty)
  | _ => none

/-- EdgeKeyParse: graph, eid, src, dst, label, etype -/
def edgeKeyParse (key : Bytes) := sixParse key
/-- SrcEdgeKeyParse returns graph, src, dst, eid, label, etype (key order s|g|src|dst|eid|l) -/
def srcEdgeKeyParse (key : Bytes) := sixParse key
/-- DstEdgeKeyParse returns graph, src, dst, eid, label, etype (key order d|g|dst|src|eid|l) -/
def dstEdgeKeyParse (key : Bytes) : Option (String × String × String × String × String × UInt8) :=
  (sixParse key).map fun (g, d, s, eid, l, ty) => (g, s, d, eid, l, ty)

/-- TermKeyParse: SplitN(key, 0, 4); the term is the unsplit rest. -/
def termKeyParse (key : Bytes) : Option (String × UInt8 × Bytes) :=
  match splitNulN 4 key with
  | [_, f, ty :: _, t] => do pure ((← strOf? f), ty, t)
  | _ => none

/-- EntryKeyParse: SplitN(key, 0, 4); for a numeric term (type 2: eight fixed bytes, a separator,
    the document id) `suffix[0:8]`, `suffix[9:]` — out of range (`none`, the Go code panics) when
    the suffix is shorter than nine bytes; otherwise Split of the rest (term, docid). -/
def entryKeyParse (key : Bytes) : Option (String × UInt8 × Bytes × String) :=
  match splitNulN 4 key with
  | [_, f, ty :: _, suffix] =>
    if ty = 2 then
      (if suffix.length < 9 then none
       else do pure ((← strOf? f), ty, suffix.take 8, (← strOf? (suffix.drop 9))))
    else
    match splitNul suffix with
    | t :: doc :: _ => do pure ((← strOf? f), ty, t, (← strOf? doc))
    | _ => none
  | _ => none

/-- Dispatch on the one-letter key family, then the family's Go parse function. -/
def parse (key : Bytes) : Option SKey :=
  match key with
  | 118 :: _ => (vertexKeyParse key).map fun (g, id) => .vertex g id
  | 101 :: _ => (edgeKeyParse key).bind fun (g, eid, s, d, l, ty) =>
      if ty = edgeSingle then some (.edge g eid s d l) else none
  | 115 :: _ => (srcEdgeKeyParse key).bind fun (g, s, d, eid, l, ty) =>
      if ty = edgeSingle then some (.src g s d eid l) else none
  | 100 :: _ => (dstEdgeKeyParse key).bind fun (g, s, d, eid, l, ty) =>
      if ty = edgeSingle then some (.dst g d s eid l) else none
  | 103 :: _ => (graphKeyParse key).map .graph
  | 102 :: _ => (fieldKeyParse key).map .field
  | 116 :: _ => (termKeyParse key).bind fun (f, ty, t) =>
      if ty = termString then (strOf? t).map (.term f) else none
  | 105 :: _ => (entryKeyParse key).bind fun (f, ty, t, doc) =>
      if ty = termString then (strOf? t).map (fun t => .entry f t doc) else none
  | 68 :: _ => match splitNul key with
      | _ :: d :: _ => (strOf? d).map .doc
      | _ => none
  | _ => none

/-! ### prefix functions (each ends with the empty component, i.e. a trailing separator) -/

def graphPrefix : Bytes := [103]
def fieldPrefix : Bytes := [102]
def vertexListPrefix (g : String) : Bytes := joinNul [[118], utf8 g, []]
def edgeListPrefix (g : String) : Bytes := joinNul [[101], utf8 g, []]
def edgeKeyPrefix (g eid : String) : Bytes := joinNul [[101], utf8 g, utf8 eid, []]
def srcEdgeListPrefix (g : String) : Bytes := joinNul [[115], utf8 g, []]
def dstEdgeListPrefix (g : String) : Bytes := joinNul [[100], utf8 g, []]
def srcEdgePrefix (g id : String) : Bytes := joinNul [[115], utf8 g, utf8 id, []]
def dstEdgePrefix (g id : String) : Bytes := joinNul [[100], utf8 g, utf8 id, []]
def srcEdgeKeyPrefix (g s d eid : String) : Bytes := joinNul [[115], utf8 g, utf8 s, utf8 d, utf8 eid, []]
def dstEdgeKeyPrefix (g s d eid : String) : Bytes := joinNul [[100], utf8 g, utf8 d, utf8 s, utf8 eid, []]
def termPrefix (f : String) : Bytes := joinNul [[116], utf8 f, []]
def termTypePrefix (f : String) : Bytes := joinNul [[116], utf8 f, [termString], []]
def entryPrefix (f : String) : Bytes := joinNul [[105], utf8 f, []]
def entryTypePrefix (f : String) : Bytes := joinNul [[105], utf8 f, [termString], []]
def entryValuePrefix (f t : String) : Bytes := joinNul [[105], utf8 f, [termString], utf8 t, []]

/-! ### the structured patterns (what C03's model filters with) -/

def patGraph : SKey → Bool | .graph _ => true | _ => false
def patField : SKey → Bool | .field _ => true | _ => false
def patVertexList (g : String) : SKey → Bool | .vertex g' _ => g' = g | _ => false
def patEdgeList (g : String) : SKey → Bool | .edge g' _ _ _ _ => g' = g | _ => false
def patEdgeKey (g eid : String) : SKey → Bool | .edge g' e' _ _ _ => g' = g ∧ e' = eid | _ => false
def patSrcList (g : String) : SKey → Bool | .src g' _ _ _ _ => g' = g | _ => false
def patDstList (g : String) : SKey → Bool | .dst g' _ _ _ _ => g' = g | _ => false
def patSrc (g id : String) : SKey → Bool | .src g' s _ _ _ => g' = g ∧ s = id | _ => false
def patDst (g id : String) : SKey → Bool | .dst g' d _ _ _ => g' = g ∧ d = id | _ => false
def patSrcKey (g s d eid : String) : SKey → Bool
  | .src g' s' d' e' _ => g' = g ∧ s' = s ∧ d' = d ∧ e' = eid | _ => false
def patDstKey (g s d eid : String) : SKey → Bool
  | .dst g' d' s' e' _ => g' = g ∧ d' = d ∧ s' = s ∧ e' = eid | _ => false
def patTerm (f : String) : SKey → Bool | .term f' _ => f' = f | _ => false
def patEntry (f : String) : SKey → Bool | .entry f' _ _ => f' = f | _ => false
def patEntryValue (f t : String) : SKey → Bool | .entry f' t' _ => f' = f ∧ t' = t | _ => false

/-- `bytes.HasPrefix(key, p)` -/
def hasPrefix (p key : Bytes) : Bool := p.isPrefixOf key

/-! ### validation after the `fix:` commits (gripql/util.go, kvgraph/graph.go, graphdb.go) -/

/-- `!strings.Contains(s, "\x00")` -/
def noNul (s : String) : Bool := !hasNul (utf8 s)

/-- gripql.validate (graph names, property names) -/
def validName16 (k : String) : Bool := noNul k && validName k
def validFieldName16 (k : String) : Bool := !(reservedFields.contains k) && validName16 k

def validVertex16 (v : VertexIn) : Bool :=
  v.gid != "" && noNul v.gid && v.label != "" && noNul v.label && (dataKeys v.data).all validFieldName16

def validEdge16 (e : EdgeIn) : Bool :=
  e.gid != "" && noNul e.gid && e.label != "" && noNul e.label &&
  e.frm != "" && noNul e.frm && e.to != "" && noNul e.to && (dataKeys e.data).all validFieldName16

def validElem16 : ElemIn → Bool
  | .v x => validVertex16 x
  | .e x => validEdge16 x

/-- An element the (unrepaired) C03 model rejects: rejection is per element and leaves the map alone,
    so replacing an element refused by the repaired validation with this one gives the repaired
    behaviour of the batch loop. -/
def refused : ElemIn := .v ⟨"", "", .obj []⟩

def sanitize (x : ElemIn) : ElemIn := if validElem16 x then x else refused

/-- The kvgraph MODEL on the repaired code: C03's `step` with the repaired validation.  Delete
    calls refuse identifiers that contain the separator (graph.go DelVertex/DelEdge, graphdb.go
    DeleteGraph after the fix). -/
def step16 (s : KState) : Op → KState × Res
  | .addGraph g => if validName16 g then step s (.addGraph g) else (s, .err)
  | .delGraph g => if noNul g then step s (.delGraph g) else (s, .err)
  | .addV g vs => step s (.bulk g ((vs.map .v).map sanitize))
  | .addE g es => step s (.bulk g ((es.map .e).map sanitize))
  | .bulk g xs => step s (.bulk g (xs.map sanitize))
  | .delV g id => if noNul id then step s (.delV g id) else (s, .err)
  | .delE g eid => if noNul eid then step s (.delE g eid) else (s, .err)

/-! ### property values: protobuf `Struct` conversion (structpb.NewValue / Value.AsInterface) -/

inductive PV where
  | nullValue
  | numberValue (n : Int)
  | stringValue (s : String)
  | boolValue (b : Bool)
  | structValue (fields : List (String × PV))
  | listValue (values : List PV)
  deriving Repr, Inhabited

mutual
  /-- structpb.NewValue -/
  def toPV : JV → PV
    | .null => .nullValue
    | .bool b => .boolValue b
    | .num n => .numberValue n
    | .str s => .stringValue s
    | .arr xs => .listValue (toPVList xs)
    | .obj kvs => .structValue (toPVFields kvs)
  def toPVList : List JV → List PV
    | [] => []
    | x :: xs => toPV x :: toPVList xs
  def toPVFields : List (String × JV) → List (String × PV)
    | [] => []
    | (k, x) :: xs => (k, toPV x) :: toPVFields xs
end

mutual
  /-- Value.AsInterface / Struct.AsMap -/
  def ofPV : PV → JV
    | .nullValue => .null
    | .boolValue b => .bool b
    | .numberValue n => .num n
    | .stringValue s => .str s
    | .listValue xs => .arr (ofPVList xs)
    | .structValue kvs => .obj (ofPVFields kvs)
  def ofPVList : List PV → List JV
    | [] => []
    | x :: xs => ofPV x :: ofPVList xs
  def ofPVFields : List (String × PV) → List (String × JV)
    | [] => []
    | (k, x) :: xs => (k, ofPV x) :: ofPVFields xs
end

/-- What a stored element's data reads back as: written through `NewStruct`, read through `AsMap`. -/
def storedData (d : JV) : JV := ofPV (toPV d)

end Grip.C16
