/-
  Grip.Model.C04 — reopen and crash points on top of the C03 MODEL of kvgraph.

  * `reopen` : what kvgraph.NewKVGraph / kvindex.NewIndex rebuild when a directory is opened again:
    the persisted map is kept, `Fields` is reloaded from the persisted field keys `f|field`
    (kvindex.NewIndex after the repair; before it `Fields` started empty), every listed graph is
    re-touched on a fresh timestamp table.
  * `writes s op` : the top-level key-value writes a mutating call issues, in program order, each one
    atomic in the underlying store (kvi.KVInterface: Set / Delete / DeletePrefix / Update / BulkWrite).
  * `applyPrefix k` : the persisted map after the first `k` of them; `crashAt` = that map, reopened.

  Write lists, as the code stands (after the repairs recorded in findings/C04.jsonl):
    AddGraph     [name not listed: the sweep of DeleteGraph, without Delete(g|g)]
                 Set(f|g.v.label), Set(f|g.e.label), Set(g|g)           (graphdb.go, index.go)
    DeleteGraph  Delete(g|g), DeletePrefix e,v,s,d of the graph, then per persisted field of the
                 graph: DeletePrefix terms, DeletePrefix entries, Delete(f|field)   (graphdb.go, kvindex.RemoveField)
    AddVertex / AddEdge / BulkAdd   one BulkWrite (the whole insert loop)   (graph.go)
    DelVertex    one Update transaction (vertex key + the key triples of all incident edges)
    DelEdge      one Update transaction (edge, src, dst key)
-/
import Grip.Model.C03

namespace Grip.C04
open Grip.C03

/-- kvindex.ListFields: the persisted field names. -/
def persistedFields (m : KV) : List String :=
  m.filterMap (fun p => match p.1 with | .field f => some f | _ => none)

/-- NewKVGraph on an existing directory (NewIndex reloads `Fields`; every listed graph is touched). -/
def reopen (s : KState) : KState :=
  (graphs s.kv).foldl (fun t g => t.touch g)
    { kv := s.kv, fields := persistedFields s.kv, stamps := [], clock := s.clock }

/-- NewIndex before the repair: `Fields` starts empty (kept for the record; not used by theorems
    other than the description of finding C04-reopen-fields). -/
def reopenUnrepaired (s : KState) : KState :=
  (graphs s.kv).foldl (fun t g => t.touch g)
    { kv := s.kv, fields := [], stamps := [], clock := s.clock }

/-- Structured form of the byte prefixes handed to DeletePrefix. -/
inductive Pat where
  | edges (g : String)     -- EdgeListPrefix
  | verts (g : String)     -- VertexListPrefix
  | srcs (g : String)      -- SrcEdgeListPrefix
  | dsts (g : String)      -- DstEdgeListPrefix
  | terms (f : String)     -- kvindex.TermPrefix
  | entries (f : String)   -- kvindex.EntryPrefix
  deriving DecidableEq, Repr, Inhabited

def Pat.test : Pat → SKey → Bool
  | .edges g, .edge g' _ _ _ _ => g' = g
  | .verts g, .vertex g' _ => g' = g
  | .srcs g, .src g' _ _ _ _ => g' = g
  | .dsts g, .dst g' _ _ _ _ => g' = g
  | .terms f, .term f' _ => f' = f
  | .entries f, .entry f' _ _ => f' = f
  | _, _ => false

/-- One top-level write of kvi.KVInterface. -/
inductive AW where
  | set (k : SKey) (v : Val)
  | del (k : SKey)
  | delPat (p : Pat)
  | bulk (fields : List String) (g : String) (xs : List ElemIn)   -- one BulkWrite running the insert loop
  | txDel (ks : List SKey)                                         -- one Update transaction of Deletes
  deriving Repr, Inhabited

def delKeys (m : KV) (ks : List SKey) : KV := ks.foldl (fun m k => m.del k) m

def AW.apply (m : KV) : AW → KV
  | .set k v => m.set k v
  | .del k => m.del k
  | .delPat p => m.delWhere p.test
  | .bulk fs g xs => (insertAll fs g m xs).1
  | .txDel ks => delKeys m ks

def applyAll (ws : List AW) (m : KV) : KV := ws.foldl AW.apply m

def applyPrefix (k : Nat) (ws : List AW) (m : KV) : KV := applyAll (ws.take k) m

/-- The fields DeleteGraph removes: persisted fields whose first dot-component is the graph. -/
def graphFields (m : KV) (g : String) : List String :=
  (persistedFields m).filter (fun f => fieldGraph f = g)

def removeFieldW (f : String) : List AW := [.delPat (.terms f), .delPat (.entries f), .del (.field f)]

/-- DelVertex: the key triples (src, dst, edge) of the out- and in-edges of `id`. -/
def delVKeys (m : KV) (g id : String) : List SKey :=
  let outs := m.filterMap (fun p => match p.1 with
    | .src g' sid did eid l => if g' = g ∧ sid = id then some [SKey.src g sid did eid l, .dst g did sid eid l, .edge g eid sid did l] else none
    | _ => none)
  let ins := m.filterMap (fun p => match p.1 with
    | .dst g' did sid eid l => if g' = g ∧ did = id then some [SKey.src g sid did eid l, .dst g did sid eid l, .edge g eid sid did l] else none
    | _ => none)
  outs.flatten ++ ins.flatten

/-- deleteGraphData as top-level writes: four prefix deletes, then three writes per index field. -/
def sweepW (m : KV) (g : String) : List AW :=
  [.delPat (.edges g), .delPat (.verts g), .delPat (.srcs g), .delPat (.dsts g)]
    ++ (graphFields m g).flatMap removeFieldW

def addW (s : KState) (g : String) (xs : List ElemIn) : List AW :=
  if !hasGraph s g then [] else [.bulk s.fields g xs]

def writes (s : KState) : Op → List AW
  | .addGraph g =>
    if !validName g then [] else
    -- a name that is not listed: deleteGraphData first (what an interrupted DeleteGraph left)
    (if hasGraph s g then [] else sweepW s.kv g) ++
    [.set (.field (labelField g "v")) .unit, .set (.field (labelField g "e")) .unit, .set (.graph g) .unit]
  | .delGraph g => .del (.graph g) :: sweepW s.kv g
  | .addV g vs => addW s g (vs.map .v)
  | .addE g es => addW s g (es.map .e)
  | .bulk g xs => addW s g xs
  | .delV g id =>
    if !hasGraph s g then [] else [.txDel (.vertex g id :: delVKeys s.kv g id)]
  | .delE g eid =>
    if !hasGraph s g then [] else
    match lastByBytes (edgeRecords s.kv g eid) with
    | some (.edge _ _ sid did l, _) => [.txDel [.edge g eid sid did l, .src g sid did eid l, .dst g did sid eid l]]
    | _ => []

/-- The process dies after `k` of the writes of `op`; the directory is opened again. -/
def crashAt (s : KState) (op : Op) (k : Nat) : KState :=
  reopen { s with kv := applyPrefix k (writes s op) s.kv }

/-! ### the weak invariant, executable (the driver prints it; `Grip.C04.Spec.WeakInv` is the
    declarative form and `GripProofs` shows they agree) -/

def vertexLabelOf : Val → Option String
  | .vert l _ => some l
  | _ => none

def weakKey (m : KV) (p : SKey × Val) : Bool :=
  match p.1 with
  | .src g s d eid l => !m.has (.graph g) || m.has (.edge g eid s d l)
  | .dst g d s eid l => !m.has (.graph g) || m.has (.edge g eid s d l)
  | .edge g eid s d l => !m.has (.graph g) ||
      (m.has (.src g s d eid l) && m.has (.dst g d s eid l) &&
       m.has (.entry (labelField g "e") l eid) && m.has (.term (labelField g "e") l))
  | .vertex g id => !m.has (.graph g) ||
      (match vertexLabelOf p.2 with
       | some l => m.has (.entry (labelField g "v") l id) && m.has (.term (labelField g "v") l)
       | none => true)
  | .graph g => m.has (.field (labelField g "v")) && m.has (.field (labelField g "e"))
  | _ => true

def weakInvB (m : KV) : Bool := m.all (weakKey m)

end Grip.C04
