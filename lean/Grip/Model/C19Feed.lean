/-
  Grip.Model.C19Feed — MODEL, small-step, of the fan-out inside engine/core/processors.go
  `aggregate.Process` when a worker meets an error (property C19).  Core Lean only, executable.

  Grip.Model.C19 is the functional model (every worker reads its whole channel); Grip.Model.C07Comp
  §4 is the small-step model used for termination (workers never fail).  Neither says what happens
  operationally when ONE worker meets an error (histogram / percentile: `cast.ToFloat64E` rejects
  the value; term: more than 100000 terms; histogram: more than 10M values).  This file does.

  The goroutines of `aggregate.Process`:

      g, ctx := errgroup.WithContext(ctx)
      aChans[a.Name] = make(chan gdbi.Traveler, bufferSize)            -- bufferSize = 1000
      g.Go(func() error {                                              -- the FEEDER
          for t := range in { for _, a := range aggs { aChans[a.Name] <- t } }
          for _, a := range aggs { close(aChans[a.Name]) }; return nil })
      g.Go(func() error {                                              -- one WORKER per aggregation
          var outErr error
          for t := range aChans[a.Name] { … if <error> { outErr = …; continue } … }
          …emit…; return outErr })
      go func() { if err := g.Wait(); err != nil { log… }; close(out) }()

  What is modelled: `k` workers, each behind a channel of capacity `cap`; the feeder takes the next
  input row (`take`), puts it into channel 0, 1, …, k-1 in that order (`send`, blocking while the
  channel is full), then turns to the next row (`done`); when the input is exhausted it closes all
  channels (`close`).  A worker takes one row at a time from its channel (`work`).  Worker `j` has a
  predicate `bad j : Row → Bool` — the row makes it fail.  Two switches select the variant:

    * `drainAfterError = true`  — THE CODE: the worker records the error and keeps consuming
                                  ("Because we are reading a channel, it must be fully emptied …");
      `drainAfterError = false` — the worker returns at the first bad row: it has consumed that row
                                  and consumes nothing more; errgroup cancels `ctx` at that moment
                                  (`failed` and `stopped` are set in the same step);
    * `feederWatchesCtx = false` — THE CODE: a plain blocking send;
      `feederWatchesCtx = true`  — `select { case aChans[a.Name] <- t: case <-ctx.Done(): … }`:
                                  when `ctx` is done the feeder MAY take the second branch
                                  (`notice`): it sends nothing more, drains its input (what is left
                                  in `hold`/`todo` is discarded) and closes the channels.  As in Go,
                                  when both branches are ready either may be taken; when the channel
                                  is full only `notice` is possible.

  `ctx` is done when a worker that failed has RETURNED.  With `drainAfterError = true` a worker
  returns only after its channel has been closed, i.e. after the feeder has finished; the feeder
  can therefore never see that cancellation and `ctxDone` only looks at workers that stopped early.

  The result of worker `j` is a function of `(ws j).seen`, the rows it consumed, in order.
  Not modelled: signal travelers (C07Comp), the emission of results into `out` (C07Comp), the
  parent context (client cancellation).
-/
import Grip.Model.C07

namespace Grip.C19.Feed

structure Cfg (α : Type) where
  k : Nat
  cap : Nat
  bad : Nat → α → Bool
  drainAfterError : Bool
  feederWatchesCtx : Bool

/-- one worker and its channel: `buf` is what is in the channel, `seen` what the worker has consumed,
    `failed`: it has met a bad row (`outErr != nil`), `stopped`: it has returned early -/
structure Wk (α : Type) where
  buf : List α := []
  seen : List α := []
  failed : Bool := false
  stopped : Bool := false

/-- `todo`: input rows the feeder has not taken yet; `hold = some (t, i)`: the feeder holds `t` and
    will send it to channel `i` next; `abort`: the feeder has taken the `<-ctx.Done()` branch (what is
    left in `hold`/`todo` is drained from the input and dropped); `closed`: it has closed every
    channel and returned. -/
structure St (α : Type) where
  todo : List α
  hold : Option (α × Nat)
  abort : Bool
  closed : Bool
  ws : Nat → Wk α

def upd {β : Type} (f : Nat → β) (i : Nat) (v : β) : Nat → β := fun j => if j = i then v else f j

/-- the worker `j` in state `w` consumes `x`; `xs` is what stays in its channel -/
def consume {α : Type} (cfg : Cfg α) (j : Nat) (w : Wk α) (x : α) (xs : List α) : Wk α :=
  { buf := xs, seen := w.seen ++ [x], failed := w.failed || cfg.bad j x,
    stopped := !cfg.drainAfterError && cfg.bad j x }

/-- `ctx.Done()` is ready as far as the feeder can ever observe: a failed worker has returned -/
def ctxDone {α : Type} (cfg : Cfg α) (s : St α) : Bool :=
  (List.range cfg.k).any fun j => (s.ws j).failed && (s.ws j).stopped

inductive Step {α : Type} (cfg : Cfg α) : St α → St α → Prop
  | take {s : St α} {t : α} {ts : List α} :
      s.closed = false → s.abort = false → s.hold = none → s.todo = t :: ts →
      Step cfg s { s with todo := ts, hold := some (t, 0) }
  | send {s : St α} {t : α} {i : Nat} :
      s.closed = false → s.abort = false → s.hold = some (t, i) → i < cfg.k →
      (s.ws i).buf.length < cfg.cap →
      Step cfg s { s with hold := some (t, i + 1),
                          ws := upd s.ws i { s.ws i with buf := (s.ws i).buf ++ [t] } }
  | done {s : St α} {t : α} {i : Nat} :
      s.closed = false → s.abort = false → s.hold = some (t, i) → cfg.k ≤ i →
      Step cfg s { s with hold := none }
  | notice {s : St α} {t : α} {i : Nat} :
      cfg.feederWatchesCtx = true → s.closed = false → s.abort = false → s.hold = some (t, i) →
      i < cfg.k → ctxDone cfg s = true →
      Step cfg s { s with abort := true }
  | close {s : St α} :
      s.closed = false → (s.abort = true ∨ (s.hold = none ∧ s.todo = [])) →
      Step cfg s { s with closed := true }
  | work {s : St α} {j : Nat} {x : α} {xs : List α} :
      j < cfg.k → (s.ws j).stopped = false → (s.ws j).buf = x :: xs →
      Step cfg s { s with ws := upd s.ws j (consume cfg j (s.ws j) x xs) }

def init {α : Type} (input : List α) : St α :=
  { todo := input, hold := none, abort := false, closed := false, ws := fun _ => {} }

/-- nothing can move -/
def Stuck {α : Type} (cfg : Cfg α) (s : St α) : Prop := ∀ s', ¬ Step cfg s s'

/-- the feeder has closed the channels and every worker that is still reading has emptied its own:
    `g.Wait()` returns and `out` is closed -/
def Final {α : Type} (cfg : Cfg α) (s : St α) : Prop :=
  s.closed = true ∧ ∀ j, j < cfg.k → (s.ws j).stopped = false → (s.ws j).buf = []

/-- a state in which nothing can move although the feeder has not returned: `g.Wait()` never
    returns, `out` is never closed, the traversal hangs -/
def Deadlock {α : Type} (cfg : Cfg α) (s : St α) : Prop := Stuck cfg s ∧ s.closed = false

/-! ## the same, executable -/

inductive Move where
  | take | send | done | notice | close
  | work (j : Nat)
  deriving DecidableEq, Repr

def step? {α : Type} (cfg : Cfg α) (s : St α) : Move → Option (St α)
  | .take =>
    match s.hold, s.todo with
    | none, t :: ts => if s.closed = false ∧ s.abort = false then some { s with todo := ts, hold := some (t, 0) } else none
    | _, _ => none
  | .send =>
    match s.hold with
    | some (t, i) =>
      if s.closed = false ∧ s.abort = false ∧ i < cfg.k ∧ (s.ws i).buf.length < cfg.cap then
        some { s with hold := some (t, i + 1), ws := upd s.ws i { s.ws i with buf := (s.ws i).buf ++ [t] } }
      else none
    | none => none
  | .done =>
    match s.hold with
    | some (_, i) => if s.closed = false ∧ s.abort = false ∧ cfg.k ≤ i then some { s with hold := none } else none
    | none => none
  | .notice =>
    match s.hold with
    | some (_, i) =>
      if cfg.feederWatchesCtx = true ∧ s.closed = false ∧ s.abort = false ∧ i < cfg.k ∧ ctxDone cfg s = true then
        some { s with abort := true }
      else none
    | none => none
  | .close =>
    if s.closed = false ∧ (s.abort = true ∨ (s.hold = none ∧ s.todo = [])) then some { s with closed := true }
    else none
  | .work j =>
    match (s.ws j).buf with
    | x :: xs =>
      if j < cfg.k ∧ (s.ws j).stopped = false then some { s with ws := upd s.ws j (consume cfg j (s.ws j) x xs) }
      else none
    | [] => none

/-- run a schedule; `none` if some move is not enabled -/
def run {α : Type} (cfg : Cfg α) (s : St α) : List Move → Option (St α)
  | [] => some s
  | m :: ms => match step? cfg s m with
    | some s' => run cfg s' ms
    | none => none

/-- run a schedule and test the state it leads to (`false` if the schedule is not executable) -/
def checkRun {α : Type} (cfg : Cfg α) (s : St α) (ms : List Move) (P : St α → Bool) : Bool :=
  match run cfg s ms with
  | some s' => P s'
  | none => false

def allMoves (k : Nat) : List Move :=
  [.take, .send, .done, .notice, .close] ++ (List.range k).map Move.work

/-- no move is enabled (decidable form of `Stuck`) -/
def stuckB {α : Type} (cfg : Cfg α) (s : St α) : Bool :=
  (allMoves cfg.k).all fun m => (step? cfg s m).isNone

/-- what the workers have consumed, for `#eval` -/
def seens {α : Type} (cfg : Cfg α) (s : St α) : List (List α) := (List.range cfg.k).map fun j => (s.ws j).seen

/-- the three variants the theorems are about -/
def asCoded {α : Type} (k cap : Nat) (bad : Nat → α → Bool) : Cfg α := ⟨k, cap, bad, true, false⟩
def earlyReturn {α : Type} (k cap : Nat) (bad : Nat → α → Bool) : Cfg α := ⟨k, cap, bad, false, false⟩
def ctxWatch {α : Type} (k cap : Nat) (bad : Nat → α → Bool) : Cfg α := ⟨k, cap, bad, false, true⟩

/-- the code's own capacity (GripGen.BuffersC07.aggBuffer, regenerated from processors.go) -/
def codeCap : Nat := GripGen.BuffersC07.aggBuffer

/-! ## the measure: every step decreases it (no fairness needed) -/

def bufSum {α : Type} (ws : Nat → Wk α) : Nat → Nat
  | 0 => 0
  | k + 1 => bufSum ws k + (ws k).buf.length

def holdCost {α : Type} (k : Nat) : Option (α × Nat) → Nat
  | none => 0
  | some (_, i) => 1 + 2 * (k - i)

def mu {α : Type} (cfg : Cfg α) (s : St α) : Nat :=
  (if s.closed then 0 else 1) + (if s.abort then 0 else 1) + s.todo.length * (2 * cfg.k + 2)
    + holdCost cfg.k s.hold + bufSum s.ws cfg.k

/-- bound on the length of any execution: per row one `take`, k `send`, one `done`, k `work`;
    one `notice`, one `close` -/
def bound (k : Nat) (n : Nat) : Nat := 2 + n * (2 * k + 2)

end Grip.C19.Feed

