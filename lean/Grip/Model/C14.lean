/-
  Grip.Model.C14 — MODEL of mongo/has_evaluator.go (convertHasExpression / convertCondition /
  convertPath) emitting a small AST of the `$match` fragment it can produce, and `mEval`, an
  interpreter of that fragment under MongoDB's documented query semantics on scalar field values.

  `mEval` is a reading of the MongoDB manual (query operators $eq $ne $gt $gte $lt $lte $in $not
  $and $or; "Comparison/Sort Order" type bracketing; "Query for Null or Missing Fields") — there is
  no server offline, so it is in the trusted base.  The core side is `Grip.C08.eval`
  (engine/logic/match.go, proved against the documentation in C08).
-/
import Grip.Basic
import Grip.Model.Path
import Grip.Model.C08

namespace Grip.C14
open Grip.C08 (Cond HasE lookup foundIn)

/-- What a has-expression key resolves to: the core engine's TravelerPathLookup on one side, the
    value MongoDB finds under the emitted field path on the other.  `lookup e` for one element. -/
abbrev Res := String → JV

mutual
  /-- MatchesHasExpression over a resolver (`Grip.C08.eval` is the instance `lookup e`, see
      `evalBy_lookup` in the lemmas). -/
  def evalBy (numOf : String → Option Int) (d : Res) : HasE → Bool
    | .cond k c a => Grip.C08.matchesCond numOf (d k) c a
    | .and es => Grip.C08.allTrue (evalByList numOf d es)
    | .or es => Grip.C08.anyTrue (evalByList numOf d es)
    | .not x => !(evalBy numOf d x)
    | .none => false
  def evalByList (numOf : String → Option Int) (d : Res) : List HasE → List Bool
    | [] => []
    | x :: xs => evalBy numOf d x :: evalByList numOf d xs
end

/-- Operator expression under a field: `{ "$gt": a }`, `{ "$not": { … } }`, `{}`. -/
inductive MOp where
  | eq (a : JV) | ne (a : JV) | gt (a : JV) | gte (a : JV) | lt (a : JV) | lte (a : JV)
  | in_ (a : JV)
  | elemMatchEq (a : JV)      -- {"$elemMatch": {"$eq": a}}: an array field with an element equal to a
  | not (o : MOp)
  | empty                     -- bson.M{} left by the `default:` arm of convertCondition
  deriving Repr, Inhabited

/-- Filter document. `field` keeps the has-expression's key; it is printed through `mpath`. -/
inductive MDoc where
  | field (key : String) (o : MOp)
  | and (xs : List MDoc)
  | or (xs : List MDoc)
  | all                       -- bson.M{}: the empty filter
  | nothing                   -- {"_id": {"$exists": false}}: matchNone, holds for no document
  | crash                     -- convertHasExpression panics (not reachable since rangeLimits checks the length)
  deriving Repr, Inhabited

/-! ### convertHasExpression -/

/-- The `switch cond.Condition` of convertCondition. -/
def opOf (c : Cond) (a : JV) : MOp :=
  match c with
  | .eq => .eq a
  | .neq => .ne a
  | .gt => .gt a
  | .gte => .gte a
  | .lt => .lt a
  | .lte => .lte a
  | .within => .in_ a
  | .without => .not (.in_ a)
  | .contains => .elemMatchEq a
  | _ => .empty

def isArr : JV → Bool
  | .arr _ => true
  | _ => false

/-- convertCondition (after `fix: the mongo compiler emits no filter MongoDB rejects`): `$in` needs
    an array, so `within` with any other value is `matchNone(not)` and `without` is
    `matchNone(!not)` — what the core engine answers. -/
def convCond (k : String) (c : Cond) (a : JV) (n : Bool) : MDoc :=
  match c with
  | .within => if isArr a then .field k (if n then .not (opOf c a) else opOf c a)
               else if n then .all else .nothing
  | .without => if isArr a then .field k (if n then .not (opOf c a) else opOf c a)
                else if n then .nothing else .all
  | _ => .field k (if n then .not (opOf c a) else opOf c a)

/-- `$and` / `$or` of the converted members, swapped under a negation; an EMPTY member list is
    `matchNone(!not)` for and() (holds for every element) and `matchNone(not)` for or() (holds for
    none), because MongoDB rejects an empty `$and`/`$or` array (same fix). -/
def junction (isAnd n : Bool) (xs : List MDoc) : MDoc :=
  if xs.isEmpty then (if isAnd != n then .all else .nothing)
  else if isAnd != n then .and xs else .or xs

/-- INSIDE / OUTSIDE / BETWEEN (after `fix: the mongo compiler treats a range condition whose value is
    not a list of two bounds as matching nothing`): `rangeLimits` accepts exactly a two-element
    list, whose bounds are wrapped into two conditions joined by And/Or and converted with the same
    `not`; anything else is `matchNone(not)` — no document, or every document under a negation —
    which is what the core engine answers. -/
def convRange (k : String) (c1 c2 : Cond) (isAnd : Bool) (a : JV) (n : Bool) : MDoc :=
  match a with
  | .arr [l, u] => junction isAnd n [convCond k c1 l n, convCond k c2 u n]
  | _ => if n then .all else .nothing

mutual
  /-- convertHasExpression (after the `fix:` that flips `not` under a Not node). -/
  def convert : HasE → Bool → MDoc
    | .cond k c a, n =>
      match c with
      | .inside => convRange k .gt .lt true a n
      | .outside => convRange k .lt .gt false a n
      | .between => convRange k .gte .lt true a n
      | _ => convCond k c a n
    | .and es, n => junction true n (convertList es n)
    | .or es, n => junction false n (convertList es n)
    | .not x, n => convert x (!n)
    | .none, _ => .all
  def convertList : List HasE → Bool → List MDoc
    | [], _ => []
    | x :: xs, n => convert x n :: convertList xs n
end

/-! ### convertPath and the documents of the aggregation pipeline -/

/-- A traveler: the current element and the marks set by `as` (gdbi.BaseTraveler). -/
structure Trav where
  cur : Elem
  marks : List (String × Elem) := []
  deriving Repr, Inhabited

/-- jsonpath.GetNamespace, `none` = jsonpath.Current (`$`, no `$` part, or `$__current__`). -/
def nsOf (key : String) : Option String :=
  match Path.namespaceOf key with
  | some ns => if ns == "__current__" then none else some ns
  | none => none

/-- `lookup` against a ToDict document. -/
def lookupIn (doc : JV) (key : String) : JV :=
  match Path.lookupDoc doc key with
  | some v => v
  | none => .null

/-- jsonpath.TravelerPathLookup: the key's namespace picks the current element or a mark
    (GetMark of a name never marked is nil, whose ToDict is `Path.nilDict`). -/
def coreRes (t : Trav) : Res := fun key =>
  match nsOf key with
  | none => lookup t.cur key
  | some ns => match t.marks.lookup ns with
    | some m => lookup m key
    | none => lookupIn Path.nilDict key

/-- GetJSONPath, strip `$.`, rename `gid` to `_id`: the path below one vertex/edge document. -/
def basePath (key : String) : List String :=
  let p := Path.jsonPathOf key
  if p == ["gid"] then ["_id"] else p

/-- convertPath after `fix: the mongo compiler addresses a has key in the namespace of a mark to the
    marked document` (d374bbd), as path components: a key of namespace ns ≠ current addresses
    `marks.<ns>.<path>`, as the Distinct arm of mongo/compile.go does. -/
def mpathL (key : String) : List String :=
  match nsOf key with
  | none => basePath key
  | some ns => "marks" :: ns :: basePath key

/-- FROZEN: convertPath before that fix dropped the namespace. -/
def mpathOldL (key : String) : List String := basePath key

/-- convertPath, the printed field name (compared with the real one by the correspondence run). -/
def mpath (key : String) : String :=
  match nsOf key with
  | none => ".".intercalate (basePath key)
  | some ns => "marks." ++ ns ++ "." ++ ".".intercalate (basePath key)

def mpathOld (key : String) : String := ".".intercalate (basePath key)

/-- A vertex/edge document of the MongoDB collections: ToDict with gid stored as `_id`. -/
def mongoFields (e : Elem) : List (String × JV) :=
  [("_id", .str e.gid), ("data", e.data), ("from", .str e.frm), ("label", .str e.label), ("to", .str e.to)]

/-- The document that flows through the compiled aggregation pipeline: the current element's
    fields and, under `marks.<name>`, the document that was current at `as(name)`
    (`$addFields {marks: {name: "$$ROOT"}}`; mongo/compile.go, As / Select / Distinct arms). -/
def pipeDoc (t : Trav) : JV :=
  .obj (mongoFields t.cur ++ [("marks", .obj (t.marks.map fun p => (p.1, .obj (mongoFields p.2))))])

/-- MongoDB's dotted field path: members of embedded documents; a missing field is null. -/
def mongoGet (doc : JV) (path : List String) : JV :=
  match doc.getPath? path with
  | some v => v
  | none => .null

/-- What the emitted field name of a key resolves to on the pipeline document. -/
def mongoRes (t : Trav) : Res := fun key => mongoGet (pipeDoc t) (mpathL key)

/-- FROZEN: the same for the old convertPath. -/
def mongoResOld (t : Trav) : Res := fun key => mongoGet (pipeDoc t) (mpathOldL key)

/-- Every mark a key of the expression names is present ("marks defined before use"). -/
def keyDefined (t : Trav) (key : String) : Bool :=
  match nsOf key with
  | none => true
  | some ns => (t.marks.lookup ns).isSome

mutual
  def marksDefined (t : Trav) : HasE → Bool
    | .cond k _ _ => keyDefined t k
    | .and es => marksDefinedList t es
    | .or es => marksDefinedList t es
    | .not x => marksDefined t x
    | .none => true
  def marksDefinedList (t : Trav) : List HasE → Bool
    | [] => true
    | x :: xs => marksDefined t x && marksDefinedList t xs
end

/-- Keys that address a field (not the whole document: `$a` / `$` alone give an empty path). -/
def keyAddressesField (key : String) : Bool := !(Path.jsonPathOf key).isEmpty

mutual
  def keysAddressFields : HasE → Bool
    | .cond k _ _ => keyAddressesField k
    | .and es => keysAddressFieldsList es
    | .or es => keysAddressFieldsList es
    | .not x => keysAddressFields x
    | .none => true
  def keysAddressFieldsList : List HasE → Bool
    | [] => true
    | x :: xs => keysAddressFields x && keysAddressFieldsList xs
end

mutual
  def hasCrash : MDoc → Bool
    | .crash => true
    | .and xs => hasCrashList xs
    | .or xs => hasCrashList xs
    | _ => false
  def hasCrashList : List MDoc → Bool
    | [] => false
    | x :: xs => hasCrash x || hasCrashList xs
end

/-! ### MongoDB's documented meaning of the fragment, on a scalar field value -/

def isScalar : JV → Bool
  | .null | .bool _ | .num _ | .str _ => true
  | _ => false

/-- Type bracketing: `$gt/$gte/$lt/$lte` compare only values of the same BSON type class
    (numbers with numbers, strings with strings by code point order, booleans false<true, null
    only equal to null); a missing field behaves as null.  `ordLt v a`: v sorts before a within
    one class; `ordEq v a`: same class and equal. -/
def ordLt : JV → JV → Bool
  | .num x, .num y => decide (x < y)
  | .str s, .str t => decide (s < t)
  | .bool x, .bool y => !x && y
  | _, _ => false

def ordEq : JV → JV → Bool
  | .num x, .num y => x == y
  | .str s, .str t => s == t
  | .bool x, .bool y => x == y
  | .null, .null => true
  | _, _ => false

def isGt (v a : JV) : Bool := ordLt a v
def isLt (v a : JV) : Bool := ordLt v a
def isEq (v a : JV) : Bool := ordEq v a

/-- `none`: MongoDB rejects the query (`$in` needs an array, `$not` needs an operator expression). -/
def evalOp : MOp → JV → Option Bool
  | .eq a, v => some (v == a)
  | .ne a, v => some (!(v == a))
  | .gt a, v => some (isGt v a)
  | .gte a, v => some (isGt v a || isEq v a)
  | .lt a, v => some (isLt v a)
  | .lte a, v => some (isLt v a || isEq v a)
  | .in_ a, v => match a with
    | .arr xs => some (foundIn v xs)
    | _ => none
  | .elemMatchEq a, v => match v with
    | .arr xs => some (foundIn a xs)
    | _ => some false
  | .not o, v => match o with
    | .empty => none
    | _ => (evalOp o v).map (!·)
  | .empty, _ => some false      -- `{field: {}}`: equality with the empty document

def andOpt : List (Option Bool) → Option Bool
  | [] => some true
  | x :: xs => match x, andOpt xs with
    | some a, some b => some (a && b)
    | _, _ => none

def orOpt : List (Option Bool) → Option Bool
  | [] => some false
  | x :: xs => match x, orOpt xs with
    | some a, some b => some (a || b)
    | _, _ => none

mutual
  /-- Does the filter select the document?  `none`: the server refuses the filter (`$and`/`$or`
      need a non-empty array; an invalid operator anywhere invalidates the whole query). -/
  def mEval (d : Res) : MDoc → Option Bool
    | .field k o => evalOp o (d k)
    | .and xs => if xs.isEmpty then none else andOpt (mEvalList d xs)
    | .or xs => if xs.isEmpty then none else orOpt (mEvalList d xs)
    | .all => some true
    | .nothing => some false
    | .crash => none
  def mEvalList (d : Res) : List MDoc → List (Option Bool)
    | [] => []
    | x :: xs => mEval d x :: mEvalList d xs
end

/-! ### Where the two meanings coincide -/

def isNumJ : JV → Bool
  | .num _ => true
  | _ => false

def notNumText (numOf : String → Option Int) : JV → Bool
  | .str s => (numOf s).isNone
  | _ => true

def isNumPair : JV → Bool
  | .arr [l, u] => isNumJ l && isNumJ u
  | _ => false

/-- A leaf on which the emitted filter and the core evaluation are known to agree: the field value
    is scalar, ordering tests compare against numbers and the value is not numeric text (MongoDB
    brackets by type, the core engine casts text to numbers), list operators carry lists, range
    operators carry exactly two numbers. (`within`/`without` with a non-list argument, `contains`
    on a scalar equal to its argument, and()/or() without members were divergences until the two
    `fix:` commits bd14ed8 and 0058dd1.) -/
def leafAgree (numOf : String → Option Int) (v : JV) (c : Cond) (a : JV) : Bool :=
  isScalar v && match c with
  | .eq | .neq => true
  | .gt | .gte | .lt | .lte => isNumJ a && notNumText numOf v
  | .inside | .outside | .between => isNumPair a && notNumText numOf v
  | .within | .without => true
  | .contains => true
  | .unset => false

mutual
  def agree (numOf : String → Option Int) (d : Res) : HasE → Bool
    | .cond k c a => leafAgree numOf (d k) c a
    | .and es => agreeList numOf d es
    | .or es => agreeList numOf d es
    | .not x => agree numOf d x
    | .none => false
  def agreeList (numOf : String → Option Int) (d : Res) : List HasE → Bool
    | [] => true
    | x :: xs => agree numOf d x && agreeList numOf d xs
end

/-- Expressions for which negation push-down is meaningful: every oneof is set, every condition
    is a known operator, range operators carry a list. -/
def leafTranslatable (c : Cond) (a : JV) : Bool :=
  match c with
  | .unset => false
  | .inside | .outside | .between => isArr a
  | _ => true

mutual
  def translatable : HasE → Bool
    | .cond _ c a => leafTranslatable c a
    | .and es => translatableList es
    | .or es => translatableList es
    | .not x => translatable x
    | .none => false
  def translatableList : List HasE → Bool
    | [] => true
    | x :: xs => translatable x && translatableList xs
end

/-! ### Classification of divergent leaves (used by the driver to name the known finding) -/

/-- Why a leaf is outside `leafAgree` (first cause). -/
def leafWhy (numOf : String → Option Int) (v : JV) (c : Cond) (a : JV) : Option String :=
  if !isScalar v then some "nonscalar" else
  match c with
  | .eq | .neq => none
  | .gt | .gte | .lt | .lte =>
    if isNumJ a && notNumText numOf v then none else some "C14-order-cast"
  | .inside | .outside | .between =>
    match a with
    | .arr [l, u] => if isNumJ l && isNumJ u && notNumText numOf v then none else some "C14-order-cast"
    | _ => none   -- malformed bounds: both sides answer "no element" (range_args_malformed_agree)
  | .within | .without => none
  | .contains => none
  | .unset => some "malformed"

mutual
  def whys (numOf : String → Option Int) (d : Res) : HasE → List String
    | .cond k c a => (leafWhy numOf (d k) c a).toList
    | .and es => whysList numOf d es
    | .or es => whysList numOf d es
    | .not x => whys numOf d x
    | .none => ["malformed"]
  def whysList (numOf : String → Option Int) (d : Res) : List HasE → List String
    | [] => []
    | x :: xs => whys numOf d x ++ whysList numOf d xs
end

end Grip.C14
