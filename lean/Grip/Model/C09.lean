/-
  Grip.Model.C09 — MODEL of kvindex (kvindex/kvindex.go, keys.go, entries.go) as repaired by the
  `fix:` commits listed in docs/notes/C09.md.

  The key-value store is kept per key family (the first byte of a key: `f` fields, `t` terms,
  `i` entries, `D` documents), each family as an association list over *structured* keys;
  `fieldKey/termKey/entryKey/docKey` give the byte keys of keys.go and every ordered scan runs
  over the keys sorted in byte order, with the loop conditions of the Go code.
  Number terms are IEEE-754 binary64 bit patterns (`Nat` below 2^64), exactly what
  `GetTermBytes` stores big-endian.
-/
import Grip.Basic
import Grip.Model.C09KV

namespace Grip.C09

inductive Term where
  | str (s : String)
  | num (w : Nat)
  deriving DecidableEq, Repr, Inhabited

/-- An entry key `i | field | type | term | docid`. -/
structure EKey where
  f : String
  t : Term
  d : String
  deriving DecidableEq, Repr, Inhabited

/-- A term key `t | field | type | term`. -/
abbrev TKey := String × Term

structure St where
  /-- `KVIndex.Fields` (in memory) and the `f|field` keys. -/
  fields : List String := []
  /-- `t|…` keys with their stored count (0 = invalidated, recount on demand). -/
  terms : List (TKey × Nat) := []
  /-- `i|…` keys (empty values). -/
  entries : List EKey := []
  /-- `D|doc` keys with the stored entry-key list. -/
  docs : List (String × List EKey) := []
  deriving Repr, Inhabited

/-! ### keys.go -/

def Term.tyByte : Term → UInt8
  | .str _ => 1
  | .num _ => 2

def Term.bytes : Term → Bytes
  | .str s => strBytes s
  | .num w => be8 w

def fieldKey (f : String) : Bytes := join0 [[0x66], strBytes f]
def termKey (k : TKey) : Bytes := join0 [[0x74], strBytes k.1, [k.2.tyByte], k.2.bytes]
def entryKey (e : EKey) : Bytes := join0 [[0x69], strBytes e.f, [e.t.tyByte], e.t.bytes, strBytes e.d]
def docKey (d : String) : Bytes := join0 [[0x44], strBytes d]

/-! ### entries.go -/

/-- `mapDig(doc, strings.Split(field, "."))`; a JSON null reads as absent (`x != nil`). -/
def mapDig : JV → List String → Option JV
  | _, [] => none
  | v, [k] => match v.getKey? k with
    | some .null => none
    | r => r
  | v, k :: k2 :: ks => match v.getKey? k with
    | some (.obj kvs) => mapDig (.obj kvs) (k2 :: ks)
    | _ => none

/-- `GetTermBytes`: strings and numbers are terms, everything else is `TermUnknown`. -/
def termOf : JV → Option Term
  | .str s => some (.str s)
  | .num n => some (.num (bitsOfScaled n))
  | _ => none

/-! ### store primitives (Set / Get / Delete on one key family) -/

def getTerm (ts : List (TKey × Nat)) (k : TKey) : Option Nat := ts.lookup k
def delTerm (ts : List (TKey × Nat)) (k : TKey) : List (TKey × Nat) := ts.filter (fun p => p.1 ≠ k)
def setTerm (ts : List (TKey × Nat)) (k : TKey) (c : Nat) : List (TKey × Nat) := (k, c) :: delTerm ts k
def delEntry (es : List EKey) (e : EKey) : List EKey := es.filter (fun x => x ≠ e)
def setEntry (es : List EKey) (e : EKey) : List EKey := if e ∈ es then es else e :: es
def delDoc (ds : List (String × List EKey)) (d : String) := ds.filter (fun p => p.1 ≠ d)
def setDoc (ds : List (String × List EKey)) (d : String) (l : List EKey) := (d, l) :: delDoc ds d

/-- Number of entry keys below `EntryValuePrefix(field, type, term)`. -/
def countEntries (es : List EKey) (k : TKey) : Nat :=
  (es.filter (fun e => e.f = k.1 ∧ e.t = k.2)).length

/-! ### kvindex.go: mutations.  `none` = the transaction returned an error (nothing is written). -/

def addField (st : St) (f : String) : St :=
  { st with fields := if f ∈ st.fields then st.fields else f :: st.fields }

/-- `RemoveField`: DeletePrefix(TermPrefix), DeletePrefix(EntryPrefix), delete(Fields), Delete(FieldKey).
    The entry lists stored with the documents are not touched. -/
def removeField (st : St) (f : String) : St :=
  { st with
    terms := st.terms.filter (fun p => p.1.1 ≠ f)
    entries := st.entries.filter (fun e => e.f ≠ f)
    fields := st.fields.filter (fun g => g ≠ f) }

/-- `termGetCount`: a stored 0 means "invalidated": recount the entries and store the result. -/
def termGetCount (ts : List (TKey × Nat)) (es : List EKey) (k : TKey) :
    Option (List (TKey × Nat) × Nat) :=
  match getTerm ts k with
  | none => none
  | some 0 => let c := countEntries es k; some (setTerm ts k c, c)
  | some c => some (ts, c)

/-- One round of the loop of `removeDocTx` over the stored entry list. -/
def removeEntryStep (acc : List (TKey × Nat) × List EKey) (ek : EKey) :
    Option (List (TKey × Nat) × List EKey) :=
  let (ts, es) := acc
  if ek ∈ es then
    match termGetCount ts es (ek.f, ek.t) with
    | none => none
    | some (ts1, c) =>
      let es1 := delEntry es ek
      let c1 := if c > 0 then c - 1 else c
      if c1 = 0 then some (delTerm ts1 (ek.f, ek.t), es1) else some (setTerm ts1 (ek.f, ek.t) c1, es1)
  else some (ts, es)   -- the entry is already gone (its field was removed)

def removeLoop : List EKey → List (TKey × Nat) × List EKey → Option (List (TKey × Nat) × List EKey)
  | [], acc => some acc
  | ek :: l, acc => match removeEntryStep acc ek with
    | none => none
    | some acc' => removeLoop l acc'

/-- `removeDocTx`: absent document ⇒ nothing to do. -/
def removeDocTx (st : St) (d : String) : Option St :=
  match st.docs.lookup d with
  | none => some st
  | some l =>
    match removeLoop l (st.terms, st.entries) with
    | none => none
    | some (ts, es) => some { st with terms := ts, entries := es, docs := delDoc st.docs d }

def removeDoc (st : St) (d : String) : Option St := removeDocTx st d

/-- The loop of `AddDocTx` over `idx.Fields` (map order is immaterial: the writes commute). -/
def addLoop (doc : JV) (d : String) :
    List String → List (TKey × Nat) × List EKey × List EKey → Option (List (TKey × Nat) × List EKey × List EKey)
  | [], acc => some acc
  | f :: fs, (ts, es, l) =>
    match mapDig doc (f.splitOn ".") with
    | none => addLoop doc d fs (ts, es, l)
    | some v =>
      match termOf v with
      | none => none                       -- "unsupported term type"
      | some t => addLoop doc d fs (setTerm ts (f, t) 0, setEntry es ⟨f, t, d⟩, l ++ [⟨f, t, d⟩])

/-- `AddDocTx` (what kvgraph calls through a write-only bulk handle): no look at a previous version. -/
def addDocTx (st : St) (d : String) (doc : JV) : Option St :=
  match addLoop doc d st.fields (st.terms, st.entries, []) with
  | none => none
  | some (ts, es, l) => some { st with terms := ts, entries := es, docs := setDoc st.docs d l }

/-- `AddDoc`: one transaction: remove the previous version, then `AddDocTx`. -/
def addDoc (st : St) (d : String) (doc : JV) : Option St :=
  match removeDocTx st d with
  | none => none
  | some st1 => addDocTx st1 d doc

/-! ### kvindex.go: queries -/

def docLe (a b : String) : Bool := bytesLe (strBytes a) (strBytes b)

/-- `GetTermMatch(field, value, maxCount)`: the doc ids below `EntryValuePrefix`, in key order. -/
def getTermMatch (st : St) (f : String) (t : Term) (maxCount : Nat) : List String :=
  let ds := sortBy docLe ((st.entries.filter (fun e => e.f = f ∧ e.t = t)).map (·.d))
  if maxCount > 0 then ds.take maxCount else ds

def termLe (a b : Term) : Bool := bytesLe (a.tyByte :: a.bytes) (b.tyByte :: b.bytes)

/-- Term keys below `TermPrefix(field)`, in key order. -/
def fieldTermKeys (st : St) (f : String) : List Term :=
  sortBy termLe ((st.terms.filter (fun p => p.1.1 = f)).map (·.1.2))

def fieldTerms (st : St) (f : String) : List Term := fieldTermKeys st f

/-- The loop of `fieldTermCounts`: a stored 0 is recounted and written back. -/
def countLoop (f : String) (es : List EKey) :
    List Term → List (TKey × Nat) → List (TKey × Nat) × List (Term × Nat)
  | [], ts => (ts, [])
  | t :: rest, ts =>
    let stored := (getTerm ts (f, t)).getD 0
    let (ts1, c) := if stored = 0 then
        let c := countEntries es (f, t); (setTerm ts (f, t) c, c) else (ts, stored)
    let (ts2, out) := countLoop f es rest ts1
    (ts2, (t, c) :: out)

def fieldTermCounts (st : St) (f : String) : St × List (Term × Nat) :=
  let (ts, out) := countLoop f st.entries (fieldTermKeys st f) st.terms
  ({ st with terms := ts }, out)

/-! Number entries of a field, as (bit pattern, doc id), in key order
    (8 term bytes big-endian, then the separator, then the doc id). -/

abbrev NKey := Nat × String

def nkeyLe (a b : NKey) : Bool := a.1 < b.1 || (a.1 == b.1 && docLe a.2 b.2)

def numView (st : St) (f : String) : List NKey :=
  sortBy nkeyLe (st.entries.filterMap fun e =>
    if e.f = f then match e.t with | .num w => some (w, e.d) | .str _ => none else none)

/-- Comparisons of an entry key with a bare `EntryValuePrefix(field, TermNumber, b)`. -/
def pfxLt (b : Nat) (k : NKey) : Bool := b < k.1 || (b == k.1 && k.2 != "")
def pfxLe (b : Nat) (k : NKey) : Bool := b ≤ k.1
def keyLtPfx (k : NKey) (b : Nat) : Bool := k.1 < b
def keyLePfx (k : NKey) (b : Nat) : Bool := k.1 < b || (k.1 == b && k.2 == "")

/-- Sign/magnitude reading of a bit pattern: an order embedding of the finite doubles into ℤ
    (`val a < val b ↔ skey a < skey b`; ±0 ↦ 0). -/
def skey (w : Nat) : Int := if w < 2 ^ 63 then (w : Int) else - ((w - 2 ^ 63 : Nat) : Int)

/-- `val < 0` and `val >= 0` on the float behind a bit pattern (false on NaN). -/
def valLt0 (w : Nat) : Bool := negZeroBits < w && w ≤ negInfBits
def valGe0 (w : Nat) : Bool := w ≤ posInfBits || w == negZeroBits

/-- `it.SeekReverse(prefix b)` then walking with `Next`: the keys ≤ the prefix, greatest first. -/
def seekRev (v : List NKey) (b : Nat) : List NKey := (v.takeWhile (keyLePfx · b)).reverse
/-- `it.Seek(prefix b)` then walking with `Next`: the keys ≥ the prefix, least first. -/
def seekFwd (v : List NKey) (b : Nat) : List NKey := v.dropWhile (fun k => !pfxLe b k)

/-- `FieldNumbers`: reverse from -Inf while above +Inf, then forward from 0 while below +Inf. -/
def fieldNumbers (st : St) (f : String) : List Nat :=
  let v := numView st f
  let neg := (seekRev v negInfBits).takeWhile (pfxLt posInfBits ·)
  let pos := (seekFwd v 0).takeWhile (keyLtPfx · posInfBits)
  (neg ++ pos).map (·.1)

/-- `FieldTermNumberMin`. -/
def fieldMin (st : St) (f : String) : Nat :=
  let v := numView st f
  match (seekRev v negInfBits).head? with
  | some (w, _) => if valLt0 w then w else
      match (seekFwd v 0).head? with
      | some (w2, _) => if valGe0 w2 then w2 else 0
      | none => 0
  | none =>
      match (seekFwd v 0).head? with
      | some (w2, _) => if valGe0 w2 then w2 else 0
      | none => 0

/-- `FieldTermNumberMax` (with `val >= 0` in the first scan). -/
def fieldMax (st : St) (f : String) : Nat :=
  let v := numView st f
  let second : Nat := match (seekFwd v posInfBits).head? with
    | some (w2, _) => if valLt0 w2 then w2 else 0
    | none => 0
  match (seekRev v posInfBits).head? with
  | some (w, _) => if valGe0 w then w else second
  | none => second

/-- The `if val != last { flush }; count++` grouping of consecutive equal terms. -/
def groupCounts : List Nat → List (Nat × Nat)
  | [] => []
  | w :: ws => match groupCounts ws with
    | (w', c) :: r => if w = w' then (w, c + 1) :: r else (w, 1) :: (w', c) :: r
    | [] => [(w, 1)]

def succBits (w : Nat) : Nat := (w + 1) % 2 ^ 64

/-- `FieldTermNumberRange(field, min, max)` = [min, max), negatives first. -/
def fieldRange (st : St) (f : String) (lo hi : Nat) : List (Nat × Nat) :=
  if skey hi < skey lo then [] else
  let v := numView st f
  let neg := if skey lo < 0 then
      let maxP := if skey hi ≥ 0 then posInfBits else succBits hi
      groupCounts (((seekRev v (succBits lo)).takeWhile (pfxLe maxP ·)).map (·.1))
    else []
  let pos := if skey hi ≥ 0 then
      let minP := if skey lo < 0 then 0 else lo
      groupCounts (((seekFwd v minP).takeWhile (keyLtPfx · hi)).map (·.1))
    else []
  neg ++ pos

end Grip.C09
