/-
  Grip.Model.C12Nested — MODEL of a loop that contains another loop:

      mark(a) . … mark(b) . … jump(b, cb, eb) . … jump(a, ca, ea)

  (engine/logic/jump.go; the statements are a goto machine, website/content/docs/queries/
  iterations.md, so nothing forbids this nesting).  Used for a COUNTEREXAMPLE only
  (GripProofs/Props/C12Live.lean, `nested_closes_early`): no invariant is claimed for it.

  Goroutines and channels: as in Grip.Model.C12Multi, with two more kinds of stage on the main line:
    `markB`   the inner JumpMark, which is in its FIRST loop as long as the outer mark runs (its main
              input is the outer cycle's channel and is not closed): each iteration polls the inner
              jump's queue output and forwards what it finds (`jumperFound`), otherwise reads its
              main input and forwards it — travelers and, alike, the outer mark's signal
              (`case msg, ok := <-in: … out <- msg`).
    `jumpB`   Jump.Process of the inner jump: a traveler goes to the inner queue if `cb`, and on if
              `eb`; a SIGNAL of the outer mark has `Dest ≠ b`, so it is only forwarded
              (`if t.GetSignal().Dest == s.Mark { s.jumpers <- t }; out <- t`).
  The outer mark is the single-input mark of Grip.Model.C12 (one loop iteration per transition);
  its jump is the last stage.  `W` is the list of all messages; a goroutine removes the first
  message of its input channel and appends its outputs at the end of `W` (per-channel FIFO).

  Core Lean only.
-/
import Grip.Model.C12Multi

namespace Grip.C12.Nested
open Grip.C12 (Msg Phase)
open Grip.C12.Multi (Chan)

inductive NStage (T : Type) where
  | body (f : T → List T)
  | markB (q : Nat)                       -- inner mark; `q` = main position of its jump
  | jumpB (cond : T → Bool) (emit : Bool) -- jump to the inner mark
  | jumpA (cond : T → Bool) (emit : Bool) -- jump to the outer mark

variable {T : Type}

structure State (T : Type) where
  inp : List T
  phase : Phase
  W : List (Chan × Msg T)
  emitted : List T
  curID : Nat
  returnCount : Nat
  signalActive : Bool
  signalOutdated : Bool

def init (inp : List T) : State T :=
  { inp := inp, phase := .open, W := [], emitted := [], curID := 0, returnCount := 0,
    signalActive := false, signalOutdated := false }

def markDecide (s : State T) : State T :=
  if (!s.signalActive && !s.signalOutdated) || (s.signalOutdated && s.returnCount == 1) then
    { s with curID := s.curID + 1, signalActive := true, signalOutdated := false, returnCount := 0,
             W := s.W ++ [(Chan.main 0, .sig (s.curID + 1))] }
  else if s.signalActive && s.returnCount == 1 then
    { s with phase := .closed }
  else s

def outMain (n i : Nat) (ms : List (Msg T)) : List (Chan × Msg T) :=
  if i < n then ms.map (fun m => (Chan.main i, m)) else []

def outDown (n i : Nat) (ts : List T) : List T := if i < n then [] else ts

inductive Label where
  | stage (i : Nat)
  | queue (j k : Nat)
  | mark
  deriving Repr, DecidableEq

/-- `W = A ++ (c, m) :: B` with `(c, m)` the first message of channel `c`. -/
def First (W : List (Chan × Msg T)) (c : Chan) (m : Msg T) (A B : List (Chan × Msg T)) : Prop :=
  W = A ++ (c, m) :: B ∧ ∀ x ∈ A, x.1 ≠ c

inductive Step (sys : List (NStage T)) (last : Nat) : Label → State T → State T → Prop
  | bodyTrav {s : State T} {A B : List (Chan × Msg T)} {i : Nat} {t : T} {f : T → List T} :
      First s.W (Chan.main i) (.trav t) A B → sys[i]? = some (.body f) →
      Step sys last (.stage i) s
        { s with W := A ++ B ++ outMain sys.length (i + 1) ((f t).map Msg.trav),
                 emitted := s.emitted ++ outDown sys.length (i + 1) (f t) }
  | jumpTrav {s : State T} {A B : List (Chan × Msg T)} {i : Nat} {t : T} {st : NStage T}
      {c : T → Bool} {e : Bool} :
      First s.W (Chan.main i) (.trav t) A B → sys[i]? = some st →
      (st = .jumpA c e ∨ st = .jumpB c e) →
      Step sys last (.stage i) s
        { s with W := A ++ B ++ (if c t then [(Chan.side i 0, Msg.trav t)] else [])
                        ++ outMain sys.length (i + 1) (if e then [Msg.trav t] else []),
                 emitted := s.emitted ++ outDown sys.length (i + 1) (if e then [t] else []) }
  -- a signal of the outer mark: forwarded by body steps and by the inner jump …
  | fwdSig {s : State T} {A B : List (Chan × Msg T)} {i k : Nat} {st : NStage T}
      {f : T → List T} {c : T → Bool} {e : Bool} :
      First s.W (Chan.main i) (.sig k) A B → sys[i]? = some st →
      (st = .body f ∨ st = .jumpB c e) →
      Step sys last (.stage i) s { s with W := A ++ B ++ outMain sys.length (i + 1) [Msg.sig k] }
  -- … copied into the queue by the outer jump
  | jumpASig {s : State T} {A B : List (Chan × Msg T)} {i k : Nat} {c : T → Bool} {e : Bool} :
      First s.W (Chan.main i) (.sig k) A B → sys[i]? = some (.jumpA c e) →
      Step sys last (.stage i) s
        { s with W := A ++ B ++ [(Chan.side i 0, Msg.sig k)]
                        ++ outMain sys.length (i + 1) [Msg.sig k] }
  -- the inner mark, first loop: the inner jump's queue first, else its main input
  | markBJump {s : State T} {A B : List (Chan × Msg T)} {i q : Nat} {m : Msg T} :
      sys[i]? = some (.markB q) → First s.W (Chan.side q 2) m A B →
      Step sys last (.stage i) s { s with W := A ++ B ++ outMain sys.length (i + 1) [m] }
  | markBIn {s : State T} {A B : List (Chan × Msg T)} {i q : Nat} {m : Msg T} :
      sys[i]? = some (.markB q) → (∀ x ∈ s.W, x.1 ≠ Chan.side q 2) →
      First s.W (Chan.main i) m A B →
      Step sys last (.stage i) s { s with W := A ++ B ++ outMain sys.length (i + 1) [m] }
  | queue {s : State T} {A B : List (Chan × Msg T)} {j k : Nat} {m : Msg T} :
      First s.W (Chan.side j k) m A B → k < 2 →
      Step sys last (.queue j k) s { s with W := A ++ B ++ [(Chan.side j (k + 1), m)] }
  -- the outer mark (`last` = main position of its jump), as in Grip.Model.C12
  | openJump {s : State T} {A B : List (Chan × Msg T)} {m : Msg T} :
      s.phase = .open → First s.W (Chan.side last 2) m A B →
      Step sys last .mark s { s with W := A ++ B ++ [(Chan.main 0, m)] }
  | openIn {s : State T} {t : T} {r : List T} :
      s.phase = .open → (∀ x ∈ s.W, x.1 ≠ Chan.side last 2) → s.inp = t :: r →
      Step sys last .mark s { s with inp := r, W := s.W ++ [(Chan.main 0, Msg.trav t)] }
  | openClose {s : State T} :
      s.phase = .open → (∀ x ∈ s.W, x.1 ≠ Chan.side last 2) → s.inp = [] →
      Step sys last .mark s { s with phase := .closing }
  | closeTrav {s : State T} {A B : List (Chan × Msg T)} {t : T} :
      s.phase = .closing → First s.W (Chan.side last 2) (.trav t) A B →
      Step sys last .mark s
        { s with W := A ++ B ++ [(Chan.main 0, Msg.trav t)],
                 signalOutdated := s.signalActive || s.signalOutdated }
  | closeSig {s : State T} {A B : List (Chan × Msg T)} {k : Nat} :
      s.phase = .closing → First s.W (Chan.side last 2) (.sig k) A B →
      Step sys last .mark s (markDecide { s with W := A ++ B, returnCount := s.returnCount + 1 })
  | closePoll {s : State T} :
      s.phase = .closing → (∀ x ∈ s.W, x.1 ≠ Chan.side last 2) →
      Step sys last .mark s (markDecide s)

inductive Reachable (sys : List (NStage T)) (last : Nat) (inp0 : List T) : State T → Prop
  | init : Reachable sys last inp0 (init inp0)
  | step {s s' : State T} {l : Label} :
      Reachable sys last inp0 s → Step sys last l s s' → Reachable sys last inp0 s'

end Grip.C12.Nested
