/-
  Grip.Model.Path — field references (jsonpath/jsonpath.go) over the dotted-object fragment.

  `"$mark.a.b"` → namespace `mark`, path `$.data.a.b`; reserved first components
  `_gid/_label/_to/_from/_data` address the element's own fields.  Bracket and slice forms of
  bmeg/jsonpath are outside the model (never generated; trusted base).
-/
import Grip.Basic

namespace Grip

/-- gdbi.DataElement (ID, Label, From, To, Data, Loaded). -/
structure Elem where
  gid : String := ""
  label : String := ""
  frm : String := ""
  to : String := ""
  data : JV := .obj []
  loaded : Bool := true
  deriving Repr, Inhabited, DecidableEq

namespace Path

def reserved : List String := ["_gid", "_label", "_to", "_from", "_data"]

/-- `DataElement.ToDict` (gdbi/traveler.go): the document a path is evaluated against. -/
def toDict (e : Elem) : JV :=
  .obj [("data", e.data), ("from", .str e.frm), ("gid", .str e.gid),
        ("label", .str e.label), ("to", .str e.to)]

/-- ToDict of a nil element. -/
def nilDict : JV :=
  .obj [("data", .obj []), ("from", .str ""), ("gid", .str ""), ("label", .str ""), ("to", .str "")]

def splitDots (s : String) : List String := s.splitOn "."

/-- `GetNamespace`: `none` = the current element. -/
def namespaceOf (path : String) : Option String :=
  match splitDots path with
  | p :: _ => if p.startsWith "$" then
      let ns := (p.drop 1).toString
      if ns == "" then none else some ns
    else none
  | [] => none

/-- `GetJSONPath` as a list of object keys below the ToDict document (without the `$`). -/
def jsonPathOf (path : String) : List String :=
  let parts := splitDots path
  let parts := match parts with
    | p :: rest => if p.startsWith "$" then rest else parts
    | [] => []
  match parts with
  | [] => []
  | p :: rest => if reserved.contains p then (p.drop 1).toString :: rest else "data" :: p :: rest

/-- `JsonPathLookup` on the dotted fragment; a missing key is an error → `none`. -/
def lookupDoc (doc : JV) (path : String) : Option JV :=
  match jsonPathOf path with
  | [] => some doc
  | ks => doc.getPath? ks

end Path
end Grip
