/-
  Grip.Model.SMap — layer 1 of the storage model (DESIGN.md §4.3): an ordered byte-string map as
  a sorted association list, with the iterator state machine of `kvi.KVIterator`
  (direction flag + cached entry, as in the four adapters under kvi/*/…_store.go).

  Shared by C10 (which proves the laws, GripProofs/Props/C10.lean) and by the storage models of
  C03/C04/C16.  Core Lean only: this file is linked into `gripdriver`.

  Everything here is executable; nothing is a `Prop`-valued definition except `Sorted`.
-/
import Grip.Basic

namespace Grip

/-! ## Lexicographic order on byte strings (= Go's `bytes.Compare`) -/
namespace Bytes

/-- Strict lexicographic order: `blt a b = true` iff `bytes.Compare(a, b) < 0`. -/
def blt : Bytes → Bytes → Bool
  | _, [] => false
  | [], _ :: _ => true
  | a :: as, b :: bs => decide (a.toNat < b.toNat) || (a.toNat == b.toNat && blt as bs)

/-- `ble a b = true` iff `bytes.Compare(a, b) ≤ 0`. -/
def ble (a b : Bytes) : Bool := !blt b a

/-- `hasPrefix k p = true` iff `bytes.HasPrefix(k, p)`. -/
def hasPrefix : Bytes → Bytes → Bool
  | _, [] => true
  | [], _ :: _ => false
  | a :: as, b :: bs => a.toNat == b.toNat && hasPrefix as bs

end Bytes

/-- One stored entry. -/
abbrev KV := Bytes × Bytes

namespace SMap
open Bytes

/-- The representation invariant: keys strictly ascending (hence no duplicate keys). -/
def Sorted (m : List KV) : Prop := m.Pairwise (fun a b => blt a.1 b.1 = true)

/-- Executable check of the invariant (used by the driver on states it is handed). -/
def isSorted : List KV → Bool
  | [] => true
  | [_] => true
  | a :: b :: r => blt a.1 b.1 && isSorted (b :: r)

/-! ## Point operations -/

/-- `Get`. -/
def get : List KV → Bytes → Option Bytes
  | [], _ => none
  | (k', v) :: r, k => if k' = k then some v else get r k

/-- `HasKey`. -/
def has (m : List KV) (k : Bytes) : Bool := (get m k).isSome

/-- `Set`: insert or overwrite, keeping the order. -/
def set : List KV → Bytes → Bytes → List KV
  | [], k, v => [(k, v)]
  | (k', v') :: r, k, v =>
    if blt k k' then (k, v) :: (k', v') :: r
    else if k' = k then (k, v) :: r
    else (k', v') :: set r k v

/-- `Delete`. -/
def delete (m : List KV) (k : Bytes) : List KV := m.filter (fun kv => !decide (kv.1 = k))

/-- `DeletePrefix`. -/
def deletePrefix (m : List KV) (p : Bytes) : List KV := m.filter (fun kv => !hasPrefix kv.1 p)

/-- The entries whose key starts with `p`, in key order (what a prefix scan must enumerate). -/
def withPrefix (m : List KV) (p : Bytes) : List KV := m.filter (fun kv => hasPrefix kv.1 p)

/-! ## Writes, transactions and bulk writes -/

/-- A write as issued through `KVTransaction` / `KVBulkWrite`. -/
inductive Write where
  | set (k v : Bytes)
  | del (k : Bytes)
  deriving Repr, DecidableEq

def applyWrite (m : List KV) : Write → List KV
  | .set k v => set m k v
  | .del k => delete m k

/-- Sequential application — the SPEC of a committed transaction or bulk write. -/
def applyWrites (m : List KV) (ws : List Write) : List KV := ws.foldl applyWrite m

/-- A transaction as the adapters' engines implement it (Badger's pending-writes table, Bolt's
    dirty pages, LevelDB's transaction memtable): an immutable snapshot plus an overlay holding
    the latest pending write per key, newest first.  `none` = pending delete. -/
structure Tx where
  base : List KV
  pend : List (Bytes × Option Bytes) := []
  deriving Repr

namespace Tx

def lookupPend : List (Bytes × Option Bytes) → Bytes → Option (Option Bytes)
  | [], _ => none
  | (k', w) :: r, k => if k' = k then some w else lookupPend r k

/-- `KVTransaction.Get`: the pending write wins over the snapshot. -/
def get (t : Tx) (k : Bytes) : Option Bytes :=
  match lookupPend t.pend k with
  | some w => w
  | none => SMap.get t.base k

def has (t : Tx) (k : Bytes) : Bool := (t.get k).isSome

def write (t : Tx) : Write → Tx
  | .set k v => { t with pend := (k, some v) :: t.pend }
  | .del k => { t with pend := (k, none) :: t.pend }

def writes (t : Tx) (ws : List Write) : Tx := ws.foldl write t

/-- Apply the overlay, oldest pending write first. -/
def flush : List KV → List (Bytes × Option Bytes) → List KV
  | m, [] => m
  | m, (k, w) :: older =>
    let m' := flush m older
    match w with
    | some v => SMap.set m' k v
    | none => SMap.delete m' k

/-- Commit. -/
def commit (t : Tx) : List KV := flush t.base t.pend

/-- What an iterator opened inside the transaction sees. -/
def view (t : Tx) : List KV := t.commit

end Tx

/-! ## The iterator state machine

`kvi.KVIterator` as the adapters implement it: a direction flag set by the last seek and a
cached current entry (`none` = `Valid()` is false).  The iterator reads a fixed snapshot `m`. -/

structure Iter where
  forward : Bool := true
  cur : Option KV := none
  deriving Repr, DecidableEq

namespace Iter

def valid (it : Iter) : Bool := it.cur.isSome
def key (it : Iter) : Option Bytes := it.cur.map (·.1)
def value (it : Iter) : Option Bytes := it.cur.map (·.2)

/-- First entry with key ≥ `k`. -/
def firstGE (m : List KV) (k : Bytes) : Option KV := m.find? (fun kv => ble k kv.1)
/-- Last entry with key ≤ `k`. -/
def lastLE (m : List KV) (k : Bytes) : Option KV := m.reverse.find? (fun kv => ble kv.1 k)
/-- First entry with key > `k`. -/
def firstGT (m : List KV) (k : Bytes) : Option KV := m.find? (fun kv => blt k kv.1)
/-- Last entry with key < `k`. -/
def lastLT (m : List KV) (k : Bytes) : Option KV := m.reverse.find? (fun kv => blt kv.1 k)

/-- `Seek(k)`: forward, positioned on the least key ≥ `k` (invalid when there is none). -/
def seek (m : List KV) (_ : Iter) (k : Bytes) : Iter := { forward := true, cur := firstGE m k }

/-- `SeekReverse(k)`: backward, positioned on the greatest key ≤ `k` (invalid when there is none). -/
def seekReverse (m : List KV) (_ : Iter) (k : Bytes) : Iter := { forward := false, cur := lastLE m k }

/-- `Next()`: successor when forward, predecessor when backward; an invalid iterator stays invalid. -/
def next (m : List KV) (it : Iter) : Iter :=
  match it.cur with
  | none => it
  | some (k, _) => { it with cur := if it.forward then firstGT m k else lastLT m k }

/-- `for …; it.Valid() && bytes.HasPrefix(it.Key(), p); it.Next() { collect }` with `fuel`
    bounding the number of iterations (the theorems show `m.length + 1` is always enough). -/
def collect (m : List KV) (p : Bytes) : Nat → Iter → List KV × Iter
  | 0, it => ([], it)
  | fuel + 1, it =>
    match it.cur with
    | none => ([], it)
    | some kv =>
      if hasPrefix kv.1 p then
        let (out, it') := collect m p fuel (next m it)
        (kv :: out, it')
      else ([], it)

/-- The prefix scan every caller in kvgraph/kvindex writes:
    `for it.Seek(p); it.Valid() && bytes.HasPrefix(it.Key(), p); it.Next()`. -/
def scan (m : List KV) (it : Iter) (p : Bytes) : List KV × Iter :=
  collect m p (m.length + 1) (seek m it p)

/-- The reverse scan of kvindex: `for it.SeekReverse(k); it.Valid() && HasPrefix(it.Key(), p); it.Next()`. -/
def scanReverse (m : List KV) (it : Iter) (k p : Bytes) : List KV × Iter :=
  collect m p (m.length + 1) (seekReverse m it k)

end Iter

end SMap
end Grip
