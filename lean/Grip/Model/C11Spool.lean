/-
  Grip.Model.C11Spool — SMALL-STEP MODEL of one job's life against a concurrent reader
  (DESIGN.md §5 C11; jobstorage/storage.go).  Core Lean only, executable.

  Grip.Model.C11 models `FSResults.Spool` as a function (`Store.spool`) and a job as observed once
  it is COMPLETE.  This file models the ORDER of the effects of the spooling goroutine against a
  reader that may call `Status`, `Stream` (ViewJob / ResumeJob) or be a whole server restart at
  any point between two effects.

  The goroutine of `FSResults.Spool`, statement by statement (storage.go:177-205, the order
  AFTER fix 3895728 — variant `direct`):

      job.setState(RUNNING)                              -- pc start
      defer resultFile.Close()
      for i := range tbStream {                          -- pc fetch   (takes the next row)
          resultFile.Write(i)                            --   the row's bytes, no newline yet
          resultFile.Write([]byte("\n"))                 -- pc newline
          job.addCount(1)                                -- pc addCount
      }
      statusFile, err := os.Create(statusPath)           -- pc create  (or: fails, state ERROR)
      defer statusFile.Close()
      final := job.getStatus(); final.State = COMPLETE
      out, _ := json.Marshal(&jobFile{Status: final, …})
      statusFile.Write(out + "\n")                       -- pc writeStatus (content: COMPLETE, count)
      job.setState(COMPLETE)                             -- pc setComplete
      -- deferred: statusFile.Close(), resultFile.Close()   pc close

  The order BEFORE fix 3895728 (variant `directOld`, kept frozen) had the two last effects the
  other way round:

      statusFile, err := os.Create(statusPath)           -- pc create
      job.setState(COMPLETE)                             -- pc setComplete
      out, _ := json.Marshal(job)
      statusFile.Write(out + "\n")                       -- pc writeStatus (content: job's state, count)

  `Variant` makes the order of these two effects and the placement of a writer-side buffer
  parameters of the same program:
  * `direct` — the code as it is: every `Write` goes to the file; the status file is written
    BEFORE `setState(COMPLETE)`.
  * `directOld` — the code as it was before fix 3895728: every `Write` goes to the file; the
    status file is written AFTER `setState(COMPLETE)`.
  * `flushAfter cap` — the regression that was seeded twice, on top of the repaired order:
    `w := bufio.NewWriter(resultFile); defer w.Flush()`; the rows go to `w`, the deferred `Flush`
    runs when the goroutine returns, i.e. AFTER the status file is written and AFTER
    `setState(COMPLETE)` (pc flushPost).
  * `flushBefore cap` — the same writer with `w.Flush()` right after the loop (pc flushPre),
    status file before `setState(COMPLETE)` as in the repaired code.
  (`Variant.statusFirst`: the status file is written before the state change — everything but
  `directOld`.)
  Not modelled: an error of `json.Marshal` (old code: ignored; new code, storage.go:195-199: the
  `Write` is skipped and `setState(COMPLETE)` still runs — that path would be the old window
  again, COMPLETE in memory over an empty status file, for good; it marshals the same fields the
  old code did), a failing or short `statusFile.Write` (its result is not checked either).
  The buffer holds whole rows; `cap = some c` spills when a row arrives while `c` rows are
  already buffered (`none`: never).  A spill of a `bufio.Writer` does not respect row
  boundaries: the label `spoolCut` is the spill that leaves a proper prefix of the arriving row
  at the end of the file (`Tail.cut`), `spool` is the spill that happens to end on a row boundary.

  The reader (storage.go):
  * `Status` → `job.getStatus()`: state and count under the job's RWMutex (one atomic read;
    `setState` / `addCount` take the write lock).
  * `Stream`: refused unless `getStatus().State == COMPLETE`; then the results file is opened and
    scanned line by line (`bufio.Scanner`: a last line without newline is still delivered).
    The read is modelled as atomic (the reader sees the file as it is at one instant); since the
    file only grows, a slower scan can only see more.
  * restart (`NewFSJobStorage`): the process dies at any point (memory, buffer and goroutine are
    gone; the files stay as the completed `write` calls left them) and the new process globs
    `*/*/status`; a status file that `json.Unmarshal` accepts becomes the job (state and count as
    written), an EMPTY one ("unexpected end of JSON input") is logged and skipped: the job is
    not listed.  Power loss (no `fsync` anywhere) is outside the model.
-/
import Grip.Model.C11

namespace Grip.C11.Spool
open Grip.C11 (JobState)

/-- Where the rows go, and (if they are buffered) where the buffer is flushed.
    `cap`: `some c` = room for `c` rows, `none` = unbounded. -/
inductive Variant where
  /-- the code as it is (after fix 3895728): unbuffered, status file BEFORE `setState(COMPLETE)` -/
  | direct
  /-- the code as it was (before fix 3895728): unbuffered, status file AFTER `setState(COMPLETE)` -/
  | directOld
  | flushAfter (cap : Option Nat)
  | flushBefore (cap : Option Nat)
  deriving Repr, DecidableEq

namespace Variant

def buffered : Variant → Bool
  | .direct => false
  | .directOld => false
  | _ => true

/-- The status file is written BEFORE `setState(COMPLETE)` (the repaired order). -/
def statusFirst : Variant → Bool
  | .directOld => false
  | _ => true

/-- The order of effects is safe for the ROWS: unbuffered, or flushed before the status file is
    written and the state changes. -/
def safe : Variant → Bool
  | .flushAfter _ => false
  | _ => true

def cap? : Variant → Option Nat
  | .direct => none
  | .directOld => none
  | .flushAfter c => c
  | .flushBefore c => c

/-- a row arrives while `n` rows are buffered: is the buffer full? -/
def full (v : Variant) (n : Nat) : Bool :=
  match v.cap? with
  | none => false
  | some c => decide (c ≤ n)

end Variant

/-- The end of the results file after the last complete line. -/
inductive Tail (α : Type) where
  | clean                 -- the file ends with a newline (or is empty)
  | noNl (r : α)          -- all bytes of row `r`, the newline not yet written
  | cut (r : α)           -- a proper prefix of the bytes of row `r`
  deriving Repr, DecidableEq

/-- the row whose bytes are partly on disk and whose remainder the writer still owes -/
def Tail.pending {α : Type} : Tail α → List α
  | .clean => []
  | .noNl r => [r]
  | .cut r => [r]

/-- What `bufio.Scanner` + `json.Unmarshal` make of one line of the results file. -/
inductive Line (α : Type) where
  | ok (r : α)
  | garbage               -- a row cut in the middle
  deriving Repr, DecidableEq

/-- the last, unterminated line as the scanner delivers it -/
def Tail.read {α : Type} : Tail α → List (Line α)
  | .clean => []
  | .noNl r => [.ok r]
  | .cut _ => [.garbage]

/-- Program counter of the spooling goroutine: the NEXT effect. -/
inductive PC (α : Type) where
  | start
  | fetch
  | newline (r : α)
  | addCount
  | flushPre
  | create
  | setComplete
  | writeStatus
  | flushPost
  | close
  | done
  | dead                  -- the process was killed; the goroutine is gone
  deriving Repr, DecidableEq

/-- after the loop -/
def Variant.afterLoop {α : Type} : Variant → PC α
  | .flushBefore _ => .flushPre
  | _ => .create

/-- after the last of `statusFile.Write` / `setState(COMPLETE)`, or after `os.Create` failed:
    the deferred calls -/
def Variant.epilogue {α : Type} : Variant → PC α
  | .flushAfter _ => .flushPost
  | _ => .close

/-- after `os.Create(statusPath)` succeeded -/
def Variant.afterCreate {α : Type} : Variant → PC α
  | .directOld => .setComplete
  | _ => .writeStatus

/-- after `statusFile.Write` -/
def Variant.afterWriteStatus {α : Type} : Variant → PC α
  | .directOld => .close
  | _ => .setComplete

/-- after `job.setState(COMPLETE)` -/
def Variant.afterSetComplete {α : Type} : Variant → PC α
  | .directOld => .writeStatus
  | .flushAfter _ => .flushPost
  | _ => .close

/-- the state that `statusFile.Write` puts in the status file: the old code marshals the job
    (whose state is COMPLETE by then), the repaired code a copy with `State = COMPLETE` -/
def Variant.writtenState (v : Variant) (st : JobState) : JobState :=
  match v with
  | .directOld => st
  | _ => .complete

structure St (α : Type) where
  /-- rows the marshalling stage has not delivered yet -/
  todo : List α
  /-- complete lines of the results file, in order -/
  file : List α := []
  tail : Tail α := .clean
  /-- rows accepted by the writer-side buffer, not yet in the file -/
  buffer : List α := []
  /-- the job is in `fs.jobs` -/
  present : Bool := true
  state : JobState := .queued
  count : Nat := 0
  /-- `none`: no status file; `some none`: created, empty; `some (some (st, n))`: written -/
  statusFile : Option (Option (JobState × Nat)) := none
  pc : PC α := .start
  deriving Repr, DecidableEq

variable {α : Type}

/-- `Spool` up to `go func()`: results file created, job stored with the zero state QUEUED. -/
def init (input : List α) : St α := { todo := input }

/-- what the file holds once everything the writer owes is written out -/
def St.flushed (s : St α) : List α := s.file ++ s.tail.pending ++ s.buffer

def St.flush (s : St α) : St α := { s with file := s.flushed, tail := .clean, buffer := [] }

/-- `w.Write(row); w.Write("\n")` on a buffered writer; a spill ends on a row boundary. -/
def bufWrite (v : Variant) (r : α) (s : St α) : St α :=
  if v.full s.buffer.length then { s with file := s.flushed, tail := .clean, buffer := [r] }
  else { s with buffer := s.buffer ++ [r] }

/-- the spill that cuts the arriving row: its first bytes reach the file, the rest stays behind -/
def bufWriteCut (r : α) (s : St α) : St α :=
  { s with file := s.flushed, tail := .cut r, buffer := [] }

/-- One effect of the goroutine (label `spool`). -/
def spoolStep (v : Variant) (s : St α) : Option (St α) :=
  match s.pc with
  | .start => some { s with state := .running, pc := .fetch }
  | .fetch =>
    match s.todo with
    | [] => some { s with pc := v.afterLoop }
    | r :: rest =>
      if v.buffered then some { bufWrite v r s with todo := rest, pc := .addCount }
      else some { s with todo := rest, tail := .noNl r, pc := .newline r }
  | .newline r => some { s with file := s.file ++ [r], tail := .clean, pc := .addCount }
  | .addCount => some { s with count := s.count + 1, pc := .fetch }
  | .flushPre => some { s.flush with pc := .create }
  | .create => some { s with statusFile := some none, pc := v.afterCreate }
  | .setComplete => some { s with state := .complete, pc := v.afterSetComplete }
  | .writeStatus =>
    some { s with statusFile := some (some (v.writtenState s.state, s.count)), pc := v.afterWriteStatus }
  | .flushPost => some { s.flush with pc := .close }
  | .close => some { s with pc := .done }
  | .done => none
  | .dead => none

/-- The spill that cuts a row (label `spoolCut`): only when a row arrives at a full buffer. -/
def cutStep (v : Variant) (s : St α) : Option (St α) :=
  match s.pc, s.todo with
  | .fetch, r :: rest =>
    if v.buffered && v.full s.buffer.length then
      some { bufWriteCut r s with todo := rest, pc := .addCount }
    else none
  | _, _ => none

/-- `os.Create(statusPath)` fails (label `createFails`): state ERROR, no status file. -/
def failStep (v : Variant) (s : St α) : Option (St α) :=
  match s.pc with
  | .create => some { s with state := .error, pc := v.epilogue }
  | _ => none

/-- Crash + `NewFSJobStorage`: memory is lost, the job is what the status file says. -/
def restart (s : St α) : St α :=
  match s.statusFile with
  | some (some (st, n)) =>
    { s with todo := [], buffer := [], present := true, state := st, count := n, pc := .dead }
  | _ =>
    { s with todo := [], buffer := [], present := false, state := .queued, count := 0, pc := .dead }

/-- what a reader gets back -/
inductive Obs (α : Type) where
  | silent
  | notFound
  | notComplete
  | status (st : JobState) (n : Nat)
  | rows (ls : List (Line α))
  deriving Repr, DecidableEq

/-- the results file as `Stream` scans it -/
def St.readFile (s : St α) : List (Line α) := s.file.map .ok ++ s.tail.read

/-- `FSResults.Status` -/
def getStatus (s : St α) : Obs α :=
  if s.present then .status s.state s.count else .notFound

/-- `FSResults.Stream` -/
def stream (s : St α) : Obs α :=
  if s.present then
    if s.state = .complete then .rows s.readFile else .notComplete
  else .notFound

inductive Label where
  | spool | spoolCut | createFails      -- the goroutine
  | getStatus | stream                  -- a client
  | restart                             -- kill + start
  deriving Repr, DecidableEq

def step (v : Variant) (l : Label) (s : St α) : Option (St α × Obs α) :=
  match l with
  | .spool => (spoolStep v s).map (·, .silent)
  | .spoolCut => (cutStep v s).map (·, .silent)
  | .createFails => (failStep v s).map (·, .silent)
  | .getStatus => some (s, getStatus s)
  | .stream => some (s, stream s)
  | .restart => some (restart s, .silent)

/-- A schedule, executed; `none` if a label is not enabled. The observations in order. -/
def run (v : Variant) : List Label → St α → Option (St α × List (Obs α))
  | [], s => some (s, [])
  | l :: ls, s =>
    match step v l s with
    | none => none
    | some (s', o) =>
      match run v ls s' with
      | none => none
      | some (s'', os) => some (s'', o :: os)

/-- The states of a job spooling `input`, under every interleaving of goroutine, clients and
    restarts. -/
inductive Reachable (v : Variant) (input : List α) : St α → Prop where
  | init : Reachable v input (init input)
  | step {s s' : St α} {o : Obs α} (l : Label) :
      Reachable v input s → step v l s = some (s', o) → Reachable v input s'

/-- `n` times the same label -/
def sched (n : Nat) (l : Label := .spool) : List Label := List.replicate n l

end Grip.C11.Spool
