/-
  Grip.Model.C19 — MODEL of the aggregate processor (engine/core/processors.go:aggregate.Process),
  the value typing it uses (gripql/schema.go:GetFieldType) and the per-name channel broadcast.

  Follows the Go code: one channel per aggregation *name* (`aChans`, a map), a feeder that sends
  every input traveler to `aChans[a.Name]` for every aggregation, and one finaliser per
  aggregation that reads its channel to the end and then emits its rows.

  The code modelled is the tree after the two `fix:` commits recorded in findings/C19.jsonl
  (term: sort by frequency and truncate to `size`; histogram/percentile: skip values that are
  missing or that `cast.ToFloat64E` rejects).

  Numbers are integers scaled by 2^10 (Grip.Basic); `interval` is a uint32, so the scaled interval
  is `interval * 1024`, and `math.Floor(min/i)*i` is integer floor division on scaled values.

  Outside the model (the real code crashes or hangs there; C06/C07): duplicate names (second
  `close` of one channel), a histogram that kept no value (`fieldValues[0]`), interval 0.
  `crashes` says where.  Core Lean only.
-/
import Grip.Basic
import Grip.Model.Path

namespace Grip.C19

inductive Agg where
  | term (field : String) (size : Nat)
  | histogram (field : String) (interval : Nat)      -- uint32, not scaled
  | percentile (field : String) (percents : List Int) -- percents scaled by 1024
  | field (field : String)
  | type (field : String)
  | count
  deriving Repr, Inhabited

structure Named where
  name : String
  agg : Agg
  deriving Repr, Inhabited

/-- One emitted traveler, `gdbi.Aggregate{Name, Key, Value}`.  `value` is a plain count, except
    for percentile rows where it is whatever the digest answered (in the digest's own unit). -/
structure Row where
  name : String
  key : JV
  value : Int
  deriving Repr, Inhabited, DecidableEq

/-- `jsonpath.TravelerPathLookup(t, field)` on the current element: a lookup error is `nil`. -/
def lookup (e : Elem) (field : String) : JV :=
  match Path.lookupDoc (Path.toDict e) field with
  | some v => v
  | none => .null

/-! ### the `map[K]int` counters -/

/-- `m[k]++` on an association list with unique keys (a Go map). -/
def bump {α : Type} [DecidableEq α] (k : α) : List (α × Nat) → List (α × Nat)
  | [] => [(k, 1)]
  | (k', c) :: m => if k' = k then (k', c + 1) :: m else (k', c) :: bump k m

/-! ### term -/

/-- `val != nil` and kind not Array/Slice/Map. -/
def isScalar : JV → Bool
  | .bool _ => true
  | .num _ => true
  | .str _ => true
  | _ => false

/-- the collection loop: `fieldTermCounts[val]++` for scalar values. -/
def termCounts (vals : List JV) : List (JV × Nat) :=
  vals.foldl (fun m v => if isScalar v then bump v m else m) []

/-- the emission: all buckets when `size == 0`, else the buckets sorted by decreasing count,
    truncated to `size`.  (Go's tie order among equal counts follows map iteration and is not
    determined; the model takes the stable order, the driver accepts any valid choice.) -/
def termTop (size : Nat) (m : List (JV × Nat)) : List (JV × Nat) :=
  if size = 0 then m else (m.mergeSort (fun a b => decide (b.2 ≤ a.2))).take size

def termRows (size : Nat) (vals : List JV) : List (JV × Nat) := termTop size (termCounts vals)

/-! ### numeric reading -/

/-- `cast.ToFloat64E` (spf13/cast v1.3.0) on decoded JSON: numbers, booleans (1/0), numeric text
    (`numOf` stands for strconv.ParseFloat); nil, lists and maps are errors. -/
def toFloat (numOf : String → Option Int) : JV → Option Int
  | .null => none
  | .num n => some n
  | .bool b => some (if b then 1024 else 0)
  | .str s => numOf s
  | _ => none

/-- The loop shared (after the fix) by histogram and percentile: skip nil, skip what the cast
    rejects, keep the rest in input order. -/
def numericFeed (numOf : String → Option Int) (vals : List JV) : List Int :=
  vals.foldl (fun acc v =>
    if v = .null then acc else
    match toFloat numOf v with
    | none => acc
    | some x => acc ++ [x]) []

/-! ### histogram -/

/-- `sort.Float64s; min := fieldValues[0]; max := fieldValues[len-1]`. -/
def minOf (x : Int) (xs : List Int) : Int := xs.foldl min x
def maxOf (x : Int) (xs : List Int) : Int := xs.foldl max x

/-- number of rounds of `for bucket := floor(min/i)*i; bucket <= max; bucket += i`. -/
def histRounds (I start mx : Int) : Nat := ((mx - start) / I + 1).toNat

/-- the inner counting loop `v >= bucket && v < bucket+i`. -/
def inBucket (I b : Int) (v : Int) : Bool := decide (b ≤ v) && decide (v < b + I)

/-- The histogram finaliser on the kept values; `I` is the scaled interval. -/
def histBuckets (I : Int) (nums : List Int) : List (Int × Nat) :=
  match nums with
  | [] => []            -- `if len(fieldValues) == 0 { return outErr }` (fix 5f…: it indexed an empty slice)
  | x :: xs =>
    let mn := minOf x xs
    let mx := maxOf x xs
    let start := (mn / I) * I
    (List.range (histRounds I start mx)).map fun (j : Nat) =>
      (start + (j : Int) * I, nums.countP (inBucket I (start + (j : Int) * I)))

def histRows (numOf : String → Option Int) (interval : Nat) (vals : List JV) : List (Int × Nat) :=
  -- interval 0: `math.Floor(min/0)*0` is NaN whatever `min` is, and `NaN <= max` is false: the
  -- bucket loop does not run (no row, no crash, no endless loop)
  if interval = 0 then [] else
  histBuckets ((interval : Int) * 1024) (numericFeed numOf vals)

/-! ### percentile (the t-digest is a parameter) -/

/-- rows `(p, td.Quantile(p/100))` in the order of `percents`; `Q feed p` stands for the digest. -/
def pctRows (Q : List Int → Int → Int) (numOf : String → Option Int) (percents : List Int)
    (vals : List JV) : List (Int × Int) :=
  let feed := numericFeed numOf vals
  percents.map fun p => (p, Q feed p)

/-! ### field, type, count -/

def fieldCounts (vals : List JV) : List (String × Nat) :=
  vals.foldl (fun m v => match v with
    | .obj kvs => kvs.foldl (fun m kv => bump kv.1 m) m
    | _ => m) []

/-- gripql.GetFieldType on decoded JSON. -/
def typeName : JV → String
  | .str _ => "STRING"
  | .num _ => "NUMERIC"
  | .bool _ => "BOOL"
  | _ => "UNKNOWN"

def typeCounts (vals : List JV) : List (String × Nat) :=
  vals.foldl (fun m v => bump (typeName v) m) []

def countRows {α : Type} (ts : List α) : Nat := ts.foldl (fun c _ => c + 1) 0

/-! ### one finaliser -/

def fieldOf : Agg → String
  | .term f _ => f
  | .histogram f _ => f
  | .percentile f _ => f
  | .field f => f
  | .type f => f
  | .count => ""

/-- What the goroutine of aggregation `a` emits after reading the travelers `ts` from its channel. -/
def runOne (Q : List Int → Int → Int) (numOf : String → Option Int) (a : Named) (ts : List Elem) : List Row :=
  let vals := ts.map (fun t => lookup t (fieldOf a.agg))
  match a.agg with
  | .term _ size => (termRows size vals).map fun (k, c) => ⟨a.name, k, c⟩
  | .histogram _ i => (histRows numOf i vals).map fun (b, c) => ⟨a.name, .num b, c⟩
  | .percentile _ ps => (pctRows Q numOf ps vals).map fun (p, q) => ⟨a.name, .num p, q⟩
  | .field _ => (fieldCounts vals).map fun (k, c) => ⟨a.name, .str k, c⟩
  | .type _ => (typeCounts vals).map fun (k, c) => ⟨a.name, .str k, c⟩
  | .count => [⟨a.name, .str "count", countRows ts⟩]

/-! ### the broadcast over `aChans` (a map keyed by aggregation name) -/

abbrev Chans := List (String × List Elem)

def setChan (n : String) (q : List Elem) : Chans → Chans
  | [] => [(n, q)]
  | (k, q') :: m => if k = n then (k, q) :: m else (k, q') :: setChan n q m

def getChan (m : Chans) (n : String) : List Elem :=
  match m with
  | [] => []
  | (k, q) :: m => if k = n then q else getChan m n

/-- `aChans[a.Name] = make(chan …)` for every aggregation. -/
def mkChans (aggs : List Named) : Chans := aggs.foldl (fun m a => setChan a.name [] m) []

/-- `aChans[a.Name] <- t`. -/
def send (m : Chans) (n : String) (t : Elem) : Chans := setChan n (getChan m n ++ [t]) m

/-- the feeder goroutine: every traveler goes to the channel of every aggregation. -/
def broadcast (aggs : List Named) (ts : List Elem) : Chans :=
  ts.foldl (fun m t => aggs.foldl (fun m a => send m a.name t) m) (mkChans aggs)

/-- The whole step.  Rows of different aggregations interleave arbitrarily in the real output
    (one goroutine each); the model lists them per aggregation, comparisons are by multiset. -/
def run (Q : List Int → Int → Int) (numOf : String → Option Int) (aggs : List Named) (ts : List Elem) : List Row :=
  let ch := broadcast aggs ts
  aggs.flatMap fun a => runOne Q numOf a (getChan ch a.name)

/-- rows of the aggregation called `n` in an output. -/
def rowsOf (n : String) (out : List Row) : List Row := out.filter (fun r => r.name = n)

/-! ### where the real code does not return (C06/C07) -/

def dupNames (aggs : List Named) : Bool := !(decide (aggs.map (·.name)).Nodup)

/-- the compiler refuses the step (duplicate names; C06's `dupCheck`). The former crash region
    (histogram without a numeric value, interval 0) is inside the model since the repairs. -/
def rejected (aggs : List Named) : Bool := dupNames aggs

end Grip.C19

namespace Grip.C19

/-! ### decidable check of the part of a term answer the code leaves open (used by the driver on
    the implementation's own choice; proved sound against `Spec.ValidTop` in GripProofs) -/

def validTopB {α : Type} [DecidableEq α] (size : Nat) (exact out : List (α × Nat)) : Bool :=
  if size = 0 then out.isPerm exact
  else decide out.Nodup && out.all (fun a => decide (a ∈ exact))
       && decide (out.length = min size exact.length)
       && out.all (fun a => exact.all (fun b => decide (b ∈ out) || decide (b.2 ≤ a.2)))

end Grip.C19
