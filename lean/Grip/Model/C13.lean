/-
  Grip.Model.C13 — MODEL of the internal stream combinators (core Lean only).

  Each combinator is a small nondeterministic transition system that follows the goroutine
  structure of the Go code: a state record (channel contents as lists, the goroutines' local
  variables) and a partial function `act : Action → State → Option State` (`none` = the action is
  not enabled).  One action = one atomic thing one goroutine does (a channel send, a channel
  receive, a close, a locked section).  Which enabled action runs next is arbitrary: that is the
  scheduler and every worker latency.  `Reach act s₀` is the set of states of all interleavings.

  Channel capacities are NOT in the guards: a full channel only removes interleavings, so every
  safety invariant proved for the unbounded system holds for the bounded one.  (What this leaves
  out is deadlock freedom under the bounds; the correspondence run covers that by a timeout.)

  The same `act` functions are what `gripdriver C13` executes (under a seeded pseudo-random
  scheduler), so the thing that is run against the Go code is the thing the theorems are about.

    jobstorage/serializer.go  MarshalStream / UnmarshalStream   → `RR`   (round-robin deal, n workers, round-robin merge)
    gripper/channel_mux.go    ChannelMux Put / runMux / Close   → `Mux`
    gdbi/processor.go         LookupBatcher                     → `Bat`
    gdbi/processor.go         DualProcessor                     → `Dual`
    engine/queue/queue.go     New                               → `Q`
-/
namespace Grip.C13

/-! ## generic plumbing -/

/-- function update (per-worker channels are functions `Nat → List _`) -/
def upd {γ : Type} (g : Nat → γ) (i : Nat) (v : γ) : Nat → γ := fun j => if j = i then v else g j

/-- all states reachable from `s0` by enabled actions, in any order -/
inductive Reach {σ A : Type} (act : A → σ → Option σ) (s0 : σ) : σ → Prop
  | init : Reach act s0 s0
  | step {s s' : σ} (a : A) : Reach act s0 s → act a s = some s' → Reach act s0 s'

def lcg (x : Nat) : Nat := (x * 1103515245 + 12345) % 2147483648

/-- Run under a seeded pseudo-random scheduler: at each tick list the candidate actions, keep the
    enabled ones, pick one.  Stops when nothing is enabled or the fuel is used up. -/
def runSched {σ A : Type} (act : A → σ → Option σ) (cands : σ → List A) : Nat → Nat → σ → σ
  | 0, _, s => s
  | fuel + 1, seed, s =>
    let en := (cands s).filterMap (fun a => act a s)
    match en[(seed / 65536) % en.length]? with
    | some s' => runSched act cands fuel (lcg seed) s'
    | none => s

/-! ## RR — MarshalStream / UnmarshalStream

  distributor goroutine:  n := 0; for i := range inPipe { toWorkers[n] <- i; n++; if n >= nworkers { n = 0 } }
                          for i … { close(toWorkers[i]) }
  worker i:               for t := range in { b := f t; out <- b }; close(out)
  merger:                 for found := true; found; { found = false
                            for i := 0; i < nworkers; i++ { if c, ok := <-fromWorkers[i]; ok { out <- c; found = true } } }
                          close(out)
-/

structure RRCfg where
  n : Nat            -- nworkers
  ge : Bool          -- the wrap test is `n >= nworkers` (GripGen.C13Buffers.marshalResetGe)
  mstart : Nat       -- first index of the merge loop (GripGen.C13Buffers.marshalMergeStart)

/-- the distributor's `n++; if n >= nworkers { n = 0 }` -/
def wrapNext (c : RRCfg) (k : Nat) : Nat :=
  if (if c.ge then c.n ≤ k + 1 else c.n < k + 1) then 0 else k + 1

structure RR (α β : Type) where
  inp : List α               -- input not yet taken by the distributor
  nd : Nat                   -- the distributor's n
  dClosed : Nat              -- toWorkers[0 .. dClosed) are closed
  toW : Nat → List α         -- toWorkers[i] contents
  hold : Nat → Option β      -- worker i has marshalled an item and not yet sent it
  fromW : Nat → List β       -- fromWorkers[i] contents
  wClosed : Nat → Bool       -- fromWorkers[i] closed
  mi : Nat                   -- the merger's i
  found : Bool
  out : List β               -- everything sent on the output channel so far
  outClosed : Bool

inductive RRAct where
  | dist | dclose | take (i : Nat) | send (i : Nat) | wclose (i : Nat) | mrecv | mskip | mround | mfin

def rrInit {α β : Type} (c : RRCfg) (xs : List α) : RR α β :=
  { inp := xs, nd := 0, dClosed := 0, toW := fun _ => [], hold := fun _ => none, fromW := fun _ => [],
    wClosed := fun _ => false, mi := c.mstart, found := false, out := [], outClosed := false }

def rrAct {α β : Type} (c : RRCfg) (f : α → β) : RRAct → RR α β → Option (RR α β)
  | .dist, s =>
    match s.inp with
    | x :: rest => some { s with inp := rest, toW := upd s.toW s.nd (s.toW s.nd ++ [x]), nd := wrapNext c s.nd }
    | [] => none
  | .dclose, s =>
    match s.inp with
    | [] => if s.dClosed < c.n then some { s with dClosed := s.dClosed + 1 } else none
    | _ :: _ => none
  | .take i, s =>
    match s.toW i, s.hold i with
    | x :: rest, none => some { s with toW := upd s.toW i rest, hold := upd s.hold i (some (f x)) }
    | _, _ => none
  | .send i, s =>
    match s.hold i with
    | some y => some { s with hold := upd s.hold i none, fromW := upd s.fromW i (s.fromW i ++ [y]) }
    | none => none
  | .wclose i, s =>
    match s.toW i, s.hold i with
    | [], none => if i < s.dClosed ∧ s.wClosed i = false then some { s with wClosed := upd s.wClosed i true } else none
    | _, _ => none
  | .mrecv, s =>
    if s.outClosed = false ∧ s.mi < c.n then
      match s.fromW s.mi with
      | y :: rest => some { s with fromW := upd s.fromW s.mi rest, out := s.out ++ [y], found := true, mi := s.mi + 1 }
      | [] => none
    else none
  | .mskip, s =>
    if s.outClosed = false ∧ s.mi < c.n ∧ s.wClosed s.mi = true then
      match s.fromW s.mi with
      | [] => some { s with mi := s.mi + 1 }
      | _ :: _ => none
    else none
  | .mround, s =>
    if s.outClosed = false ∧ c.n ≤ s.mi ∧ s.found = true then some { s with mi := c.mstart, found := false } else none
  | .mfin, s =>
    if s.outClosed = false ∧ c.n ≤ s.mi ∧ s.found = false then some { s with outClosed := true } else none

def rrCands {α β : Type} (c : RRCfg) (_ : RR α β) : List RRAct :=
  [.dist, .dclose, .mrecv, .mskip, .mround, .mfin] ++
    (List.range c.n).flatMap (fun i => [.take i, .send i, .wclose i])

/-- one pseudo-randomly scheduled complete run; the observation is (out, outClosed) -/
def rrRun (c : RRCfg) (seed : Nat) (xs : List Nat) : RR Nat Nat :=
  runSched (rrAct c id) (rrCands c) (20 * (xs.length + c.n) + 50) seed (rrInit c xs)

/-! ### the functional reading of the same code (used for long inputs, where running the
    transition system on lists is too slow): what each worker gets, and the merge loop -/

/-- the distributor loop as a function: `ws` are the per-worker queues -/
def dealLoop {α : Type} (c : RRCfg) : Nat → (Nat → List α) → List α → (Nat → List α)
  | _, ws, [] => ws
  | k, ws, x :: rest => dealLoop c (wrapNext c k) (upd ws k (ws k ++ [x])) rest

/-- one round of the merge loop over workers `i, i+1, …, n-1`: (collected, remaining queues, found) -/
def mergeRound {α : Type} (n : Nat) : Nat → Nat → (Nat → List α) → List α × (Nat → List α) × Bool
  | 0, _, ws => ([], ws, false)
  | cnt + 1, i, ws =>
    match ws i with
    | y :: rest =>
      let (o, ws', _) := mergeRound n cnt (i + 1) (upd ws i rest)
      (y :: o, ws', true)
    | [] =>
      mergeRound n cnt (i + 1) ws

def mergeLoop {α : Type} (c : RRCfg) : Nat → (Nat → List α) → List α
  | 0, _ => []
  | fuel + 1, ws =>
    let (o, ws', found) := mergeRound c.n (c.n - c.mstart) c.mstart ws
    if found then o ++ mergeLoop c fuel ws' else o

def rrFun (c : RRCfg) (xs : List Nat) : List Nat :=
  mergeLoop c (xs.length + 1) (dealLoop c 0 (fun _ => []) xs)

/-! ## Mux — gripper.ChannelMux

  Put(num, d):  m.inputs[num] <- d ; m.messageOrder <- num          (two sends, not atomic)
  pipeline j :  for x := range in_j { out_j <- g j x }              (supplied by the caller: answers each input once)
  runMux     :  for n := range m.messageOrder { t := <-m.outputs[n]; m.outChannel <- t } ; close(m.outChannel)
  Close()    :  close every input ; close(m.messageOrder)
-/

structure MuxCfg where
  idxIsOrder : Bool     -- runMux reads m.outputs[n] with n the received order token (GripGen: muxOutputIndexIsOrder)

structure Mux (α β : Type) where
  puts : List (Nat × α)      -- Put calls still to come (one caller goroutine)
  half : Option Nat          -- a Put has sent its input and not yet its order token
  closeCalled : Bool
  inQ : Nat → List α
  outQ : Nat → List β
  order : List Nat           -- messageOrder contents
  out : List β
  outClosed : Bool

inductive MuxAct where
  | putIn | putOrd | close | pipe (j : Nat) | recv | fin

def muxInit {α β : Type} (puts : List (Nat × α)) : Mux α β :=
  { puts := puts, half := none, closeCalled := false, inQ := fun _ => [], outQ := fun _ => [],
    order := [], out := [], outClosed := false }

def muxAct {α β : Type} (c : MuxCfg) (g : Nat → α → β) : MuxAct → Mux α β → Option (Mux α β)
  | .putIn, s =>
    match s.puts, s.half with
    | (j, v) :: rest, none => some { s with puts := rest, inQ := upd s.inQ j (s.inQ j ++ [v]), half := some j }
    | _, _ => none
  | .putOrd, s =>
    match s.half with
    | some j => some { s with half := none, order := s.order ++ [j] }
    | none => none
  | .close, s =>
    match s.puts, s.half with
    | [], none => if s.closeCalled = false then some { s with closeCalled := true } else none
    | _, _ => none
  | .pipe j, s =>
    match s.inQ j with
    | x :: rest => some { s with inQ := upd s.inQ j rest, outQ := upd s.outQ j (s.outQ j ++ [g j x]) }
    | [] => none
  | .recv, s =>
    if s.outClosed = false then
      match s.order with
      | k :: rest =>
        let k' := if c.idxIsOrder then k else 0
        match s.outQ k' with
        | y :: r => some { s with order := rest, outQ := upd s.outQ k' r, out := s.out ++ [y] }
        | [] => none
      | [] => none
    else none
  | .fin, s =>
    match s.order with
    | [] => if s.outClosed = false ∧ s.closeCalled = true then some { s with outClosed := true } else none
    | _ :: _ => none

def muxCands {α β : Type} (k : Nat) (_ : Mux α β) : List MuxAct :=
  [.putIn, .putOrd, .close, .recv, .fin] ++ (List.range (k + 1)).map (fun j => .pipe j)

def muxRun (c : MuxCfg) (k : Nat) (seed : Nat) (puts : List (Nat × Nat)) : Mux Nat (Nat × Nat) :=
  runSched (muxAct c (fun j v => (j, v))) (muxCands k) (12 * puts.length + 50) seed (muxInit puts)

/-! ## Bat — gdbi.LookupBatcher (one goroutine; the nondeterminism is which `select` arm fires
    and whether `time.Since(last) > timeout` holds)

  for open := true; open; {
    select { case e, ok := <-req: if ok { o = append(o, e) } else { open = false }
             default: sleep }
    if len(o) > 0 { if len(o) >= batchSize || time.Since(last) > timeout { out <- o; o = fresh } } }
  if len(o) > 0 { out <- o }          -- final partial batch
  close(out)
-/

structure BatCfg where
  bs : Nat
  finalFlush : Bool     -- the `if len(o) > 0 { out <- o }` after the loop exists (GripGen: batcherFinalFlush)

structure Bat (α : Type) where
  inp : List α          -- input not yet received ([] + a `recv` = the closed channel)
  o : List α
  opn : Bool
  out : List (List α)
  outClosed : Bool

inductive BatAct where
  | recv (timedOut : Bool) | idle (timedOut : Bool) | fin

def batInit {α : Type} (xs : List α) : Bat α :=
  { inp := xs, o := [], opn := true, out := [], outClosed := false }

def batFlush {α : Type} (c : BatCfg) (t : Bool) (s : Bat α) : Bat α :=
  if 0 < s.o.length ∧ (c.bs ≤ s.o.length ∨ t = true) then { s with out := s.out ++ [s.o], o := [] } else s

def batAct {α : Type} (c : BatCfg) : BatAct → Bat α → Option (Bat α)
  | .recv t, s =>
    if s.opn = true then
      match s.inp with
      | x :: rest => some (batFlush c t { s with inp := rest, o := s.o ++ [x] })
      | [] => some (batFlush c t { s with opn := false })
    else none
  | .idle t, s =>
    if s.opn = true then some (batFlush c t s) else none
  | .fin, s =>
    if s.opn = false ∧ s.outClosed = false then
      some (if 0 < s.o.length ∧ c.finalFlush = true then { s with out := s.out ++ [s.o], o := [], outClosed := true }
            else { s with outClosed := true })
    else none

/-- run the batcher on a given sequence of select/timeout outcomes, then finish -/
def batRun {α : Type} (c : BatCfg) (evs : List BatAct) (xs : List α) : Bat α :=
  let s := evs.foldl (fun s a => (batAct c a s).getD s) (batInit xs)
  (batAct c .fin s).getD s

/-- the event sequence that reproduces recorded batch sizes (a size-k batch = k-1 receives
    without timeout and one with), followed by enough plain receives to exhaust the input -/
def batEventsOfSizes (sizes : List Nat) (n : Nat) : List BatAct :=
  sizes.flatMap (fun k => List.replicate (k - 1) (.recv false) ++ [.recv true]) ++
    List.replicate (n + 1) (.recv false)

/-! ## Dual — gdbi.DualProcessor

  stage 1:  for r := range reqChan { if r.IsSignal() { data <- {r} } else { for out := range loader(r) { data <- {r, out} } } } ; close(data)
  stage 2:  for d := range data { if signal { out <- d.Req } else { out <- deserializer(d.Req, d.Data) } } ; close(out)
-/

structure Dual (ρ δ : Type) where
  inp : List ρ
  cur : Option (ρ × List δ)        -- stage 1 is draining the loader's channel for this request
  s1done : Bool                     -- `data` closed
  data : List (ρ × Option δ)        -- `none` = signal
  out : List ρ
  outClosed : Bool

inductive DualAct where
  | s1recv | s1emit | s1next | s1close | s2 | s2close

def dualInit {ρ δ : Type} (xs : List ρ) : Dual ρ δ :=
  { inp := xs, cur := none, s1done := false, data := [], out := [], outClosed := false }

def dualConv {ρ δ : Type} (des : ρ → δ → ρ) : ρ × Option δ → ρ
  | (r, none) => r
  | (r, some d) => des r d

def dualAct {ρ δ : Type} (isSig : ρ → Bool) (loader : ρ → List δ) (des : ρ → δ → ρ) :
    DualAct → Dual ρ δ → Option (Dual ρ δ)
  | .s1recv, s =>
    match s.cur, s.inp with
    | none, r :: rest =>
      if isSig r then some { s with inp := rest, data := s.data ++ [(r, none)] }
      else some { s with inp := rest, cur := some (r, loader r) }
    | _, _ => none
  | .s1emit, s =>
    match s.cur with
    | some (r, d :: ds) => some { s with cur := some (r, ds), data := s.data ++ [(r, some d)] }
    | _ => none
  | .s1next, s =>
    match s.cur with
    | some (_, []) => some { s with cur := none }
    | _ => none
  | .s1close, s =>
    match s.cur, s.inp with
    | none, [] => if s.s1done = false then some { s with s1done := true } else none
    | _, _ => none
  | .s2, s =>
    match s.data with
    | d :: rest => if s.outClosed = false then some { s with data := rest, out := s.out ++ [dualConv des d] } else none
    | [] => none
  | .s2close, s =>
    match s.data with
    | [] => if s.s1done = true ∧ s.outClosed = false then some { s with outClosed := true } else none
    | _ :: _ => none

/-- what one request contributes to the output -/
def dualOutOf {ρ δ : Type} (isSig : ρ → Bool) (loader : ρ → List δ) (des : ρ → δ → ρ) (r : ρ) : List ρ :=
  if isSig r then [r] else (loader r).map (des r)

def dualCands {ρ δ : Type} (_ : Dual ρ δ) : List DualAct := [.s1recv, .s1emit, .s1next, .s1close, .s2, .s2close]

/-! ## Q — engine/queue.New

  goroutine A:  for i := range input { lock; queue = append(queue, i); unlock } ; closed = true
  goroutine B:  for running { lock; if len(queue) > 0 { v = queue[0]; queue = queue[1:] } else if closed { running = false }; unlock
                              if v != nil { output <- v } } ; close(output)
  (`closed` is written outside the mutex: the model is sequentially consistent, the Go memory
   model's weaker guarantees for that racy flag are not modelled — see the notes.)
-/

structure QCfg where
  popsHead : Bool      -- `v = queue[0]; queue = queue[1:]` (GripGen: queuePopsHead)

structure Q (α : Type) where
  inp : List α          -- items the producer has yet to send
  inClosed : Bool
  chIn : List α
  queue : List α
  closed : Bool
  hold : Option α
  running : Bool
  out : List α
  outClosed : Bool

inductive QAct where
  | send | closeIn | inRecv | inDone | pop | stop | push | fin

def qInit {α : Type} (xs : List α) : Q α :=
  { inp := xs, inClosed := false, chIn := [], queue := [], closed := false, hold := none,
    running := true, out := [], outClosed := false }

def qAct {α : Type} (c : QCfg) : QAct → Q α → Option (Q α)
  | .send, s =>
    match s.inp with
    | x :: rest => some { s with inp := rest, chIn := s.chIn ++ [x] }
    | [] => none
  | .closeIn, s =>
    match s.inp with
    | [] => if s.inClosed = false then some { s with inClosed := true } else none
    | _ :: _ => none
  | .inRecv, s =>
    match s.chIn with
    | x :: rest => some { s with chIn := rest, queue := s.queue ++ [x] }
    | [] => none
  | .inDone, s =>
    match s.chIn with
    | [] => if s.inClosed = true ∧ s.closed = false then some { s with closed := true } else none
    | _ :: _ => none
  | .pop, s =>
    if s.running = true ∧ s.hold.isNone = true then
      if c.popsHead then
        match s.queue with
        | v :: rest => some { s with hold := some v, queue := rest }
        | [] => none
      else
        match s.queue.reverse with
        | v :: rest => some { s with hold := some v, queue := rest.reverse }
        | [] => none
    else none
  | .stop, s =>
    match s.queue with
    | [] => if s.running = true ∧ s.hold.isNone = true ∧ s.closed = true then some { s with running := false } else none
    | _ :: _ => none
  | .push, s =>
    match s.hold with
    | some v => some { s with hold := none, out := s.out ++ [v] }
    | none => none
  | .fin, s =>
    if s.running = false ∧ s.hold.isNone = true ∧ s.outClosed = false then some { s with outClosed := true } else none

def qCands {α : Type} (_ : Q α) : List QAct := [.send, .closeIn, .inRecv, .inDone, .pop, .stop, .push, .fin]

end Grip.C13
