/-
  Grip.Model.C20 — MODEL of how psql/ and existing-sql/ assemble statement text.

  A `Site` is one way a function builds the text handed to Exec/Query*/Prepare…: the format
  strings of the `fmt.Sprintf`/`+`/`strings.Join` expressions that flow into the call, flattened to
  pieces.  The table of all sites (`GripGen.SqlSites.sites`) is regenerated from the Go source by
  tools/extract/c20_sql.go on every check run.

    lit s            text from a format string / string constant
    srv name         a server-side value (receiver field, schema/config lookup, table name read
                     from the `graphs` catalogue, constant list element, %d number); `name` is the
                     Go expression; its value comes from the environment `Env`
    cli src w e      a value computed from what the client sent (`e`), spliced in through
                     wrapper `w` (`raw` = as is; `quoteLit`/`quoteIdent` = a helper that doubles the
                     quote character and surrounds the value with it)
    list …           strings.Join over per-element pieces (id batches, edge-label lists)

  `render` follows fmt.Sprintf: pieces are concatenated.  Bound parameters ($1 …) never reach the
  text: they are listed in `Site.bound` only.  Core Lean only.
-/
import Grip.Spec.C20

namespace Grip.C20

/-- Where a spliced value comes from. -/
inductive Src where
  | client      -- a parameter of a driver entry point (id, label, key, graph name, batch ids, edge labels)
  | validated   -- a graph name that passed gripql.ValidateGraphName in the same function
  | stored      -- read back from rows that hold client-supplied values (labels in BuildSchema)
  deriving DecidableEq, Repr, Inhabited

inductive Wrap where
  | raw | quoteLit | quoteIdent
  deriving DecidableEq, Repr, Inhabited

/-- How the spliced string is computed from the entry point's arguments. -/
inductive Expr where
  | param (name : String)                                -- a string parameter
  | elem (list : String)                                 -- current element of list `list` (its first element outside the list)
  | splitN (e : Expr) (sep : String) (n idx : Nat)       -- strings.SplitN(e, sep, n)[idx]
  | replace (e : Expr) (old new : String)                -- strings.Replace(e, old, new, -1)
  | opaque (txt : String)                                -- a client-derived Go expression the translator does not interpret
  deriving DecidableEq, Repr, Inhabited

inductive Atom where
  | lit (s : String)
  | srv (name : String)
  | cli (src : Src) (w : Wrap) (e : Expr)
  deriving DecidableEq, Repr, Inhabited

inductive Piece where
  | atom (a : Atom)
  | list (src : Src) (name : String) (sep : String) (elem : List Atom)
  deriving DecidableEq, Repr, Inhabited

structure Site where
  id : String            -- stable key: 8 hex digits of sha256(file, function, template)
  num : Nat              -- the same 32 bits as a number (cheap to compare in the kernel)
  drv : String           -- "psql" | "esql"
  file : String
  fn : String            -- entry point (callees are inlined): e.g. "Graph.DelVertex"
  via : String           -- the function the Sprintf is written in when it is not `fn`
  call : String          -- Exec | Queryx | Prepare | …
  tmpl : String          -- readable template: {s:…} server, {c:…} client raw, {q:…} quoted, {[…]} list
  pieces : List Piece
  bound : List Src       -- client-derived bound parameters (never part of the text)
  deriving Repr, Inhabited

/-- Arguments of one call: string parameters and string lists, by Go parameter name. -/
structure Args where
  params : List (String × String)
  lists : List (String × List String)
  deriving Repr, Inhabited

abbrev Env := List (String × String)

def lookup (kvs : List (String × α)) (k : String) : Option α :=
  match kvs with
  | [] => none
  | (k', v) :: r => if k' == k then some v else lookup r k

/-! ### strings.SplitN / strings.Replace on character lists -/

/-- Split at the first occurrence of `sep` (non-empty): `(before, after)`; `none` if absent. -/
def cutFirst (sep : List Char) : List Char → Option (List Char × List Char)
  | [] => if sep.isEmpty then some ([], []) else none
  | c :: cs =>
      if sep.isPrefixOf (c :: cs) then some ([], (c :: cs).drop sep.length)
      else match cutFirst sep cs with
        | some (a, b) => some (c :: a, b)
        | none => none

/-- strings.SplitN(s, sep, n) for n ≥ 1 and non-empty sep. -/
def splitN (sep : List Char) : Nat → List Char → List (List Char)
  | 0, _ => []
  | 1, s => [s]
  | n + 2, s =>
      match cutFirst sep s with
      | some (a, b) => a :: splitN sep (n + 1) b
      | none => [s]

/-- strings.Replace(s, old, new, -1) for non-empty `old`. -/
def replaceAll (old new : List Char) (s : List Char) : List Char :=
  if old.isEmpty then s else go s.length s
where
  go : Nat → List Char → List Char
  | 0, s => s
  | _ + 1, [] => []
  | f + 1, c :: cs =>
      if old.isPrefixOf (c :: cs) then new ++ go f ((c :: cs).drop old.length)
      else c :: go f cs

def evalExpr (a : Args) (cur : Option (List Char)) : Expr → Option (List Char)
  | .param n => (lookup a.params n).map String.toList
  | .elem l =>
      match cur with
      | some c => some c
      | none => match lookup a.lists l with
        | some (x :: _) => some x.toList
        | _ => none
  | .splitN e sep n idx => do
      let v ← evalExpr a cur e
      (splitN sep.toList n v)[idx]?
  | .replace e old new => do
      let v ← evalExpr a cur e
      pure (replaceAll old.toList new.toList v)
  | .opaque _ => none

def wrap : Wrap → List Char → List Char
  | .raw, x => x
  | .quoteLit, x => quoteLit x
  | .quoteIdent, x => quoteIdent x

/-- Text of one atom.  Unknown server names and uninterpretable client expressions render as
    the empty text (the driver refuses such renderings before comparing; the theorems hold anyway). -/
def renderAtom (env : Env) (a : Args) (cur : Option (List Char)) : Atom → List Char
  | .lit s => s.toList
  | .srv n => ((lookup env n).getD "").toList
  | .cli _ w e => wrap w ((evalExpr a cur e).getD [])

def renderAtoms (env : Env) (a : Args) (cur : Option (List Char)) : List Atom → List Char
  | [] => []
  | x :: xs => renderAtom env a cur x ++ renderAtoms env a cur xs

/-- strings.Join(map elem xs, sep). -/
def renderList (env : Env) (a : Args) (sep : List Char) (elem : List Atom) : List String → List Char
  | [] => []
  | [x] => renderAtoms env a (some x.toList) elem
  | x :: y :: r => renderAtoms env a (some x.toList) elem ++ sep ++ renderList env a sep elem (y :: r)

def renderPiece (env : Env) (a : Args) : Piece → List Char
  | .atom x => renderAtom env a none x
  | .list _ name sep elem => renderList env a sep.toList elem ((lookup a.lists name).getD [])

def renderPieces (env : Env) (a : Args) : List Piece → List Char
  | [] => []
  | p :: ps => renderPiece env a p ++ renderPieces env a ps

/-- The statement text the site sends for these arguments. -/
def render (env : Env) (a : Args) (s : Site) : List Char := renderPieces env a s.pieces

/-! ### When is a site safe? -/

/-- In this scanner state a `'` puts the scanner inside an ordinary string literal
    (between tokens, after an identifier other than E/e, after a number, after a closing quote). -/
def opensStr (s : St) : Bool := (step s '\'').1 == .str

/-- In this scanner state a `"` puts the scanner inside a quoted identifier. -/
def opensQid (s : St) : Bool := (step s '"').1 == .qid

/-- Scanner state after a correctly quoted value (independent of the value). -/
def atomSafeStep (env : Env) (a : Args) (cur : Option (List Char)) (s : St) : Atom → Option St
  | .cli .validated .raw _ => if s == .str then some .str else none   -- validated names have no ' (see `ArgsOK`)
  | .cli _ .raw _ => none
  | .cli _ .quoteLit _ => if opensStr s then some .strQ else none
  | .cli _ .quoteIdent _ => if opensQid s then some .qidQ else none
  | x => some (run s (renderAtom env a cur x)).1

def atomsSafeRun (env : Env) (a : Args) (cur : Option (List Char)) : St → List Atom → Option St
  | s, [] => some s
  | s, x :: xs => match atomSafeStep env a cur s x with
    | some s' => atomsSafeRun env a cur s' xs
    | none => none

def listSafeRun (env : Env) (a : Args) (sep : List Char) (elem : List Atom) : St → List String → Option St
  | s, [] => some s
  | s, [x] => atomsSafeRun env a (some x.toList) s elem
  | s, x :: y :: r =>
      match atomsSafeRun env a (some x.toList) s elem with
      | some s' => listSafeRun env a sep elem (run s' sep).1 (y :: r)
      | none => none

def pieceSafeStep (env : Env) (a : Args) (s : St) : Piece → Option St
  | .atom x => atomSafeStep env a none s x
  | .list _ name sep elem => listSafeRun env a sep.toList elem s ((lookup a.lists name).getD [])

def piecesSafeRun (env : Env) (a : Args) : St → List Piece → Option St
  | s, [] => some s
  | s, p :: ps => match pieceSafeStep env a s p with
    | some s' => piecesSafeRun env a s' ps
    | none => none

def atomIsClientText : Atom → Bool
  | .cli .. => true
  | _ => false

def pieceHasClientText : Piece → Bool
  | .atom a => atomIsClientText a
  | .list _ _ _ elem => elem.any atomIsClientText

/-- The text of the site does not mention any client value: client strings, if any, travel only as
    bound parameters. -/
def Site.clientFree (s : Site) : Bool := !(s.pieces.any pieceHasClientText)

/-- Dollar quoting is outside the scanner: a template that contains `$` followed by anything but a
    digit is refused by the safety check. -/
def dollarFree : List Char → Bool
  | '$' :: c :: r => c.isDigit && dollarFree (c :: r)
  | ['$'] => false
  | _ :: r => dollarFree r
  | [] => true

def atomDollarFree : Atom → Bool
  | .lit s => dollarFree s.toList
  | _ => true

def pieceDollarFree : Piece → Bool
  | .atom a => atomDollarFree a
  | .list _ _ sep elem => dollarFree sep.toList && elem.all atomDollarFree

/-- The decidable safety check: no client value is spliced raw, and (following the scanner along
    the rendering for `a`) every quoted client value starts where its quote character opens a
    literal / quoted identifier.  `safe_site_shape` shows that this implies shape independence for
    *all* argument strings. -/
def Site.safeOn (s : Site) (env : Env) (a : Args) : Bool :=
  s.clientFree || (s.pieces.all pieceDollarFree && (piecesSafeRun env a .dflt s.pieces).isSome)

/-- Same list lengths (the number of ids in a batch / of edge labels is part of the request's
    structure, not of the identifiers' content). -/
def sameLens (a b : Args) (s : Site) : Bool :=
  s.pieces.all fun p => match p with
    | .atom _ => true
    | .list _ name _ _ => ((lookup a.lists name).getD []).length == ((lookup b.lists name).getD []).length

/-- What the validator guarantees about a validated value spliced raw: it contains no `'`
    (`'` is on gripql.validate's blacklist; `validate_rejects_quote` re-checks that on the table). -/
def atomOK (a : Args) (cur : Option (List Char)) : Atom → Bool
  | .cli .validated .raw e => !(((evalExpr a cur e).getD []).contains '\'')
  | _ => true

def pieceOK (a : Args) : Piece → Bool
  | .atom x => atomOK a none x
  | .list _ name _ elem => ((lookup a.lists name).getD []).all fun x => elem.all (atomOK a (some x.toList))

/-- The arguments respect what `validated` means, for this site. -/
def ArgsOK (a : Args) (s : Site) : Bool := s.pieces.all (pieceOK a)

/-! ### canonical environments and arguments (used to state the table theorems) -/

def exprRoot : Expr → Option (Bool × String)      -- (is a list element, name)
  | .param n => some (false, n)
  | .elem l => some (true, l)
  | .splitN e _ _ _ => exprRoot e
  | .replace e _ _ => exprRoot e
  | .opaque _ => none

def atomSrv : Atom → List String
  | .srv n => [n]
  | _ => []

def atomParams : Atom → List (Src × String)
  | .cli src _ e => match exprRoot e with
    | some (false, n) => [(src, n)]
    | _ => []
  | _ => []

def Site.srvNames (s : Site) : List String :=
  s.pieces.flatMap fun p => match p with
    | .atom a => atomSrv a
    | .list _ _ _ elem => elem.flatMap atomSrv

def Site.paramNames (s : Site) : List (Src × String) :=
  s.pieces.flatMap fun p => match p with
    | .atom a => atomParams a
    | .list _ _ _ elem => elem.flatMap atomParams

def Site.listNames (s : Site) : List (Src × String) :=
  s.pieces.flatMap fun p => match p with
    | .atom (.cli src _ e) => (match exprRoot e with | some (true, n) => [(src, n)] | _ => [])
    | .atom _ => []
    | .list src name _ _ => [(src, name)]

/-- Every server value is the identifier `t`. -/
def Site.identEnv (s : Site) : Env := s.srvNames.map fun n => (n, "t")

/-- Two-element lists, every string `v src`. -/
def Site.argsWith (s : Site) (v : Src → String) : Args :=
  { params := s.paramNames.map fun (src, n) => (n, v src),
    lists := s.listNames.map fun (src, n) => (n, [v src, v src]) }

def benignStr : Src → String := fun _ => "a:a"

/-- A string a hostile client may send: a quote for unvalidated values; a tab (which
    gripql.validate lets through) for validated graph names. -/
def hostileStr : Src → String
  | .validated => "a\tb"
  | _ => "a' b:a' b"

/-! ### gripql.ValidateGraphName (blacklist + prefix rule), parameters from the generated table -/

def validateName (blacklist : List Char) (badPrefixes : List (List Char)) (x : List Char) : Bool :=
  !(x.any blacklist.contains) && !(badPrefixes.any fun p => p.isPrefixOf x)

end Grip.C20
