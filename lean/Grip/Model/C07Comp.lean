/-
  Grip.Model.C07Comp — MODEL, composition of pipeline stages (property C07).  Core Lean only.

  Grip.Model.C07 describes a chain of stages, the `both` stage and the `aggregate` fan-out each as
  a CLOSED system: the input is a list, the consumer of the last channel always reads.  Here the
  same goroutines are described as OPEN components — a bounded input channel that a producer fills
  and closes, an output that is OFFERED and only leaves when the consumer has room — so that they can
  be wired one behind the other exactly as engine/pipeline/pipes.go `Start` does:

        procs[i].Process(ctx, man, in, out); out = in; in = make(chan, bufsize)

    §1  `Comp`: an open component (internal moves, offered outputs, closing the output; the input
        channel: room / put / shut), `Comp.seq` (the output of the first is the input channel of the
        second), `SysStep` (a component closed by a source that sends a list and closes, and a client
        that takes whatever is offered — pipes.go `Start`'s feeding goroutine and server.Traversal);
    §2  the chain of Grip.Model.C07 as an open component: `OStep` is `Step` with the action of the
        last stage made visible (`Step cs cs' ↔ ∃ a, OStep cs a cs'` is proved in Lemmas.C07Comp);
    §3  `both.Process` as deployed, embedded: feeder goroutine reading the stage's input channel,
        two branches that are arbitrary components, branch 0 passed on, branch 1 held back;
    §4  `aggregate.Process` with any number of aggregations, embedded: one feeder goroutine, one
        bounded channel and one worker per aggregation; a worker drains its channel to the end,
        then computes finitely many results from everything it has seen and sends them into the
        shared output; the output is closed when the feeder and all workers have returned.

  Signals: `for t := range in { if t.IsSignal() { out <- t; continue }; … }` — the feeder of both
  and of aggregate passes signal travelers straight to the output (`sig : α → Bool`).
-/
import Grip.Model.C07

namespace Grip.C07

/-! ## §1 open components -/

/-- An open component.  `tau`: a goroutine inside moves; `out s y s'`: the component hands `y` to
    its consumer (possible only when the consumer's channel has room — the composition decides);
    `fin`: it closes its output; `room`/`put`/`shut`: its input channel as the producer sees it;
    `closed`: the input channel has been closed; `ended`: the output has been closed. -/
structure Comp (α : Type) where
  σ : Type
  tau : σ → σ → Prop
  out : σ → α → σ → Prop
  fin : σ → σ → Prop
  room : σ → Prop
  put : α → σ → σ
  shut : σ → σ
  closed : σ → Bool
  ended : σ → Bool

/-- internal moves of `C1` followed by `C2`: the channel between them is `C2`'s input channel -/
inductive SeqTau {α : Type} (C1 C2 : Comp α) : C1.σ × C2.σ → C1.σ × C2.σ → Prop
  | left {a a' : C1.σ} {b : C2.σ} : C1.tau a a' → SeqTau C1 C2 (a, b) (a', b)
  | right {a : C1.σ} {b b' : C2.σ} : C2.tau b b' → SeqTau C1 C2 (a, b) (a, b')
  | pass {a a' : C1.σ} {b : C2.σ} {y : α} : C1.out a y a' → C2.room b → SeqTau C1 C2 (a, b) (a', C2.put y b)
  | close {a a' : C1.σ} {b : C2.σ} : C1.fin a a' → SeqTau C1 C2 (a, b) (a', C2.shut b)

inductive SeqOut {α : Type} (C1 C2 : Comp α) : C1.σ × C2.σ → α → C1.σ × C2.σ → Prop
  | mk {a : C1.σ} {b b' : C2.σ} {y : α} : C2.out b y b' → SeqOut C1 C2 (a, b) y (a, b')

inductive SeqFin {α : Type} (C1 C2 : Comp α) : C1.σ × C2.σ → C1.σ × C2.σ → Prop
  | mk {a : C1.σ} {b b' : C2.σ} : C2.fin b b' → SeqFin C1 C2 (a, b) (a, b')

/-- `C1` feeding `C2` -/
def Comp.seq {α : Type} (C1 C2 : Comp α) : Comp α where
  σ := C1.σ × C2.σ
  tau := SeqTau C1 C2
  out := SeqOut C1 C2
  fin := SeqFin C1 C2
  room := fun s => C1.room s.1
  put := fun x s => (C1.put x s.1, s.2)
  shut := fun s => (C1.shut s.1, s.2)
  closed := fun s => C1.closed s.1
  ended := fun s => C2.ended s.2

/-- a component closed at both ends: `todo` is what the source still has to send -/
structure SysS {α : Type} (C : Comp α) where
  todo : List α
  srcClosed : Bool
  st : C.σ

inductive SysStep {α : Type} (C : Comp α) : SysS C → SysS C → Prop
  | feed {s : SysS C} {t : α} {ts : List α} : s.todo = t :: ts → C.room s.st →
      SysStep C s { s with todo := ts, st := C.put t s.st }
  | shut {s : SysS C} : s.todo = [] → s.srcClosed = false →
      SysStep C s { s with srcClosed := true, st := C.shut s.st }
  | tau {s : SysS C} {u : C.σ} : C.tau s.st u → SysStep C s { s with st := u }
  | out {s : SysS C} {y : α} {u : C.σ} : C.out s.st y u → SysStep C s { s with st := u }
  | fin {s : SysS C} {u : C.σ} : C.fin s.st u → SysStep C s { s with st := u }

def sysInit {α : Type} (C : Comp α) (input : List α) (s0 : C.σ) : SysS C :=
  { todo := input, srcClosed := false, st := s0 }

/-- everything sent, input closed, output closed -/
def SysFinal {α : Type} {C : Comp α} (s : SysS C) : Prop :=
  s.todo = [] ∧ s.srcClosed = true ∧ C.ended s.st = true

/-! ## §2 the chain of stages as an open component -/

inductive Act (α : Type) where
  | tau
  | out (y : α)
  | fin

/-- `Step` of Grip.Model.C07 with the action of the last stage made visible -/
inductive OStep {α : Type} : List (Cell α) → Act α → List (Cell α) → Prop
  | take {c : Cell α} {x : α} {xs : List α} {r : List (Cell α)} :
      c.hand = [] → c.buf = x :: xs → c.done = false →
      OStep (c :: r) .tau ({ c with buf := xs, hand := c.f x } :: r)
  | emit {c d : Cell α} {y : α} {ys : List α} {r : List (Cell α)} :
      c.hand = y :: ys → d.buf.length < d.cap →
      OStep (c :: d :: r) .tau ({ c with hand := ys } :: { d with buf := d.buf ++ [y] } :: r)
  | emitLast {c : Cell α} {y : α} {ys : List α} :
      c.hand = y :: ys → OStep [c] (.out y) [{ c with hand := ys }]
  | close {c d : Cell α} {r : List (Cell α)} :
      c.hand = [] → c.buf = [] → c.inClosed = true → c.done = false →
      OStep (c :: d :: r) .tau ({ c with done := true } :: { d with inClosed := true } :: r)
  | closeLast {c : Cell α} :
      c.hand = [] → c.buf = [] → c.inClosed = true → c.done = false →
      OStep [c] .fin [{ c with done := true }]
  | tail {c : Cell α} {a : Act α} {r r' : List (Cell α)} : OStep r a r' → OStep (c :: r) a (c :: r')

def lastDone {α : Type} : List (Cell α) → Bool
  | [] => true
  | [c] => c.done
  | _ :: d :: r => lastDone (d :: r)

/-- a chain of stages (capacities and stage functions are part of the state and never change) -/
def chainC (α : Type) : Comp α where
  σ := List (Cell α)
  tau := fun s s' => OStep s .tau s'
  out := fun s y s' => OStep s (.out y) s'
  fin := fun s s' => OStep s .fin s'
  room := headRoom
  put := headAppend
  shut := headClose
  closed := headInClosed
  ended := lastDone

/-- all channels empty and open, no goroutine has ended -/
def emptyChain {α : Type} (stages : List (Nat × (α → List α))) : List (Cell α) :=
  stages.map (fun s => { cap := s.1, f := s.2, buf := [], hand := [], inClosed := false, done := false })

/-- weight of an item in front of the stages `fs` when an item `y` leaving the last stage still
    costs `d y` steps further down -/
def wItemD {α : Type} (d : α → Nat) : List (α → List α) → α → Nat
  | [], x => d x
  | f :: fs, x => 1 + sumMap (fun y => 1 + wItemD d fs y) (f x)

def muD {α : Type} (d : α → Nat) : List (Cell α) → Nat
  | [] => 0
  | c :: r => sumMap (wItemD d (c.f :: fsOf r)) c.buf + sumMap (fun y => 1 + wItemD d (fsOf r) y) c.hand
              + (if c.done then 0 else 1) + muD d r

/-! ## §3 `both.Process` as deployed, embedded in a pipeline -/

/-- what the feeder goroutine holds: nothing; a signal on its way to the output; a traveler to be
    sent to channel number `i` (and then to the channels after it) -/
inductive FH (α : Type) where
  | idle
  | sig (t : α)
  | fan (t : α) (i : Nat)

/-- `C0` = first lookup processor followed by the loop `for c := range chanOut[0] { out <- c }`;
    `C1` = second lookup processor followed by the goroutine collecting `chanOut[1]` into `held`. -/
structure BothS {α : Type} (C0 C1 : Comp α) where
  inbuf : List α
  inClosed : Bool
  fh : FH α
  fedClosed : Bool        -- the feeder has closed chanIn[0], chanIn[1] and returned
  s0 : C0.σ
  s1 : C1.σ
  held : List α
  done : Bool             -- close(out)

inductive BothTau {α : Type} (C0 C1 : Comp α) (sig : α → Bool) : BothS C0 C1 → BothS C0 C1 → Prop
  | take {s : BothS C0 C1} {t : α} {ts : List α} : s.fh = .idle → s.inbuf = t :: ts →
      BothTau C0 C1 sig s { s with inbuf := ts, fh := if sig t then .sig t else .fan t 0 }
  | push0 {s : BothS C0 C1} {t : α} : s.fh = .fan t 0 → C0.room s.s0 →
      BothTau C0 C1 sig s { s with fh := .fan t 1, s0 := C0.put t s.s0 }
  | push1 {s : BothS C0 C1} {t : α} : s.fh = .fan t 1 → C1.room s.s1 →
      BothTau C0 C1 sig s { s with fh := .idle, s1 := C1.put t s.s1 }
  | closeFeed {s : BothS C0 C1} : s.fh = .idle → s.inbuf = [] → s.inClosed = true → s.fedClosed = false →
      BothTau C0 C1 sig s { s with fedClosed := true, s0 := C0.shut s.s0, s1 := C1.shut s.s1 }
  | in0 {s : BothS C0 C1} {u : C0.σ} : C0.tau s.s0 u → BothTau C0 C1 sig s { s with s0 := u }
  | in1 {s : BothS C0 C1} {u : C1.σ} : C1.tau s.s1 u → BothTau C0 C1 sig s { s with s1 := u }
  | fin0 {s : BothS C0 C1} {u : C0.σ} : C0.fin s.s0 u → BothTau C0 C1 sig s { s with s0 := u }
  | fin1 {s : BothS C0 C1} {u : C1.σ} : C1.fin s.s1 u → BothTau C0 C1 sig s { s with s1 := u }
  | collect {s : BothS C0 C1} {y : α} {u : C1.σ} : C1.out s.s1 y u →
      BothTau C0 C1 sig s { s with s1 := u, held := s.held ++ [y] }

inductive BothOut {α : Type} (C0 C1 : Comp α) : BothS C0 C1 → α → BothS C0 C1 → Prop
  | sigOut {s : BothS C0 C1} {t : α} : s.fh = .sig t → BothOut C0 C1 s t { s with fh := .idle }
  | fwd0 {s : BothS C0 C1} {y : α} {u : C0.σ} : C0.out s.s0 y u → BothOut C0 C1 s y { s with s0 := u }
  | flush {s : BothS C0 C1} {y : α} {ys : List α} :
      s.fedClosed = true → C0.ended s.s0 = true → C1.ended s.s1 = true → s.held = y :: ys →
      BothOut C0 C1 s y { s with held := ys }

inductive BothFin {α : Type} (C0 C1 : Comp α) : BothS C0 C1 → BothS C0 C1 → Prop
  | mk {s : BothS C0 C1} :
      s.fedClosed = true → C0.ended s.s0 = true → C1.ended s.s1 = true → s.held = [] → s.done = false →
      BothFin C0 C1 s { s with done := true }

/-- `cap`: capacity of the stage's input channel (pipes.go `bufsize`) -/
def bothC {α : Type} (C0 C1 : Comp α) (cap : Nat) (sig : α → Bool) : Comp α where
  σ := BothS C0 C1
  tau := BothTau C0 C1 sig
  out := BothOut C0 C1
  fin := BothFin C0 C1
  room := fun s => s.inbuf.length < cap
  put := fun x s => { s with inbuf := s.inbuf ++ [x] }
  shut := fun s => { s with inClosed := true }
  closed := fun s => s.inClosed
  ended := fun s => s.done

def bothInit {α : Type} {C0 C1 : Comp α} (a : C0.σ) (b : C1.σ) : BothS C0 C1 :=
  { inbuf := [], inClosed := false, fh := .idle, fedClosed := false, s0 := a, s1 := b, held := [], done := false }

/-! ## §4 `aggregate.Process` with any number of aggregations, embedded -/

inductive Phase where
  | reading | emitting | stopped
  deriving DecidableEq, Repr

/-- one aggregation: its channel (`cap`, `buf`, `chClosed`) and its goroutine: `seen` is what it
    has read, `g` the results it computes once the channel is closed and drained, `hand` the
    results not yet sent -/
structure Wk (α : Type) where
  cap : Nat
  g : List α → List α
  buf : List α
  seen : List α
  hand : List α
  chClosed : Bool
  ph : Phase

inductive WkStep {α : Type} : Wk α → Act α → Wk α → Prop
  | read {w : Wk α} {x : α} {xs : List α} : w.ph = .reading → w.buf = x :: xs →
      WkStep w .tau { w with buf := xs, seen := w.seen ++ [x] }
  | compute {w : Wk α} : w.ph = .reading → w.buf = [] → w.chClosed = true →
      WkStep w .tau { w with ph := .emitting, hand := w.g w.seen }
  | emit {w : Wk α} {y : α} {ys : List α} : w.ph = .emitting → w.hand = y :: ys →
      WkStep w (.out y) { w with hand := ys }
  | stop {w : Wk α} : w.ph = .emitting → w.hand = [] → WkStep w .tau { w with ph := .stopped }

structure AggS (α : Type) where
  inbuf : List α
  inClosed : Bool
  fh : FH α
  fedClosed : Bool        -- the feeder has closed every aChans[…] and returned
  ws : List (Wk α)
  done : Bool             -- g.Wait() returned, close(out)

def closeAll {α : Type} (ws : List (Wk α)) : List (Wk α) := ws.map (fun w => { w with chClosed := true })

inductive AggTau {α : Type} (sig : α → Bool) : AggS α → AggS α → Prop
  | take {s : AggS α} {t : α} {ts : List α} : s.fh = .idle → s.inbuf = t :: ts →
      AggTau sig s { s with inbuf := ts, fh := if sig t then .sig t else .fan t 0 }
  | push {s : AggS α} {t : α} {i : Nat} {l r : List (Wk α)} {w : Wk α} :
      s.fh = .fan t i → s.ws = l ++ w :: r → l.length = i → w.buf.length < w.cap →
      AggTau sig s { s with fh := (if r = [] then .idle else .fan t (i + 1)),
                            ws := l ++ { w with buf := w.buf ++ [t] } :: r }
  | closeFeed {s : AggS α} : s.fh = .idle → s.inbuf = [] → s.inClosed = true → s.fedClosed = false →
      AggTau sig s { s with fedClosed := true, ws := closeAll s.ws }
  | work {s : AggS α} {l r : List (Wk α)} {w w' : Wk α} : s.ws = l ++ w :: r → WkStep w .tau w' →
      AggTau sig s { s with ws := l ++ w' :: r }

inductive AggOut {α : Type} : AggS α → α → AggS α → Prop
  | sigOut {s : AggS α} {t : α} : s.fh = .sig t → AggOut s t { s with fh := .idle }
  | work {s : AggS α} {y : α} {l r : List (Wk α)} {w w' : Wk α} : s.ws = l ++ w :: r → WkStep w (.out y) w' →
      AggOut s y { s with ws := l ++ w' :: r }

inductive AggFin {α : Type} : AggS α → AggS α → Prop
  | mk {s : AggS α} : s.fedClosed = true → (∀ w ∈ s.ws, w.ph = .stopped) → s.done = false →
      AggFin s { s with done := true }

/-- `cap`: capacity of the stage's input channel (pipes.go `bufsize`) -/
def aggC (α : Type) (cap : Nat) (sig : α → Bool) : Comp α where
  σ := AggS α
  tau := AggTau sig
  out := AggOut
  fin := AggFin
  room := fun s => s.inbuf.length < cap
  put := fun x s => { s with inbuf := s.inbuf ++ [x] }
  shut := fun s => { s with inClosed := true }
  closed := fun s => s.inClosed
  ended := fun s => s.done

/-- one worker per aggregation: channel capacity and result function -/
def aggInit {α : Type} (aggs : List (Nat × (List α → List α))) : AggS α :=
  { inbuf := [], inClosed := false, fh := .idle, fedClosed := false, done := false,
    ws := aggs.map (fun a => { cap := a.1, g := a.2, buf := [], seen := [], hand := [], chClosed := false, ph := .reading }) }

end Grip.C07
