/-
  Grip.Model.C11 — MODEL of the job service (DESIGN.md §5 C11).  Core Lean only.

  * traveler JSON: what `encoding/json` writes for a `gdbi.BaseTraveler` (all eight exported
    fields; gdbi/interface.go) and what `json.Unmarshal` reads back — the serializer workers of
    jobstorage/serializer.go call exactly these two functions per item.  JSON *text* (escaping,
    number formatting) is encoding/json's business and trusted; the model works on JSON values.
  * the job store of jobstorage/storage.go: the in-memory `sync.Map` (`mem`) and the directory
    tree (`disk`: per job a `results` file and — once the spool goroutine has finished — a
    `status` file), with Spool (start / one line / finish), Stream, Status, List, Search, Delete
    and the reload that `NewFSJobStorage` performs at start.
  * `JobMatch` of jobstorage/query_checksum.go, loop for loop.
  * `Compile` with `CompileOptions{PipelineExtension, ExtensionMarkTypes}` (engine/core/compile.go)
    and `pipeline.Resume`: the typing fold starts from the stored `(DataType, MarkTypes)`, the
    stored travelers are the input of the first processor.
  * `Convert` with its reload of unloaded elements (engine/pipeline/pipes.go).
  The per-statement semantics is C01's (`evalFrom`, `typeStep`); the order preservation of the
  serializer worker pools is C13's theorem (`marshal_stream_ok`, `unmarshal_stream_ok`,
  `roundrobin_identity`), which is why a spooled stream is modelled as `List.map marshal`.
-/
import Grip.Model.Eval

namespace Grip.C11
open Grip

/-! ### traveler JSON -/

def marshalElem (e : Elem) : JV :=
  .obj [("ID", .str e.gid), ("Label", .str e.label), ("From", .str e.frm), ("To", .str e.to),
        ("Data", e.data), ("Loaded", .bool e.loaded)]

def marshalOptElem : Option Elem → JV
  | none => .null
  | some e => marshalElem e

/-- gdbi.DataElementID has two string fields; the model's three constructors map onto it. -/
def marshalPathEl : PathEl → JV
  | .vertex id => .obj [("Vertex", .str id), ("Edge", .str "")]
  | .edge id => .obj [("Vertex", .str ""), ("Edge", .str id)]
  | .empty => .obj [("Vertex", .str ""), ("Edge", .str "")]

def marshalAgg (a : AggVal) : JV :=
  .obj [("Name", .str a.name), ("Key", a.key), ("Value", .num a.value)]

/-- `json.Marshal(t)` for a `*gdbi.BaseTraveler` that is not a signal. `Count` is a protocol
    number (scaled by 1024 like every number of a `JV`). -/
def marshal (t : Traveler) : JV :=
  .obj [("Current", marshalOptElem t.cur),
        ("Marks", .obj (t.marks.map fun kv => (kv.1, marshalOptElem kv.2))),
        ("Selections", match t.sel with
          | none => .null
          | some s => .obj (s.map fun kv => (kv.1, marshalElem kv.2))),
        ("Aggregation", match t.agg with
          | none => .null
          | some a => marshalAgg a),
        ("Count", .num (Int.ofNat t.count * 1024)),
        ("Render", t.render),
        ("Path", .arr (t.path.map marshalPathEl)),
        ("Signal", .null)]

def strOf : Option JV → String
  | some (.str s) => s
  | _ => ""

def boolOf : Option JV → Bool
  | some (.bool b) => b
  | _ => false

/-- `Data map[string]interface{}`: an object or nil; anything else is a decode error for the
    field, which stays nil. -/
def dataOf : Option JV → JV
  | some (.obj kvs) => .obj kvs
  | _ => .null

def unmarshalElem (v : JV) : Elem :=
  { gid := strOf (v.getKey? "ID"), label := strOf (v.getKey? "Label"),
    frm := strOf (v.getKey? "From"), to := strOf (v.getKey? "To"),
    data := dataOf (v.getKey? "Data"), loaded := boolOf (v.getKey? "Loaded") }

def unmarshalOptElem : JV → Option Elem
  | .obj kvs => some (unmarshalElem (.obj kvs))
  | _ => none

def unmarshalPathEl (v : JV) : PathEl :=
  let vx := strOf (v.getKey? "Vertex")
  let ed := strOf (v.getKey? "Edge")
  if vx != "" then .vertex vx else if ed != "" then .edge ed else .empty

def unmarshalAgg : Option JV → Option AggVal
  | some (.obj kvs) =>
    some { name := strOf ((JV.obj kvs).getKey? "Name"),
           key := ((JV.obj kvs).getKey? "Key").getD .null,
           value := match (JV.obj kvs).getKey? "Value" with
             | some (.num n) => n
             | _ => 0 }
  | _ => none

/-- `json.Unmarshal(line, &gdbi.BaseTraveler{})`; errors are ignored by the worker, missing or
    ill-typed fields keep their zero value. -/
def unmarshal (v : JV) : Traveler :=
  { cur := (v.getKey? "Current").bind unmarshalOptElem,
    marks := match v.getKey? "Marks" with
      | some (.obj kvs) => kvs.map fun kv => (kv.1, unmarshalOptElem kv.2)
      | _ => [],
    path := match v.getKey? "Path" with
      | some (.arr xs) => xs.map unmarshalPathEl
      | _ => [],
    count := match v.getKey? "Count" with
      | some (.num n) => (n / 1024).toNat
      | _ => 0,
    render := (v.getKey? "Render").getD .null,
    sel := match v.getKey? "Selections" with
      | some (.obj kvs) => some (kvs.map fun kv => (kv.1, unmarshalElem kv.2))
      | _ => none,
    agg := unmarshalAgg (v.getKey? "Aggregation") }

/-! #### JSON-representable travelers -/

/-- `Data` is a JSON object or nil (it is a Go map). -/
def elemRep (e : Elem) : Bool :=
  match e.data with
  | .obj _ => true
  | .null => true
  | _ => false

def optElemRep : Option Elem → Bool
  | none => true
  | some e => elemRep e

/-- The model's `PathEl` has spare values (`vertex ""`, `edge ""`) that denote the same Go value
    as `empty`; representable paths do not use them. -/
def pathElRep : PathEl → Bool
  | .vertex id => id != ""
  | .edge id => id != ""
  | .empty => true

/-- JSON-representable: element data are maps, path entries are in normal form. -/
def travRep (t : Traveler) : Bool :=
  optElemRep t.cur && t.marks.all (fun kv => optElemRep kv.2) && t.path.all pathElRep
    && (match t.sel with
        | none => true
        | some s => s.all (fun kv => elemRep kv.2))

/-! ### Convert with its reloads (engine/pipeline/pipes.go) -/

/-- `if !ve.Loaded { ve = graph.GetVertex(ve.ID, true) }` — a missing element is the Go nil. -/
def reloadV (g : AGraph) (e : Elem) : Option Elem :=
  if e.loaded then some e else (g.getVertex e.gid).map vertexElem

def reloadE (g : AGraph) (e : Elem) : Option Elem :=
  if e.loaded then some e else (g.getEdge e.gid).map edgeElem

/-- `pipeline.Convert(graph, dataType, markTypes, t)`: unloaded elements are fetched from the
    graph (the selected-edge arm since the `fix:` commit for finding C11-convert-nil-edge).
    A selected element that no longer exists is a nil dereference in the Go code (changed graph:
    outside the property); the model drops the entry. -/
def convertL (g : AGraph) (st : TState) (t : Traveler) : Row :=
  match st.last with
  | .vertex => .vertex (t.cur.bind (reloadV g))
  | .edge => .edge (t.cur.bind (reloadE g))
  | .selection =>
    .sel ((t.sel.getD []).filterMap (fun (kv : String × Elem) =>
      match st.marks.get kv.1 with
      | .vertex => (reloadV g kv.2).map fun e => (kv.1, DataType.vertex, e)
      | .edge => (reloadE g kv.2).map fun e => (kv.1, DataType.edge, e)
      | _ => none))
  | _ => convert st t

/-! ### JobMatch (jobstorage/query_checksum.go) -/

/-- The loop `for i := 0; i < len(job); i++ { if query[i] != job[i] { match = false } }`
    (only entered when `len(job) ≤ len(query)`). -/
def matchLoop {κ : Type} [DecidableEq κ] : List κ → List κ → Bool
  | _, [] => true
  | [], _ :: _ => false
  | q :: qs, j :: js => (if q = j then true else false) && matchLoop qs js

/-- `JobMatch` with the bound of its final test `len(job) > n && match` as a parameter. -/
def jobMatchN {κ : Type} [DecidableEq κ] (n : Nat) (query job : List κ) : Bool :=
  if job.length > query.length then false
  else decide (job.length > n) && matchLoop query job

def jobMatch {κ : Type} [DecidableEq κ] (query job : List κ) : Bool := jobMatchN 1 query job

/-- the JSON keys of an object (to compare the marshalling model with the Go struct definitions) -/
def objKeys : JV → List String
  | .obj kvs => kvs.map (·.1)
  | _ => []

/-! ### the job store (jobstorage/storage.go) -/

inductive JobState where
  | queued | running | complete | error | deleted
  deriving Repr, DecidableEq, Inhabited

def JobState.toString : JobState → String
  | .queued => "QUEUED" | .running => "RUNNING" | .complete => "COMPLETE" | .error => "ERROR"
  | .deleted => "DELETED"

/-- `jobstorage.Job`: status (id, graph, state, count), result type, mark types, step checksums. -/
structure JobRec (κ : Type) where
  graph : String
  id : String
  state : JobState := .queued
  count : Nat := 0
  st : TState := {}
  sums : List κ := []
  deriving Repr

/-- One job directory: the `results` file (one JSON value per line) and the `status` file. -/
structure JobDir (κ : Type) where
  graph : String
  id : String
  results : List JV := []
  status : Option (JobRec κ) := none

structure Store (κ : Type) where
  mem : List (JobRec κ) := []
  disk : List (JobDir κ) := []

namespace Store
variable {κ : Type}

def isJob (graph id : String) (j : JobRec κ) : Bool := j.graph == graph && j.id == id
def isDir (graph id : String) (d : JobDir κ) : Bool := d.graph == graph && d.id == id

def lookup (s : Store κ) (graph id : String) : Option (JobRec κ) := s.mem.find? (isJob graph id)
def dir (s : Store κ) (graph id : String) : Option (JobDir κ) := s.disk.find? (isDir graph id)

def updMem (s : Store κ) (graph id : String) (f : JobRec κ → JobRec κ) : List (JobRec κ) :=
  s.mem.map fun j => if isJob graph id j then f j else j

def updDisk (s : Store κ) (graph id : String) (f : JobDir κ → JobDir κ) : List (JobDir κ) :=
  s.disk.map fun d => if isDir graph id d then f d else d

/-- `Spool` up to `fs.jobs.Store(...)` and the first statement of the goroutine: directory and
    empty results file created, job registered, state RUNNING. -/
def spoolStart (s : Store κ) (graph id : String) (sums : List κ) (st : TState) : Store κ :=
  { mem := s.mem ++ [{ graph := graph, id := id, state := .running, st := st, sums := sums }],
    disk := s.disk ++ [{ graph := graph, id := id }] }

/-- one iteration of `for i := range tbStream`: a line appended, `Count += 1`. -/
def spoolLine (s : Store κ) (graph id : String) (line : JV) : Store κ :=
  { mem := s.updMem graph id fun j => { j with count := j.count + 1 },
    disk := s.updDisk graph id fun d => { d with results := d.results ++ [line] } }

/-- after the loop: state COMPLETE, the job record written to the `status` file. -/
def spoolFinish (s : Store κ) (graph id : String) : Store κ :=
  let mem := s.updMem graph id fun j => { j with state := .complete }
  { mem := mem,
    disk := s.updDisk graph id fun d => { d with status := mem.find? (isJob graph id) } }

/-- a whole spool run over the lines the marshalling stage delivers. -/
def spool (s : Store κ) (graph id : String) (sums : List κ) (st : TState) (lines : List JV) : Store κ :=
  spoolFinish (lines.foldl (fun acc l => spoolLine acc graph id l) (spoolStart s graph id sums st)) graph id

/-- `NewFSJobStorage` on an existing directory: every job directory with a `status` file. -/
def restart (s : Store κ) : Store κ :=
  { mem := s.disk.filterMap (·.status), disk := s.disk }

/-- `Delete`: refused for a running or queued job, otherwise the entry and the directory go. -/
def delete (s : Store κ) (graph id : String) : Store κ :=
  match s.lookup graph id with
  | none => s
  | some j =>
    if j.state == .running || j.state == .queued then s
    else { mem := s.mem.filter (fun j => !isJob graph id j),
           disk := s.disk.filter (fun d => !isDir graph id d) }

def list (s : Store κ) (graph : String) : List String :=
  (s.mem.filter (·.graph == graph)).map (·.id)

def search [DecidableEq κ] (s : Store κ) (graph : String) (q : List κ) : List String :=
  (s.mem.filter fun j => j.graph == graph && jobMatch q j.sums).map (·.id)

/-- `Stream`: only a COMPLETE job; the result file decoded line by line. -/
def stream (s : Store κ) (graph id : String) : Option (List Traveler × TState) :=
  match s.lookup graph id with
  | none => none
  | some j =>
    if j.state == .complete then
      match s.dir graph id with
      | some d => some (d.results.map unmarshal, j.st)
      | none => none
    else none

end Store

/-! ### ViewJob, ResumeJob, the direct traversal -/

/-- `ViewJob`: an error of `Stream` is swallowed (`return nil`): no rows, no error. -/
def viewJob {κ : Type} (g : AGraph) (s : Store κ) (graph id : String) : List Row :=
  match s.stream graph id with
  | none => []
  | some (ts, st) => ts.map (convertL g st)

/-- `Validate(stmts, opts)`: the first statement may be anything when the extension type is set. -/
def validateExt (st : TState) : List Stmt → Except TypeErr Unit
  | [] => .ok ()
  | .V _ :: _ => .ok ()
  | .E _ :: _ => .ok ()
  | _ :: _ => if st.last == .noData then .error .firstNotStart else .ok ()

/-- `Compile(stmts, &CompileOptions{PipelineExtension: st.last, ExtensionMarkTypes: st.marks})`. -/
def typeCheckFrom (st : TState) (b : List Stmt) : Except TypeErr TState :=
  match validateExt st b with
  | .error e => .error e
  | .ok () => typeFold st b

/-- The travelers `pipeline.Start` delivers for a compiled traversal (C01's left fold); the empty
    statement list compiles to an empty pipeline whose output channel is closed at once. -/
def travelersOf (numOf : String → Option Int) (g : AGraph) (stmts : List Stmt) : List Traveler :=
  if stmts.isEmpty then [] else evalFrom numOf g {} [Traveler.seed] stmts

/-- Direct traversal: `Compile` + `pipeline.Run` (C01's fold) + `Convert`. -/
def direct (numOf : String → Option Int) (g : AGraph) (stmts : List Stmt) : Except TypeErr (List Row) :=
  match typeCheck stmts with
  | .error e => .error e
  | .ok st => .ok ((travelersOf numOf g stmts).map (convertL g st))

inductive ResumeErr where
  | notFound | compile (e : TypeErr)
  deriving Repr

/-- `ResumeJob`: stream the stored travelers into the pipeline compiled from the extension. -/
def resumeJob {κ : Type} (numOf : String → Option Int) (g : AGraph) (s : Store κ) (graph id : String)
    (b : List Stmt) : Except ResumeErr (List Row) :=
  match s.stream graph id with
  | none => .error .notFound
  | some (ts, st) =>
    match typeCheckFrom st b with
    | .error e => .error (.compile e)
    | .ok st' =>
      if b.isEmpty then .ok []   -- `pipeline.Start` with no processors: a closed channel
      else .ok ((evalFrom numOf g st ts b).map (convertL g st'))

/-- `Submit` of a well-typed traversal, run to completion: the travelers of the pipeline go
    through the marshalling stage (order kept: C13) into `Spool`. -/
def submit {κ : Type} (numOf : String → Option Int) (g : AGraph) (s : Store κ) (graph id : String)
    (sums : List κ) (stmts : List Stmt) : Except TypeErr (Store κ) :=
  match typeCheck stmts with
  | .error e => .error e
  | .ok st => .ok (s.spool graph id sums st ((travelersOf numOf g stmts).map marshal))

end Grip.C11
