/-
  Grip.Model.C02 — MODEL of query planning: the index-start rewrite of engine/core/optimize.go
  (`IndexStartOptimize`, `extractHasVals`), the `LookupVertsIndex` processor, the load-elision
  analysis of engine/inspect/inspect.go (`PipelineSteps`, mark steps, `PipelineStepOutputs`),
  `State.StepLoadData` of engine/pipeline/state.go, the lookup processors' treatment of the
  "load" flag and `Convert`'s lazy reload (engine/pipeline/pipes.go).  Core Lean only.

  The literal, fully loaded semantics is C01's (`Grip.evalStepT`, `Grip.run`); everything here is
  expressed relative to it.
-/
import Grip.Model.Eval

namespace Grip.C02
open Grip Grip.C08

/-! ## 1. IndexStartOptimize -/

/-- `s, ok := x.(string)` for every element of a `within` list; `none`: some element is not a
    string (`extractHasVals` then gives up and returns no values). -/
def strsOf : List JV → Option (List String)
  | [] => some []
  | .str s :: rest => (strsOf rest).map (s :: ·)
  | _ :: _ => none

/-- `extractHasVals` (after `fix: extractHasVals no longer type-asserts the WITHIN value`): a
    `within` whose value is not a list of strings yields no values, so the filter stays a filter.
    The `Option` is kept for the callers' shape; the function never returns `none`. -/
def extractHasVals : HasE → Option (List String)
  | .cond _ .eq (.str l) => some [l]
  | .cond _ .within (.arr xs) => some ((strsOf xs).getD [])
  | .cond _ .within _ => some []
  | _ => some []

mutual
  def hasSize : HasE → Nat
    | .and es => 1 + hasSizeL es
    | .or es => 1 + hasSizeL es
    | .not x => 1 + hasSize x
    | _ => 1
  def hasSizeL : List HasE → Nat
    | [] => 0
    | x :: xs => hasSize x + hasSizeL xs
end

def stmtW : Stmt → Nat
  | .has x => hasSize x
  | _ => 0

/-- Termination measure of the and-flattening recursion: total size of the has-expressions. -/
def pipeW : List Stmt → Nat
  | [] => 0
  | s :: r => stmtW s + pipeW r

/-- `jsonpath.GetNamespace(f)` (the current element's namespace when none is written). -/
def nsName (f : String) : String :=
  match Path.namespaceOf f with
  | none => currentNamespace
  | some ns => ns

def keyIsCurrent (f : String) : Bool := nsName f == currentNamespace

/-- What the scan loop of `IndexStartOptimize` does with a statement at index ≥ 1. -/
inductive Lead where
  | id | label | other
  | andE (es : List HasE)
  | stop
  deriving Inhabited

def classify : Stmt → Lead
  | .hasId _ => .id
  | .hasLabel _ => .label
  | .has (.and es) => .andE es
  | .has (.cond key _ _) =>
    if keyIsCurrent key then
      (match Path.jsonPathOf key with
       | ["gid"] => .id
       | ["label"] => .label
       | _ => .other)
    else .other
  | .has _ => .other
  | _ => .stop

def Lead.isId : Lead → Bool | .id => true | _ => false
def Lead.isLabel : Lead → Bool | .label => true | _ => false

/-- The first `has(and …)` the scan reaches: statements before it, its conjuncts, statements after. -/
def splitAtAnd : List Stmt → Option (List Stmt × List HasE × List Stmt)
  | [] => none
  | s :: rest =>
    match classify s with
    | .andE es => some ([], es, rest)
    | .stop => none
    | _ => match splitAtAnd rest with
      | some (pre, es, post) => some (s :: pre, es, post)
      | none => none

theorem splitAtAnd_eq {tail pre es post} (h : splitAtAnd tail = some (pre, es, post)) :
    tail = pre ++ .has (.and es) :: post := by
  induction tail generalizing pre with
  | nil => simp [splitAtAnd] at h
  | cons s rest ih =>
    unfold splitAtAnd at h
    split at h
    · rename_i es' hc
      simp only [Option.some.injEq, Prod.mk.injEq] at h
      obtain ⟨rfl, rfl, rfl⟩ := h
      cases s <;> simp [classify] at hc
      rename_i x
      cases x <;> simp [classify] at hc
      · split at hc <;> try split at hc
        all_goals simp at hc
      · subst hc; rfl
    · simp at h
    · split at h
      · rename_i pre' es' post' hs
        simp only [Option.some.injEq, Prod.mk.injEq] at h
        obtain ⟨rfl, rfl, rfl⟩ := h
        simp [ih hs]
      · simp at h

theorem hasSizeL_map_le (es : List HasE) : pipeW (es.map .has) = hasSizeL es := by
  induction es with
  | nil => simp [pipeW, hasSizeL]
  | cons x xs ih => simp [pipeW, hasSizeL, stmtW, ih]

theorem pipeW_append (a b : List Stmt) : pipeW (a ++ b) = pipeW a + pipeW b := by
  induction a with
  | nil => simp [pipeW]
  | cons x xs ih => simp [pipeW, ih, Nat.add_assoc]

/-- Index (in the tail) of the first statement of the wanted class before the scan stops. -/
def firstIdx (want : Lead → Bool) : List Stmt → Option Nat
  | [] => none
  | s :: rest =>
    match classify s with
    | .stop => none
    | c => if want c then some 0 else (firstIdx want rest).map (· + 1)

def idVals : Stmt → Option (List String)
  | .has x => extractHasVals x
  | .hasId ids => some ids
  | _ => some []

def labelVals : Stmt → Option (List String)
  | .has x => extractHasVals x
  | .hasLabel ls => some ls
  | _ => some []

/-- `dedupStringSlice` (engine/core/util.go): first occurrences, in order. -/
def dedup : List String → List String
  | [] => []
  | x :: xs => x :: (dedup xs).filter (fun y => !(y == x))

/-- The label half of the rewrite (`labelOpt`), tried when no id lookup was produced. -/
def rewriteLabel (tail : List Stmt) : Option (List Stmt) :=
  match firstIdx Lead.isLabel tail with
  | none => some (.V [] :: tail)
  | some k =>
    match labelVals (tail.getD k .unknown) with
    | none => none
    | some ls =>
      let ls := dedup ls
      if ls.isEmpty then some (.V [] :: tail) else some (.lookupVertsIndex ls :: tail.eraseIdx k)

/-- The second half of `IndexStartOptimize` on `V() :: tail` once no `and` is left to flatten. -/
def rewriteTail (tail : List Stmt) : Option (List Stmt) :=
  match firstIdx Lead.isId tail with
  | none => rewriteLabel tail
  | some k =>
    match idVals (tail.getD k .unknown) with
    | none => none
    | some ids =>
      let ids := dedup ids
      if ids.isEmpty then rewriteLabel tail else some (.V ids :: tail.eraseIdx k)

/-- `IndexStartOptimize` (`none` = the optimizer panics).  The recursive call re-scans the
    pipeline in which one `has(and(e₁…eₙ))` has been replaced by `has(e₁)…has(eₙ)`; it terminates
    because the total size of the has-expressions decreases. -/
def indexStartOptimize : List Stmt → Option (List Stmt)
  | .V [] :: tail =>
    match h : splitAtAnd tail with
    | some (pre, es, post) => indexStartOptimize (.V [] :: (pre ++ (es.map .has ++ post)))
    | none => rewriteTail tail
  | pipe => some pipe
termination_by p => pipeW p
decreasing_by
  have := splitAtAnd_eq h
  subst this
  simp only [pipeW, pipeW_append, hasSizeL_map_le, stmtW, hasSize]
  omega

/-! ## 2. LookupVertsIndex and the plan semantics -/

/-- The label index as C09 specifies it: ids of the vertices carrying the label. -/
def labelScan (g : AGraph) (l : String) : List String := (g.verts.filter (·.label == l)).map (·.gid)

/-- `LookupVertsIndex.Process`: for every label, scan the index, then fetch the vertices. -/
def stepIndex (g : AGraph) (labels : List String) (t : Traveler) : List Traveler :=
  (labels.flatMap fun l => (labelScan g l).filterMap g.getVertex).map
    (fun v => t.addCurrent (some (vertexElem v)))

/-- Plan statements: C01's steps plus the index lookup. -/
def evalStepP (numOf : String → Option Int) (g : AGraph) (from_ : DataType) (s : Stmt)
    (ts : List Traveler) : List Traveler :=
  match s with
  | .lookupVertsIndex ls => ts.flatMap (stepIndex g ls)
  | s => evalStepT numOf g from_ s ts

/-- The typing/evaluation fold with the statement's position made available to the step. -/
def evalFromX (step : Nat → DataType → Stmt → List Traveler → List Traveler)
    (st : TState) (i : Nat) (ts : List Traveler) : List Stmt → List Traveler
  | [] => ts
  | s :: rest =>
    match typeStep st s with
    | .ok st' => evalFromX step st' (i + 1) (step i st.last s ts) rest
    | .error _ => []

/-! ## 3. Load elision: inspect.PipelineSteps / PipelineStepOutputs, State.StepLoadData -/

/-- First case list of `PipelineSteps`: statements that start a new step. -/
def startsStep : Kind → Bool
  | .V | .E | .out | .in_ | .outE | .inE | .both | .bothE | .select
  | .inNull | .outNull | .inENull | .outENull => true
  | _ => false

def stepIdsFrom (cur : Nat) : List Stmt → List Nat
  | [] => []
  | s :: r => let c := if startsStep s.kind then cur + 1 else cur; c :: stepIdsFrom c r

/-- `PipelineSteps` (step ids are printed in decimal by the Go code; numbers here). -/
def stepIds (stmts : List Stmt) : List Nat := stepIdsFrom 0 stmts

/-- The arms of the `switch` in `PipelineStepOutputs`. -/
inductive OutArm where
  | count | select | lookup | hasLabel | readsCur | none
  deriving DecidableEq, Repr, Inhabited

def outArm : Kind → OutArm
  | .count => .count
  | .select => .select
  | .V | .E | .out | .in_ | .outE | .inE | .both | .bothE | .lookupVertsIndex => .lookup
  | .hasLabel => .hasLabel
  | .has | .fields | .unwind => .readsCur
  | _ => .none

/-- Statement kinds for which `statementFields` returns field references. -/
def hasFieldRefs : Kind → Bool
  | .has | .hasKey | .distinct | .render | .unwind | .aggregate | .jump => true
  | _ => false

mutual
  def hasKeys : HasE → List String
    | .cond k _ _ => [k]
    | .and es => hasKeysL es
    | .or es => hasKeysL es
    | .not x => hasKeys x
    | .none => []
  def hasKeysL : List HasE → List String
    | [] => []
    | x :: xs => hasKeys x ++ hasKeysL xs
end

/-- `templateFields`: the string leaves of a render template. -/
def templateRefs : JV → List String
  | .str s => [s]
  | .arr xs => refsArr xs
  | .obj kvs => refsObj kvs
  | _ => []
where
  refsArr : List JV → List String
    | [] => []
    | v :: rest => templateRefs v ++ refsArr rest
  refsObj : List (String × JV) → List String
    | [] => []
    | (_, v) :: rest => templateRefs v ++ refsObj rest

def aggRefs : AggKind → List String
  | .term f _ => [f] | .histogram f _ => [f] | .percentile f _ => [f] | .field f => [f] | .type f => [f]
  | _ => []

/-- `statementFields`. -/
def fieldRefs : Stmt → List String
  | .has x => hasKeys x
  | .hasKey ks => ks
  | .distinct fs => fs
  | .render t => templateRefs t
  | .unwind f => [f]
  | .aggregate as => as.flatMap (fun a => aggRefs a.kind)
  | .jump _ (some x) _ => hasKeys x
  | _ => []

/-- `map[string][]string` keyed by step id. -/
abbrev Outs := Nat → Option (List String)

def Outs.set (o : Outs) (k : Nat) (v : List String) : Outs := fun j => if j == k then some v else o j

def Outs.star (o : Outs) (k : Nat) : Outs := o.set k ["*"]

def Outs.starAll (o : Outs) (ks : List Nat) : Outs := ks.foldl Outs.star o

/-- `State.StepLoadData` for step `k`. -/
def stepLoadData (o : Outs) (k : Nat) : Bool :=
  match o k with
  | some x => !(x.length == 1 && x.head? == some "_label")
  | none => false

/-- `pipelineMarkSteps`: every step in which `as_(m)` occurs. -/
def markSteps (zs : List (Stmt × Nat)) (m : String) : List Nat :=
  zs.filterMap fun sk => match sk.1 with
    | .as_ n => if n == m then some sk.2 else none
    | _ => none

/-- The loop over `statementFields(gs)` at the end of each iteration. -/
def markRef (ms : String → List Nat) (k : Nat) (o : Outs) (f : String) : Outs :=
  let o := if keyIsCurrent f then o.star k else o
  o.starAll (ms (nsName f))

def markRefs (ms : String → List Nat) (k : Nat) (refs : List String) (o : Outs) : Outs :=
  refs.foldl (markRef ms k) o

structure AState where
  onLast : Bool := true
  outs : Outs := fun _ => none

/-- One iteration of the backward loop of `PipelineStepOutputs` (statement `s` in step `k`). -/
def passStmt (ms : String → List Nat) (s : Stmt) (k : Nat) (a : AState) : AState :=
  let a1 : AState :=
    match outArm s.kind with
    | .count => { a with onLast := false }
    | .select =>
      let marks := match s with | .select ms' => ms' | _ => []
      { onLast := false, outs := marks.foldl (fun o m => o.starAll (ms m)) a.outs }
    | .lookup => { onLast := false, outs := if a.onLast then a.outs.star k else a.outs }
    | .hasLabel =>
      { a with outs := match a.outs k with
          | some x => a.outs.set k (x ++ ["_label"])
          | none => a.outs.set k ["_label"] }
    | .readsCur => { a with outs := a.outs.star k }
    | .none => a
  { a1 with outs := markRefs ms k (if hasFieldRefs s.kind then fieldRefs s else []) a1.outs }

def passAll (ms : String → List Nat) : List (Stmt × Nat) → AState
  | [] => {}
  | (s, k) :: rest => passStmt ms s k (passAll ms rest)

/-- `PipelineStepOutputs`. -/
def stepOutputs (stmts : List Stmt) : Outs :=
  let zs := stmts.zip (stepIds stmts)
  (passAll (markSteps zs) zs).outs

/-- The `loadData` flag each processor is built with (`ps.SetCurStatment(i); ps.StepLoadData()`). -/
def loadFlags (stmts : List Stmt) : List Bool :=
  let o := stepOutputs stmts
  (stepIds stmts).map (stepLoadData o)

/-! ## 4. Lookups under a "do not load" hint, and Convert's reload -/

def isLookup : Stmt → Bool
  | .V _ | .E _ | .out _ | .in_ _ | .outE _ | .inE _ | .both _ | .bothE _ | .lookupVertsIndex _ => true
  | _ => false

def isV : Stmt → Bool
  | .V _ => true
  | _ => false

/-- What a lookup hands on for a stored element `e` when built with `load` on a backend that
    honours (`hon`) or ignores the hint at this step.  `LookupVerts` sets `Loaded` to its own
    `loadData` flag whatever the backend returned; the other processors pass the backend's flag. -/
def degrade (v load hon : Bool) (e : Elem) : Elem :=
  if load then e
  else if hon then { e with data := .obj [], loaded := false }
  else if v then { e with loaded := false }
  else e

def degCur (f : Elem → Elem) (t : Traveler) : Traveler := { t with cur := t.cur.map f }

/-- A plan statement at position `i` with the load flags `load` on a backend `hon`. -/
def stepE (numOf : String → Option Int) (g : AGraph) (load hon : Nat → Bool)
    (i : Nat) (from_ : DataType) (s : Stmt) (ts : List Traveler) : List Traveler :=
  let out := evalStepP numOf g from_ s ts
  if isLookup s then out.map (degCur (degrade (isV s) (load i) (hon i))) else out

/-- `Convert`: `if !ve.Loaded { ve = graph.GetVertex(ve.ID, true) }`. -/
def reload (g : AGraph) (ty : DataType) (e : Elem) : Option Elem :=
  if e.loaded then some e
  else match ty with
    | .vertex => (g.getVertex e.gid).map vertexElem
    | .edge => (g.getEdge e.gid).map edgeElem
    | _ => some e

def reloadT (g : AGraph) (st : TState) (t : Traveler) : Traveler :=
  { t with
    cur := t.cur.bind (reload g st.last),
    sel := t.sel.map (fun kvs => kvs.map fun kv => (kv.1, (reload g (st.marks.get kv.1) kv.2).getD kv.2)) }

def convertE (g : AGraph) (st : TState) (t : Traveler) : Row := convert st (reloadT g st t)

/-- Flags as functions of the position. -/
def flagAt (fs : List Bool) (i : Nat) : Bool := fs.getD i false

/-- The literal execution of a plan (every element fully loaded). -/
def evalPlan (numOf : String → Option Int) (g : AGraph) (plan : List Stmt) : List Traveler :=
  evalFromX (fun _ => evalStepP numOf g) {} 0 [Traveler.seed] plan

/-- The production execution of a plan on a backend `hon`. -/
def evalElided (numOf : String → Option Int) (g : AGraph) (hon : Nat → Bool) (plan : List Stmt) :
    List Traveler :=
  evalFromX (stepE numOf g (flagAt (loadFlags plan)) hon) {} 0 [Traveler.seed] plan

/-- `graph.Compiler().Compile` + `pipeline.Run` through the production compiler:
    `Validate`, `IndexStartOptimize`, typing of the plan, elided lookups, `Convert`.
    `none`: the optimizer panics. -/
def runProd (numOf : String → Option Int) (hon : Nat → Bool) (g : AGraph) (stmts : List Stmt) :
    Option (Except TypeErr (List Row)) :=
  match validate stmts with
  | .error e => some (.error e)
  | .ok () =>
    match indexStartOptimize stmts with
    | none => none
    | some plan =>
      match typeFold {} plan with
      | .error e => some (.error e)
      | .ok st =>
        if plan.isEmpty then some (.ok [])
        else some (.ok ((evalElided numOf g hon plan).map (convertE g st)))

/-- The same without elision and reload (the plan executed literally). -/
def runPlan (numOf : String → Option Int) (g : AGraph) (stmts : List Stmt) :
    Option (Except TypeErr (List Row)) :=
  match validate stmts with
  | .error e => some (.error e)
  | .ok () =>
    match indexStartOptimize stmts with
    | none => none
    | some plan =>
      match typeFold {} plan with
      | .error e => some (.error e)
      | .ok st =>
        if plan.isEmpty then some (.ok [])
        else some (.ok ((evalPlan numOf g plan).map (convert st)))

/-- kvgraph: honours the hint for edges, ignores it for vertices. -/
def honEdges (plan : List Stmt) (i : Nat) : Bool :=
  match plan.getD i .unknown with
  | .E _ | .outE _ | .inE _ | .bothE _ => true
  | _ => false

end Grip.C02
