/-
  Grip.Model.C12Multi — MODEL of a mark fed by SEVERAL jumps (engine/logic/jump.go with
  `len(s.inputs) > 1`), as a labelled transition system.

      upstream --inp--> MARK --main 0--> stage 0 --main 1--> stage 1 --> … --> stage n-1 --> downstream
                         ^                   |  (jump)                            | (jump)
                         |                side 0 0                            side (n-1) 0
                         |                   v  queue input goroutine             v
                         |                side 0 1                            side (n-1) 1
                         |                   v  queue output goroutine            v
                         +---- polls ---- side 0 2   …                        side (n-1) 2

  The program is `mark(a) . seg . jump(a,c,e) . seg . jump(a,c',e') …`: the main line is a list of
  stages, each a body step or a `jump` to the one mark.  A jump stage at main position `j` owns a
  queue (queue.go: channels `side j 0` = `jumpers`, `side j 1` = the slice, `side j 2` = the queue's
  output channel, which is `s.inputs[·]` of the mark).

  Jump.Process on a traveler: `if cond { jumpers <- t }; if Emit { out <- t.Copy() }` — with `Emit`
  the traveler also continues on the main line, to the next jump.  On a signal:
  `s.jumpers <- t; out <- t` — the signal is COPIED into the queue and forwarded, so one signal sent
  by the mark comes back once per jump, and the mark counts `returnCount == len(s.inputs)`.

  Representation as in Grip.Model.C12: all channels together are one list `W` of tagged messages;
  a stage takes the first message with its tag and replaces it in place by its outputs; the mark
  takes the first message of a queue output channel and appends to the end with tag `main 0`.

  The mark's loop iteration is NOT atomic here: `scan` is the loop variable of
  `for i := range s.inputs` (it runs over main positions; positions that are not jumps are skipped),
  `jf` is `jumperFound`; one transition = one `select` or the `if !jumperFound {…}` block.

  Core Lean only.
-/
import Grip.Model.C12

namespace Grip.C12.Multi
open Grip.C12 (Msg Phase)

inductive MStage (T : Type) where
  | body (f : T → List T)
  | jump (cond : T → Bool) (emit : Bool)

inductive Chan where
  | main (i : Nat)
  | side (j k : Nat)
  deriving Repr, DecidableEq

variable {T : Type}

def isJump (sys : List (MStage T)) (j : Nat) : Bool :=
  match sys[j]? with
  | some (.jump _ _) => true
  | _ => false

def njumps : List (MStage T) → Nat
  | [] => 0
  | .body _ :: r => njumps r
  | .jump _ _ :: r => njumps r + 1

/-- Number of jumps at main positions `≥ i`. -/
def jumpsFrom (sys : List (MStage T)) (i : Nat) : Nat := njumps (sys.drop i)

/-- `len(s.inputs)`. -/
def nIn (sys : List (MStage T)) : Nat := njumps sys

structure State (T : Type) where
  inp : List T
  phase : Phase
  W : List (Chan × Msg T)
  emitted : List T
  curID : Nat
  returnCount : Nat
  signalActive : Bool
  signalOutdated : Bool
  scan : Nat
  jf : Bool

def init (inp : List T) : State T :=
  { inp := inp, phase := .open, W := [], emitted := [], curID := 0, returnCount := 0,
    signalActive := false, signalOutdated := false, scan := 0, jf := false }

/-- travelers sent on the main line to position `i` (`n` = number of stages) … -/
def outMain (n i : Nat) (ts : List T) : List (Chan × Msg T) :=
  if i < n then ts.map (fun u => (Chan.main i, Msg.trav u)) else []

/-- … or, past the last stage, downstream. -/
def outDown (n i : Nat) (ts : List T) : List T := if i < n then [] else ts

/-- a signal forwarded on the main line (past the last stage it leaves the cycle). -/
def sigMain (n i k : Nat) : List (Chan × Msg T) := if i < n then [(Chan.main i, Msg.sig k)] else []

/-- The `if !jumperFound { … }` block of the closing-phase loop. -/
def markDecide (nI : Nat) (s : State T) : State T :=
  if (!s.signalActive && !s.signalOutdated) || (s.signalOutdated && s.returnCount == nI) then
    { s with curID := s.curID + 1, signalActive := true, signalOutdated := false, returnCount := 0,
             W := s.W ++ [(Chan.main 0, .sig (s.curID + 1))] }
  else if s.signalActive && s.returnCount == nI then
    { s with phase := .closed }
  else s

inductive Label where
  | stage (i : Nat)
  | queue (j k : Nat)
  | mark
  deriving Repr, DecidableEq

inductive Step (sys : List (MStage T)) : Label → State T → State T → Prop
  -- main line
  | bodyTrav {s : State T} {A B : List (Chan × Msg T)} {i : Nat} {t : T} {f : T → List T} :
      s.W = A ++ (Chan.main i, Msg.trav t) :: B → (∀ x ∈ A, x.1 ≠ Chan.main i) →
      sys[i]? = some (.body f) →
      Step sys (.stage i) s
        { s with W := A ++ outMain sys.length (i + 1) (f t) ++ B,
                 emitted := s.emitted ++ outDown sys.length (i + 1) (f t) }
  | jumpTrav {s : State T} {A B : List (Chan × Msg T)} {i : Nat} {t : T} {c : T → Bool} {e : Bool} :
      s.W = A ++ (Chan.main i, Msg.trav t) :: B → (∀ x ∈ A, x.1 ≠ Chan.main i) →
      sys[i]? = some (.jump c e) →
      Step sys (.stage i) s
        { s with W := A ++ ((if c t then [(Chan.side i 0, Msg.trav t)] else [])
                            ++ outMain sys.length (i + 1) (if e then [t] else [])) ++ B,
                 emitted := s.emitted ++ outDown sys.length (i + 1) (if e then [t] else []) }
  | bodySig {s : State T} {A B : List (Chan × Msg T)} {i k : Nat} {f : T → List T} :
      s.W = A ++ (Chan.main i, Msg.sig k) :: B → (∀ x ∈ A, x.1 ≠ Chan.main i) →
      sys[i]? = some (.body f) →
      Step sys (.stage i) s { s with W := A ++ sigMain sys.length (i + 1) k ++ B }
  | jumpSig {s : State T} {A B : List (Chan × Msg T)} {i k : Nat} {c : T → Bool} {e : Bool} :
      s.W = A ++ (Chan.main i, Msg.sig k) :: B → (∀ x ∈ A, x.1 ≠ Chan.main i) →
      sys[i]? = some (.jump c e) →
      Step sys (.stage i) s
        { s with W := A ++ ((Chan.side i 0, Msg.sig k) :: sigMain sys.length (i + 1) k) ++ B }
  -- the two goroutines of a queue
  | queue {s : State T} {A B : List (Chan × Msg T)} {j k : Nat} {m : Msg T} :
      s.W = A ++ (Chan.side j k, m) :: B → (∀ x ∈ A, x.1 ≠ Chan.side j k) → k < 2 →
      Step sys (.queue j k) s { s with W := A ++ [(Chan.side j (k + 1), m)] ++ B }
  -- the mark, first loop (main input open)
  | openRecv {s : State T} {A B : List (Chan × Msg T)} {m : Msg T} :
      s.phase = .open → isJump sys s.scan = true →
      s.W = A ++ (Chan.side s.scan 2, m) :: B → (∀ x ∈ A, x.1 ≠ Chan.side s.scan 2) →
      Step sys .mark s { s with W := A ++ B ++ [(Chan.main 0, m)], jf := true, scan := s.scan + 1 }
  | openSkip {s : State T} :
      s.phase = .open → s.scan < sys.length →
      (isJump sys s.scan = false ∨ ∀ x ∈ s.W, x.1 ≠ Chan.side s.scan 2) →
      Step sys .mark s { s with scan := s.scan + 1 }
  | openIn {s : State T} {t : T} {r : List T} :
      s.phase = .open → s.scan = sys.length → s.jf = false → s.inp = t :: r →
      Step sys .mark s { s with inp := r, W := s.W ++ [(Chan.main 0, Msg.trav t)], scan := 0 }
  | openClose {s : State T} :
      s.phase = .open → s.scan = sys.length → s.jf = false → s.inp = [] →
      Step sys .mark s { s with phase := .closing, scan := 0 }
  | openNext {s : State T} :
      s.phase = .open → s.scan = sys.length → s.jf = true →
      Step sys .mark s { s with scan := 0, jf := false }
  -- the mark, closing-phase loop
  | closeTrav {s : State T} {A B : List (Chan × Msg T)} {t : T} :
      s.phase = .closing → isJump sys s.scan = true →
      s.W = A ++ (Chan.side s.scan 2, Msg.trav t) :: B → (∀ x ∈ A, x.1 ≠ Chan.side s.scan 2) →
      Step sys .mark s
        { s with W := A ++ B ++ [(Chan.main 0, Msg.trav t)],
                 signalOutdated := s.signalActive || s.signalOutdated, jf := true,
                 scan := s.scan + 1 }
  | closeSig {s : State T} {A B : List (Chan × Msg T)} {k : Nat} :
      s.phase = .closing → isJump sys s.scan = true →
      s.W = A ++ (Chan.side s.scan 2, Msg.sig k) :: B → (∀ x ∈ A, x.1 ≠ Chan.side s.scan 2) →
      Step sys .mark s { s with W := A ++ B, returnCount := s.returnCount + 1, scan := s.scan + 1 }
  | closeSkip {s : State T} :
      s.phase = .closing → s.scan < sys.length →
      (isJump sys s.scan = false ∨ ∀ x ∈ s.W, x.1 ≠ Chan.side s.scan 2) →
      Step sys .mark s { s with scan := s.scan + 1 }
  | closeNext {s : State T} :
      s.phase = .closing → s.scan = sys.length → s.jf = true →
      Step sys .mark s { s with scan := 0, jf := false }
  | closeDecide {s : State T} :
      s.phase = .closing → s.scan = sys.length → s.jf = false →
      Step sys .mark s (markDecide (nIn sys) { s with scan := 0 })

inductive Reachable (sys : List (MStage T)) (inp0 : List T) : State T → Prop
  | init : Reachable sys inp0 (init inp0)
  | step {s s' : State T} {l : Label} : Reachable sys inp0 s → Step sys l s s' → Reachable sys inp0 s'

/-- The last stage of the cycle is a jump (what follows the last jump is downstream, not cycle). -/
def LastJump (sys : List (MStage T)) : Prop := ∃ pre c e, sys = pre ++ [MStage.jump c e]

/-! ### bookkeeping for the theorems -/

def isSig : Chan × Msg T → Bool
  | (_, .sig _) => true
  | (_, .trav _) => false

/-- `c' ≤ c`: channel `c` is `c'` or downstream of `c'`. -/
def Chan.le : Chan → Chan → Bool
  | .main i, .main i' => i ≤ i'
  | .main i, .side j _ => i ≤ j
  | .side j k, .side j' k' => j = j' && k ≤ k'
  | .side _ _, .main _ => false

/-- Copies a signal in channel `c` will still deliver to the mark. -/
def wgt (sys : List (MStage T)) : Chan → Nat
  | .main i => jumpsFrom sys i
  | .side _ _ => 1

def sigMass (sys : List (MStage T)) : List (Chan × Msg T) → Nat
  | [] => 0
  | (c, .sig _) :: r => wgt sys c + sigMass sys r
  | (_, .trav _) :: r => sigMass sys r

/-- No traveler behind a signal copy. -/
def cleanM : List (Chan × Msg T) → Bool
  | [] => true
  | (_, .trav _) :: r => cleanM r
  | (_, .sig _) :: r => r.all isSig

/-- Every traveler is ahead of a signal copy on its own path. -/
def Covered (W : List (Chan × Msg T)) : Prop :=
  ∀ c t, (c, Msg.trav t) ∈ W → ∃ c' k, (c', Msg.sig k) ∈ W ∧ Chan.le c' c = true

def Valid (sys : List (MStage T)) : Chan → Prop
  | .main i => i < sys.length
  | .side j k => isJump sys j = true ∧ k ≤ 2

end Grip.C12.Multi
